#!/usr/bin/env python3
"""./check <Cxx> <quick|thorough> [--replay path]

One entry point for every property (DESIGN section 5):
  1. regenerate coq/gen/*.v from /repo/src            (translator tie)
  2. build the cone of coq/Props/Cxx.v, audit it      (theorems, Print Assumptions, no escapes)
  3. build coq/Check/Cxx.v and the Rust harness from /repo's working tree,
     run the implementation on generated cases, evaluate model + naive spec inside Coq (vm_compute)
     on the same cases                                 (correspondence tie + search for a failing input)
  4. verdict, replay file, evidence/Cxx.json
"""
import concurrent.futures, signal, threading
import glob
import hashlib
import json
import os
import re
import shutil
import subprocess
import sys
import time

ROOT = os.path.dirname(os.path.dirname(os.path.abspath(__file__)))
EVDIR = RPDIR = None
COQ = os.path.join(ROOT, "coq")
BUILD = os.path.join(ROOT, ".build")
REPO = os.environ.get("VERIF_REPO", "/repo")
ALT = REPO != "/repo"   # seed testing against a scratch copy of the repository: separate build and output dirs
sys.path.insert(0, os.path.join(ROOT, "tools"))
from props import PROPS, TRUSTED_COMMON  # noqa: E402

ENV = dict(os.environ, CARGO_NET_OFFLINE="true")

VARIANTS = {
    # name: (profile, rustflags)
    "native_dev": ("dev", "-C target-cpu=native"),
    "native_release": ("release", "-C target-cpu=native"),
    "portable_dev": ("dev", ""),
    "portable_release": ("release", ""),
}

ESCAPES = re.compile(r"\b(Admitted|admit|Axiom|Axioms|Parameter|Parameters|Conjecture|Conjectures|Hypothesis|Hypotheses|Variable|Variables)\b|Unset\s+Guard|bypass_check|type-in-type|impredicative-set|Admit\s+Obligations|Unset\s+Universe\s+Checking|Unset\s+Positivity")


def sh(cmd, cwd=None, timeout=None, env=None):
    # every command runs in its own process group, so that a timeout (or the termination of this script, see
    # _terminate) takes the whole tree down: make -j and its coqc children, the harness and the children it forks
    p = subprocess.Popen(cmd, cwd=cwd, shell=isinstance(cmd, str), stdout=subprocess.PIPE, stderr=subprocess.STDOUT,
                         env=env or ENV, start_new_session=True)
    with _LIVE_LOCK:
        _LIVE.add(p.pid)
    try:
        out, _ = p.communicate(timeout=timeout)
        return p.returncode, out.decode("utf-8", "replace")
    except subprocess.TimeoutExpired:
        try:
            os.killpg(p.pid, signal.SIGKILL)
        except OSError:
            pass
        out, _ = p.communicate()
        return 124, (out or b"").decode("utf-8", "replace") + "\nTIMEOUT"
    finally:
        with _LIVE_LOCK:
            _LIVE.discard(p.pid)


_LIVE, _LIVE_LOCK = set(), threading.Lock()


def _terminate(signum, frame):
    with _LIVE_LOCK:
        pids = list(_LIVE)
    for pid in pids:
        try:
            os.killpg(pid, signal.SIGKILL)
        except OSError:
            pass
    sys.exit(128 + signum)


def strip_coq_comments(text):
    out, depth, i = [], 0, 0
    while i < len(text):
        if text.startswith("(*", i):
            depth += 1
            i += 2
        elif text.startswith("*)", i) and depth > 0:
            depth -= 1
            i += 2
        else:
            if depth == 0:
                out.append(text[i])
            i += 1
    return "".join(out)


def audit_sources():
    """No Admitted/admit/Axiom/Parameter/... anywhere in the hand-written development.
    Section-local Variable/Hypothesis are allowed only inside a Section (checked per file)."""
    bad = []
    for path in sorted(glob.glob(os.path.join(COQ, "**", "*.v"), recursive=True)):
        rel = os.path.relpath(path, COQ)
        if rel.startswith("gen/"):
            continue
        text = strip_coq_comments(open(path).read())
        depth = 0
        for ln, line in enumerate(text.split("\n"), 1):
            if re.match(r"\s*Section\b", line):
                depth += 1
            if re.match(r"\s*End\b", line) and depth > 0:
                depth -= 1
            for m in ESCAPES.finditer(line):
                w = m.group(0)
                if w.split()[0] in ("Variable", "Variables", "Hypothesis", "Hypotheses") and depth > 0:
                    continue
                bad.append("%s:%d: %s" % (rel, ln, w))
    return bad


def parse_assumptions(output):
    """Split coqc output into the blocks printed by Print Assumptions."""
    closed = output.count("Closed under the global context")
    axioms = []
    for m in re.finditer(r"Axioms:\n((?:.+\n?)+?)(?:\n|$)", output):
        for line in m.group(1).split("\n"):
            mm = re.match(r"([A-Za-z_][\w\.']*)\s*:", line)
            if mm:
                axioms.append(mm.group(1))
    return closed, sorted(set(axioms))


def build_coq(target, timeout):
    rc, out = sh([os.path.join(ROOT, "tools", "mkproject.sh")])
    if rc != 0:
        return rc, out
    return sh("make -j16 %s" % target, cwd=COQ, timeout=timeout)


def cone_deps(targets):
    """transitive .vo dependencies of the targets, from the dependency file coq_makefile maintains"""
    deps = {}
    mk = os.path.join(COQ, ".Makefile.d")
    if not os.path.exists(mk):
        sh("make .Makefile.d", cwd=COQ, timeout=600)
    try:
        for line in open(mk):
            if ":" not in line:
                continue
            lhs, rhs = line.split(":", 1)
            outs = [x for x in lhs.split() if x.endswith(".vo")]
            if outs:
                deps[outs[0]] = [x for x in rhs.split() if x.endswith(".vo")]
    except OSError:
        return set(["*"])
    seen, todo = set(), list(targets)
    while todo:
        t = todo.pop()
        if t in seen:
            continue
        seen.add(t)
        todo.extend(deps.get(t, []))
    return seen


def first_error(out):
    m = re.search(r'File "([^"]+)", line (\d+)[^\n]*\n(Error:(?:.|\n)*?)(?:\n\n|\nmake|$)', out)
    if m:
        return {"file": m.group(1), "line": int(m.group(2)), "error": re.sub(r"\s+", " ", m.group(3))[:600]}
    m = re.search(r"(No rule to make target[^\n]*|Error[^\n]*)", out)
    return {"error": m.group(1) if m else out[-600:]}


def theorem_at(path, line):
    """Name of the lemma/theorem enclosing a line of a .v file."""
    try:
        lines = open(os.path.join(COQ, path) if not os.path.isabs(path) else path).read().split("\n")
    except OSError:
        return None
    for i in range(min(line, len(lines)) - 1, -1, -1):
        m = re.match(r"\s*(Theorem|Lemma|Corollary|Example|Definition|Fixpoint|Fact|Remark)\s+([\w']+)", lines[i])
        if m:
            return m.group(2)
    return None


def build_harness(variant, hooks=True):
    profile, flags = VARIANTS[variant]
    tdir = os.path.join(BUILD, ("target-alt-" if ALT else "target-") + variant)
    env = dict(ENV, CARGO_TARGET_DIR=tdir, RUSTFLAGS=flags)
    hdir = os.path.join(ROOT, "harness")
    if ALT:
        # same harness sources, path dependency redirected to the scratch repository
        hdir = os.path.join(BUILD, "harness-alt")
        shutil.rmtree(hdir, ignore_errors=True)
        shutil.copytree(os.path.join(ROOT, "harness"), hdir, ignore=shutil.ignore_patterns("target"))
        ct = open(os.path.join(hdir, "Cargo.toml")).read().replace('path = "/repo"', 'path = "%s"' % REPO)
        open(os.path.join(hdir, "Cargo.toml"), "w").write(ct)
    lock = os.path.join(hdir, "Cargo.lock")
    if not os.path.exists(lock):
        shutil.copy(os.path.join(REPO, "Cargo.lock"), lock)
    cmd = ["cargo", "build", "--offline"]
    if profile == "release":
        cmd.append("--release")
    if hooks:
        cmd += ["--features", "hooks"]
    rc, out = sh(cmd, cwd=hdir, timeout=900, env=env)
    binp = os.path.join(tdir, "debug" if profile == "dev" else "release", "sds-harness")
    return rc, out, binp


def run_shard(path):
    t = time.time()
    # long case lists need a deep stack while Coq elaborates them
    rc, out = sh("ulimit -s unlimited 2>/dev/null || ulimit -s 4000000 2>/dev/null; exec coqc -Q . SDS '%s'" % path, cwd=COQ, timeout=3000)
    flat = re.sub(r"\s+", " ", out)
    m = re.search(r"= (\[.*?\]) : list \(N \* N\)", flat)
    fails = None
    if rc == 0 and m:
        fails = [(int(a), int(c)) for a, c in re.findall(r"\((\d+), (\d+)\)", m.group(1))]
    for ext in (".vo", ".glob", ".vos", ".vok"):
        try:
            os.remove(path[:-2] + ext)
        except OSError:
            pass
    try:
        os.remove(os.path.join(os.path.dirname(path), "." + os.path.basename(path)[:-2] + ".aux"))
    except OSError:
        pass
    return path, rc, fails, out[-2000:], time.time() - t


def load_known(prop):
    out = []
    p = os.path.join(ROOT, "known_findings.txt")
    if os.path.exists(p):
        for line in open(p):
            line = line.strip()
            m = re.match(r"finding:\s+property=(\w+)\s+match=/(.*?)/\s+(.*)", line)
            if m and m.group(1) == prop:
                out.append((re.compile(m.group(2)), m.group(3)))
    return out


def main():
    signal.signal(signal.SIGTERM, _terminate)
    signal.signal(signal.SIGINT, _terminate)
    if len(sys.argv) < 3:
        print(__doc__)
        sys.exit(2)
    prop = sys.argv[1]
    tier = sys.argv[2]
    replay = None
    if tier == "--replay":
        replay = sys.argv[3]
        tier = "quick"
    elif len(sys.argv) > 4 and sys.argv[3] == "--replay":
        replay = sys.argv[4]
    if prop not in PROPS:
        print("unknown property", prop)
        sys.exit(2)
    cfg = PROPS[prop]
    seed = int(os.environ.get("VERIF_SEED", "1") or "1")
    tier = os.environ.get("VERIF_TIER", tier) if tier not in ("quick", "thorough") else tier
    t0 = time.time()
    os.makedirs(BUILD, exist_ok=True)
    os.makedirs(os.path.join(ROOT, "evidence"), exist_ok=True)
    os.makedirs(os.path.join(ROOT, "replays"), exist_ok=True)
    global EVDIR, RPDIR
    EVDIR = os.path.join(BUILD, "alt", "evidence") if ALT else os.path.join(ROOT, "evidence")
    RPDIR = os.path.join(BUILD, "alt", "replays") if ALT else os.path.join(ROOT, "replays")
    os.makedirs(EVDIR, exist_ok=True)
    os.makedirs(RPDIR, exist_ok=True)
    notes, broken = [], []   # broken: list of dicts naming what no longer checks

    if replay:
        return do_replay(prop, cfg, replay)

    # 1. translator
    rc, out = sh([sys.executable, os.path.join(ROOT, "tools", "gen.py"), os.path.join(REPO, "src")])
    gen_ok = rc == 0
    if not gen_ok:
        broken.append({"kind": "broken-translator", "detail": out.strip()[-500:]})
    else:
        notes.append("gen: " + out.strip()[-200:])
    changed_fns, gen_errors = [], []
    try:
        rep = json.loads(out.strip().split("\n")[-1])
        changed_fns = rep.get("changed_functions", [])
        gen_errors = rep.get("errors", [])
    except Exception:
        pass
    anchors = []
    for line in open(os.path.join(ROOT, "properties.jsonl")):
        try:
            pj = json.loads(line)
        except ValueError:
            continue
        if pj.get("id") == prop:
            anchors = [f[len("src/"):] if f.startswith("src/") else f for f in pj.get("anchors", {}).get("files", [])]
    touched = [k for k in changed_fns if k.split("::")[0] in anchors]
    # functions in this property's anchor files differ from the bodies the models were written against:
    # widen the correspondence run (three more random streams) - informational, never an alarm by itself
    extra_seeds = [seed + 1, seed + 2, seed + 3] if (touched and tier == "quick" and cfg.get("escalate", True)) else []
    if touched:
        notes.append("changed functions in anchor files: " + ", ".join(touched[:8]))

    # 2. theorems: Props/Cxx.v plus any Props/Cxx_<part>.v (a property's theorems may be split by structure)
    proof_timeout = 3000 if tier == "thorough" else 1500
    prop_files = ["Props/%s.v" % prop] + sorted(os.path.relpath(f, COQ) for f in glob.glob(os.path.join(COQ, "Props", prop + "_*.v")))
    # translator errors concern this property only if its cone depends on the generated file that could not be
    # regenerated (it is STALE: the theorems would be re-checked against what the code said earlier). A single helper
    # left out of Funs.v / Funs2.v needs no scoping here: whatever refers to it fails to build below.
    if gen_errors:
        sh([os.path.join(ROOT, "tools", "mkproject.sh")])
        cone = cone_deps([pf + "o" for pf in prop_files] + ["Check/%s.vo" % prop])
        for ge in gen_errors:
            if ge.get("function"):
                notes.append("translator left out %s: %s" % (ge["function"], ge.get("msg", "")[:200]))
            elif ("gen/" + ge.get("file", "?") + "o") in cone:
                broken.append({"kind": "broken-translator", "detail": "%s could not be regenerated from the current source (stale): %s" % (ge.get("file"), ge.get("msg", "")[:400])})
            else:
                notes.append("translator could not regenerate %s (not in this property's cone): %s" % (ge.get("file"), ge.get("msg", "")[:200]))
    if tier == "thorough":
        # clean rebuild of the cone
        for pf in prop_files:
            sh("rm -f %so" % pf, cwd=COQ)
    rc, out = build_coq(" ".join(pf + "o" for pf in prop_files), proof_timeout)
    proof_ok = rc == 0
    n_theorems, closed, axioms = 0, 0, []
    theorem_names, n_pa = [], 0
    for pf in prop_files:
        props_src = strip_coq_comments(open(os.path.join(COQ, pf)).read())
        theorem_names += re.findall(r"^\s*Theorem\s+([\w']+)", props_src, re.M)
        n_pa += len(re.findall(r"^\s*Print Assumptions", props_src, re.M))
    n_theorems = len(theorem_names)
    if not proof_ok:
        err = first_error(out)
        if "file" in err:
            err["theorem"] = theorem_at(err["file"], err["line"])
        broken.append(dict({"kind": "broken-theorem"}, **err))
    else:
        allowed = set(cfg.get("allowed_axioms", []))
        for pf in prop_files:
            rc2, out2 = sh(["coqc", "-Q", ".", "SDS", pf], cwd=COQ, timeout=900)
            if rc2 != 0:
                proof_ok = False
                broken.append(dict({"kind": "broken-theorem"}, **first_error(out2)))
            c1, a1 = parse_assumptions(out2)
            closed += c1
            axioms = sorted(set(axioms) | set(a1))
        extra = [a for a in axioms if a not in allowed]
        if extra:
            proof_ok = False
            broken.append({"kind": "broken-theorem", "error": "unexpected axioms: " + ", ".join(extra)})
        if closed + (1 if axioms else 0) < 1 or n_pa < 1:
            proof_ok = False
            broken.append({"kind": "broken-theorem", "error": "no Print Assumptions output"})
    bad = audit_sources()
    if bad:
        proof_ok = False
        broken.append({"kind": "broken-theorem", "error": "escape hatches in sources: " + "; ".join(bad[:10])})
    coqchk_note = None
    if tier == "thorough" and proof_ok and cfg.get("coqchk", True):
        rcc, outc = sh("coqchk -silent -o -Q . SDS " + " ".join("SDS." + pf[:-2].replace("/", ".") for pf in prop_files), cwd=COQ, timeout=3000)
        coqchk_note = re.sub(r"\s+", " ", outc[-800:])
        if rcc != 0:
            proof_ok = False
            broken.append({"kind": "broken-theorem", "error": "coqchk failed: " + coqchk_note})

    # 3. correspondence
    rc, out = build_coq("Check/%s.vo" % prop, 1500)
    check_ok = rc == 0
    for a in cfg.get("also_streams", []):
        if check_ok:
            rc, out = build_coq("Check/%s.vo" % a["prop"], 1500)
            check_ok = rc == 0
    fallback = False
    if not check_ok:
        broken.append(dict({"kind": "broken-correspondence", "detail": "model does not build"}, **first_error(out)))
        # The model files generated from the CURRENT source do not build. The property is no longer shown (that is
        # already recorded above); to SEARCH for a concrete failing input, evaluate the implementation against the
        # model files generated from the baseline source (tools/gen.baseline, written with the fingerprints).
        bdir = os.path.join(ROOT, "tools", "gen.baseline")
        if os.path.isdir(bdir):
            for fn in os.listdir(bdir):
                src_b, dst = open(os.path.join(bdir, fn)).read(), os.path.join(COQ, "gen", fn)
                if not os.path.exists(dst) or open(dst).read() != src_b:
                    open(dst, "w").write(src_b)
            rc, out = build_coq("Check/%s.vo" % prop, 1500)
            if rc == 0:
                check_ok, fallback = True, True
                notes.append("model files generated from the current source do not build; the search for a failing input used the baseline model files (tools/gen.baseline)")
    variants = cfg["variants_thorough"] if tier == "thorough" else cfg["variants_quick"]
    rundir = os.path.join(BUILD, "run", prop)
    shutil.rmtree(rundir, ignore_errors=True)
    os.makedirs(rundir)
    failures = []          # (variant, id, code, jsonline)
    evaluations, distinct = 0, 0
    stats_all, samples = {}, []
    harness_ok = True
    if check_ok:
        for v in variants:
            rc, out, binp = build_harness(v, hooks=cfg.get("hooks", True))
            if rc != 0:
                harness_ok = False
                broken.append({"kind": "broken-correspondence", "detail": "harness build failed (%s)" % v, "error": out[-800:]})
                continue
            extra_env = dict(ENV, VERIF_RUNDIR=rundir)
            if touched:
                extra_env["VERIF_ESCALATED"] = "1"
            runs = [(prop, seed, v, {})] + [(prop, es, "%s_s%d" % (v, i + 2), {}) for i, es in enumerate(extra_seeds)]
            # further streams: the part of ANOTHER property's correspondence that this property's statement also
            # covers (its cases are judged by that property's Check file); label = <variant>__<Cyy>
            for a in cfg.get("also_streams", []):
                if v in a.get("variants", variants):
                    runs.append((a["prop"], seed, "%s__%s" % (v, a["prop"]), {"VERIF_PART": a.get("part", "")}))
            for sprop, sd, label, env_add in runs:
                rc, out = sh([binp, sprop, tier, str(sd), rundir, label], cwd=ROOT, timeout=(3000 if tier == "thorough" else 900), env=dict(extra_env, **env_add))
                if rc != 0:
                    harness_ok = False
                    sig = "signal %d" % (-rc) if rc < 0 else "exit %d" % rc
                    broken.append({"kind": "broken-correspondence", "detail": "harness run failed (%s): %s" % (label, sig), "error": out[-800:],
                                   "concrete": rc < 0})
                    continue
                st = json.load(open(os.path.join(rundir, "stats_%s.json" % label)))
                evaluations += st["evaluations"]
                distinct += st["stats"].get("distinct_nontrivial", 0)
                for k, val in st["stats"].items():
                    stats_all["%s/%s" % (label, k)] = val
                samples += st["samples"][:3]
        shards = sorted(glob.glob(os.path.join(rundir, "cases_*.v")))
        with concurrent.futures.ThreadPoolExecutor(max_workers=16) as ex:
            results = list(ex.map(run_shard, shards))
        jsonl_cache = {}
        for path, rc, fails, tail, dt in results:
            v = re.match(r"cases_(.*)_\d+\.v", os.path.basename(path)).group(1)
            if fails is None:
                harness_ok = False
                broken.append({"kind": "broken-correspondence", "detail": "case file did not evaluate: " + os.path.basename(path), "error": tail[-600:]})
                continue
            if fails:
                if v not in jsonl_cache:
                    jsonl_cache[v] = {}
                    for line in open(os.path.join(rundir, "cases_%s.jsonl" % v)):
                        try:
                            d = json.loads(line)
                        except ValueError:
                            continue
                        jsonl_cache[v][d["id"]] = line.strip()
                for cid, code in fails:
                    failures.append((v, cid, code, jsonl_cache[v].get(cid, "{}")))

    if check_ok and harness_ok and evaluations == 0 and not cfg.get("no_correspondence"):
        broken.append({"kind": "broken-correspondence", "detail": "the harness produced no cases for " + prop})
    # 3b. optional extra command of the thorough tier (e.g. the sanitizer run of C08):
    #     <cmd> <repo> <rundir> <seed> <tier>; exit 0 = clean, 1 = violation (concrete), anything else = skipped
    extra_cmd = cfg.get("thorough_extra_cmd")
    if check_ok and tier == "thorough" and extra_cmd:
        rcx, outx = sh([os.path.join(ROOT, extra_cmd), REPO, rundir, str(seed), tier], cwd=ROOT, timeout=3600)
        if rcx == 1:
            harness_ok = False
            broken.append({"kind": "broken-correspondence", "detail": "thorough extra command %s reported a violation" % extra_cmd,
                           "error": outx[-3000:], "concrete": True})
        elif rcx != 0:
            notes.append("thorough extra %s skipped (rc=%d): %s" % (extra_cmd, rcx, outx.strip()[-300:]))
        else:
            notes.append("thorough extra %s: %s" % (extra_cmd, outx.strip()[-300:]))

    # 4. verdict
    known = load_known(prop)
    known_hits, new_fail = [], []
    for f in failures:
        hit = None
        for rx, desc in known:
            if rx.search(f[3]):
                hit = desc
                break
        if hit:
            known_hits.append((hit, f))
        else:
            new_fail.append(f)
    for desc in sorted(set(h for h, _ in known_hits)):
        print("KNOWN-FINDING: property=%s %s" % (prop, desc))
    # extra (non-differential) probes registered by the property, e.g. /proc/self/maps residue
    violations = 0
    exit_code = 0
    concrete = [f for f in new_fail if f[2] & 2]
    model_only = [f for f in new_fail if not (f[2] & 2)]
    stamp = "%s-%d" % (prop, seed)
    if concrete:
        f = sorted(concrete, key=lambda x: len(x[3]))[0]
        rp = os.path.join(RPDIR, "%s-%s-%d.json" % (stamp, f[0], f[1]))
        json.dump({"property": prop, "kind": "counterexample", "variant": f[0], "id": f[1], "code": f[2], "seed": seed, "tier": tier,
                   "case": json.loads(f[3]) if f[3].startswith("{") else f[3],
                   "meaning": "implementation output contradicts the naive specification" + (" and the model" if f[2] & 1 else " (model agrees with implementation: model/proof also broken)"),
                   "broken": broken, "others": len(concrete) - 1,
                   "how_to_replay": "./check %s --replay %s" % (prop, rp)}, open(rp, "w"), indent=1)
        print("VIOLATION property=%s replay=%s" % (prop, rp))
        violations = len(concrete)
        exit_code = 1
    elif model_only or broken:
        rp = os.path.join(RPDIR, "%s-broken.json" % stamp)
        what = []
        for b in broken:
            what.append(b)
        if model_only:
            f = model_only[0]
            what.append({"kind": "broken-correspondence", "detail": "implementation differs from the model (but not from the naive spec) on %d cases" % len(model_only),
                         "variant": f[0], "id": f[1], "case": json.loads(f[3]) if f[3].startswith("{") else f[3]})
        json.dump({"property": prop, "kind": what[0]["kind"], "no_longer_checks": what, "seed": seed, "tier": tier,
                   "search": {"evaluations": evaluations, "variants": variants, "result": "no failing input found"},
                   "how_to_replay": "./check %s %s" % (prop, tier)}, open(rp, "w"), indent=1)
        # a crash of the implementation under the harness (signal) is itself a concrete failing input
        if any(b.get("concrete") for b in broken):
            print("VIOLATION property=%s replay=%s" % (prop, rp))
        else:
            print("VIOLATION property=%s replay=%s no-failing-input-found" % (prop, rp))
        violations = max(1, len(model_only))
        exit_code = 1

    if fallback:   # put the files generated from the current source back
        sh([sys.executable, os.path.join(ROOT, "tools", "gen.py"), os.path.join(REPO, "src")])
    wall = time.time() - t0
    obligations = n_theorems
    discharged = n_theorems if proof_ok else 0
    ev = {
        "property_id": prop, "tier": tier, "seed": seed, "level": "proof",
        "coverage": {
            "obligations": obligations, "discharged": discharged,
            "checker_cmd": "make -C coq Props/%s.vo && coqc -Q . SDS Props/%s.v (Coq 8.16.1 kernel; Print Assumptions audited)%s" % (prop, prop, "; coqchk -o" if tier == "thorough" else ""),
            "trusted_base": TRUSTED_COMMON + cfg.get("trusted", []),
            "theorems": theorem_names,
            "print_assumptions": {"closed": closed, "axioms": axioms, "expected_blocks": n_pa},
            "evaluations": max(evaluations, 1), "distinct_nontrivial": distinct,
            "rule": cfg.get("rule", ""),
            "samples": samples[:8] if samples else [{"theorems": theorem_names[:5]}],
            "traces_validated_against_impl": evaluations,
            "variants": variants, "distribution": stats_all,
            "known_findings_hit": sorted(set(h for h, _ in known_hits)),
            "partial": cfg.get("partial", ""),
        },
        "assumptions": cfg.get("assumptions", []),
        "wall_s": round(wall, 1), "violations": violations,
    }
    if coqchk_note:
        ev["coverage"]["coqchk"] = coqchk_note
    if notes:
        ev["coverage"]["notes"] = notes
    json.dump(ev, open(os.path.join(EVDIR, prop + ".json"), "w"), indent=1)
    print("%s %s: theorems %d/%d, print-assumptions closed=%d axioms=%s, cases=%d failures=%d known=%d, %.0fs"
          % (prop, tier, discharged, obligations, closed, axioms, evaluations, len(new_fail), len(known_hits), wall))
    sys.exit(exit_code)


def do_replay(prop, cfg, path):
    d = json.load(open(path))
    print(json.dumps(d, indent=1)[:4000])
    if d.get("kind") != "counterexample":
        print("replay: not a concrete counterexample; re-run: ./check %s %s" % (prop, d.get("tier", "quick")))
        return
    label, cid, seed, tier = d["variant"], d["id"], d["seed"], d["tier"]
    v = label
    env_add = {}
    ma = re.match(r"(.*)__(C\d+)$", label)
    if ma:   # a stream borrowed from another property's correspondence
        v, sprop = ma.group(1), ma.group(2)
        for a in cfg.get("also_streams", []):
            if a["prop"] == sprop:
                env_add = {"VERIF_PART": a.get("part", "")}
        prop = sprop
    mm = re.match(r"(.*)_s(\d+)$", v)
    if mm:   # an escalated run: same build variant, later random stream
        v, seed = mm.group(1), seed + int(mm.group(2)) - 1
    rc, out, binp = build_harness(v, hooks=cfg.get("hooks", True))
    rundir = os.path.join(BUILD, "replay", prop)
    shutil.rmtree(rundir, ignore_errors=True)
    os.makedirs(rundir)
    sh([binp, prop, tier, str(seed), rundir, label], cwd=ROOT, timeout=3000, env=dict(ENV, VERIF_RUNDIR=rundir, **env_add))
    term = None
    for p in glob.glob(os.path.join(rundir, "cases_%s_*.v" % label)):
        for line in open(p):
            m = re.match(r"\((\d+), (.*)\);?$", line.strip())
            if m and int(m.group(1)) == cid:
                term = m.group(2)
    if term is None:
        print("replay: case %d not regenerated" % cid)
        sys.exit(1)
    one = os.path.join(rundir, "one.v")
    with open(one, "w") as f:
        f.write("Require Import SDS.Check.Common SDS.Check.%s.\nFrom Coq Require Import NArith List. Import ListNotations. Open Scope N_scope.\n" % prop)
        f.write("Definition c : case := %s.\nEval vm_compute in (check c).\n" % term)
        if cfg.get("explain"):
            f.write("Eval vm_compute in (%s c).\n" % cfg["explain"])
    build_coq("Check/%s.vo" % prop, 1500)
    rc, out = sh(["coqc", "-Q", ".", "SDS", one], cwd=COQ, timeout=600)
    print("case term:", term[:2000])
    print("check code (1 = differs from model, 2 = differs from spec):")
    print(out)
    sys.exit(0)


if __name__ == "__main__":
    main()
