#!/usr/bin/env python3
"""tools/seedmatrix.py [seed names...]: run every seeded change against the check of the property it breaks
(and any extra properties listed in its meta.json "also"), sequentially; results -> seeded/RESULTS.json."""
import json, os, subprocess, sys, re, glob, time
ROOT = os.path.dirname(os.path.dirname(os.path.abspath(__file__)))
names = sys.argv[1:] or sorted(os.path.basename(p.rstrip("/")) for p in glob.glob(os.path.join(ROOT, "seeded", "*/")) if os.path.exists(os.path.join(p, "meta.json")))
respath = os.path.join(ROOT, "seeded", "RESULTS.json")
results = json.load(open(respath)) if os.path.exists(respath) else {}
have = set(os.path.basename(p)[:-5] for p in glob.glob(os.path.join(ROOT, "tools", "props.d", "C*.json")))
ALSO = {"revert-F1": ["C10", "C08", "C09"], "revert-F2": ["C09"], "revert-F3": ["C09", "C04"], "revert-F4": ["C09", "C04"],
        "revert-F5": ["C16", "C11", "C03"], "revert-F7": ["C14"], "revert-F12": ["C08", "C13"], "revert-F10": ["C13"],
        "mut-C11-1": ["C11", "C16"], "mut-C08-1": ["C08", "C13"], "mut-C15-1": ["C15", "C02"], "mut-C07-1": ["C07", "C02"],
        "mut-C06-3": ["C06", "C05", "C08"], "mut-C09-3": ["C09", "C10"], "mut-C10-3": ["C10", "C09"], "mut-C16-3": ["C16", "C03"],
        "mut-C15-3": ["C15", "C02", "C01"], "mut-C02-3": ["C02", "C01"], "mut-C01-3": ["C01", "C19"], "mut-C07-3": ["C07", "C03"],
        "mut-C14-3": ["C14", "C13"], "mut-C01-4": ["C01", "C17", "C05"], "mut-C08-4": ["C08", "C17"], "mut-C05-4": ["C05", "C17"], "mut-C16-4": ["C16", "C03"], "mut-C11-4": ["C11", "C02"], "mut-C15-4": ["C15", "C01"],
        "mut-C01-5": ["C01", "C08"], "mut-C08-5": ["C08", "C01"], "mut-C07-5": ["C07", "C03", "C11", "C16"], "mut-C03-5": ["C03", "C16"], "mut-C10-5": ["C10", "C11", "C03", "C16"],
        "mut-C15-5": ["C15", "C10"], "mut-C16-5": ["C16", "C03"], "mut-C19-5": ["C19", "C01"], "mut-C14-5": ["C14", "C06"], "mut-C06-5": ["C06", "C03"], "mut-C13-5": ["C13", "C06"],
        "mut-C17-5": ["C17", "C05"], "mut-C09-5": ["C09", "C10"], "mut-C04-5": ["C04", "C09"], "mut-C11-5": ["C11", "C03"], "mut-C02-4": ["C02", "C01"],
        "mut-C01-6": ["C01", "C09"], "mut-C04-6": ["C04", "C10"], "mut-C07-6": ["C07", "C12"],
        "mut-C08-2": ["C08", "C05"], "mut-C19-2": ["C19", "C01"], "mut-C19-3": ["C19", "C02"], "mut-C05-3": ["C05", "C06"]}
for n in names:
    d = os.path.join(ROOT, "seeded", n)
    meta = json.load(open(os.path.join(d, "meta.json")))
    props = [meta["property"]] + [p for p in ALSO.get(n, []) if p != meta["property"]]
    for p in props:
        if p not in have:
            results.setdefault(n, {})[p] = {"status": "check not built yet"}
            continue
        t = time.time()
        r = subprocess.run([os.path.join(ROOT, "tools", "seedtest.py"), d, p], stdout=subprocess.PIPE, stderr=subprocess.STDOUT)
        out = r.stdout.decode()
        vio = [l.strip() for l in out.split("\n") if "VIOLATION" in l]
        summ = [l.strip() for l in out.split("\n") if re.match(r"\s*%s (quick|thorough):" % p, l)]
        results.setdefault(n, {})[p] = {"caught": r.returncode == 0, "violation": vio[:1], "summary": summ[:1], "seconds": round(time.time() - t)}
        print(n, p, results[n][p], flush=True)
        json.dump(results, open(respath, "w"), indent=1, sort_keys=True)
json.dump(results, open(respath, "w"), indent=1, sort_keys=True)
