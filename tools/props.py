"""Per-property configuration of ./check (what to build, which build variants to run, what is trusted)."""

TRUSTED_COMMON = [
    "Coq 8.16.1 kernel (coqc); vm_compute for finite sweeps and for evaluating the models on the generated cases; no native_compute",
    "tools/gen.py (regex translator /repo/src -> coq/gen/*.v; fails closed)",
    "the hand-written models in coq/Model are tied to the Rust only by the correspondence run (harness/ + coq/Check)",
    "rustc/LLVM, Rust core intrinsics as modelled in Model/Bits.v, 64-bit little-endian target",
]

ALL4 = ["native_dev", "native_release", "portable_dev", "portable_release"]

PROPS = {
    "C17": {
        "variants_quick": ALL4,
        "variants_thorough": ALL4,
        "rule": "exhaustive (offset 0..191 x width 1..64) write/read with structured values and backgrounds; every n in 0..=64 for masks; select on structured (<= 2 non-zero bytes) and random words over their ranks; helper edge arguments around every documented domain boundary; a case is non-trivial unless it lies outside the documented domain; distinct = distinct Coq case terms",
        "trusted": ["_pdep_u64 / tzcnt / popcnt / lzcnt / bit reversal read as their mathematical definitions (Model/Bits.v)"],
        "assumptions": ["u64 is 64 bits (WORD_BITS = 64 is pinned by consts_bits_ok)"],
        "partial": "",
    },
}
