"""Per-property configuration of ./check: one JSON fragment per property in tools/props.d/."""
import glob
import json
import os

TRUSTED_COMMON = [
    "Coq 8.16.1 kernel (coqc); vm_compute for finite sweeps and for evaluating the models on the generated cases; no native_compute",
    "tools/gen.py (translator /repo/src -> coq/gen/*.v: regex extraction of constants, tables, layouts, the temp-file counter program; a small recursive-descent translator of the one-expression helpers of bits.rs (Funs.v) and of the straight-line integer functions listed in its FUNS2 table (Funs2.v) into Gallina over the mode-dependent checked operations of Model/Mach.v; fails closed)",
    "the hand-written models in coq/Model are tied to the Rust only by the correspondence run (harness/ + coq/Check)",
    "rustc/LLVM, Rust core intrinsics as modelled in Model/Bits.v, 64-bit little-endian target",
]

PROPS = {}
for _p in sorted(glob.glob(os.path.join(os.path.dirname(os.path.abspath(__file__)), "props.d", "C*.json"))):
    PROPS[os.path.basename(_p)[:-5]] = json.load(open(_p))
