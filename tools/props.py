"""Per-property configuration of ./check: one JSON fragment per property in tools/props.d/."""
import glob
import json
import os

TRUSTED_COMMON = [
    "Coq 8.16.1 kernel (coqc); vm_compute for finite sweeps and for evaluating the models on the generated cases; no native_compute",
    "tools/gen.py (regex translator /repo/src -> coq/gen/*.v; fails closed)",
    "the hand-written models in coq/Model are tied to the Rust only by the correspondence run (harness/ + coq/Check)",
    "rustc/LLVM, Rust core intrinsics as modelled in Model/Bits.v, 64-bit little-endian target",
]

PROPS = {}
for _p in sorted(glob.glob(os.path.join(os.path.dirname(os.path.abspath(__file__)), "props.d", "C*.json"))):
    PROPS[os.path.basename(_p)[:-5]] = json.load(open(_p))
