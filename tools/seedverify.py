#!/usr/bin/env python3
"""tools/seedverify.py <dir with patch.diff demo.rs meta.json> <name>

Confirms a proposed seeded change independently in a fresh scratch worktree of /repo:
  demo passes on the original; with the patch the crate builds, the existing suite passes, the demo fails.
On success copies it to /verif/seeded/<name>/ and records what was run in meta.json."""
import json, os, re, subprocess, sys, shutil
ROOT = os.path.dirname(os.path.dirname(os.path.abspath(__file__)))
src, name = os.path.abspath(sys.argv[1]), sys.argv[2]
wt = "/root/scratch/seedverify_%d" % os.getpid()
DEMO_ENV = {}
def run(cmd, cwd):
    env = dict(os.environ, CARGO_NET_OFFLINE="true")
    if "--test demo" in cmd:
        env.update(DEMO_ENV)
    r = subprocess.run(cmd, cwd=cwd, shell=True, stdout=subprocess.PIPE, stderr=subprocess.STDOUT, env=env)
    return r.returncode, r.stdout.decode("utf-8", "replace")
subprocess.run(["git", "-C", "/repo", "worktree", "add", "-q", "--detach", wt, "HEAD"], check=True)
log = []
ok = False
try:
    os.makedirs(os.path.join(wt, "tests"), exist_ok=True)
    shutil.copy(os.path.join(src, "demo.rs"), os.path.join(wt, "tests", "demo.rs"))
    demo_src = open(os.path.join(src, "demo.rs")).read()
    mf = re.search(r'RUSTFLAGS="([^"]*)"', "\n".join(demo_src.split("\n")[:25]))
    if mf:   # the demonstration needs a specific build configuration (e.g. a CPU without BMI2)
        DEMO_ENV["RUSTFLAGS"] = mf.group(1)
        log.append("demo built with RUSTFLAGS=" + mf.group(1))
    rel = "--release" if "--release" in demo_src.split("\n\n")[0] or "--release" in "\n".join(demo_src.split("\n")[:15]) else ""
    flags = [""] + ([rel] if rel else [])
    def demo():
        res = []
        for f in flags:
            rc, out = run("cargo test --offline %s --test demo 2>&1 | tail -15" % f, wt)
            rc2, out2 = run("cargo test --offline %s --test demo >/dev/null 2>&1; echo $?" % f, wt)
            res.append((f, out2.strip().split("\n")[-1] == "0", out))
        return res
    d0 = demo()
    log.append("demo on original: " + ", ".join("%s pass=%s" % (f or "dev", p) for f, p, _ in d0))
    rc, out = run("git apply %s" % os.path.join(src, "patch.diff"), wt)
    if rc != 0:
        log.append("patch does not apply: " + out); raise SystemExit
    os.rename(os.path.join(wt, "tests", "demo.rs"), os.path.join(wt, "demo.rs.off"))
    rc, out = run("cargo test --workspace --no-fail-fast --offline 2>&1 | grep -E '^test result|error(\\[|:)' ", wt)
    suite_ok = "failed" not in out.replace("0 failed", "") and out.count("test result: ok") >= 2
    log.append("existing suite with patch: " + out.strip().replace("\n", " | "))
    os.rename(os.path.join(wt, "demo.rs.off"), os.path.join(wt, "tests", "demo.rs"))
    d1 = demo()
    log.append("demo with patch: " + ", ".join("%s pass=%s" % (f or "dev", p) for f, p, _ in d1))
    ok = all(p for _, p, _ in d0) and suite_ok and any(not p for _, p, _ in d1)
finally:
    subprocess.run(["git", "-C", "/repo", "worktree", "remove", "--force", wt])
print("\n".join(log))
print("CONFIRMED" if ok else "NOT CONFIRMED")
if ok:
    dst = os.path.join(ROOT, "seeded", name)
    os.makedirs(dst, exist_ok=True)
    for f in ("patch.diff", "demo.rs"):
        shutil.copy(os.path.join(src, f), os.path.join(dst, f))
    meta = json.load(open(os.path.join(src, "meta.json")))
    meta["confirmed_by_integrator"] = log
    json.dump(meta, open(os.path.join(dst, "meta.json"), "w"), indent=1)
sys.exit(0 if ok else 1)
