#!/usr/bin/env python3
"""Render seeded/*/meta.json + seeded/RESULTS.json as seeded/README.md and as section 11 of DESIGN.md."""
import glob, json, os, re
ROOT = os.path.dirname(os.path.dirname(os.path.abspath(__file__)))
res = {}
rp = os.path.join(ROOT, "seeded", "RESULTS.json")
if os.path.exists(rp):
    res = json.load(open(rp))
rows = []
for d in sorted(glob.glob(os.path.join(ROOT, "seeded", "*/"))):
    n = os.path.basename(d.rstrip("/"))
    if not os.path.exists(os.path.join(d, "meta.json")):
        continue   # seeded/prompts and the like
    m = json.load(open(os.path.join(d, "meta.json")))
    what = m.get("summary") or m.get("fix_subject") or ""
    what = re.sub(r"\s+", " ", what)[:170]
    needs = re.sub(r"\s+", " ", m.get("needs", ""))[:150]
    r = res.get(n, {})
    cells = []
    for p in sorted(r):
        x = r[p]
        if "caught" in x:
            how = ""
            if x.get("violation"):
                how = " (no-failing-input-found)" if "no-failing-input-found" in x["violation"][0] else " (concrete replay)"
            cells.append("%s: %s%s" % (p, "caught" if x["caught"] else "**MISSED**", how))
        else:
            cells.append("%s: %s" % (p, x.get("status", "?")))
    rows.append("| `%s` | %s | %s | %s | %s |" % (n, m.get("property", ""), what.replace("|", "/"), needs.replace("|", "/"), "; ".join(cells) or "not run yet"))
table = "| seed | breaks | change | needs | checks run against it |\n|---|---|---|---|---|\n" + "\n".join(rows) + "\n"
intro = ("`seeded/mut-Cxx-n`: written by fresh sub-agents that saw only the property text and a scratch worktree of the crate;\n"
         "each was confirmed independently with `tools/seedverify.py` (demo passes on the original, existing suite passes with the\n"
         "patch, demo fails with the patch). `seeded/revert-Fn`: the reverse of a `fix:` commit (the defect originally present).\n"
         "Results come from `tools/seedmatrix.py` (`tools/seedtest.py <seed> <Cxx>`: the check runs against a scratch worktree of\n"
         "/repo with the patch applied; caught = exit 1 with a VIOLATION line).\n\n")
open(os.path.join(ROOT, "seeded", "README.md"), "w").write("# Seeded changes\n\n" + intro + table)
p = os.path.join(ROOT, "DESIGN.md")
s = open(p).read()
lessons = ""
lp = os.path.join(ROOT, "seeded", "LESSONS.md")
if os.path.exists(lp):   # hand-written: what the seeding rounds changed (kept outside DESIGN.md so that it survives regeneration)
    lessons = open(lp).read().rstrip("\n") + "\n\n"
sec = "## 11. Seeded changes and which checks catch them\n\n" + intro + lessons + table + "\n"
if "## 11. Seeded changes" in s:
    s = re.sub(r"## 11\. Seeded changes.*?(?=\n---------------------------------------------------------------------------\n\n## Appendix A)", lambda _m: sec.rstrip("\n") + "\n", s, flags=re.S)
else:
    s = s.replace("---------------------------------------------------------------------------\n\n## Appendix A", sec + "---------------------------------------------------------------------------\n\n## Appendix A", 1)
open(p, "w").write(s)
print("seed table: %d rows" % len(rows))
