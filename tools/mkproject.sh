#!/bin/sh
# (re)generate coq/Makefile from the .v files present
cd "$(dirname "$0")/../coq" || exit 1
{ cat _CoqProject; find gen Spec Model Proofs Props Check -name '*.v' | sort; } > _CoqProject.full
coq_makefile -f _CoqProject.full -o Makefile > /dev/null
