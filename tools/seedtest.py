#!/usr/bin/env python3
"""tools/seedtest.py <seeded/ID dir> <Cxx> [Cyy ...] [--tier quick|thorough]

Runs the named checks against a scratch worktree of /repo with the seeded patch applied (so /repo itself
and other running checks are not disturbed), prints each check's verdict line, removes the worktree, and
regenerates coq/gen from /repo afterwards. Exit 0 iff every named check reported a VIOLATION."""
import json, os, subprocess, sys, shutil, time
ROOT = os.path.dirname(os.path.dirname(os.path.abspath(__file__)))
args = sys.argv[1:]
tier = "quick"
if "--tier" in args:
    i = args.index("--tier"); tier = args[i + 1]; del args[i:i + 2]
seed = os.path.abspath(args[0]); props = args[1:]
wt = "/root/scratch/seedrepo_%d" % os.getpid()
subprocess.run(["git", "-C", "/repo", "worktree", "add", "-q", "--detach", wt, "HEAD"], check=True)
ok = True
try:
    r = subprocess.run(["git", "-C", wt, "apply", os.path.join(seed, "patch.diff")])
    if r.returncode != 0:
        print("patch does not apply"); sys.exit(2)
    for p in props:
        t = time.time()
        r = subprocess.run([os.path.join(ROOT, "check"), p, tier], env=dict(os.environ, VERIF_REPO=wt), stdout=subprocess.PIPE, stderr=subprocess.STDOUT)
        out = r.stdout.decode()
        lines = [l for l in out.split("\n") if l.startswith("VIOLATION") or l.startswith("KNOWN") or l.startswith(p + " ")]
        caught = any(l.startswith("VIOLATION") for l in lines) and r.returncode == 1
        print("[%s] %s exit=%d caught=%s %.0fs\n   %s" % (os.path.basename(seed), p, r.returncode, caught, time.time() - t, "\n   ".join(lines)))
        ok = ok and caught
finally:
    subprocess.run(["git", "-C", "/repo", "worktree", "remove", "--force", wt])
    subprocess.run([sys.executable, os.path.join(ROOT, "tools", "gen.py"), "/repo/src"], stdout=subprocess.DEVNULL)
sys.exit(0 if ok else 1)
