#!/bin/sh
# tools/c08_sanitizers.sh <repo> <rundir> <seed> <tier>
# Thorough-tier extra of property C08: the same harness stream (every structure's batch in a forked child) under
# AddressSanitizer, release profile (no overflow checks), WITHOUT the bounds hooks, so the real unchecked access
# happens and the sanitizer sees it. A batch whose child ends with a sanitizer report / signal is a violation;
# its label and seed are the replay.
# exit 0 = clean, 1 = violation (lines starting with ASAN-VIOLATION describe the batches), 3 = could not build/run
# (no nightly toolchain / no sanitizer runtime): skipped, reported as a note.
ROOT="$(cd "$(dirname "$0")/.." && pwd)"
REPO="${1:-/repo}"
RUNDIR="${2:-$ROOT/.build/run/C08}"
SEED="${3:-1}"
TIER="${4:-quick}"
BUILD="$ROOT/.build"
H="$BUILD/harness-asan"
OUT="$RUNDIR/asan"
rm -rf "$H" "$OUT"
mkdir -p "$BUILD" "$OUT" || exit 3
cp -r "$ROOT/harness" "$H" || exit 3
rm -rf "$H/target"
sed -i "s|path = \"/repo\"|path = \"$REPO\"|" "$H/Cargo.toml"
[ -f "$H/Cargo.lock" ] || cp "$REPO/Cargo.lock" "$H/Cargo.lock"
TDIR="$BUILD/target-asan"
[ "$REPO" = "/repo" ] || TDIR="$BUILD/target-alt-asan"
if ! (cd "$H" && CARGO_NET_OFFLINE=true CARGO_TARGET_DIR="$TDIR" RUSTFLAGS="-Zsanitizer=address -C target-cpu=native" \
      timeout 1200 cargo +nightly build --offline --release --target x86_64-unknown-linux-gnu > "$OUT/build.log" 2>&1); then
  echo "ASAN-SKIPPED: build failed (see $OUT/build.log)"; tail -5 "$OUT/build.log"
  exit 3
fi
BIN="$TDIR/x86_64-unknown-linux-gnu/release/sds-harness"
VERIF_RUNDIR="$OUT" ASAN_OPTIONS="detect_leaks=0:abort_on_error=0:exitcode=23" timeout 3000 "$BIN" C08 "$TIER" "$SEED" "$OUT" asan > "$OUT/run.log" 2>&1
RC=$?
if [ $RC -ne 0 ]; then
  echo "ASAN-VIOLATION: the harness itself ended with status $RC"; grep -m3 -A12 "ERROR: AddressSanitizer" "$OUT/run.log"
  exit 1
fi
python3 - "$OUT" <<'EOF'
import json, sys, os
out = sys.argv[1]
st = json.load(open(os.path.join(out, "stats_asan.json")))
died = st["stats"].get("batch.died", 0)
print("asan: batches ok=%d died=%d cases=%d" % (st["stats"].get("batch.ok", 0), died, st["evaluations"]))
if died:
    for line in open(os.path.join(out, "cases_asan.jsonl")):
        if '"kind":"died"' in line:
            print("ASAN-VIOLATION:", line.strip())
    log = open(os.path.join(out, "run.log"), errors="replace").read()
    i = log.find("ERROR: AddressSanitizer")
    if i >= 0:
        print(log[i:i + 1500])
    sys.exit(1)
sys.exit(0)
EOF
RC=$?
# the Coq case files of this run are not evaluated (the four hook builds are); keep only the logs and statistics
rm -f "$OUT"/cases_asan_*.v
exit $RC
