#!/bin/sh
# run every claimed check (tier $1, default quick) and print one summary line each; exit 1 if any fails
cd "$(dirname "$0")/.." || exit 2
tier=${1:-quick}
rc=0
for p in $(python3 -c "import json; print(' '.join(c['property_id'] for c in json.load(open('MANIFEST.json'))['checks']))"); do
  start=$(date +%s)
  out=$(./check $p $tier 2>&1); r=$?
  echo "$out" | grep -E "^VIOLATION|^KNOWN" 
  echo "$out" | tail -1 | sed "s/^/[$r] /"
  [ $r -ne 0 ] && rc=1
done
exit $rc
