#!/bin/sh
# debugging aid: show the proof state just before line N of a .v file (scratch copy; never part of the build)
# usage: goal.sh Proofs/X.v N
cd "$(dirname "$0")/../coq" || exit 1
f="$1"; n="$2"
tmp=/root/scratch/goal_$$.v
head -n $((n-1)) "$f" > $tmp
printf '\nShow.\n' >> $tmp
coqc -Q . SDS $tmp 2>&1 | grep -v '^Error\|^File' | tail -n ${3:-40}
rm -f $tmp /root/scratch/goal_$$.vo /root/scratch/goal_$$.glob /root/scratch/.goal_$$.aux
