#!/usr/bin/env python3
"""Regenerate MANIFEST.json from tools/props.d/*.json and properties.jsonl."""
import json
import os
import sys
ROOT = os.path.dirname(os.path.dirname(os.path.abspath(__file__)))
sys.path.insert(0, os.path.join(ROOT, "tools"))
from props import PROPS  # noqa: E402

# packages whose proof cones are still being written in worktrees: merged early for their models only
HOLD = set(x for x in os.environ.get('VERIF_HOLD', '').split(',') if x)
hold_file = os.path.join(ROOT, 'tools', 'props.d', 'HOLD')
if os.path.exists(hold_file):
    HOLD |= set(open(hold_file).read().split())
props = [json.loads(l) for l in open(os.path.join(ROOT, "properties.jsonl"))]
checks, na = [], []
for p in props:
    pid = p["id"]
    cfg = PROPS.get(pid)
    if cfg and "manifest" in cfg and not cfg.get("not_applicable") and pid not in HOLD:
        m = cfg["manifest"]
        checks.append({
            "property_id": pid,
            "quick_cmd": "./check %s quick" % pid,
            "thorough_cmd": "./check %s thorough" % pid,
            "evidence_file": "/verif/evidence/%s.json" % pid,
            "replay_cmd_template": "./check %s --replay {path}" % pid,
            "engine": "coq-proof+correspondence",
            "level_claimed": {"category": "proof", "text": m["level_text"], "design_ref": m.get("design_ref", "DESIGN.md section 8 " + pid)},
            "level_note": m["level_note"],
            "technique": m.get("technique", "machine-checked proof in Coq + differential correspondence"),
        })
    else:
        reason = (cfg or {}).get("not_applicable") or "check under construction in this round (model and theorems not yet committed); see DESIGN.md section 8"
        na.append({"property_id": pid, "reason": reason})
hooks_commits = ["f0cfaa0"]
man = {
    "version": 1,
    "setup_cmd": "./setup.sh",
    "hooks": {"guard": "cargo feature verif_hooks", "enable": "cargo build --features hooks in /verif/harness (forwards to simple-sds/verif_hooks)",
              "baseline_off_cmd": "cd /repo && cargo test --workspace --no-fail-fast --offline", "source_commits": hooks_commits, "add_only": True},
    "engines": [{"name": "coq-proof+correspondence", "path": "/verif/check", "serves_properties": [c["property_id"] for c in checks],
                 "kind_free_text": "Coq 8.16.1 theorems over executable Gallina models; gen.py translator; Rust harness + vm_compute evaluation of model and naive spec on the same cases"}],
    "checks": checks,
    "not_applicable": na,
    "notes": "See DESIGN.md. Every check regenerates coq/gen from /repo/src, rebuilds the theorem cone and the harness from /repo's working tree.",
}
json.dump(man, open(os.path.join(ROOT, "MANIFEST.json"), "w"), indent=1)
print("manifest: %d checks, %d not applicable" % (len(checks), len(na)))
