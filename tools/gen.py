#!/usr/bin/env python3
"""Translator: /repo/src -> /verif/coq/gen/*.v (run on every check).

Regenerates, from the *current* Rust sources:
  gen/Tables.v    LOW_SET, HIGH_SET, _PS_OVERFLOW, _SELECT_IN_BYTE as list N
  gen/Consts.v    every numeric constant the models use, the literals of the portable select,
                  the int-vector conversion width table
  gen/Layout.v    per `impl Serialize for T`: ordered field lists of serialize_header,
                  serialize_body, load and size_in_elements
  gen/TempName.v  the atomic operations performed on TEMP_FILE_COUNTER by temp_file_name,
                  and the pieces of the name format
  gen/Funs.v      Gallina translations of the one-expression arithmetic helpers in bits.rs
  gen/Funs2.v     Gallina translations of the straight-line integer functions listed in FUNS2 (let / let mut,
                  assignment, if/else with early return, comparisons, casts, tuples, calls of each other and of
                  the helpers of Funs.v), arithmetic in a build mode as in Funs.v; Proofs/GenTie*.v prove that
                  each one IS the hand-written model function

The extractor is deliberately dumb (regex over items whose shape is stable in this crate) and
fails closed: anything it cannot find raises, and the caller reports a broken tie.
Files are rewritten only when their content changes so that `make` stays incremental.
"""
import hashlib, shutil
import json
import os
import re
import sys

_args = [a for a in sys.argv[1:] if not a.startswith("--")]
SRC = _args[0] if len(_args) > 0 else "/repo/src"
OUT = _args[1] if len(_args) > 1 else os.path.join(os.path.dirname(os.path.abspath(__file__)), "..", "coq", "gen")


SOFT_ERRORS = []


class GenError(Exception):
    pass


def read(rel):
    with open(os.path.join(SRC, rel)) as f:
        return f.read()


def strip_comments(s):
    s = re.sub(r"//[^\n]*", "", s)
    return s


# ----------------------------------------------------------------------------
# tiny integer expression evaluator (no eval): + - * / << >> | & ( ) literals, names
# ----------------------------------------------------------------------------

TOK = re.compile(r"\s*(0x[0-9A-Fa-f_]+|0b[01_]+|[0-9][0-9_]*|[A-Za-z_][A-Za-z0-9_:]*|<<|>>|[-+*/()|&])")


def tokenize(s):
    pos, out = 0, []
    s = s.strip()
    while pos < len(s):
        m = TOK.match(s, pos)
        if not m:
            raise GenError("cannot tokenize const expr: %r at %d" % (s, pos))
        out.append(m.group(1))
        pos = m.end()
    return out


def parse_int(tok):
    t = tok.replace("_", "")
    t = re.sub(r"(u64|usize|u8|u16|u32)$", "", t)
    if t.startswith("0x"):
        return int(t, 16)
    if t.startswith("0b"):
        return int(t, 2)
    return int(t)


class Ev:
    PREC = [["|"], ["&"], ["<<", ">>"], ["+", "-"], ["*", "/"]]

    def __init__(self, toks, env):
        self.t, self.i, self.env = toks, 0, env

    def peek(self):
        return self.t[self.i] if self.i < len(self.t) else None

    def eat(self):
        x = self.t[self.i]
        self.i += 1
        return x

    def expr(self, lvl=0):
        if lvl == len(self.PREC):
            return self.atom()
        v = self.expr(lvl + 1)
        while self.peek() in self.PREC[lvl]:
            op = self.eat()
            w = self.expr(lvl + 1)
            v = {"|": lambda a, b: a | b, "&": lambda a, b: a & b, "<<": lambda a, b: a << b,
                 ">>": lambda a, b: a >> b, "+": lambda a, b: a + b, "-": lambda a, b: a - b,
                 "*": lambda a, b: a * b, "/": lambda a, b: a // b}[op](v, w)
        return v

    def atom(self):
        t = self.eat()
        if t == "(":
            v = self.expr()
            if self.eat() != ")":
                raise GenError("unbalanced parens")
            return v
        if re.match(r"[0-9]", t):
            return parse_int(t)
        name = t.split("::")[-1]
        if name in self.env:
            return self.env[name]
        raise GenError("unknown name in const expr: " + t)


def eval_const(expr, env):
    e = Ev(tokenize(expr), env)
    v = e.expr()
    if e.i != len(e.t):
        raise GenError("trailing tokens in const expr " + expr)
    return v


def consts_of(text, prefix, env0=None):
    """All `const NAME: ty = expr;` with a scalar type, in order."""
    env = dict(env0 or {})
    out = []
    for m in re.finditer(r"\bconst\s+([A-Z_][A-Z0-9_]*)\s*:\s*(usize|u64|u8|u16|u32)\s*=\s*([^;]+);", text):
        name, expr = m.group(1), m.group(3)
        v = eval_const(expr, env)
        env[name] = v
        out.append((prefix + name, v))
    return out, env


def table_of(text, name, n):
    m = re.search(r"const\s+" + re.escape(name) + r"\s*:\s*\[\s*(u64|u8)\s*;\s*(\d+)\s*\]\s*=\s*\[(.*?)\];", text, re.S)
    if not m:
        raise GenError("table %s not found" % name)
    if int(m.group(2)) != n:
        raise GenError("table %s has declared size %s, expected %d" % (name, m.group(2), n))
    body = strip_comments(m.group(3))
    vals = [parse_int(x) for x in re.findall(r"0x[0-9A-Fa-f_]+|\d+", body)]
    if len(vals) != n:
        raise GenError("table %s has %d entries, expected %d" % (name, len(vals), n))
    return vals


def fn_body(text, sig_regex):
    """Body (between the outermost braces) of the first fn whose signature matches."""
    m = re.search(sig_regex, text)
    if not m:
        raise GenError("fn not found: " + sig_regex)
    i = text.index("{", m.end() - 1 if text[m.end() - 1] == "{" else m.end())
    depth, j = 0, i
    while True:
        c = text[j]
        if c == "{":
            depth += 1
        elif c == "}":
            depth -= 1
            if depth == 0:
                break
        j += 1
    return text[i + 1:j]


def coq_list(vals, per_line=8):
    lines = []
    for k in range(0, len(vals), per_line):
        lines.append("  " + "; ".join(str(v) for v in vals[k:k + per_line]))
    return "[\n" + ";\n".join(lines) + "\n]"


def write_if_changed(path, content):
    old = None
    if os.path.exists(path):
        with open(path) as f:
            old = f.read()
    if old != content:
        with open(path, "w") as f:
            f.write(content)
        return True
    return False


HEADER = "(* GENERATED by tools/gen.py from %s -- do not edit; regenerated on every check *)\n"

# ----------------------------------------------------------------------------


def gen_tables():
    bits = read("bits.rs")
    t = {
        "LOW_SET": table_of(bits, "LOW_SET", 65),
        "HIGH_SET": table_of(bits, "HIGH_SET", 65),
        "PS_OVERFLOW": table_of(bits, "_PS_OVERFLOW", 65),
        "SELECT_IN_BYTE": table_of(bits, "_SELECT_IN_BYTE", 2048),
    }
    s = HEADER % "src/bits.rs"
    s += "From Coq Require Import NArith List.\nImport ListNotations.\nOpen Scope N_scope.\n\n"
    for k, v in t.items():
        s += "Definition %s : list N := %s.\n\n" % (k, coq_list(v, 8 if k != "SELECT_IN_BYTE" else 16))
    return s, t


def gen_consts():
    out = []
    bits = read("bits.rs")
    c, env_bits = consts_of(bits, "bits_")
    out += c
    rs = read("bit_vector/rank_support.rs")
    c, _ = consts_of(rs.split("#[cfg(test)]")[0], "rank_", env_bits)
    out += c
    ss = read("bit_vector/select_support.rs")
    c, _ = consts_of(ss.split("#[cfg(test)]")[0], "select_", env_bits)
    out += c
    sv = read("sparse_vector.rs")
    c, _ = consts_of(sv, "sparse_", env_bits)
    out += c
    rl = read("rl_vector.rs")
    c, env_rl = consts_of(rl, "rl_", env_bits)
    out += c
    idx = read("rl_vector/index.rs")
    c, _ = consts_of(idx.split("#[cfg(test)]")[0], "index_", env_bits)
    out += c
    rv = read("raw_vector.rs")
    c, _ = consts_of(rv, "writer_", env_bits)
    out += c
    names = [n for n, _ in out]
    required = ["bits_WORD_BYTES", "bits_WORD_BITS", "bits_INDEX_SHIFT", "bits_OFFSET_MASK",
                "rank_BLOCK_SIZE", "rank_RELATIVE_RANK_BITS", "rank_RELATIVE_RANK_MASK", "rank_WORDS_PER_BLOCK",
                "rank_WORD_MASK", "select_SUPERBLOCK_SIZE", "select_SUPERBLOCK_MASK", "select_BLOCKS_IN_SUPERBLOCK",
                "select_BLOCK_SIZE", "select_BLOCK_MASK", "sparse_BINARY_SEARCH_THRESHOLD", "rl_CODE_SIZE",
                "rl_CODE_SHIFT", "rl_CODE_FLAG", "rl_CODE_MASK", "rl_BLOCK_SIZE", "index_RATIO",
                "writer_DEFAULT_BUFFER_SIZE"]
    for r in required:
        if r not in names:
            raise GenError("required constant not found: " + r)

    # portable select literals, in order of appearance in the non-BMI2 block
    sel = fn_body(bits, r"pub unsafe fn select\s*\(")
    m = re.search(r"#\[cfg\(not\(all\(target_arch = \"x86_64\", target_feature = \"bmi2\"\)\)\)\]\s*\{", sel)
    if not m:
        raise GenError("portable select block not found")
    portable = strip_comments(sel[m.end():])
    lits = [parse_int(x) for x in re.findall(r"0x[0-9A-Fa-f_]+", portable)]
    pdep = strip_comments(sel[:m.start()])
    if "_pdep_u64(1u64 << rank, n)" not in pdep or "trailing_zeros()" not in pdep:
        raise GenError("PDEP select block changed shape")

    # int vector conversion widths
    iv = read("int_vector.rs")
    widths = re.findall(r"from_extend_int_vector!\((\w+),\s*(\d+)\);", iv)
    if not widths:
        raise GenError("int vector width table not found")
    bitsof = {"u8": 8, "u16": 16, "u32": 32, "u64": 64, "usize": 64}

    # rank_support: the arithmetic shape of the build loop / query (literal text, normalised)
    s = HEADER % "src/**/*.rs"
    s += "From Coq Require Import NArith List.\nImport ListNotations.\nOpen Scope N_scope.\n\n"
    for n, v in out:
        s += "Definition %s : N := %d.\n" % (n, v)
    s += "\n(* hex literals of the portable (non-BMI2) branch of bits::select, in source order *)\n"
    s += "Definition select_portable_literals : list N := %s.\n" % coq_list(lits, 4)
    s += "\n(* (declared width, bit size of the source type) per from_extend_int_vector! line *)\n"
    s += "Definition int_vector_widths : list (N * N) := [%s].\n" % "; ".join("(%s, %d)" % (w, bitsof[t]) for t, w in widths)
    return s, dict(out), lits


SER_CALL = re.compile(r"(?:self\.)?([A-Za-z_][A-Za-z0-9_\.]*?)\.(serialize|serialize_header|serialize_body)\(writer\)")


def gen_layout():
    files = ["serialize.rs", "raw_vector.rs", "int_vector.rs", "bit_vector.rs", "bit_vector/rank_support.rs",
             "bit_vector/select_support.rs", "sparse_vector.rs", "rl_vector.rs", "wavelet_matrix.rs",
             "wavelet_matrix/wm_core.rs"]
    layouts = {}
    for f in files:
        text = strip_comments(read(f))
        for m in re.finditer(r"impl(?:<[^>]*>)?\s+Serialize\s+for\s+([A-Za-z_][A-Za-z0-9_<>, ]*?)\s*\{", text):
            ty = m.group(1).strip()
            # impl block
            i = m.end() - 1
            depth, j = 0, i
            while True:
                c = text[j]
                if c == "{":
                    depth += 1
                elif c == "}":
                    depth -= 1
                    if depth == 0:
                        break
                j += 1
            block = strip_comments(text[i:j])
            ent = {}
            for fn in ["serialize_header", "serialize_body", "load", "size_in_elements"]:
                try:
                    body = fn_body(block, r"fn\s+" + fn + r"\s*(?:<[^>]*>)?\s*\(")
                except GenError:
                    raise GenError("impl Serialize for %s lacks %s" % (ty, fn))
                if fn in ("serialize_header", "serialize_body"):
                    calls = []
                    for c in SER_CALL.finditer(body):
                        calls.append(c.group(1).replace("self.", "") + ":" + c.group(2))
                    for c in re.finditer(r"write_all\(([^)]*)\)", body):
                        calls.append("write_all:" + re.sub(r"\s+", "", c.group(1)))
                    ent[fn] = calls
                elif fn == "load":
                    calls = re.findall(r"(?:let\s+(?:mut\s+)?(\w+)\s*=\s*)?([A-Za-z_<>:, \(\)0-9]*?)::load\(reader\)", body)
                    ent[fn] = ["%s=%s" % (a or "_", re.sub(r"[\s]", "", b).replace("<", "(").replace(">", ")").replace("::", ".")) for a, b in calls]
                    ent[fn] += ["read_exact:" + re.sub(r"\s+", "", c) for c in re.findall(r"read_exact\(([^)]*)\)", body)]
                    ent["load_checks"] = [re.sub(r"\s+", " ", c.strip()) for c in re.findall(r"\bif\s+([^{]*?)\s*\{\s*(?:return\s+)?Err", body)]
                else:
                    ent[fn] = [re.sub(r"\s+", "", x) for x in re.findall(r"(?:self\.)?([A-Za-z_\.]+)\.size_in_elements\(\)", body)]
                    lit = re.findall(r"(?:let mut result\s*=\s*|^\s*)(\d+)\s*(?:;|\+)", body, re.M)
                    ent[fn] = lit + ent[fn]
            key = re.sub(r"[^A-Za-z0-9]", "_", ty).strip("_")
            key = re.sub(r"_+", "_", key)
            layouts[key] = ent
    need = ["V", "Vec_V", "Vec_u8", "String", "Option_V", "RawVector", "IntVector", "BitVector", "RankSupport",
            "SelectSupport_T", "SparseVector", "RLVector", "WaveletMatrix", "WMCore"]
    for n in need:
        if n not in layouts:
            raise GenError("Serialize impl not found: %s (have %s)" % (n, sorted(layouts)))
    s = HEADER % "every `impl Serialize`"
    s += "From Coq Require Import String List.\nImport ListNotations.\nOpen Scope string_scope.\n\n"
    s += "(* one record per impl: the ordered calls of serialize_header / serialize_body / load / size_in_elements *)\n"
    for k in sorted(layouts):
        e = layouts[k]
        for fn in ["serialize_header", "serialize_body", "load", "load_checks", "size_in_elements"]:
            s += "Definition layout_%s_%s : list string := [%s].\n" % (k, fn, "; ".join('"%s"' % x.replace('"', "'") for x in e[fn]))
        s += "\n"
    return s, layouts


def gen_tempname():
    ser = read("serialize.rs")
    body = strip_comments(fn_body(ser, r"pub fn temp_file_name\s*\("))
    ops = []
    for m in re.finditer(r"TEMP_FILE_COUNTER\s*\.\s*(\w+)\s*\(([^)]*)\)", body):
        op, args = m.group(1), m.group(2)
        if op == "fetch_add":
            a = args.split(",")[0].strip()
            ops.append("Rmw_add %d" % parse_int(a))
        elif op == "load":
            ops.append("Load")
        elif op == "store":
            ops.append("Store_plus 1" if "+ 1" in args or "+1" in args else "Store_other")
        elif op in ("fetch_sub", "swap", "compare_exchange", "compare_exchange_weak", "fetch_update", "fetch_or", "fetch_and", "fetch_max"):
            ops.append("Other_op")
        else:
            ops.append("Other_op")
    if not ops:
        raise GenError("no atomic operation on TEMP_FILE_COUNTER found in temp_file_name")
    decl = re.search(r"static\s+TEMP_FILE_COUNTER\s*:\s*(\w+)\s*=\s*(\w+)::new\((\d+)\)", ser)
    if not decl:
        raise GenError("TEMP_FILE_COUNTER declaration not found")
    fm = re.search(r'format!\("([^"]*)"\s*,\s*([^)]*\)?[^)]*)\)', body)
    if not fm:
        raise GenError("name format not found")
    fmt = fm.group(1)
    args = [a.strip() for a in re.split(r",\s*(?![^()]*\))", fm.group(2))]
    pieces = []
    ai = 0
    for part in re.split(r"(\{\})", fmt):
        if part == "{}":
            a = args[ai]
            ai += 1
            if a == "name_part":
                pieces.append("PName")
            elif a == "process::id()":
                pieces.append("PPid")
            elif a == "count":
                pieces.append("PCount")
            else:
                pieces.append("POther")
        elif part:
            pieces.append('PLit "%s"' % part)
    which = re.search(r"let\s+count\s*=\s*TEMP_FILE_COUNTER\s*\.\s*(\w+)", body)
    s = HEADER % "src/serialize.rs::temp_file_name"
    s += "From Coq Require Import NArith String List.\nImport ListNotations.\nOpen Scope N_scope.\n\n"
    s += "Inductive atomic_op := Rmw_add (k : N) | Load | Store_plus (k : N) | Store_other | Other_op.\n"
    s += "Inductive name_piece := PName | PPid | PCount | POther | PLit (s : string).\n\n"
    s += "(* operations performed on TEMP_FILE_COUNTER by one call, in program order *)\n"
    s += "Definition temp_counter_ops : list atomic_op := [%s].\n" % "; ".join(ops)
    s += "Definition temp_counter_init : N := %s.\n" % decl.group(3)
    bits = {"AtomicUsize": 64, "AtomicU64": 64, "AtomicU32": 32, "AtomicU16": 16, "AtomicU8": 8,
            "AtomicIsize": 63, "AtomicI64": 63, "AtomicI32": 31, "AtomicI16": 15, "AtomicI8": 7}.get(decl.group(1))
    if bits is None or decl.group(1) != decl.group(2):
        raise GenError("unrecognised type of TEMP_FILE_COUNTER: %s / %s" % (decl.group(1), decl.group(2)))
    s += "(* number of distinct values the counter type %s can take before it wraps: 2^bits *)\n" % decl.group(1)
    s += "Definition temp_counter_bits : N := %d.\n" % bits
    s += "(* the value bound to `count` is the result of this operation *)\n"
    s += 'Definition temp_count_from : string := "%s".\n' % (which.group(1) if which else "?")
    s += "Definition temp_name_format : list name_piece := [%s].\n" % "; ".join(pieces)
    # every other mention of the counter anywhere in the crate (code only, tests excluded): the uniqueness theorems
    # are about calls that ALL run the program above, so nothing else may touch the counter
    total = 0
    for root, _, files in os.walk(SRC):
        for fn in files:
            if fn.endswith(".rs") and fn != "tests.rs":
                text = strip_comments(open(os.path.join(root, fn)).read()).split("#[cfg(test)]\nmod tests {")[0]
                total += len(re.findall(r"\bTEMP_FILE_COUNTER\b", text))
    inside = len(re.findall(r"\bTEMP_FILE_COUNTER\b", body))
    s += "(* mentions of TEMP_FILE_COUNTER outside its declaration and outside temp_file_name *)\n"
    s += "Definition temp_counter_foreign_uses : N := %d.\n" % (total - inside - 1)
    return s, ops



def gen_mmapcfg():
    """What MemoryMap::new compares the mmap result with, and which length Drop passes to munmap."""
    ser = strip_comments(read("serialize.rs"))
    m = re.search(r"let\s+ptr\s*=\s*unsafe\s*\{\s*libc::mmap\([^;]*;\s*if\s+([^{]*?)\s*\{", ser, re.S)
    if not m:
        raise GenError("mmap failure test not found in MemoryMap::new")
    cond = re.sub(r"\s+", "", m.group(1))
    if cond in ("ptr==libc::MAP_FAILED", "libc::MAP_FAILED==ptr"):
        cmpk = "CmpMapFailed"
    elif cond in ("ptr.is_null()", "ptr==ptr::null_mut()"):
        cmpk = "CmpNull"
    else:
        raise GenError("unrecognised mmap failure test: " + cond)
    m = re.search(r"libc::munmap\(\s*self\.ptr\.cast::<libc::c_void>\(\)\s*,\s*([^;]*?)\)\s*;", ser, re.S)
    if not m:
        raise GenError("munmap call not found in Drop for MemoryMap")
    arg = re.sub(r"\s+", "", m.group(1))
    if arg in ("bits::words_to_bytes(self.len)", "self.len*8", "self.len*bits::WORD_BYTES", "8*self.len"):
        unm = "UnmapBytes"
    elif arg == "self.len":
        unm = "UnmapElements"
    else:
        raise GenError("unrecognised munmap length: " + arg)
    s = HEADER % "src/serialize.rs (MemoryMap::new, Drop for MemoryMap)"
    s += "(* failure test of MemoryMap::new: `%s`; munmap length in Drop: `%s` *)\n" % (cond, arg)
    s += "Inductive cmp_kind := CmpNull | CmpMapFailed.\nInductive unmap_kind := UnmapElements | UnmapBytes.\n\n"
    s += "Definition cur_cmp : cmp_kind := %s.\nDefinition cur_unmap : unmap_kind := %s.\n" % (cmpk, unm)
    return s


# ----------------------------------------------------------------------------
# Funs.v: Gallina for the one-expression helpers of bits.rs (checked arithmetic in a mode)
# ----------------------------------------------------------------------------

FUN_NAMES = ["words_to_bytes", "bytes_to_words", "round_up_to_word_bytes", "words_to_bits", "bits_to_words",
             "round_up_to_word_bits", "div_round_up", "bit_offset"]


class RustExpr:
    """Recursive-descent parser for `a + B - 1`-style bodies -> monadic Gallina term."""
    PREC = [["+", "-"], ["*", "/"], ["<<", ">>"]]

    def __init__(self, toks):
        self.t, self.i = toks, 0
        self.tmp = 0

    def peek(self):
        return self.t[self.i] if self.i < len(self.t) else None

    def eat(self):
        x = self.t[self.i]
        self.i += 1
        return x

    # Rust precedence: * / bind tighter than + -, which bind tighter than << >>
    def expr(self):
        return self.shift()

    def shift(self):
        v = self.addsub()
        while self.peek() in ("<<", ">>"):
            op = self.eat()
            w = self.addsub()
            v = ("bin", op, v, w)
        return v

    def addsub(self):
        v = self.muldiv()
        while self.peek() in ("+", "-"):
            op = self.eat()
            w = self.muldiv()
            v = ("bin", op, v, w)
        return v

    def muldiv(self):
        v = self.atom()
        while self.peek() in ("*", "/"):
            op = self.eat()
            w = self.atom()
            v = ("bin", op, v, w)
        return v

    def atom(self):
        t = self.eat()
        if t == "(":
            v = self.expr()
            if self.eat() != ")":
                raise GenError("unbalanced")
            return v
        if re.match(r"[0-9]", t):
            return ("lit", parse_int(t))
        if self.peek() == "(":
            self.eat()
            arg = self.expr()
            if self.eat() != ")":
                raise GenError("call with != 1 arg")
            return ("call", t, arg)
        return ("var", t)


def to_gallina(e, consts):
    opname = {"+": "uadd", "-": "usub", "*": "umul", "/": "udiv", "<<": "ushl", ">>": "ushr"}
    k = e[0]
    if k == "lit":
        return "(Ok %d)" % e[1]
    if k == "var":
        n = e[1]
        if n in consts:
            return "(Ok bits_%s)" % n
        return "(Ok %s)" % n
    if k == "call":
        return "(bind %s (fun x => f_%s m x))" % (to_gallina(e[2], consts), e[1])
    if k == "bin":
        return "(bind %s (fun a => bind %s (fun b => %s m a b)))" % (to_gallina(e[2], consts), to_gallina(e[3], consts), opname[e[1]])
    raise GenError("bad expr")


def gen_funs(consts):
    bits = read("bits.rs")
    bitconsts = set(n[len("bits_"):] for n in consts if n.startswith("bits_"))
    s = HEADER % "src/bits.rs (one-expression helpers)"
    s += "From Coq Require Import NArith.\nRequire Import SDS.Model.Mach SDS.gen.Consts.\nOpen Scope N_scope.\n\n"
    s += "(* usize arithmetic in a build mode: Debug = overflow checks on (panic), Release = wrap mod 2^64 *)\n"
    for fn in FUN_NAMES:
        # a helper that can no longer be translated is LEFT OUT (recorded in SOFT_ERRORS): whatever refers to it then
        # fails to build, and only the properties whose cone refers to it are affected
        try:
            m = re.search(r"pub fn " + fn + r"\s*\(([^)]*)\)\s*->\s*usize\s*\{", bits)
            if not m:
                raise GenError("helper not found: " + fn)
            params = [p.split(":")[0].strip() for p in m.group(1).split(",")]
            body = strip_comments(fn_body(bits, r"pub fn " + fn + r"\s*\(")).strip()
            if ";" in body:
                raise GenError("helper %s is no longer a single expression" % fn)
            p = RustExpr(tokenize(body))
            e = p.expr()
            if p.i != len(p.t):
                raise GenError("helper %s: trailing tokens" % fn)
            text = "(* %s *)\n" % re.sub(r"\s+", " ", body)
            text += "Definition f_%s (m : mode) %s : res N :=\n  %s.\n\n" % (fn, " ".join("(%s : N)" % x for x in params), to_gallina(e, bitconsts))
            s += text
        except GenError as e:
            SOFT_ERRORS.append({"file": "Funs.v", "function": "bits.rs::" + fn, "source": "bits.rs", "msg": str(e)})
            s += "(* %s: NOT TRANSLATED (%s) *)\n\n" % (fn, str(e).replace("*)", "* )"))
    return s



# ----------------------------------------------------------------------------
# Funs2.v: Gallina for straight-line integer functions (statements, if/else, early return, tuples)
# ----------------------------------------------------------------------------
#
# Supported subset (anything else raises GenError naming the function):
#   fn f([&self,] p: usize|u64|bool, ...) -> usize|u64|bool|(T, T, ...)
#   let [mut] x [: T] = e;   let (a, b) = e;   x = e;   x op= e;   return e;
#   if c { .. } [else if ..] [else { .. }]   as statement (with assignments / early return) or as expression
#   + - * / % << >>  (mode-dependent checked operations, as in Funs.v)    & | ^ !  (total)
#   < <= > >= == !=  && || !      e as usize|u64  (identity on integers, 0/1 on bool)
#   integer literals, true/false, named constants of Consts.v (Self::X, Type::X, bits::X),
#   TABLE[e] for the tables of Tables.v (bounds-checked), (e1, e2) tuples,
#   calls of other translated functions, of the helpers of Funs.v, cmp::min / cmp::max,
#   self.<field>.len()  (becomes a parameter <field>_len),
#   the u64 intrinsics leading_zeros / trailing_zeros / count_ones / reverse_bits (as modelled in Model/Bits.v).
# Evaluation order is Rust's (left operand, right operand, operation).

# (generated name, file, impl type or None for a module-level fn, fn name)
FUNS2 = [
    ("low_set", "bits.rs", None, "low_set"),
    ("high_set", "bits.rs", None, "high_set"),
    ("bit_len", "bits.rs", None, "bit_len"),
    ("reverse_low", "bits.rs", None, "reverse_low"),
    ("split_offset", "bits.rs", None, "split_offset"),
    ("rl_code_len", "rl_vector.rs", "RLBuilder", "code_len"),
    ("rl_blocks", "rl_vector.rs", "RLVector", "blocks"),
    ("rlb_blocks", "rl_vector.rs", "RLBuilder", "blocks"),
    ("si_parameters", "rl_vector/index.rs", "SampleIndex", "parameters"),
    ("get_buckets", "sparse_vector.rs", "SparseBuilder", "get_buckets"),
    ("raw_size_by_params", "raw_vector.rs", "RawVector", "size_by_params"),
    ("iv_size_by_params", "int_vector.rs", "IntVector", "size_by_params"),
    ("rs_blocks", "bit_vector/rank_support.rs", "RankSupport", "blocks"),
    ("ss_superblocks", "bit_vector/select_support.rs", "SelectSupport", "superblocks"),
    ("ss_long_superblocks", "bit_vector/select_support.rs", "SelectSupport", "long_superblocks"),
    ("ss_short_superblocks", "bit_vector/select_support.rs", "SelectSupport", "short_superblocks"),
    ("absent_option_size", "serialize.rs", None, "absent_option_size"),
]

# which prefix the constants of a file carry in Consts.v (see gen_consts), and where a type / module lives
FILE_PREFIX = {"bits.rs": "bits_", "bit_vector/rank_support.rs": "rank_", "bit_vector/select_support.rs": "select_",
               "sparse_vector.rs": "sparse_", "rl_vector.rs": "rl_", "rl_vector/index.rs": "index_"}
QUAL_FILE = {"bits": "bits.rs", "RankSupport": "bit_vector/rank_support.rs", "SelectSupport": "bit_vector/select_support.rs",
             "SparseVector": "sparse_vector.rs", "SparseBuilder": "sparse_vector.rs", "RLVector": "rl_vector.rs",
             "RLBuilder": "rl_vector.rs", "SampleIndex": "rl_vector/index.rs", "RawVector": "raw_vector.rs",
             "IntVector": "int_vector.rs", "serialize": "serialize.rs"}
TABLES2 = {"LOW_SET": "LOW_SET", "HIGH_SET": "HIGH_SET"}
INTRINSICS = {"leading_zeros": "leading_zeros", "trailing_zeros": "trailing_zeros", "count_ones": "popcount",
              "reverse_bits": "reverse_bits"}
INT_TYPES = ("usize", "u64")
RUST_UNSUPPORTED = {"match", "loop", "while", "for", "unsafe", "break", "continue", "fn", "move", "ref", "struct",
                    "impl", "dyn", "where", "in", "const", "static", "async", "await"}
COQ_RESERVED = {"m", "bind", "Ok", "Panic", "OOB", "fun", "if", "then", "else", "let", "in", "match", "with", "end", "as",
                "return", "forall", "exists", "mod", "N", "idx", "fix", "cofix", "Type", "Prop", "Set", "at", "using",
                "where", "for", "IF", "negb", "andb", "orb", "true", "false", "res", "mode", "bool", "tt", "wnot",
                "uadd", "usub", "umul", "udiv", "ushl", "ushr", "xorb", "popcount", "reverse_bits", "leading_zeros", "trailing_zeros"}

TOK2 = re.compile(r"\s*(0x[0-9A-Fa-f_]+(?:usize|u64)?|0b[01_]+(?:usize|u64)?|[0-9][0-9_]*(?:usize|u64)?|[A-Za-z_][A-Za-z0-9_]*"
                  r"|<<=|>>=|<<|>>|<=|>=|==|!=|&&|\|\||\+=|-=|\*=|/=|%=|&=|\|=|\^=|->|::|[-+*/%&|^!<>=(){}\[\],;:.])")


def skip_string(text, j):
    """text[j] == '"': index just after the closing quote."""
    j += 1
    while j < len(text):
        if text[j] == "\\":
            j += 2
            continue
        if text[j] == '"':
            return j + 1
        j += 1
    raise GenError("unterminated string literal")


def match_brace(text, i):
    """text[i] == '{': index of the matching '}' (string literals skipped)."""
    depth, j = 0, i
    while j < len(text):
        c = text[j]
        if c == '"':
            j = skip_string(text, j)
            continue
        if c == "{":
            depth += 1
        elif c == "}":
            depth -= 1
            if depth == 0:
                return j
        j += 1
    raise GenError("unbalanced braces")


def depth0_blocks(text):
    """[(header, body_start, body_end)] for every `header { body }` at brace depth 0 of text."""
    out, j, start = [], 0, 0
    while j < len(text):
        c = text[j]
        if c == '"':
            j = skip_string(text, j)
            continue
        if c == ";":
            start = j + 1
        elif c == "{":
            e = match_brace(text, j)
            out.append((text[start:j], j + 1, e))
            j = e
            start = e + 1
        j += 1
    return out


def find_fn(rel, impl_ty, name):
    """(signature text, body text) of the one fn `name` in the inherent impl of impl_ty (or at module level)."""
    text = strip_comments(read(rel))
    where = "%s::%s%s" % (rel, impl_ty + "::" if impl_ty else "", name)
    scopes = []
    if impl_ty is None:
        scopes.append(text)
    else:
        rx = re.compile(r"^\s*(?:#\[[^\]]*\]\s*)*impl\s*(?:<[^{]*?>)?\s*" + re.escape(impl_ty) + r"\s*(?:<[^{]*>)?\s*$")
        for hdr, a, b in depth0_blocks(text):
            if rx.match(hdr):
                scopes.append(text[a:b])
    found = []
    for sc in scopes:
        for hdr, a, b in depth0_blocks(sc):
            mm = re.search(r"\bfn\s+" + re.escape(name) + r"\s*(\(.*)$", hdr, re.S)
            if mm and not re.search(r"\b(?:impl|trait|mod)\b", hdr):
                found.append((mm.group(1).strip(), sc[a:b]))
    if len(found) != 1:
        raise GenError("function %s: found %d definitions, expected exactly 1" % (where, len(found)))
    return found[0]


class Fn2:
    """Parser + translator of one function of the supported subset."""

    def __init__(self, gname, rel, impl_ty, name, sig, body, consts, known):
        self.gname, self.rel, self.impl_ty, self.name = gname, rel, impl_ty, name
        self.where = "%s::%s%s" % (rel, impl_ty + "::" if impl_ty else "", name)
        self.consts, self.known = consts, known
        self.sig_t = self.tokenize(sig)
        self.t = self.tokenize(body)
        self.i = 0
        self.idents = set(x for x in self.t + self.sig_t if re.match(r"[A-Za-z_]", x))
        self.ntmp = 0
        self.tmp_prefix = next(p for p in ("t", "tmp", "aux", "gen_tmp") if not any(re.fullmatch(p + r"\d+", x) for x in self.idents))
        self.fieldlens = []

    def fail(self, msg):
        raise GenError("function %s: %s" % (self.where, msg))

    def tokenize(self, s):
        pos, out = 0, []
        s = s.strip()
        while pos < len(s):
            mm = TOK2.match(s, pos)
            if not mm:
                self.fail("unsupported token at %r" % s[pos:pos + 20])
            out.append(mm.group(1))
            pos = mm.end()
        for x in out:
            if x in RUST_UNSUPPORTED:
                self.fail("unsupported construct `%s`" % x)
        return out

    # ---- token stream
    def peek(self, k=0):
        return self.t[self.i + k] if self.i + k < len(self.t) else None

    def eat(self, want=None):
        if self.i >= len(self.t):
            self.fail("unexpected end of body" + (" (wanted `%s`)" % want if want else ""))
        x = self.t[self.i]
        if want is not None and x != want:
            self.fail("expected `%s`, found `%s`" % (want, x))
        self.i += 1
        return x

    # ---- signature: ( params ) -> ret
    def parse_sig(self):
        saved = (self.t, self.i)
        self.t, self.i = self.sig_t, 0
        self.eat("(")
        params, has_self = [], False
        while self.peek() != ")":
            if self.peek() == "&" and self.peek(1) == "self":
                self.eat(), self.eat()
                has_self = True
            else:
                if self.peek() == "mut":
                    self.fail("`mut` parameter")
                pn = self.eat()
                if not re.match(r"[A-Za-z_]", pn):
                    self.fail("unsupported parameter pattern `%s`" % pn)
                self.eat(":")
                params.append((pn, self.parse_type()))
            if self.peek() == ",":
                self.eat()
        self.eat(")")
        if self.peek() is None:
            self.fail("no return type")
        self.eat("->")
        ret = self.parse_type()
        if self.peek() is not None:
            self.fail("unsupported signature tail `%s`" % self.peek())
        self.t, self.i = saved
        return params, has_self, ret

    def parse_type(self):
        x = self.eat()
        if x in INT_TYPES:
            return "int"
        if x == "bool":
            return "bool"
        if x == "(":
            parts = []
            while self.peek() != ")":
                parts.append(self.parse_type())
                if self.peek() == ",":
                    self.eat()
            self.eat(")")
            if len(parts) < 2:
                self.fail("unsupported type")
            return ("tuple", tuple(parts))
        self.fail("unsupported type `%s`" % x)

    # ---- blocks and statements
    def parse_block(self):
        """after `{`: ([statements], tail expression or None); consumes the closing `}`."""
        items, tail = [], None
        while True:
            x = self.peek()
            if x == "}":
                self.eat()
                return items, tail
            if tail is not None:
                self.fail("expression in the middle of a block is not followed by `;`")
            if x == "let":
                self.eat()
                mut = False
                if self.peek() == "mut":
                    self.eat()
                    mut = True
                if self.peek() == "(":
                    self.eat()
                    names = []
                    while self.peek() != ")":
                        if self.peek() == "mut":
                            self.fail("`mut` inside a tuple pattern")
                        names.append(self.eat())
                        if self.peek() == ",":
                            self.eat()
                    self.eat(")")
                    pat = ("tuple", names)
                else:
                    pat = ("name", self.eat())
                for nm in (pat[1] if pat[0] == "tuple" else [pat[1]]):
                    if not re.match(r"[A-Za-z_][A-Za-z0-9_]*$", nm) or nm == "_":
                        self.fail("unsupported let pattern `%s`" % nm)
                ty = None
                if self.peek() == ":":
                    self.eat()
                    ty = self.parse_type()
                self.eat("=")
                e = self.parse_expr()
                self.eat(";")
                items.append(("let", pat, mut, ty, e))
            elif x == "return":
                self.eat()
                e = self.parse_expr()
                if self.peek() == ";":
                    self.eat()
                items.append(("return", e))
            elif x == "if":
                e = self.parse_if()
                if self.peek() == "}":
                    tail = e
                else:
                    if self.peek() == ";":
                        self.eat()
                    items.append(("ifs", e))
            elif re.match(r"[A-Za-z_]", x or "") and self.peek(1) in ("=", "+=", "-=", "*=", "/=", "%=", "<<=", ">>=", "&=", "|=", "^="):
                nm = self.eat()
                op = self.eat()
                e = self.parse_expr()
                self.eat(";")
                items.append(("assign", nm, op[:-1], e))
            else:
                e = self.parse_expr()
                if self.peek() == "}":
                    tail = e
                else:
                    self.fail("expression statement (only let / assignment / if / return are supported)")

    def parse_if(self):
        self.eat("if")
        c = self.parse_expr()
        self.eat("{")
        a = self.parse_block()
        b = None
        if self.peek() == "else":
            self.eat()
            if self.peek() == "if":
                b = ([], self.parse_if())
            else:
                self.eat("{")
                b = self.parse_block()
        return ("if", c, a, b)

    # ---- expressions, by Rust precedence (lowest first)
    BIN_LEVELS = [["||"], ["&&"], ["==", "!=", "<", ">", "<=", ">="], ["|"], ["^"], ["&"], ["<<", ">>"], ["+", "-"], ["*", "/", "%"]]

    def parse_expr(self, lvl=0):
        if lvl == len(self.BIN_LEVELS):
            return self.parse_cast()
        v = self.parse_expr(lvl + 1)
        n = 0
        while self.peek() in self.BIN_LEVELS[lvl]:
            op = self.eat()
            n += 1
            if lvl == 2 and n > 1:
                self.fail("chained comparison")
            w = self.parse_expr(lvl + 1)
            v = ("bin", op, v, w)
        return v

    def parse_cast(self):
        v = self.parse_unary()
        while self.peek() == "as":
            self.eat()
            ty = self.eat()
            if ty not in INT_TYPES:
                self.fail("unsupported cast `as %s`" % ty)
            v = ("cast", v)
        return v

    def parse_unary(self):
        if self.peek() == "!":
            self.eat()
            return ("not", self.parse_unary())
        if self.peek() in ("-", "*", "&"):
            self.fail("unsupported unary operator `%s`" % self.peek())
        return self.parse_postfix()

    def parse_postfix(self):
        v = self.parse_atom()
        while self.peek() in (".", "["):
            if self.eat() == "[":
                e = self.parse_expr()
                self.eat("]")
                v = ("index", v, e)
            else:
                nm = self.eat()
                if self.peek() == "(":
                    self.eat()
                    self.eat(")")
                    v = ("method", v, nm)
                else:
                    v = ("field", v, nm)
        return v

    def parse_atom(self):
        x = self.eat()
        if x == "(":
            parts = [self.parse_expr()]
            while self.peek() == ",":
                self.eat()
                if self.peek() != ")":
                    parts.append(self.parse_expr())
            self.eat(")")
            return parts[0] if len(parts) == 1 else ("tuple", parts)
        if x == "if":
            self.i -= 1
            return self.parse_if()
        if x == "{":
            return ("block", self.parse_block())
        if re.match(r"[0-9]", x):
            return ("lit", parse_int(x))
        if x in ("true", "false"):
            return ("bool", x)
        if re.match(r"[A-Za-z_]", x):
            path = [x]
            while self.peek() == "::":
                self.eat()
                if self.peek() == "<":
                    self.fail("generic arguments in a path")
                path.append(self.eat())
            if self.peek() == "(":
                self.eat()
                args = []
                while self.peek() != ")":
                    args.append(self.parse_expr())
                    if self.peek() == ",":
                        self.eat()
                self.eat(")")
                return ("call", path, args)
            return ("path", path)
        self.fail("unexpected token `%s`" % x)

    # ---- translation. A translated expression is R(binds, text, ty, pure): `binds` are (term of type res _, name)
    # pairs to be run in that order before `text`; a pure text denotes the value itself (N / bool / product),
    # otherwise text is a term of type res _.
    def fresh(self):
        self.ntmp += 1
        return "%s%d" % (self.tmp_prefix, self.ntmp)

    def cname(self, rust_name):
        n = rust_name + "_" if (rust_name in COQ_RESERVED or re.match(r"f2?_", rust_name)) else rust_name
        if n != rust_name and n in self.idents:
            self.fail("cannot rename variable `%s`" % rust_name)
        return n

    @staticmethod
    def monadic(r):
        return r[1] if not r[3] else "(Ok %s)" % r[1]

    def inline(self, r):
        """One-line term of type res _ for r (binds included)."""
        text = self.monadic(r)
        for term, x in reversed(r[0]):
            text = "(bind %s (fun %s => %s))" % (term, x, text)
        return text

    @staticmethod
    def wrap(binds, inner, pad):
        for term, x in reversed(binds):
            inner = "%sbind %s (fun %s =>\n%s)" % (pad, term, x, inner)
        return inner

    def atom(self, r, binds):
        """Pure text for the value of r; whatever has to run first is appended to binds."""
        binds.extend(r[0])
        if r[3]:
            return r[1]
        x = self.fresh()
        binds.append((r[1], x))
        return x

    def with_vals(self, es, env, k):
        """Evaluate the expressions left to right; k(pure texts, types) -> (text, type, pure)."""
        binds, names, tys = [], [], []
        for e in es:
            r = self.expr(e, env)
            names.append(self.atom(r, binds))
            tys.append(r[2])
        text, ty, pure = k(names, tys)
        return (binds, text, ty, pure)

    def want(self, ty, expected, what):
        if ty != expected:
            self.fail("%s: expected %s, found %s" % (what, expected, ty))

    def const_name(self, path):
        """Name in Consts.v of a constant path, or None if the path does not look like a constant."""
        c = path[-1]
        if not re.match(r"[A-Z][A-Z0-9_]*$", c):
            return None
        if len(path) == 1:
            f = self.rel
        elif path[-2] == "Self":
            if not self.impl_ty:
                self.fail("`Self::` outside an impl")
            f = self.rel
        else:
            f = QUAL_FILE.get(path[-2])
        if f is None or f not in FILE_PREFIX:
            self.fail("constant `%s`: unknown module or type" % "::".join(path))
        n = FILE_PREFIX[f] + c
        if n not in self.consts:
            self.fail("constant `%s` is not in Consts.v (as %s)" % ("::".join(path), n))
        return n

    def expr(self, e, env):
        k = e[0]
        if k == "lit":
            if e[1] >= 2 ** 64:
                self.fail("literal out of range")
            return ([], "%d" % e[1], "int", True)
        if k == "bool":
            return ([], e[1], "bool", True)
        if k == "path":
            path = e[1]
            if len(path) == 1 and path[0] in env:
                return ([], env[path[0]][0], env[path[0]][1], True)
            if len(path) == 1 and path[0] in TABLES2:
                self.fail("table `%s` used without an index" % path[0])
            c = self.const_name(path)
            if c is None:
                self.fail("unknown name `%s`" % "::".join(path))
            return ([], c, "int", True)
        if k == "cast":
            def f(ns, tys):
                if tys[0] == "int":
                    return (ns[0], "int", True)
                if tys[0] == "bool":
                    return ("(if %s then 1 else 0)" % ns[0], "int", True)
                self.fail("cast of a %s" % (tys[0],))
            return self.with_vals([e[1]], env, f)
        if k == "not":
            def f(ns, tys):
                if tys[0] == "bool":
                    return ("(negb %s)" % ns[0], "bool", True)
                if tys[0] == "int":
                    return ("(wnot %s)" % ns[0], "int", True)
                self.fail("`!` of a %s" % (tys[0],))
            return self.with_vals([e[1]], env, f)
        if k == "bin":
            op = e[1]
            if op in ("&&", "||"):
                a, b = self.expr(e[2], env), self.expr(e[3], env)
                self.want(a[2], "bool", "left operand of " + op)
                self.want(b[2], "bool", "right operand of " + op)
                binds = []
                x = self.atom(a, binds)
                if b[3] and not b[0]:
                    return (binds, "(%s %s %s)" % ("andb" if op == "&&" else "orb", x, b[1]), "bool", True)
                # short circuit: the right operand runs only when it is needed
                text = ("(if %s then %s else (Ok false))" if op == "&&" else "(if %s then (Ok true) else %s)") % (x, self.inline(b))
                return (binds, text, "bool", False)

            def f(ns, tys):
                a, b = ns
                if op in ("==", "!=", "<", ">", "<=", ">="):
                    if tys[0] != tys[1] or tys[0] not in ("int", "bool"):
                        self.fail("comparison `%s` of %s and %s" % (op, tys[0], tys[1]))
                    if tys[0] == "bool":
                        if op not in ("==", "!="):
                            self.fail("ordering comparison of booleans")
                        t = "(Bool.eqb %s %s)" % (a, b)
                        return (t if op == "==" else "(negb %s)" % t, "bool", True)
                    t = {"==": "(%s =? %s)", "!=": "(negb (%s =? %s))", "<": "(%s <? %s)", "<=": "(%s <=? %s)",
                         ">": "(%s <? %s)", ">=": "(%s <=? %s)"}[op] % ((b, a) if op in (">", ">=") else (a, b))
                    return (t, "bool", True)
                if op in ("&", "|", "^"):
                    if tys[0] == "bool" and tys[1] == "bool":
                        return ("(%s %s %s)" % ({"&": "andb", "|": "orb", "^": "xorb"}[op], a, b), "bool", True)
                    self.want(tys[0], "int", "left operand of " + op)
                    self.want(tys[1], "int", "right operand of " + op)
                    return ("(%s %s %s)" % ({"&": "N.land", "|": "N.lor", "^": "N.lxor"}[op], a, b), "int", True)
                self.want(tys[0], "int", "left operand of " + op)
                self.want(tys[1], "int", "right operand of " + op)
                fn = {"+": "uadd", "-": "usub", "*": "umul", "/": "udiv", "%": "f2_urem", "<<": "ushl", ">>": "ushr"}[op]
                return ("(%s m %s %s)" % (fn, a, b), "int", False)
            return self.with_vals([e[2], e[3]], env, f)
        if k == "tuple":
            def f(ns, tys):
                return ("(%s)" % ", ".join(ns), ("tuple", tuple(tys)), True)
            return self.with_vals(e[1], env, f)
        if k == "index":
            if e[1][0] != "path" or len(e[1][1]) != 1 or e[1][1][0] not in TABLES2:
                self.fail("indexing of anything but a table of Tables.v")
            tab = TABLES2[e[1][1][0]]

            def f(ns, tys):
                self.want(tys[0], "int", "index")
                return ("(idx %s %s)" % (tab, ns[0]), "int", False)
            return self.with_vals([e[2]], env, f)
        if k == "method":
            recv, nm = e[1], e[2]
            if nm == "len" and recv[0] == "field" and recv[1] == ("path", ["self"]):
                if not self.has_self:
                    self.fail("`self` in a function without a self parameter")
                p = recv[2] + "_len"
                if p in self.idents:
                    self.fail("name clash for the length parameter " + p)
                if p not in self.fieldlens:
                    self.fieldlens.append(p)
                return ([], p, "int", True)
            if nm in INTRINSICS:
                def f(ns, tys):
                    self.want(tys[0], "int", "receiver of " + nm)
                    return ("(%s %s)" % (INTRINSICS[nm], ns[0]), "int", True)
                return self.with_vals([recv], env, f)
            self.fail("unsupported method call `.%s()`" % nm)
        if k == "field":
            self.fail("unsupported field access `.%s`" % e[2])
        if k == "call":
            path, args = e[1], e[2]
            fn = path[-1]
            if len(path) >= 2 and path[-2] == "cmp" and fn in ("min", "max") and len(args) == 2:
                def f(ns, tys):
                    self.want(tys[0], "int", "argument of cmp::" + fn)
                    self.want(tys[1], "int", "argument of cmp::" + fn)
                    return ("(N.%s %s %s)" % (fn, ns[0], ns[1]), "int", True)
                return self.with_vals(args, env, f)
            if len(path) == 1:
                if self.impl_ty:
                    self.fail("call of the unqualified function `%s`" % fn)   # a `use`d name: not resolved here
                qual, f_file = None, self.rel
            elif path[-2] == "Self":
                if not self.impl_ty:
                    self.fail("`Self::` outside an impl")
                qual, f_file = self.impl_ty, self.rel
            else:
                qual, f_file = path[-2], QUAL_FILE.get(path[-2])
            if f_file is None:
                self.fail("call of `%s`: unknown module or type" % "::".join(path))
            key_ty = None if (qual is None or qual[0].islower()) else qual
            target = self.known.get((f_file, key_ty, fn))
            if target is None and f_file == "bits.rs" and key_ty is None and fn in FUN_NAMES:
                target = ("f_" + fn, ["int"] * self.known[("Funs.v", fn)], "int")
            if target is None:
                self.fail("call of `%s`, which is not a translated function" % "::".join(path))
            gname, ptys, rty = target

            def f(ns, tys):
                if list(tys) != list(ptys):
                    self.fail("call of `%s`: argument types %s, expected %s" % ("::".join(path), list(tys), list(ptys)))
                return ("(%s m%s)" % (gname, "".join(" " + n for n in ns)), rty, False)
            return self.with_vals(args, env, f)
        if k == "if":
            return self.value_if(e, env)
        if k == "block":
            return self.value_block(e[1], env)
        self.fail("unsupported expression")

    def value_block(self, blk, env):
        """A block in value position: `let`s of new names and a tail expression."""
        items, tail = blk
        if tail is None:
            self.fail("block in value position without a tail expression")
        env2 = dict(env)
        binds = []
        for it in items:
            if it[0] != "let":
                self.fail("only `let` statements are supported inside a block in value position")
            r, env2, binder = self.let_binding(it, env2, inner=env)
            binds.extend(r[0])
            binds.append((self.monadic(r), binder))
        r = self.expr(tail, env2)
        binds = binds + r[0]
        if items and r[3]:
            # the value may mention names local to the block: fix it before they can be rebound by a sibling block
            x = self.fresh()
            return (binds + [(self.monadic(r), x)], x, r[2], True)
        return (binds, r[1], r[2], r[3])

    def value_if(self, e, env):
        _, c, a, b = e
        if b is None:
            self.fail("`if` without `else` in value position")
        rc = self.expr(c, env)
        self.want(rc[2], "bool", "condition")
        ra, rb = self.value_block(a, env), self.value_block(b, env)
        if ra[2] != rb[2]:
            self.fail("branches of `if` have different types")
        binds = []
        x = self.atom(rc, binds)
        if ra[3] and rb[3] and not ra[0] and not rb[0]:
            return (binds, "(if %s then %s else %s)" % (x, ra[1], rb[1]), ra[2], True)
        # whatever the branches run stays inside the branches
        return (binds, "(if %s then %s else %s)" % (x, self.inline(ra), self.inline(rb)), ra[2], False)

    def let_binding(self, it, env, inner=None):
        """-> (translated initialiser, new env, binder text). `inner`: the env outside the current nested block,
        whose variables must not be shadowed there (the shadowing would leak into the duplicated continuation)."""
        _, pat, mut, ty, e = it
        r = self.expr(e, env)
        if ty is not None and ty != r[2]:
            self.fail("let with type annotation %s but initialiser of type %s" % (ty, r[2]))
        env2 = dict(env)
        names = [pat[1]] if pat[0] == "name" else pat[1]
        tys = [r[2]] if pat[0] == "name" else (list(r[2][1]) if isinstance(r[2], tuple) else None)
        if tys is None or len(tys) != len(names) or len(set(names)) != len(names):
            self.fail("tuple pattern does not match its initialiser")
        for nm, t in zip(names, tys):
            if inner is not None and nm in inner:
                self.fail("`let %s` inside a nested block shadows an outer variable" % nm)
            if nm in self.fieldlens or nm == "self":
                self.fail("unsupported variable name `%s`" % nm)
            env2[nm] = (self.cname(nm), t, mut)
        binder = env2[names[0]][0] if pat[0] == "name" else "'(%s)" % ", ".join(env2[n][0] for n in names)
        return r, env2, binder

    def body(self, blk, env, outer, k, ind):
        """Statements in statement position. k(env, ind) gives the text of what follows the block (None: this block
        ends the function, so it must produce the result). Returns the text of a term of type res <return type>."""
        items, tail = blk

        def result(e, env, pad, what):
            r = self.expr(e, env)
            if r[2] != self.ret:
                self.fail("%s has type %s, the signature says %s" % (what, r[2], self.ret))
            return self.wrap(r[0], pad + self.monadic(r), pad)

        def go(j, env, ind):
            pad = "  " * ind
            if j == len(items):
                if tail is not None:
                    if tail[0] == "if":
                        return self.stmt_if(tail, env, k, ind)
                    if k is not None:
                        self.fail("a block in statement position has a value")
                    return result(tail, env, pad, "result")
                if k is None:
                    self.fail("control reaches the end of the function without a value")
                return k(env, ind)
            it = items[j]
            if it[0] == "let":
                r, env2, binder = self.let_binding(it, env, inner=outer)
                return self.wrap(r[0] + [(self.monadic(r), binder)], go(j + 1, env2, ind), pad)
            if it[0] == "assign":
                _, nm, op, e = it
                if nm not in env:
                    self.fail("assignment to unknown variable `%s`" % nm)
                cn, ty, mut = env[nm]
                if not mut:
                    self.fail("assignment to immutable variable `%s`" % nm)
                r = self.expr(("bin", op, ("path", [nm]), e) if op else e, env)
                if r[2] != ty:
                    self.fail("assignment changes the type of `%s`" % nm)
                return self.wrap(r[0] + [(self.monadic(r), cn)], go(j + 1, env, ind), pad)
            if it[0] == "return":
                return result(it[1], env, pad, "returned value")
            if it[0] == "ifs":
                # variables declared inside the branches are out of scope afterwards: continue with the env before
                return self.stmt_if(it[1], env, lambda env_after, ind2: go(j + 1, env, ind2), ind)
            self.fail("unsupported statement")
        return go(0, env, ind)

    def stmt_if(self, e, env, k, ind):
        """`if` in statement position; what follows it (k) is duplicated into both branches, so that assignments
        and early returns inside the branches need no encoding."""
        _, c, a, b = e
        pad = "  " * ind
        r = self.expr(c, env)
        self.want(r[2], "bool", "condition")
        binds = []
        x = self.atom(r, binds)
        ta = self.body(a, env, env, k, ind + 1)
        if b is None:
            if k is None:
                self.fail("`if` without `else` at the end of the function")
            tb = k(env, ind + 1)
        else:
            tb = self.body(b, env, env, k, ind + 1)
        return self.wrap(binds, "%s(if %s then\n%s\n%selse\n%s)" % (pad, x, ta, pad, tb), pad)

    def translate(self):
        params, self.has_self, self.ret = self.parse_sig()
        blk = self.parse_block_top()
        env = {}
        for pn, ty in params:
            env[pn] = (self.cname(pn), ty, False)
        text = self.body(blk, env, None, None, 1)
        tyname = lambda t: {"int": "N", "bool": "bool"}[t] if not isinstance(t, tuple) else "(%s)" % " * ".join(tyname(x) for x in t[1])
        ps = [(env[pn][0], tyname(ty)) for pn, ty in params] + [(p, "N") for p in self.fieldlens]
        sig = "Definition f2_%s (m : mode)%s : res %s :=\n" % (self.gname, "".join(" (%s : %s)" % p for p in ps), tyname(self.ret))
        ptys = [ty for _, ty in params] + ["int"] * len(self.fieldlens)
        return sig + text + ".\n", ptys, self.ret

    def parse_block_top(self):
        self.t = self.t + ["}"]
        blk = self.parse_block()
        if self.i != len(self.t):
            self.fail("trailing tokens after the body")
        return blk


def gen_funs2(consts):
    s = HEADER % "the straight-line integer functions listed in tools/gen.py (FUNS2)"
    s += "From Coq Require Import NArith Bool.\nRequire Import SDS.Model.Mach SDS.Model.Bits SDS.gen.Consts SDS.gen.Tables SDS.gen.Funs.\nOpen Scope N_scope.\n\n"
    s += "(* usize arithmetic in a build mode, as in Funs.v; `%` by zero panics in every mode, like `/` *)\n"
    s += "Definition f2_urem (m : mode) (a b : N) : res N :=\n  if b =? 0 then Panic POverflow else Ok (a mod b).\n\n"
    known = {}
    bits = read("bits.rs")
    for fn in FUN_NAMES:
        mm = re.search(r"pub fn " + fn + r"\s*\(([^)]*)\)", bits)
        if not mm:
            raise GenError("helper not found: " + fn)
        known[("Funs.v", fn)] = len([p for p in mm.group(1).split(",") if p.strip()])
    for gname, rel, impl_ty, name in FUNS2:
        try:
            sig, body = find_fn(rel, impl_ty, name)
            f = Fn2(gname, rel, impl_ty, name, sig, body, consts, known)
            text, ptys, ret = f.translate()
            src = re.sub(r"\s+", " ", "fn %s%s { %s }" % (name, sig, body.strip())).replace("(*", "( *").replace("*)", "* )")
            s += "(* %s%s:\n   %s *)\n%s\n" % (rel, " impl " + impl_ty if impl_ty else "", src, text)
            known[(rel, impl_ty, name)] = ("f2_" + gname, ptys, ret)
        except GenError as e:
            # left out (see gen_funs): its tie lemma, and only that, no longer builds
            SOFT_ERRORS.append({"file": "Funs2.v", "function": "%s::%s%s" % (rel, impl_ty + "::" if impl_ty else "", name), "source": rel, "msg": str(e)})
            s += "(* %s %s::%s: NOT TRANSLATED (%s) *)\n\n" % (rel, impl_ty, name, str(e).replace("*)", "* )"))
    return s


def fingerprints():
    """sha256 of every fn body in src (comments and whitespace removed), keyed by file::impl header::fn name.
    Informational: check.py widens the correspondence run of a property when a function in its anchor files
    differs from the committed baseline (tools/fingerprints.json)."""
    out = {}
    for root, _, files in os.walk(SRC):
        for fn in sorted(files):
            if not fn.endswith(".rs") or fn == "tests.rs" or "/bin" in root:
                continue
            rel = os.path.relpath(os.path.join(root, fn), SRC)
            text = strip_comments(open(os.path.join(root, fn)).read())
            text = text.split("#[cfg(test)]\nmod tests {")[0]
            # impl / trait block ranges
            blocks = []
            for m in re.finditer(r"^(?:pub\s+)?(?:unsafe\s+)?(impl\b[^{;]*|trait\b[^{;]*)\{", text, re.M):
                i = m.end() - 1
                depth, j = 0, i
                while j < len(text):
                    if text[j] == "{":
                        depth += 1
                    elif text[j] == "}":
                        depth -= 1
                        if depth == 0:
                            break
                    j += 1
                blocks.append((i, j, re.sub(r"\s+", " ", m.group(1)).strip()))
            for m in re.finditer(r"\bfn\s+([A-Za-z_][A-Za-z0-9_]*)\s*[<(]", text):
                k = text.find("{", m.end())
                semi = text.find(";", m.end())
                if k < 0 or (0 <= semi < k):
                    continue
                depth, j = 0, k
                while j < len(text):
                    if text[j] == "{":
                        depth += 1
                    elif text[j] == "}":
                        depth -= 1
                        if depth == 0:
                            break
                    j += 1
                body = re.sub(r"\s+", "", text[m.start():j + 1])
                hdr = ""
                for (a, b, h) in blocks:
                    if a < m.start() < b:
                        hdr = h
                key = "%s::%s::%s" % (rel, hdr, m.group(1))
                n = 2
                base = key
                while key in out:
                    key = "%s#%d" % (base, n)
                    n += 1
                out[key] = hashlib.sha256(body.encode()).hexdigest()[:16]
    return out


GEN_FILES = ["Tables.v", "Consts.v", "Layout.v", "TempName.v", "Funs.v", "Funs2.v", "MmapCfg.v"]


def main():
    os.makedirs(OUT, exist_ok=True)
    report = {"changed": [], "errors": []}
    # Each file is generated on its own. A file that cannot be generated keeps its previous content (STALE: it no
    # longer says what the source says) and is reported in "errors"; check.py turns that into a broken translator for
    # exactly the properties whose cone depends on the file. A single helper of Funs.v / Funs2.v that cannot be
    # translated is left out of the file (also reported, with "function"): what refers to it stops building.
    outputs = {}
    cmap = None
    def attempt(name, thunk):
        try:
            outputs[name] = thunk()
        except GenError as e:
            report["errors"].append({"file": name, "msg": str(e)})
    attempt("Tables.v", lambda: gen_tables()[0])
    try:
        consts, cmap, _ = gen_consts()
        outputs["Consts.v"] = consts
    except GenError as e:
        report["errors"].append({"file": "Consts.v", "msg": str(e)})
    attempt("Layout.v", lambda: gen_layout()[0])
    attempt("TempName.v", lambda: gen_tempname()[0])
    if cmap is not None:
        attempt("Funs.v", lambda: gen_funs(cmap))
        attempt("Funs2.v", lambda: gen_funs2(cmap))
    else:
        report["errors"].append({"file": "Funs.v", "msg": "constants unavailable"})
        report["errors"].append({"file": "Funs2.v", "msg": "constants unavailable"})
    attempt("MmapCfg.v", lambda: gen_mmapcfg())
    report["errors"] += SOFT_ERRORS
    for name in GEN_FILES:
        if name in outputs:
            if write_if_changed(os.path.join(OUT, name), outputs[name]):
                report["changed"].append(name)
        elif not os.path.exists(os.path.join(OUT, name)):
            print("GEN-ERROR: %s cannot be generated and no earlier version exists: %s" % (name, report["errors"]))
            sys.exit(2)
    h = hashlib.sha256()
    for name in GEN_FILES:
        with open(os.path.join(OUT, name), "rb") as f:
            h.update(f.read())
    report["sha256"] = h.hexdigest()
    fp = fingerprints()
    base_path = os.path.join(os.path.dirname(os.path.abspath(__file__)), "fingerprints.json")
    if "--write-baseline" in sys.argv:
        with open(base_path, "w") as f:
            json.dump(fp, f, indent=0, sort_keys=True)
        # the generated model files of the baseline source: check.py falls back to them to SEARCH for a failing
        # input when the files generated from a changed source no longer build (never to accept anything)
        bdir = os.path.join(os.path.dirname(os.path.abspath(__file__)), "gen.baseline")
        os.makedirs(bdir, exist_ok=True)
        for name in GEN_FILES:
            shutil.copy(os.path.join(OUT, name), os.path.join(bdir, name))
    changed = []
    if os.path.exists(base_path):
        base = json.load(open(base_path))
        changed = sorted(k for k in set(fp) | set(base) if fp.get(k) != base.get(k))
    report["changed_functions"] = changed
    print(json.dumps(report))


if __name__ == "__main__":
    main()
