#!/usr/bin/env python3
"""Translator: /repo/src -> /verif/coq/gen/*.v (run on every check).

Regenerates, from the *current* Rust sources:
  gen/Tables.v    LOW_SET, HIGH_SET, _PS_OVERFLOW, _SELECT_IN_BYTE as list N
  gen/Consts.v    every numeric constant the models use, the literals of the portable select,
                  the int-vector conversion width table
  gen/Layout.v    per `impl Serialize for T`: ordered field lists of serialize_header,
                  serialize_body, load and size_in_elements
  gen/TempName.v  the atomic operations performed on TEMP_FILE_COUNTER by temp_file_name,
                  and the pieces of the name format
  gen/Funs.v      Gallina translations of the one-expression arithmetic helpers in bits.rs

The extractor is deliberately dumb (regex over items whose shape is stable in this crate) and
fails closed: anything it cannot find raises, and the caller reports a broken tie.
Files are rewritten only when their content changes so that `make` stays incremental.
"""
import hashlib, shutil
import json
import os
import re
import sys

_args = [a for a in sys.argv[1:] if not a.startswith("--")]
SRC = _args[0] if len(_args) > 0 else "/repo/src"
OUT = _args[1] if len(_args) > 1 else os.path.join(os.path.dirname(os.path.abspath(__file__)), "..", "coq", "gen")


class GenError(Exception):
    pass


def read(rel):
    with open(os.path.join(SRC, rel)) as f:
        return f.read()


def strip_comments(s):
    s = re.sub(r"//[^\n]*", "", s)
    return s


# ----------------------------------------------------------------------------
# tiny integer expression evaluator (no eval): + - * / << >> | & ( ) literals, names
# ----------------------------------------------------------------------------

TOK = re.compile(r"\s*(0x[0-9A-Fa-f_]+|0b[01_]+|[0-9][0-9_]*|[A-Za-z_][A-Za-z0-9_:]*|<<|>>|[-+*/()|&])")


def tokenize(s):
    pos, out = 0, []
    s = s.strip()
    while pos < len(s):
        m = TOK.match(s, pos)
        if not m:
            raise GenError("cannot tokenize const expr: %r at %d" % (s, pos))
        out.append(m.group(1))
        pos = m.end()
    return out


def parse_int(tok):
    t = tok.replace("_", "")
    t = re.sub(r"(u64|usize|u8|u16|u32)$", "", t)
    if t.startswith("0x"):
        return int(t, 16)
    if t.startswith("0b"):
        return int(t, 2)
    return int(t)


class Ev:
    PREC = [["|"], ["&"], ["<<", ">>"], ["+", "-"], ["*", "/"]]

    def __init__(self, toks, env):
        self.t, self.i, self.env = toks, 0, env

    def peek(self):
        return self.t[self.i] if self.i < len(self.t) else None

    def eat(self):
        x = self.t[self.i]
        self.i += 1
        return x

    def expr(self, lvl=0):
        if lvl == len(self.PREC):
            return self.atom()
        v = self.expr(lvl + 1)
        while self.peek() in self.PREC[lvl]:
            op = self.eat()
            w = self.expr(lvl + 1)
            v = {"|": lambda a, b: a | b, "&": lambda a, b: a & b, "<<": lambda a, b: a << b,
                 ">>": lambda a, b: a >> b, "+": lambda a, b: a + b, "-": lambda a, b: a - b,
                 "*": lambda a, b: a * b, "/": lambda a, b: a // b}[op](v, w)
        return v

    def atom(self):
        t = self.eat()
        if t == "(":
            v = self.expr()
            if self.eat() != ")":
                raise GenError("unbalanced parens")
            return v
        if re.match(r"[0-9]", t):
            return parse_int(t)
        name = t.split("::")[-1]
        if name in self.env:
            return self.env[name]
        raise GenError("unknown name in const expr: " + t)


def eval_const(expr, env):
    e = Ev(tokenize(expr), env)
    v = e.expr()
    if e.i != len(e.t):
        raise GenError("trailing tokens in const expr " + expr)
    return v


def consts_of(text, prefix, env0=None):
    """All `const NAME: ty = expr;` with a scalar type, in order."""
    env = dict(env0 or {})
    out = []
    for m in re.finditer(r"\bconst\s+([A-Z_][A-Z0-9_]*)\s*:\s*(usize|u64|u8|u16|u32)\s*=\s*([^;]+);", text):
        name, expr = m.group(1), m.group(3)
        v = eval_const(expr, env)
        env[name] = v
        out.append((prefix + name, v))
    return out, env


def table_of(text, name, n):
    m = re.search(r"const\s+" + re.escape(name) + r"\s*:\s*\[\s*(u64|u8)\s*;\s*(\d+)\s*\]\s*=\s*\[(.*?)\];", text, re.S)
    if not m:
        raise GenError("table %s not found" % name)
    if int(m.group(2)) != n:
        raise GenError("table %s has declared size %s, expected %d" % (name, m.group(2), n))
    body = strip_comments(m.group(3))
    vals = [parse_int(x) for x in re.findall(r"0x[0-9A-Fa-f_]+|\d+", body)]
    if len(vals) != n:
        raise GenError("table %s has %d entries, expected %d" % (name, len(vals), n))
    return vals


def fn_body(text, sig_regex):
    """Body (between the outermost braces) of the first fn whose signature matches."""
    m = re.search(sig_regex, text)
    if not m:
        raise GenError("fn not found: " + sig_regex)
    i = text.index("{", m.end() - 1 if text[m.end() - 1] == "{" else m.end())
    depth, j = 0, i
    while True:
        c = text[j]
        if c == "{":
            depth += 1
        elif c == "}":
            depth -= 1
            if depth == 0:
                break
        j += 1
    return text[i + 1:j]


def coq_list(vals, per_line=8):
    lines = []
    for k in range(0, len(vals), per_line):
        lines.append("  " + "; ".join(str(v) for v in vals[k:k + per_line]))
    return "[\n" + ";\n".join(lines) + "\n]"


def write_if_changed(path, content):
    old = None
    if os.path.exists(path):
        with open(path) as f:
            old = f.read()
    if old != content:
        with open(path, "w") as f:
            f.write(content)
        return True
    return False


HEADER = "(* GENERATED by tools/gen.py from %s -- do not edit; regenerated on every check *)\n"

# ----------------------------------------------------------------------------


def gen_tables():
    bits = read("bits.rs")
    t = {
        "LOW_SET": table_of(bits, "LOW_SET", 65),
        "HIGH_SET": table_of(bits, "HIGH_SET", 65),
        "PS_OVERFLOW": table_of(bits, "_PS_OVERFLOW", 65),
        "SELECT_IN_BYTE": table_of(bits, "_SELECT_IN_BYTE", 2048),
    }
    s = HEADER % "src/bits.rs"
    s += "From Coq Require Import NArith List.\nImport ListNotations.\nOpen Scope N_scope.\n\n"
    for k, v in t.items():
        s += "Definition %s : list N := %s.\n\n" % (k, coq_list(v, 8 if k != "SELECT_IN_BYTE" else 16))
    return s, t


def gen_consts():
    out = []
    bits = read("bits.rs")
    c, env_bits = consts_of(bits, "bits_")
    out += c
    rs = read("bit_vector/rank_support.rs")
    c, _ = consts_of(rs.split("#[cfg(test)]")[0], "rank_", env_bits)
    out += c
    ss = read("bit_vector/select_support.rs")
    c, _ = consts_of(ss.split("#[cfg(test)]")[0], "select_", env_bits)
    out += c
    sv = read("sparse_vector.rs")
    c, _ = consts_of(sv, "sparse_", env_bits)
    out += c
    rl = read("rl_vector.rs")
    c, env_rl = consts_of(rl, "rl_", env_bits)
    out += c
    idx = read("rl_vector/index.rs")
    c, _ = consts_of(idx.split("#[cfg(test)]")[0], "index_", env_bits)
    out += c
    rv = read("raw_vector.rs")
    c, _ = consts_of(rv, "writer_", env_bits)
    out += c
    names = [n for n, _ in out]
    required = ["bits_WORD_BYTES", "bits_WORD_BITS", "bits_INDEX_SHIFT", "bits_OFFSET_MASK",
                "rank_BLOCK_SIZE", "rank_RELATIVE_RANK_BITS", "rank_RELATIVE_RANK_MASK", "rank_WORDS_PER_BLOCK",
                "rank_WORD_MASK", "select_SUPERBLOCK_SIZE", "select_SUPERBLOCK_MASK", "select_BLOCKS_IN_SUPERBLOCK",
                "select_BLOCK_SIZE", "select_BLOCK_MASK", "sparse_BINARY_SEARCH_THRESHOLD", "rl_CODE_SIZE",
                "rl_CODE_SHIFT", "rl_CODE_FLAG", "rl_CODE_MASK", "rl_BLOCK_SIZE", "index_RATIO",
                "writer_DEFAULT_BUFFER_SIZE"]
    for r in required:
        if r not in names:
            raise GenError("required constant not found: " + r)

    # portable select literals, in order of appearance in the non-BMI2 block
    sel = fn_body(bits, r"pub unsafe fn select\s*\(")
    m = re.search(r"#\[cfg\(not\(all\(target_arch = \"x86_64\", target_feature = \"bmi2\"\)\)\)\]\s*\{", sel)
    if not m:
        raise GenError("portable select block not found")
    portable = strip_comments(sel[m.end():])
    lits = [parse_int(x) for x in re.findall(r"0x[0-9A-Fa-f_]+", portable)]
    pdep = strip_comments(sel[:m.start()])
    if "_pdep_u64(1u64 << rank, n)" not in pdep or "trailing_zeros()" not in pdep:
        raise GenError("PDEP select block changed shape")

    # int vector conversion widths
    iv = read("int_vector.rs")
    widths = re.findall(r"from_extend_int_vector!\((\w+),\s*(\d+)\);", iv)
    if not widths:
        raise GenError("int vector width table not found")
    bitsof = {"u8": 8, "u16": 16, "u32": 32, "u64": 64, "usize": 64}

    # rank_support: the arithmetic shape of the build loop / query (literal text, normalised)
    s = HEADER % "src/**/*.rs"
    s += "From Coq Require Import NArith List.\nImport ListNotations.\nOpen Scope N_scope.\n\n"
    for n, v in out:
        s += "Definition %s : N := %d.\n" % (n, v)
    s += "\n(* hex literals of the portable (non-BMI2) branch of bits::select, in source order *)\n"
    s += "Definition select_portable_literals : list N := %s.\n" % coq_list(lits, 4)
    s += "\n(* (declared width, bit size of the source type) per from_extend_int_vector! line *)\n"
    s += "Definition int_vector_widths : list (N * N) := [%s].\n" % "; ".join("(%s, %d)" % (w, bitsof[t]) for t, w in widths)
    return s, dict(out), lits


SER_CALL = re.compile(r"(?:self\.)?([A-Za-z_][A-Za-z0-9_\.]*?)\.(serialize|serialize_header|serialize_body)\(writer\)")


def gen_layout():
    files = ["serialize.rs", "raw_vector.rs", "int_vector.rs", "bit_vector.rs", "bit_vector/rank_support.rs",
             "bit_vector/select_support.rs", "sparse_vector.rs", "rl_vector.rs", "wavelet_matrix.rs",
             "wavelet_matrix/wm_core.rs"]
    layouts = {}
    for f in files:
        text = strip_comments(read(f))
        for m in re.finditer(r"impl(?:<[^>]*>)?\s+Serialize\s+for\s+([A-Za-z_][A-Za-z0-9_<>, ]*?)\s*\{", text):
            ty = m.group(1).strip()
            # impl block
            i = m.end() - 1
            depth, j = 0, i
            while True:
                c = text[j]
                if c == "{":
                    depth += 1
                elif c == "}":
                    depth -= 1
                    if depth == 0:
                        break
                j += 1
            block = strip_comments(text[i:j])
            ent = {}
            for fn in ["serialize_header", "serialize_body", "load", "size_in_elements"]:
                try:
                    body = fn_body(block, r"fn\s+" + fn + r"\s*(?:<[^>]*>)?\s*\(")
                except GenError:
                    raise GenError("impl Serialize for %s lacks %s" % (ty, fn))
                if fn in ("serialize_header", "serialize_body"):
                    calls = []
                    for c in SER_CALL.finditer(body):
                        calls.append(c.group(1).replace("self.", "") + ":" + c.group(2))
                    for c in re.finditer(r"write_all\(([^)]*)\)", body):
                        calls.append("write_all:" + re.sub(r"\s+", "", c.group(1)))
                    ent[fn] = calls
                elif fn == "load":
                    calls = re.findall(r"(?:let\s+(?:mut\s+)?(\w+)\s*=\s*)?([A-Za-z_<>:, \(\)0-9]*?)::load\(reader\)", body)
                    ent[fn] = ["%s=%s" % (a or "_", re.sub(r"[\s]", "", b).replace("<", "(").replace(">", ")").replace("::", ".")) for a, b in calls]
                    ent[fn] += ["read_exact:" + re.sub(r"\s+", "", c) for c in re.findall(r"read_exact\(([^)]*)\)", body)]
                    ent["load_checks"] = [re.sub(r"\s+", " ", c.strip()) for c in re.findall(r"\bif\s+([^{]*?)\s*\{\s*(?:return\s+)?Err", body)]
                else:
                    ent[fn] = [re.sub(r"\s+", "", x) for x in re.findall(r"(?:self\.)?([A-Za-z_\.]+)\.size_in_elements\(\)", body)]
                    lit = re.findall(r"(?:let mut result\s*=\s*|^\s*)(\d+)\s*(?:;|\+)", body, re.M)
                    ent[fn] = lit + ent[fn]
            key = re.sub(r"[^A-Za-z0-9]", "_", ty).strip("_")
            key = re.sub(r"_+", "_", key)
            layouts[key] = ent
    need = ["V", "Vec_V", "Vec_u8", "String", "Option_V", "RawVector", "IntVector", "BitVector", "RankSupport",
            "SelectSupport_T", "SparseVector", "RLVector", "WaveletMatrix", "WMCore"]
    for n in need:
        if n not in layouts:
            raise GenError("Serialize impl not found: %s (have %s)" % (n, sorted(layouts)))
    s = HEADER % "every `impl Serialize`"
    s += "From Coq Require Import String List.\nImport ListNotations.\nOpen Scope string_scope.\n\n"
    s += "(* one record per impl: the ordered calls of serialize_header / serialize_body / load / size_in_elements *)\n"
    for k in sorted(layouts):
        e = layouts[k]
        for fn in ["serialize_header", "serialize_body", "load", "load_checks", "size_in_elements"]:
            s += "Definition layout_%s_%s : list string := [%s].\n" % (k, fn, "; ".join('"%s"' % x.replace('"', "'") for x in e[fn]))
        s += "\n"
    return s, layouts


def gen_tempname():
    ser = read("serialize.rs")
    body = strip_comments(fn_body(ser, r"pub fn temp_file_name\s*\("))
    ops = []
    for m in re.finditer(r"TEMP_FILE_COUNTER\s*\.\s*(\w+)\s*\(([^)]*)\)", body):
        op, args = m.group(1), m.group(2)
        if op == "fetch_add":
            a = args.split(",")[0].strip()
            ops.append("Rmw_add %d" % parse_int(a))
        elif op == "load":
            ops.append("Load")
        elif op == "store":
            ops.append("Store_plus 1" if "+ 1" in args or "+1" in args else "Store_other")
        elif op in ("fetch_sub", "swap", "compare_exchange", "compare_exchange_weak", "fetch_update", "fetch_or", "fetch_and", "fetch_max"):
            ops.append("Other_op")
        else:
            ops.append("Other_op")
    if not ops:
        raise GenError("no atomic operation on TEMP_FILE_COUNTER found in temp_file_name")
    decl = re.search(r"static\s+TEMP_FILE_COUNTER\s*:\s*(\w+)\s*=\s*(\w+)::new\((\d+)\)", ser)
    if not decl:
        raise GenError("TEMP_FILE_COUNTER declaration not found")
    fm = re.search(r'format!\("([^"]*)"\s*,\s*([^)]*\)?[^)]*)\)', body)
    if not fm:
        raise GenError("name format not found")
    fmt = fm.group(1)
    args = [a.strip() for a in re.split(r",\s*(?![^()]*\))", fm.group(2))]
    pieces = []
    ai = 0
    for part in re.split(r"(\{\})", fmt):
        if part == "{}":
            a = args[ai]
            ai += 1
            if a == "name_part":
                pieces.append("PName")
            elif a == "process::id()":
                pieces.append("PPid")
            elif a == "count":
                pieces.append("PCount")
            else:
                pieces.append("POther")
        elif part:
            pieces.append('PLit "%s"' % part)
    which = re.search(r"let\s+count\s*=\s*TEMP_FILE_COUNTER\s*\.\s*(\w+)", body)
    s = HEADER % "src/serialize.rs::temp_file_name"
    s += "From Coq Require Import NArith String List.\nImport ListNotations.\nOpen Scope N_scope.\n\n"
    s += "Inductive atomic_op := Rmw_add (k : N) | Load | Store_plus (k : N) | Store_other | Other_op.\n"
    s += "Inductive name_piece := PName | PPid | PCount | POther | PLit (s : string).\n\n"
    s += "(* operations performed on TEMP_FILE_COUNTER by one call, in program order *)\n"
    s += "Definition temp_counter_ops : list atomic_op := [%s].\n" % "; ".join(ops)
    s += "Definition temp_counter_init : N := %s.\n" % decl.group(3)
    bits = {"AtomicUsize": 64, "AtomicU64": 64, "AtomicU32": 32, "AtomicU16": 16, "AtomicU8": 8,
            "AtomicIsize": 63, "AtomicI64": 63, "AtomicI32": 31, "AtomicI16": 15, "AtomicI8": 7}.get(decl.group(1))
    if bits is None or decl.group(1) != decl.group(2):
        raise GenError("unrecognised type of TEMP_FILE_COUNTER: %s / %s" % (decl.group(1), decl.group(2)))
    s += "(* number of distinct values the counter type %s can take before it wraps: 2^bits *)\n" % decl.group(1)
    s += "Definition temp_counter_bits : N := %d.\n" % bits
    s += "(* the value bound to `count` is the result of this operation *)\n"
    s += 'Definition temp_count_from : string := "%s".\n' % (which.group(1) if which else "?")
    s += "Definition temp_name_format : list name_piece := [%s].\n" % "; ".join(pieces)
    # every other mention of the counter anywhere in the crate (code only, tests excluded): the uniqueness theorems
    # are about calls that ALL run the program above, so nothing else may touch the counter
    total = 0
    for root, _, files in os.walk(SRC):
        for fn in files:
            if fn.endswith(".rs") and fn != "tests.rs":
                text = strip_comments(open(os.path.join(root, fn)).read()).split("#[cfg(test)]\nmod tests {")[0]
                total += len(re.findall(r"\bTEMP_FILE_COUNTER\b", text))
    inside = len(re.findall(r"\bTEMP_FILE_COUNTER\b", body))
    s += "(* mentions of TEMP_FILE_COUNTER outside its declaration and outside temp_file_name *)\n"
    s += "Definition temp_counter_foreign_uses : N := %d.\n" % (total - inside - 1)
    return s, ops



def gen_mmapcfg():
    """What MemoryMap::new compares the mmap result with, and which length Drop passes to munmap."""
    ser = strip_comments(read("serialize.rs"))
    m = re.search(r"let\s+ptr\s*=\s*unsafe\s*\{\s*libc::mmap\([^;]*;\s*if\s+([^{]*?)\s*\{", ser, re.S)
    if not m:
        raise GenError("mmap failure test not found in MemoryMap::new")
    cond = re.sub(r"\s+", "", m.group(1))
    if cond in ("ptr==libc::MAP_FAILED", "libc::MAP_FAILED==ptr"):
        cmpk = "CmpMapFailed"
    elif cond in ("ptr.is_null()", "ptr==ptr::null_mut()"):
        cmpk = "CmpNull"
    else:
        raise GenError("unrecognised mmap failure test: " + cond)
    m = re.search(r"libc::munmap\(\s*self\.ptr\.cast::<libc::c_void>\(\)\s*,\s*([^;]*?)\)\s*;", ser, re.S)
    if not m:
        raise GenError("munmap call not found in Drop for MemoryMap")
    arg = re.sub(r"\s+", "", m.group(1))
    if arg in ("bits::words_to_bytes(self.len)", "self.len*8", "self.len*bits::WORD_BYTES", "8*self.len"):
        unm = "UnmapBytes"
    elif arg == "self.len":
        unm = "UnmapElements"
    else:
        raise GenError("unrecognised munmap length: " + arg)
    s = HEADER % "src/serialize.rs (MemoryMap::new, Drop for MemoryMap)"
    s += "(* failure test of MemoryMap::new: `%s`; munmap length in Drop: `%s` *)\n" % (cond, arg)
    s += "Inductive cmp_kind := CmpNull | CmpMapFailed.\nInductive unmap_kind := UnmapElements | UnmapBytes.\n\n"
    s += "Definition cur_cmp : cmp_kind := %s.\nDefinition cur_unmap : unmap_kind := %s.\n" % (cmpk, unm)
    return s


# ----------------------------------------------------------------------------
# Funs.v: Gallina for the one-expression helpers of bits.rs (checked arithmetic in a mode)
# ----------------------------------------------------------------------------

FUN_NAMES = ["words_to_bytes", "bytes_to_words", "round_up_to_word_bytes", "words_to_bits", "bits_to_words",
             "round_up_to_word_bits", "div_round_up", "bit_offset"]


class RustExpr:
    """Recursive-descent parser for `a + B - 1`-style bodies -> monadic Gallina term."""
    PREC = [["+", "-"], ["*", "/"], ["<<", ">>"]]

    def __init__(self, toks):
        self.t, self.i = toks, 0
        self.tmp = 0

    def peek(self):
        return self.t[self.i] if self.i < len(self.t) else None

    def eat(self):
        x = self.t[self.i]
        self.i += 1
        return x

    # Rust precedence: * / bind tighter than + -, which bind tighter than << >>
    def expr(self):
        return self.shift()

    def shift(self):
        v = self.addsub()
        while self.peek() in ("<<", ">>"):
            op = self.eat()
            w = self.addsub()
            v = ("bin", op, v, w)
        return v

    def addsub(self):
        v = self.muldiv()
        while self.peek() in ("+", "-"):
            op = self.eat()
            w = self.muldiv()
            v = ("bin", op, v, w)
        return v

    def muldiv(self):
        v = self.atom()
        while self.peek() in ("*", "/"):
            op = self.eat()
            w = self.atom()
            v = ("bin", op, v, w)
        return v

    def atom(self):
        t = self.eat()
        if t == "(":
            v = self.expr()
            if self.eat() != ")":
                raise GenError("unbalanced")
            return v
        if re.match(r"[0-9]", t):
            return ("lit", parse_int(t))
        if self.peek() == "(":
            self.eat()
            arg = self.expr()
            if self.eat() != ")":
                raise GenError("call with != 1 arg")
            return ("call", t, arg)
        return ("var", t)


def to_gallina(e, consts):
    opname = {"+": "uadd", "-": "usub", "*": "umul", "/": "udiv", "<<": "ushl", ">>": "ushr"}
    k = e[0]
    if k == "lit":
        return "(Ok %d)" % e[1]
    if k == "var":
        n = e[1]
        if n in consts:
            return "(Ok bits_%s)" % n
        return "(Ok %s)" % n
    if k == "call":
        return "(bind %s (fun x => f_%s m x))" % (to_gallina(e[2], consts), e[1])
    if k == "bin":
        return "(bind %s (fun a => bind %s (fun b => %s m a b)))" % (to_gallina(e[2], consts), to_gallina(e[3], consts), opname[e[1]])
    raise GenError("bad expr")


def gen_funs(consts):
    bits = read("bits.rs")
    bitconsts = set(n[len("bits_"):] for n in consts if n.startswith("bits_"))
    s = HEADER % "src/bits.rs (one-expression helpers)"
    s += "From Coq Require Import NArith.\nRequire Import SDS.Model.Mach SDS.gen.Consts.\nOpen Scope N_scope.\n\n"
    s += "(* usize arithmetic in a build mode: Debug = overflow checks on (panic), Release = wrap mod 2^64 *)\n"
    for fn in FUN_NAMES:
        m = re.search(r"pub fn " + fn + r"\s*\(([^)]*)\)\s*->\s*usize\s*\{", bits)
        if not m:
            raise GenError("helper not found: " + fn)
        params = [p.split(":")[0].strip() for p in m.group(1).split(",")]
        body = strip_comments(fn_body(bits, r"pub fn " + fn + r"\s*\(")).strip()
        if ";" in body:
            raise GenError("helper %s is no longer a single expression" % fn)
        p = RustExpr(tokenize(body))
        e = p.expr()
        if p.i != len(p.t):
            raise GenError("helper %s: trailing tokens" % fn)
        s += "(* %s *)\n" % re.sub(r"\s+", " ", body)
        s += "Definition f_%s (m : mode) %s : res N :=\n  %s.\n\n" % (fn, " ".join("(%s : N)" % x for x in params), to_gallina(e, bitconsts))
    return s



def fingerprints():
    """sha256 of every fn body in src (comments and whitespace removed), keyed by file::impl header::fn name.
    Informational: check.py widens the correspondence run of a property when a function in its anchor files
    differs from the committed baseline (tools/fingerprints.json)."""
    out = {}
    for root, _, files in os.walk(SRC):
        for fn in sorted(files):
            if not fn.endswith(".rs") or fn == "tests.rs" or "/bin" in root:
                continue
            rel = os.path.relpath(os.path.join(root, fn), SRC)
            text = strip_comments(open(os.path.join(root, fn)).read())
            text = text.split("#[cfg(test)]\nmod tests {")[0]
            # impl / trait block ranges
            blocks = []
            for m in re.finditer(r"^(?:pub\s+)?(?:unsafe\s+)?(impl\b[^{;]*|trait\b[^{;]*)\{", text, re.M):
                i = m.end() - 1
                depth, j = 0, i
                while j < len(text):
                    if text[j] == "{":
                        depth += 1
                    elif text[j] == "}":
                        depth -= 1
                        if depth == 0:
                            break
                    j += 1
                blocks.append((i, j, re.sub(r"\s+", " ", m.group(1)).strip()))
            for m in re.finditer(r"\bfn\s+([A-Za-z_][A-Za-z0-9_]*)\s*[<(]", text):
                k = text.find("{", m.end())
                semi = text.find(";", m.end())
                if k < 0 or (0 <= semi < k):
                    continue
                depth, j = 0, k
                while j < len(text):
                    if text[j] == "{":
                        depth += 1
                    elif text[j] == "}":
                        depth -= 1
                        if depth == 0:
                            break
                    j += 1
                body = re.sub(r"\s+", "", text[m.start():j + 1])
                hdr = ""
                for (a, b, h) in blocks:
                    if a < m.start() < b:
                        hdr = h
                key = "%s::%s::%s" % (rel, hdr, m.group(1))
                n = 2
                base = key
                while key in out:
                    key = "%s#%d" % (base, n)
                    n += 1
                out[key] = hashlib.sha256(body.encode()).hexdigest()[:16]
    return out


def main():
    os.makedirs(OUT, exist_ok=True)
    report = {"changed": [], "errors": []}
    try:
        tables, _ = gen_tables()
        consts, cmap, _ = gen_consts()
        layout, _ = gen_layout()
        tempname, _ = gen_tempname()
        funs = gen_funs(cmap)
        mmapcfg = gen_mmapcfg()
    except GenError as e:
        print("GEN-ERROR: %s" % e)
        sys.exit(2)
    for name, content in [("Tables.v", tables), ("Consts.v", consts), ("Layout.v", layout), ("TempName.v", tempname), ("Funs.v", funs), ("MmapCfg.v", mmapcfg)]:
        if write_if_changed(os.path.join(OUT, name), content):
            report["changed"].append(name)
    h = hashlib.sha256()
    for name in ["Tables.v", "Consts.v", "Layout.v", "TempName.v", "Funs.v", "MmapCfg.v"]:
        with open(os.path.join(OUT, name), "rb") as f:
            h.update(f.read())
    report["sha256"] = h.hexdigest()
    fp = fingerprints()
    base_path = os.path.join(os.path.dirname(os.path.abspath(__file__)), "fingerprints.json")
    if "--write-baseline" in sys.argv:
        with open(base_path, "w") as f:
            json.dump(fp, f, indent=0, sort_keys=True)
        # the generated model files of the baseline source: check.py falls back to them to SEARCH for a failing
        # input when the files generated from a changed source no longer build (never to accept anything)
        bdir = os.path.join(os.path.dirname(os.path.abspath(__file__)), "gen.baseline")
        os.makedirs(bdir, exist_ok=True)
        for name in ["Tables.v", "Consts.v", "Layout.v", "TempName.v", "Funs.v", "MmapCfg.v"]:
            shutil.copy(os.path.join(OUT, name), os.path.join(bdir, name))
    changed = []
    if os.path.exists(base_path):
        base = json.load(open(base_path))
        changed = sorted(k for k in set(fp) | set(base) if fp.get(k) != base.get(k))
    report["changed_functions"] = changed
    print(json.dumps(report))


if __name__ == "__main__":
    main()
