(* Specification of the byte streams the serialization layer talks to (std::io::Read / Write by their
   documented contracts), of little-endian 8-byte elements, and of String::from_utf8.
   A byte is an N below 256. A reader is the list of bytes not yet consumed. Results of I/O are values:
   IoOk, IoErr kind, or IoPanic (a loader that panics instead of returning; the theorems exclude it).
   Uses only the machine layer (Model/Mach.v: panic kinds, res); independent of gen/ and of the models. *)
From Coq Require Import NArith List Bool Lia ZArith.
Require Import SDS.Model.Mach.
Import ListNotations.
Open Scope N_scope.
Require Import ZifyBool ZifyN ZifyNat.
Ltac Zify.zify_post_hook ::= Z.div_mod_to_equations.

Definition byte := N.
Definition bytes_ok (l : list byte) : Prop := Forall (fun b => b < 256) l.

(* std::io::ErrorKind, as far as this crate can observe it *)
Inductive ekind := UnexpectedEof | InvalidData | WriteZero | OtherErr.

Inductive io (A : Type) :=
| IoOk (a : A)
| IoErr (e : ekind)
| IoPanic (k : pkind).
Arguments IoOk {A} a.
Arguments IoErr {A} e.
Arguments IoPanic {A} k.

Definition iobind {A B} (r : io A) (f : A -> io B) : io B :=
  match r with IoOk a => f a | IoErr e => IoErr e | IoPanic k => IoPanic k end.
Notation "'let+' x := e 'in' k" := (iobind e (fun x => k)) (at level 200, x pattern, e at level 100, k at level 200).

(* arithmetic of the machine layer inside a loader: a panic stays a panic *)
Definition io_of_res {A} (r : res A) : io A :=
  match r with Ok a => IoOk a | Panic k => IoPanic k | OOB _ => IoPanic PDoc end.

Definition is_err {A} (r : io A) : bool := match r with IoErr _ => true | _ => false end.

(* ------------------------------------------------------------------ Read *)

(* Read::read_exact(buf) with |buf| = n: fills the buffer or fails with UnexpectedEof (std's contract);
   the comparison comes first, so n may be any 64-bit value *)
Definition read_exact (n : N) (s : list byte) : io (list byte * list byte) :=
  if n <=? lenN s then IoOk (firstn (N.to_nat n) s, skipn (N.to_nat n) s) else IoErr UnexpectedEof.

(* ------------------------------------------------------------------ Write *)

(* a sink that accepts [sk_room] more bytes and then fails every write with [sk_err]
   (WriteZero for a full `&mut [u8]`, the sink's own error otherwise) *)
Record sink := mksink { sk_out : list byte; sk_room : N; sk_err : ekind }.

(* Write::write_all: all of the buffer, or what fits followed by the sink's error *)
Definition write_all (bs : list byte) (w : sink) : sink * io unit :=
  if lenN bs <=? sk_room w then (mksink (sk_out w ++ bs) (sk_room w - lenN bs) (sk_err w), IoOk tt)
  else (mksink (sk_out w ++ firstn (N.to_nat (sk_room w)) bs) 0 (sk_err w), IoErr (sk_err w)).

(* a serializer is a sequence of write_all calls chained with `?` *)
Fixpoint write_seq (chunks : list (list byte)) (w : sink) : sink * io unit :=
  match chunks with
  | [] => (w, IoOk tt)
  | c :: t => match write_all c w with
              | (w', IoOk _) => write_seq t w'
              | r => r
              end
  end.

(* ------------------------------------------------------------------ elements *)

Fixpoint le_bytes (k : nat) (x : N) : list byte :=
  match k with O => [] | S k' => x mod 256 :: le_bytes k' (x / 256) end.
(* u64::to_le_bytes *)
Definition le64 (x : N) : list byte := le_bytes 8 x.
(* u64::from_le_bytes *)
Fixpoint le_val (l : list byte) : N :=
  match l with [] => 0 | b :: t => b + 256 * le_val t end.

(* ------------------------------------------------------------------ String::from_utf8 *)

Definition in_rng (lo hi b : N) : bool := (lo <=? b) && (b <=? hi).
Definition cont (b : N) : bool := in_rng 128 191 b.

(* well-formed UTF-8 byte sequences (Unicode 15, table 3-7): shortest form, no surrogates, <= U+10FFFF *)
Fixpoint utf8_valid (l : list byte) : bool :=
  match l with
  | [] => true
  | b0 :: t0 =>
      if b0 <=? 127 then utf8_valid t0
      else match t0 with
      | [] => false
      | b1 :: t1 =>
          if in_rng 194 223 b0 then cont b1 && utf8_valid t1
          else match t1 with
          | [] => false
          | b2 :: t2 =>
              if b0 =? 224 then in_rng 160 191 b1 && cont b2 && utf8_valid t2
              else if in_rng 225 236 b0 || in_rng 238 239 b0 then cont b1 && cont b2 && utf8_valid t2
              else if b0 =? 237 then in_rng 128 159 b1 && cont b2 && utf8_valid t2
              else match t2 with
              | [] => false
              | b3 :: t3 =>
                  if b0 =? 240 then in_rng 144 191 b1 && cont b2 && cont b3 && utf8_valid t3
                  else if in_rng 241 243 b0 then cont b1 && cont b2 && cont b3 && utf8_valid t3
                  else if b0 =? 244 then in_rng 128 143 b1 && cont b2 && cont b3 && utf8_valid t3
                  else false
              end
          end
      end
  end.

(* ------------------------------------------------------------------ lemmas about the specification itself *)

Arguments N.add : simpl never. Arguments N.sub : simpl never. Arguments N.mul : simpl never.
Arguments N.div : simpl never. Arguments N.modulo : simpl never. Arguments N.pow : simpl never.
Arguments N.leb : simpl never. Arguments N.ltb : simpl never. Arguments N.eqb : simpl never.

Lemma lenN_app {A} (a b : list A) : lenN (a ++ b) = lenN a + lenN b.
Proof. unfold lenN. rewrite app_length. lia. Qed.
Lemma lenN_nil {A} : lenN (@nil A) = 0. Proof. reflexivity. Qed.
Lemma lenN_cons {A} (x : A) l : lenN (x :: l) = 1 + lenN l.
Proof. unfold lenN. cbn [length]. lia. Qed.

Lemma le_bytes_length k x : length (le_bytes k x) = k.
Proof. revert x. induction k; intros; cbn [le_bytes length]; [reflexivity|]. now rewrite IHk. Qed.
Lemma le64_length x : length (le64 x) = 8%nat.
Proof. apply le_bytes_length. Qed.
Lemma le64_lenN x : lenN (le64 x) = 8.
Proof. unfold lenN. now rewrite le64_length. Qed.

Lemma le_bytes_ok k x : bytes_ok (le_bytes k x).
Proof.
  revert x. induction k; intros; cbn [le_bytes]; constructor; [|apply IHk].
  apply N.mod_lt. lia.
Qed.

Lemma le_val_le_bytes k x : le_val (le_bytes k x) = x mod 256 ^ N.of_nat k.
Proof.
  revert x. induction k; intros x.
  - cbn [le_bytes le_val]. change (256 ^ N.of_nat 0) with 1. now rewrite N.mod_1_r.
  - cbn [le_bytes le_val]. rewrite IHk.
    replace (N.of_nat (S k)) with (N.succ (N.of_nat k)) by lia. rewrite N.pow_succ_r'.
    assert (H : 256 ^ N.of_nat k <> 0) by (apply N.pow_nonzero; lia).
    rewrite N.mod_mul_r by lia. reflexivity.
Qed.

Lemma le_val_le64 x : x < 2 ^ 64 -> le_val (le64 x) = x.
Proof.
  intros H. unfold le64. rewrite le_val_le_bytes. change (256 ^ N.of_nat 8) with (2 ^ 64).
  now apply N.mod_small.
Qed.

Lemma le_val_bound l : bytes_ok l -> le_val l < 256 ^ lenN l.
Proof.
  induction 1 as [|b t Hb Ht IH]; cbn [le_val].
  - change (0 < 1). lia.
  - rewrite lenN_cons, N.add_1_l, N.pow_succ_r'. lia.
Qed.

Lemma le_bytes_le_val l : bytes_ok l -> le_bytes (length l) (le_val l) = l.
Proof.
  induction 1 as [|b t Hb Ht IH]; cbn [le_val le_bytes length]; [reflexivity|].
  replace ((b + 256 * le_val t) mod 256) with b by lia.
  replace ((b + 256 * le_val t) / 256) with (le_val t) by lia.
  now rewrite IH.
Qed.

(* read_exact on a stream that starts with the requested block *)
Lemma read_exact_app a rest : read_exact (lenN a) (a ++ rest) = IoOk (a, rest).
Proof.
  unfold read_exact. rewrite lenN_app. replace (lenN a <=? lenN a + lenN rest) with true by lia.
  unfold lenN. rewrite Nat2N.id. rewrite firstn_app, skipn_app, Nat.sub_diag, firstn_all, skipn_all.
  cbn [firstn skipn]. now rewrite app_nil_r.
Qed.

Lemma read_exact_short n s : lenN s < n -> read_exact n s = IoErr UnexpectedEof.
Proof. intros H. unfold read_exact. now replace (n <=? lenN s) with false by lia. Qed.

Lemma read_exact_ok n s : n <= lenN s ->
  exists a r, read_exact n s = IoOk (a, r) /\ s = a ++ r /\ lenN a = n.
Proof.
  intros H. unfold read_exact. replace (n <=? lenN s) with true by lia.
  eexists _, _. split; [reflexivity|]. split; [now rewrite firstn_skipn|].
  unfold lenN in *. rewrite firstn_length. lia.
Qed.

Lemma lenN_firstn {A} (l : list A) (k : nat) : lenN (firstn k l) = N.min (N.of_nat k) (lenN l).
Proof. unfold lenN. rewrite firstn_length. lia. Qed.

(* sinks: the whole output when it fits, the sink's error otherwise, for every way of chunking the output *)
Lemma write_seq_fits chunks w :
  lenN (concat chunks) <= sk_room w ->
  write_seq chunks w = (mksink (sk_out w ++ concat chunks) (sk_room w - lenN (concat chunks)) (sk_err w), IoOk tt).
Proof.
  revert w. induction chunks as [|c t IH]; intros w H.
  - cbn [write_seq concat]. rewrite app_nil_r, lenN_nil, N.sub_0_r. now destruct w.
  - cbn [concat] in *. rewrite lenN_app in H. cbn [write_seq]. unfold write_all.
    replace (lenN c <=? sk_room w) with true by lia.
    rewrite IH by (cbn [sk_room]; lia). cbn [sk_out sk_room sk_err].
    rewrite lenN_app, app_assoc. do 2 f_equal. lia.
Qed.

Lemma write_seq_short chunks w :
  sk_room w < lenN (concat chunks) ->
  write_seq chunks w =
    (mksink (sk_out w ++ firstn (N.to_nat (sk_room w)) (concat chunks)) 0 (sk_err w), IoErr (sk_err w)).
Proof.
  revert w. induction chunks as [|c t IH]; intros w H.
  - cbn [concat] in H. rewrite lenN_nil in H. lia.
  - cbn [concat] in *. rewrite lenN_app in H. cbn [write_seq]. unfold write_all.
    destruct (lenN c <=? sk_room w) eqn:E.
    + rewrite IH by (cbn [sk_room]; lia). cbn [sk_out sk_room sk_err].
      f_equal. f_equal. rewrite <- app_assoc. f_equal.
      rewrite firstn_app. unfold lenN in *.
      rewrite (firstn_all2 c) by lia. f_equal. f_equal. lia.
    + f_equal. f_equal. f_equal. rewrite firstn_app.
      unfold lenN in *. replace (N.to_nat (sk_room w) - length c)%nat with 0%nat by lia.
      cbn [firstn]. now rewrite app_nil_r.
Qed.
