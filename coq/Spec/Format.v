(* The published serialization format (SERIALIZATION.md, "For version 0.4.0. Updated 2022-08-18"),
   formalised from the document ALONE: an executable reader (validator + content extraction) and an
   executable writer for every documented type. Nothing here was derived from the Rust sources or from
   coq/Model; the file imports only naive specification libraries (bit lists, UTF-8 by decoding).
   Every clause cites the section (S:) and the sentence of the document it formalises.

   A file is a [list N] of elements ("A file is an array of elements, which are unsigned 64-bit
   little-endian integers"); [elems_of_bytes] is that sentence for a file given as bytes.

   For each type T:
     p_T            : parser of the layout of T with every MUST of the document checked on the way
     doc_content_T  : list N -> option content    the whole file is one T (no trailing elements)
     doc_valid_T    : list N -> bool              elements are 64-bit and doc_content_T succeeds
     doc_encode_T   : writer-side freedoms -> content -> list N *)
From Coq Require Import NArith List Bool.
Require Import SDS.Spec.BitSeq SDS.Spec.Utf8.
Import ListNotations.
Open Scope N_scope.

(* ================================================================== S: Basic structures *)

(* "A file is an array of elements, which are unsigned 64-bit little-endian integers." *)
Definition elem_ok (x : N) : bool := x <? 2 ^ 64.
Definition file_ok (f : list N) : bool := forallb elem_ok f.

Fixpoint le_value (bs : list N) : N :=
  match bs with [] => 0 | b :: t => b + 256 * le_value t end.

(* "As a result, the size of the file must be a multiple of 8 bytes." *)
Fixpoint elems_of_bytes (bs : list N) : option (list N) :=
  match bs with
  | [] => Some []
  | b0 :: b1 :: b2 :: b3 :: b4 :: b5 :: b6 :: b7 :: t =>
      match elems_of_bytes t with
      | Some es => Some (le_value [b0; b1; b2; b3; b4; b5; b6; b7] :: es)
      | None => None
      end
  | _ => None
  end.
Definition bytes_ok (bs : list N) : bool := forallb (fun b => b <? 256) bs.

Definition lenN {A} (l : list A) : N := N.of_nat (length l).

(* ---- readers: consume a prefix of the element array ---- *)
Definition parser (A : Type) := list N -> option (A * list N).
Definition ret {A} (a : A) : parser A := fun f => Some (a, f).
Definition bind {A B} (p : parser A) (k : A -> parser B) : parser B :=
  fun f => match p f with Some (a, r) => k a r | None => None end.
Definition guard (b : bool) : parser unit := fun f => if b then Some (tt, f) else None.
Notation "'do' x <- p ; k" := (bind p (fun x => k)) (at level 200, x pattern, p at level 100, k at level 200).
Notation "'must' b ; k" := (bind (guard b) (fun _ => k)) (at level 200, b at level 100, k at level 200).

(* "The reader is always assumed to know the type of the object they are reading": the whole file is one T *)
Definition whole {A} (p : parser A) (f : list N) : option A :=
  match p f with Some (a, []) => Some a | _ => None end.
Definition is_some {A} (o : option A) : bool := match o with Some _ => true | None => false end.
Definition valid_with {A} (p : parser A) (f : list N) : bool := file_ok f && is_some (whole p f).

Definition p_elem : parser N := fun f => match f with x :: t => Some (x, t) | [] => None end.
(* the next n elements; the comparison comes first, so n may be any 64-bit value *)
Definition p_take (n : N) : parser (list N) :=
  fun f => if n <=? lenN f then Some (firstn (N.to_nat n) f, skipn (N.to_nat n) f) else None.

(* ------------------------------------------------------------------ S: Vectors *)

(* "Serialization format for vectors of serializable items: 1. Length of the vector as an element.
   2. Concatenated items from the vector."  Items that are elements: *)
Definition p_vec : parser (list N) := do n <- p_elem; p_take n.
Definition doc_content_vec := whole p_vec.
Definition doc_valid_vec := valid_with p_vec.
Definition doc_encode_vec (items : list N) : list N := lenN items :: items.

(* "A fixed-length type is serializable if its size is a multiple of 8 bytes. A serializable object can be
   serialized by copying the bytes": an item that is a pair of elements takes two elements, first field first *)
Fixpoint pairs_of (l : list N) : list (N * N) :=
  match l with a :: b :: t => (a, b) :: pairs_of t | _ => [] end.
Definition p_vec_pairs : parser (list (N * N)) :=
  do n <- p_elem; do body <- p_take (2 * n); ret (pairs_of body).
Definition doc_content_pairs := whole p_vec_pairs.
Definition doc_valid_pairs := valid_with p_vec_pairs.
Definition doc_encode_pairs (items : list (N * N)) : list N :=
  lenN items :: flat_map (fun p => [fst p; snd p]) items.

(* "Serialization format for vectors of bytes: 1. Length of the vector as an element. 2. Concatenated items
   from the vector. 3. 0 to 7 bytes of padding with byte value 0 to make the total size of the serialized
   vector a multiple of 8 bytes."  Byte j of an element is bits 8j..8j+7 (little-endian elements). *)
Definition ebytes (x : N) : list N :=
  map (fun j => (x / 2 ^ (8 * N.of_nat j)) mod 256) (seq 0 8).
Definition p_bytes : parser (list N) :=
  do n <- p_elem;
  do body <- p_take ((n + 7) / 8);            (* exactly the elements needed: the padding is 0 to 7 bytes *)
  let bs := flat_map ebytes body in
  must forallb (N.eqb 0) (skipn (N.to_nat n) bs);   (* "padding with byte value 0" *)
  ret (firstn (N.to_nat n) bs).
Definition doc_content_bytes := whole p_bytes.
Definition doc_valid_bytes := valid_with p_bytes.
Fixpoint pack_bytes (fuel : nat) (bs : list N) : list N :=
  match fuel with
  | O => []
  | S k => match bs with [] => [] | _ => le_value (firstn 8 bs) :: pack_bytes k (skipn 8 bs) end
  end.
Definition doc_encode_bytes (bs : list N) : list N := lenN bs :: pack_bytes (length bs) bs.

(* "Strings are serialized as vectors of bytes using the UTF-8 encoding." *)
Definition p_string : parser (list N) := do bs <- p_bytes; must sp_utf8 bs; ret bs.
Definition doc_content_string := whole p_string.
Definition doc_valid_string := valid_with p_string.
Definition doc_encode_string := doc_encode_bytes.

(* ------------------------------------------------------------------ S: Optional structures *)

(* "The length of an optional structure is the number of elements required to serialize the actual structure
   (if present) or 0 (if absent). Serialization format: 1. Length of the optional structure as an element.
   2. The structure, if present." *)
Definition p_opt {A} (p : parser A) : parser (option A) :=
  do n <- p_elem;
  if n =? 0 then ret None
  else do body <- p_take n;
       match whole p body with Some a => ret (Some a) | None => fun _ => None end.
(* "If the reader needs to pass through an optional structure without understanding the format, it can be
   loaded and serialized as a vector of elements": the reading of the implementation-dependent support structures *)
Definition p_opt_opaque : parser (list N) := p_vec.
Definition doc_encode_opt (o : option (list N)) : list N :=
  match o with None => [0] | Some f => lenN f :: f end.
Definition doc_content_opt {A} (p : parser A) := whole (p_opt p).
Definition doc_valid_opt {A} (p : parser A) := valid_with (p_opt p).

(* ================================================================== S: Core data structures *)

(* ------------------------------------------------------------------ S: Raw bitvector *)

Fixpoint bits_val (l : list bool) : N :=
  match l with [] => 0 | b :: t => b2n b + 2 * bits_val t end.

(* "Bit i of the raw bitvector is stored as bit i % 64 of element floor(i / 64)": the bit sequence stored in a
   vector of elements is [bits_of_words].
   "A raw bitvector of length n requires a vector of floor((n + 63) / 64) elements."
   "Any unused bits in the last element must be set to 0."
   "Serialization format: 1. Length of the vector as an element. 2. Vector of elements storing the items." *)
Definition p_raw : parser (list bool) :=
  do n <- p_elem;
  do ws <- p_vec;
  must lenN ws =? (n + 63) / 64;
  let B := bits_of_words ws in
  must forallb negb (skipn (N.to_nat n) B);
  ret (firstn (N.to_nat n) B).
Definition doc_content_raw := whole p_raw.
Definition doc_valid_raw := valid_with p_raw.

Fixpoint pack_words (fuel : nat) (B : list bool) : list N :=
  match fuel with
  | O => []
  | S k => match B with [] => [] | _ => bits_val (firstn 64 B) :: pack_words k (skipn 64 B) end
  end.
Definition words_of_bits (B : list bool) : list N := pack_words (length B) B.
Definition doc_encode_raw (B : list bool) : list N := lenN B :: doc_encode_vec (words_of_bits B).

(* ------------------------------------------------------------------ S: Integer vector *)

(* item k of a bit sequence cut into pieces of w bits, least significant bit first *)
Fixpoint chunk_vals (n w : nat) (B : list bool) : list N :=
  match n with O => [] | S k => bits_val (firstn w B) :: chunk_vals k w (skipn w B) end.

(* "The width of the items can be from 1 to 64 bits. The items of an integer vector are concatenated and
   stored in a raw bitvector. An integer vector of n items of width w bits requires a raw bitvector of
   length n * w."  "1. Length of the vector. 2. Width of the items. 3. Raw bitvector storing the items."
   Content: (width, items). *)
Definition p_int : parser (N * list N) :=
  do n <- p_elem;
  do w <- p_elem;
  must (1 <=? w) && (w <=? 64);
  do B <- p_raw;
  must lenN B =? n * w;
  ret (w, chunk_vals (N.to_nat n) (N.to_nat w) B).
Definition doc_content_int := whole p_int.
Definition doc_valid_int := valid_with p_int.

Definition vbits (w : N) (v : N) : list bool := map (fun j => N.testbit v (N.of_nat j)) (seq 0 (N.to_nat w)).
Definition doc_encode_int (w : N) (items : list N) : list N :=
  lenN items :: w :: doc_encode_raw (flat_map (vbits w) items).
(* an item fits its width *)
Definition fits (w : N) (v : N) : bool := v <? 2 ^ w.

(* ------------------------------------------------------------------ S: Bitvector *)

(* "1. Number of set bits as an element. 2. Raw bitvector storing the items. 3. Optional rank support
   structure. 4. Optional select support structure for set bits. 5. Optional select support structure for
   unset bits."  The support structures are "implementation-dependent and hence optional": they are passed
   through as vectors of elements and carry no content. *)
Definition p_bv : parser (list bool) :=
  do ones <- p_elem;
  do B <- p_raw;
  do _ <- p_opt_opaque; do _ <- p_opt_opaque; do _ <- p_opt_opaque;
  must ones =? count B;
  ret B.
Definition doc_content_bv := whole p_bv.
Definition doc_valid_bv := valid_with p_bv.
(* the writer may include any of the three support structures (each as the elements of an optional; [] = absent) *)
Definition doc_encode_bv (sup : list N * list N * list N) (B : list bool) : list N :=
  let '(r, s1, s0) := sup in
  count B :: doc_encode_raw B ++ doc_encode_vec r ++ doc_encode_vec s1 ++ doc_encode_vec s0.
Definition no_sup : list N * list N * list N := ([], [], []).

(* ================================================================== S: Compressed bitvectors *)

(* ------------------------------------------------------------------ S: Sparse bitvector *)

(* "There must be a bucket for each position in the semiopen interval 0..n but no additional buckets after
   them": position p lies in bucket p >> w, so the buckets are 0 .. (n-1) >> w, i.e. ceil(n / 2^w) of them
   (none when n = 0). *)
Definition doc_buckets (n w : N) : N := (n + 2 ^ w - 1) / 2 ^ w.

(* "The i-th item in the sorted vector of integers is low[i] + ((high.select(i) - i) << w)";
   [sel] is the list of positions of the set bits of high (select(i) = its i-th entry) *)
Fixpoint sparse_items (w i : N) (sel low : list N) : list N :=
  match sel, low with
  | p :: sel', l :: low' => l + N.shiftl (p - i) w :: sparse_items w (i + 1) sel' low'
  | _, _ => []
  end.

Fixpoint sorted_le (l : list N) : bool :=
  match l with a :: (b :: _) as t => (a <=? b) && sorted_le t | _ => true end.
Fixpoint sorted_lt (l : list N) : bool :=
  match l with a :: (b :: _) as t => (a <? b) && sorted_lt t | _ => true end.

(* "Assume that the length of the vector of bits is n and that there are m set bits."
   "The low parts are the lowest w bits of each integer, with w >= 1. They are stored in an integer vector of
   length m and width w."   "For each bucket with k >= 0 integers, in sorted order, the bitvector contains a
   sequence of 1s of length k followed by 0."  Hence: the high bitvector has m set bits, as many unset bits as
   there are buckets, and (being a sequence of buckets) ends with an unset bit.
   "It can be interpreted as ... a vector of sorted integers, where the integers are the positions of the set
   bits": the items are sorted and lie in 0..n. Duplicates are tolerated here ("Note: the encoding also
   supports multisets / duplicate items"); [sparse_strict] says that there are none.
   "1. Length of the vector of bits. 2. Bitvector storing the high parts. 3. Integer vector storing the low
   parts."   Content: (n, sorted items). *)
Definition p_sparse : parser (N * list N) :=
  do n <- p_elem;
  do H <- p_bv;
  do wl <- p_int;
  let '(w, low) := wl in
  let m := lenN low in
  must count H =? m;
  must count (map negb H) =? doc_buckets n w;
  must negb (last H false);
  let items := sparse_items w 0 (ones H) low in
  must sorted_le items && forallb (fun x => x <? n) items;
  ret (n, items).
Definition doc_content_sparse := whole p_sparse.
Definition doc_valid_sparse := valid_with p_sparse.
Definition sparse_strict (c : N * list N) : bool := sorted_lt (snd c).

(* high bitvector written from the sorted items: for each item the unset bits closing the buckets skipped
   since the previous item, then its set bit; finally the unset bits closing the remaining buckets *)
Fixpoint high_bits (w : N) (bucket : N) (items : list N) (buckets : N) : list bool :=
  match items with
  | [] => repeat false (N.to_nat (buckets - bucket))
  | x :: t => let h := N.shiftr x w in
              repeat false (N.to_nat (h - bucket)) ++ true :: high_bits w h t buckets
  end.
(* writer-side freedoms: the low width w (admissible: 1..63 here; the document only asks for w >= 1) and the
   support structures of the high bitvector (absent) *)
Definition doc_encode_sparse (w : N) (c : N * list N) : list N :=
  let '(n, items) := c in
  n :: doc_encode_bv no_sup (high_bits w 0 items (doc_buckets n w))
    ++ doc_encode_int w (map (fun x => x mod 2 ^ w) items).

(* ------------------------------------------------------------------ S: Run-length encoded bitvector *)

(* "Each integer is encoded in little-endian order using 4-bit code units. The lowest 3 bits of each code unit
   contain data. If the high bit is set, the encoding continues in the next unit." *)
Fixpoint enc_varint (fuel : nat) (x : N) : list N :=
  match fuel with
  | O => [x mod 8]
  | S k => if x <? 8 then [x] else (x mod 8 + 8) :: enc_varint k (x / 8)
  end.
Definition varint (x : N) : list N := enc_varint 22 x.
(* returns the value, the number of units read and the remaining units; the encoding of an integer is the
   shortest one (the last unit of a multi-unit code carries data) and the value is an element *)
Fixpoint dec_varint (us : list N) (shift acc : N) : option (N * list N) :=
  match us with
  | [] => None
  | u :: t =>
      let acc' := acc + N.shiftl (N.land u 7) shift in
      if N.testbit u 3 then dec_varint t (shift + 3) acc'
      else if (u =? 0) && negb (shift =? 0) then None
      else if acc' <? 2 ^ 64 then Some (acc', t) else None
  end.

(* "If there are n0 unset bits followed by n1 set bits, it is encoded as a pair of integers (n0, n1 - 1)." *)
Definition run_code (r : N * N) : list N := varint (fst r) ++ varint (snd r - 1).

(* One block: "blocks that consist of entire runs ... we pad the block with 0 values".
   "a sequence of maximal runs": after the first run of the vector every run has n0 >= 1, so a code unit 0 where
   a run would start inside a block is padding. Returns the runs (n0, n1) and the padding. *)
Fixpoint dec_block (fuel : nat) (us : list N) (at_start : bool) : option (list (N * N) * list N) :=
  match fuel with
  | O => None
  | S k =>
      match us with
      | [] => Some ([], [])
      | u :: _ =>
          if negb at_start && (u =? 0) then Some ([], us)
          else match dec_varint us 0 0 with
               | Some (n0, r1) =>
                   match dec_varint r1 0 0 with
                   | Some (n1m, r2) =>
                       match dec_block k r2 false with
                       | Some (runs, pad) => Some ((n0, n1m + 1) :: runs, pad)
                       | None => None
                       end
                   | None => None
                   end
               | None => None
               end
      end
  end.

(* "We partition the encoding into 64-unit (32-byte) blocks" *)
Fixpoint split_blocks (fuel : nat) (us : list N) : list (list N) :=
  match fuel with
  | O => []
  | S k => match us with [] => [] | _ => firstn 64 us :: split_blocks k (skipn 64 us) end
  end.

Definition run_bits (runs : list (N * N)) : N := fold_right (fun r a => fst r + snd r + a) 0 runs.
Definition run_ones (runs : list (N * N)) : N := fold_right (fun r a => snd r + a) 0 runs.

(* Walk over the blocks. [ones], [bits]: totals of the preceding blocks ("For each block, we store a sample
   (n1, n), where n is the number of bits and n1 is the number of set bits encoded in all preceding blocks").
   Per block:
   - it decodes into at least one entire run, and padding of 0 values only;
   - "a sequence of maximal runs": n0 >= 1 except for the very first run;
   - "If there is not enough space left for encoding the next (n0, n1), we pad the block ... and move to the
     next block": a block that is followed by another one has 64 units and its padding is too short for the
     first run of the next block;
   - "If the final block is not full, it must not contain any padding" (a full final block cannot contain any
     either: padding is written only when a next run exists, and that run then opens another block).
   Returns all runs and the expected samples. *)
Fixpoint walk_blocks (blocks : list (list N)) (first : bool) (ones bits : N)
  : option (list (N * N) * list N) :=
  match blocks with
  | [] => Some ([], [])
  | blk :: rest =>
      match dec_block 64 blk true with
      | Some (runs, pad) =>
          let maximal := match runs with
                         | [] => false
                         | r0 :: rs => (first || (1 <=? fst r0)) && forallb (fun r => 1 <=? fst r) rs
                         end in
          let pad_ok := forallb (N.eqb 0) pad in
          let fill_ok := match rest with
                         | [] => match pad with [] => true | _ => false end
                         | nxt :: _ =>
                             (lenN blk =? 64) &&
                             match dec_block 64 nxt true with
                             | Some (r :: _, _) => lenN pad <? lenN (run_code r)
                             | _ => false
                             end
                         end in
          if maximal && pad_ok && fill_ok then
            match walk_blocks rest false (ones + run_ones runs) (bits + run_bits runs) with
            | Some (rs, samples) => Some (runs ++ rs, ones :: bits :: samples)
            | None => None
            end
          else None
      | None => None
      end
  end.

(* the width an integer needs (an integer vector has width >= 1) *)
Definition bitlen (x : N) : N := if x =? 0 then 1 else N.log2 x + 1.
Definition list_max (l : list N) : N := fold_right N.max 0 l.
(* "with the minimal width necessary" / "bit-packed to minimize its width" *)
Definition min_width (l : list N) : N := bitlen (list_max l).

(* runs as (start, length) of the set bits *)
Fixpoint run_starts (pos : N) (runs : list (N * N)) : list (N * N) :=
  match runs with
  | [] => []
  | (n0, n1) :: t => (pos + n0, n1) :: run_starts (pos + n0 + n1) t
  end.

(* "1. Length of the vector of bits as an element. 2. Number of set bits as an element. 3. Samples as an
   integer vector with the minimal width necessary. 4. Concatenated blocks as an integer vector of width 4."
   A trailing run of unset bits is not followed by set bits and is not encoded: the encoded bits are at most
   the length.  Content: (length, maximal runs of set bits as (start, length)). *)
Fixpoint nlist_eq (a b : list N) : bool :=
  match a, b with
  | [], [] => true
  | x :: a', y :: b' => (x =? y) && nlist_eq a' b'
  | _, _ => false
  end.

Definition p_rl : parser (N * list (N * N)) :=
  do len <- p_elem;
  do ones <- p_elem;
  do ws <- p_int;
  do wb <- p_int;
  let '(sw, samples) := ws in
  let '(bw, units) := wb in
  must bw =? 4;
  match walk_blocks (split_blocks (length units) units) true 0 0 with
  | Some (runs, expected) =>
      must nlist_eq samples expected;              (* one sample per block, with the documented meaning *)
      must sw =? min_width samples;                (* "the minimal width necessary" *)
      must (run_ones runs =? ones) && (run_bits runs <=? len);
      ret (len, run_starts 0 runs)
  | None => fun _ => None
  end.
Definition doc_content_rl := whole p_rl.
Definition doc_valid_rl := valid_with p_rl.

(* writer: (n0, n1) pairs from the maximal runs given as (start, length) *)
Fixpoint run_gaps (pos : N) (runs : list (N * N)) : list (N * N) :=
  match runs with
  | [] => []
  | (s, l) :: t => (s - pos, l) :: run_gaps (s + l) t
  end.
(* greedy packing. [cur]: units of the open block, [ones]/[bits]: totals before the open block, [co]/[cb]:
   totals of the open block. Returns (units, samples). An open block exists only once it holds a run. *)
Fixpoint pack_runs (runs : list (N * N)) (cur : list N) (ones bits co cb : N) : list N * list N :=
  match runs with
  | [] => (cur, match cur with [] => [] | _ => [ones; bits] end)
  | r :: t =>
      let code := run_code r in
      if lenN cur + lenN code <=? 64 then
        pack_runs t (cur ++ code) ones bits (co + snd r) (cb + fst r + snd r)
      else
        let '(us, ss) := pack_runs t code (ones + co) (bits + cb) (snd r) (fst r + snd r) in
        (cur ++ repeat 0 (64 - length cur) ++ us, ones :: bits :: ss)
  end.
(* no writer-side freedom: the sample width is the minimal one *)
Definition doc_encode_rl (c : N * list (N * N)) : list N :=
  let '(len, runs) := c in
  let gaps := run_gaps 0 runs in
  let '(units, samples) := pack_runs gaps [] 0 0 0 0 in
  len :: run_ones gaps :: doc_encode_int (min_width samples) samples ++ doc_encode_int 4 units.

(* ================================================================== S: Wavelet matrices *)

Definition getbit (B : list bool) (i : N) : bool := match getb B i with Some b => b | None => false end.
Definition rank0 (B : list bool) (i : N) : N := rank1 (map negb B) i.

(* "If bv[level][i] == 0, position i on level level maps to position bv[level].rank_zero(i) on level level + 1.
   Otherwise it maps to position bv[level].count_zeros() + bv[level].rank(i)." *)
Definition wm_map (B : list bool) (i : N) : N :=
  if getbit B i then count (map negb B) + rank1 B i else rank0 B i.

(* "Bitvector bv[level] on level level represent bit values 1 << (width - 1 - level)."
   "The value of the item at offset i can be determined by starting from level 0 offset i, proceeding down in
   the matrix, and calculating the sum of values corresponding to set bits."
   [rem] = width - level. Returns (value, position in the reordered vector). *)
Fixpoint wm_walk (levels : list (list bool)) (rem : N) (i : N) : N * N :=
  match levels with
  | [] => (0, i)
  | B :: t => let '(v, p) := wm_walk t (rem - 1) (wm_map B i) in
              ((if getbit B i then N.shiftl 1 (rem - 1) else 0) + v, p)
  end.

Fixpoint nrange (n : nat) (from : N) : list N :=
  match n with O => [] | S k => from :: nrange k (from + 1) end.

(* ------------------------------------------------------------------ S: Wavelet matrix core *)

Fixpoint p_repeat {A} (n : nat) (p : parser A) : parser (list A) :=
  match n with
  | O => ret []
  | S k => do a <- p; do l <- p_repeat k p; ret (a :: l)
  end.

(* "1. width: Width of the items as an element. 2. levels: A BitVector for each level in 0..width."
   The width of items is 1 to 64 (S: Integer vector); the level mapping sends positions of one level to
   positions of the next, so all levels have the same length.
   Parsed form: (width, levels); content: (width, items). *)
Definition p_wmcore_raw : parser (N * list (list bool)) :=
  do width <- p_elem;
  must (1 <=? width) && (width <=? 64);
  do levels <- p_repeat (N.to_nat width) p_bv;
  must match levels with [] => true | B0 :: t => forallb (fun B => lenN B =? lenN B0) t end;
  ret (width, levels).
Definition core_len (levels : list (list bool)) : N := match levels with [] => 0 | B0 :: _ => lenN B0 end.
Definition core_items (width : N) (levels : list (list bool)) : list N :=
  map (fun i => fst (wm_walk levels width i)) (nrange (length (hd [] levels)) 0).
Definition p_wmcore : parser (N * list N) :=
  do wl <- p_wmcore_raw; ret (fst wl, core_items (fst wl) (snd wl)).
Definition doc_content_wmcore := whole p_wmcore.
Definition doc_valid_wmcore := valid_with p_wmcore.

(* ------------------------------------------------------------------ S: Plain wavelet matrix *)

(* "If value is the largest item present in the vector, the alphabet of the vector is 0..=value." *)
Definition alphabet_size (items : list N) : N := list_max items + 1.

(* "first: An IntVector storing the position of the first occurrence of each value in the reordered vector."
   "first is only defined over the values in the alphabet. If a value is not present in the vector, the
   corresponding position is len."  [vp]: (value, position in the reordered vector) of every item. *)
Definition first_pos (vp : list (N * N)) (len v : N) : N :=
  fold_right (fun x best => if fst x =? v then N.min (snd x) best else best) len vp.
Definition doc_first (vp : list (N * N)) (len : N) (sigma : N) : list N :=
  map (first_pos vp len) (nrange (N.to_nat sigma) 0).

(* "1. len: Length of the vector as an element. 2. data: The core of the wavelet matrix as WMCore.
   3. first: An IntVector ..."   "Note: first must be bit-packed to minimize its width."
   The alphabet of an EMPTY vector is not defined by the document (there is no largest item): for len = 0 any
   [first] whose entries are all len (= 0) is accepted.  Content: (width, items). *)
Definition p_wm : parser (N * list N) :=
  do len <- p_elem;
  do wl <- p_wmcore_raw;
  do wf <- p_int;
  let '(width, levels) := wl in
  let '(fw, first) := wf in
  must core_len levels =? len;
  let vp := map (wm_walk levels width) (nrange (N.to_nat len) 0) in
  let items := map fst vp in
  must (if len =? 0 then forallb (N.eqb 0) first
         else nlist_eq first (doc_first vp len (alphabet_size items)));
  must fw =? min_width first;
  ret (width, items).
Definition doc_content_wm := whole p_wm.
Definition doc_valid_wm := valid_with p_wm.

(* writer: level by level; "This process reorders the items in the vector by sorting them according to their
   reverse binary representations": after a level the items with an unset bit come first, order kept *)
Fixpoint wm_levels (rem : nat) (items : list N) : list (list bool) * list N :=
  match rem with
  | O => ([], items)
  | S k => let bit := fun x => N.testbit x (N.of_nat k) in
           let '(ls, final) := wm_levels k (filter (fun x => negb (bit x)) items ++ filter bit items) in
           (map bit items :: ls, final)
  end.
Definition doc_encode_wmcore (c : N * list N) : list N :=
  let '(width, items) := c in
  width :: flat_map (doc_encode_bv no_sup) (fst (wm_levels (N.to_nat width) items)).
(* position of the first occurrence of v in l, or [len] *)
Fixpoint index_of (v : N) (l : list N) (pos len : N) : N :=
  match l with [] => len | x :: t => if x =? v then pos else index_of v t (pos + 1) len end.
(* no writer-side freedom besides the width of the items (any width that holds them); for an empty vector the
   alphabet is taken as {0} *)
Definition doc_encode_wm (c : N * list N) : list N :=
  let '(width, items) := c in
  let len := lenN items in
  let final := snd (wm_levels (N.to_nat width) items) in
  let first := map (fun v => index_of v final 0 len) (nrange (N.to_nat (alphabet_size items)) 0) in
  len :: doc_encode_wmcore c ++ doc_encode_int (min_width first) first.
