(* Specification of a double-ended iterator: the not yet visited items are a [list A]; a call takes
   items from one end. This is the object every iterator of the crate is compared with (property C10).

     Next        pop the first item                 NextBack     pop the last item
     Nth k       drop k items, then pop the first   NthBack k    drop k items from the back, then pop the last
     Len         the number of items left (ExactSizeIterator::len / an exact size_hint)

   When fewer than k+1 items are left, Nth k / NthBack k empty the iterator and return None; once the
   list is empty every call returns None and the list stays empty.

   Part 1 is independent of Model/ and gen/ (it is the naive side of the correspondence check).
   Part 2 (the lifting theorem) only borrows the result type [res] from Model/Mach.v. *)
From Coq Require Import NArith List Bool Lia.
Require Import SDS.Model.Mach.
Import ListNotations.
Open Scope N_scope.
Require Import ZifyBool ZifyN ZifyNat.

Inductive call := Next | NextBack | Nth (k : N) | NthBack (k : N) | Len.
Inductive out (A : Type) := Item (o : option A) | Count (n : N).
Arguments Item {A} o. Arguments Count {A} n.

(* the arguments a 64-bit caller can pass *)
Definition call_fits (c : call) : Prop :=
  match c with Nth k | NthBack k => k < 2 ^ 64 | _ => True end.
(* the calls of a forward-only iterator *)
Definition call_fwd (c : call) : Prop :=
  match c with NextBack | NthBack _ => False | _ => True end.
Definition call_fwdb (c : call) : bool :=
  match c with NextBack | NthBack _ => false | _ => true end.
(* calls that never skip an item *)
Definition call_single (c : call) : Prop :=
  match c with Nth _ | NthBack _ => False | _ => True end.

Section Deque.
Context {A : Type}.

Definition lenA (l : list A) : N := N.of_nat (length l).

(* drop k items, pop the next one; [N.to_nat k] is only evaluated when k is smaller than the length *)
Definition dq_front (l : list A) (k : N) : list A * option A :=
  if k <? lenA l then
    match skipn (N.to_nat k) l with x :: t => (t, Some x) | [] => ([], None) end
  else ([], None).

Definition dq_step (l : list A) (c : call) : list A * out A :=
  match c with
  | Next => let '(l', o) := dq_front l 0 in (l', Item o)
  | Nth k => let '(l', o) := dq_front l k in (l', Item o)
  | NextBack => let '(l', o) := dq_front (rev l) 0 in (rev l', Item o)
  | NthBack k => let '(l', o) := dq_front (rev l) k in (rev l', Item o)
  | Len => (l, Count (lenA l))
  end.

Fixpoint dq_run (l : list A) (cs : list call) : list A * list (out A) :=
  match cs with
  | [] => (l, [])
  | c :: t => let '(l1, x) := dq_step l c in let '(l2, xs) := dq_run l1 t in (l2, x :: xs)
  end.

(* ---- what a call consumes: the items it skips followed by the item it returns ---- *)

Definition dq_eat (l : list A) (k : N) : list A :=
  if k <? lenA l then firstn (S (N.to_nat k)) l else l.

(* (consumed from the front, consumed from the back), each in the order of consumption *)
Definition dq_eats (l : list A) (c : call) : list A * list A :=
  match c with
  | Next => (dq_eat l 0, [])
  | Nth k => (dq_eat l k, [])
  | NextBack => ([], dq_eat (rev l) 0)
  | NthBack k => ([], dq_eat (rev l) k)
  | Len => ([], [])
  end.

Fixpoint dq_eats_run (l : list A) (cs : list call) : list A * list A :=
  match cs with
  | [] => ([], [])
  | c :: t =>
      let '(f, b) := dq_eats l c in
      let '(F, B) := dq_eats_run (fst (dq_step l c)) t in
      (f ++ F, b ++ B)
  end.

(* the items actually handed out by the front calls / by the back calls, in call order *)
Definition yield_front (c : call) (o : out A) : list A :=
  match c, o with
  | (Next | Nth _), Item (Some x) => [x]
  | _, _ => []
  end.
Definition yield_back (c : call) (o : out A) : list A :=
  match c, o with
  | (NextBack | NthBack _), Item (Some x) => [x]
  | _, _ => []
  end.
Fixpoint yields (y : call -> out A -> list A) (cs : list call) (os : list (out A)) : list A :=
  match cs, os with
  | c :: ct, o :: ot => y c o ++ yields y ct ot
  | _, _ => []
  end.

(* ---- dq_front ---- *)

Lemma lenA_nil : lenA [] = 0. Proof. reflexivity. Qed.
Lemma lenA_cons x l : lenA (x :: l) = lenA l + 1.
Proof. unfold lenA. cbn [length]. lia. Qed.
Lemma lenA_app l1 l2 : lenA (l1 ++ l2) = lenA l1 + lenA l2.
Proof. unfold lenA. rewrite app_length. lia. Qed.
Lemma lenA_rev l : lenA (rev l) = lenA l.
Proof. unfold lenA. rewrite rev_length. reflexivity. Qed.

Lemma skipn_nth_error (l : list A) : forall n x, nth_error l n = Some x ->
  skipn n l = x :: skipn (S n) l.
Proof.
  induction l as [|y t IH]; intros [|n] x H; cbn [nth_error] in H; try discriminate.
  - injection H as ->. reflexivity.
  - cbn [skipn]. rewrite (IH n x H). reflexivity.
Qed.

Lemma nth_error_some_lt (l : list A) n : (n < length l)%nat -> exists x, nth_error l n = Some x.
Proof.
  intros H. destruct (nth_error l n) as [x|] eqn:E; [eauto|].
  apply nth_error_None in E. lia.
Qed.

(* enough items: the k-th is returned, everything up to and including it is gone *)
Lemma dq_front_some l k : k < lenA l ->
  exists x, nth_error l (N.to_nat k) = Some x /\ dq_front l k = (skipn (S (N.to_nat k)) l, Some x).
Proof.
  intros H. unfold dq_front. replace (k <? lenA l) with true by lia.
  destruct (nth_error_some_lt l (N.to_nat k)) as [x Hx]; [unfold lenA in H; lia|].
  exists x. split; [exact Hx|]. rewrite (skipn_nth_error l _ x Hx). reflexivity.
Qed.

(* too few items: None, and the iterator is empty afterwards *)
Lemma dq_front_none l k : lenA l <= k -> dq_front l k = ([], None).
Proof. intros H. unfold dq_front. replace (k <? lenA l) with false by lia. reflexivity. Qed.

Lemma dq_front_nil k : dq_front [] k = ([], None).
Proof. apply dq_front_none. rewrite lenA_nil. lia. Qed.

(* the same in one formula (N.to_nat appears only in a proposition here) *)
Lemma dq_front_spec l k :
  dq_front l k = (skipn (S (N.to_nat k)) l, nth_error l (N.to_nat k)).
Proof.
  destruct (N.ltb_spec k (lenA l)) as [H|H].
  - destruct (dq_front_some l k H) as (x & Hx & E). rewrite E, Hx. reflexivity.
  - rewrite dq_front_none by exact H. unfold lenA in H.
    rewrite skipn_all2 by lia. replace (nth_error l (N.to_nat k)) with (@None A); [reflexivity|].
    symmetry. apply nth_error_None. lia.
Qed.

Lemma dq_front_cons x l : dq_front (x :: l) 0 = (l, Some x).
Proof. unfold dq_front. rewrite lenA_cons. replace (0 <? lenA l + 1) with true by lia. reflexivity. Qed.

(* the returned item is the last consumed one; consumed ++ rest is the list before the call *)
Lemma dq_eat_front l k : l = dq_eat l k ++ fst (dq_front l k).
Proof.
  unfold dq_eat. destruct (N.ltb_spec k (lenA l)) as [H|H].
  - destruct (dq_front_some l k H) as (x & _ & E). rewrite E. cbn [fst].
    symmetry. apply firstn_skipn.
  - rewrite dq_front_none by exact H. cbn [fst]. rewrite app_nil_r. reflexivity.
Qed.

Lemma firstn_S_nth_error (l : list A) : forall n x, nth_error l n = Some x ->
  firstn (S n) l = firstn n l ++ [x].
Proof.
  induction l as [|y t IH]; intros [|n] x H; cbn [nth_error] in H; try discriminate.
  - injection H as ->. reflexivity.
  - change (firstn (S (S n)) (y :: t)) with (y :: firstn (S n) t).
    rewrite (IH n x H). reflexivity.
Qed.

Lemma dq_eat_item l k : k < lenA l ->
  exists x, snd (dq_front l k) = Some x /\ dq_eat l k = firstn (N.to_nat k) l ++ [x].
Proof.
  intros H. destruct (dq_front_some l k H) as (x & Hx & E). exists x. rewrite E. split; [reflexivity|].
  unfold dq_eat. replace (k <? lenA l) with true by lia. apply firstn_S_nth_error. exact Hx.
Qed.

Lemma dq_eat_length l k : lenA (dq_eat l k) = N.min (k + 1) (lenA l).
Proof.
  unfold dq_eat, lenA. destruct (N.ltb_spec k (N.of_nat (length l))) as [H|H].
  - rewrite firstn_length. lia.
  - lia.
Qed.

(* ---- one call ---- *)

Theorem dq_step_partition l c :
  l = fst (dq_eats l c) ++ fst (dq_step l c) ++ rev (snd (dq_eats l c)).
Proof.
  destruct c as [| |k|k|]; cbn [dq_eats dq_step fst snd].
  - destruct (dq_front l 0) as [l' o] eqn:E. cbn [fst rev]. rewrite app_nil_r.
    pose proof (dq_eat_front l 0) as H. rewrite E in H. exact H.
  - destruct (dq_front (rev l) 0) as [l' o] eqn:E. cbn [fst app].
    pose proof (dq_eat_front (rev l) 0) as H. rewrite E in H. cbn [fst] in H.
    rewrite <- rev_app_distr, <- H. symmetry. apply rev_involutive.
  - destruct (dq_front l k) as [l' o] eqn:E. cbn [fst rev]. rewrite app_nil_r.
    pose proof (dq_eat_front l k) as H. rewrite E in H. exact H.
  - destruct (dq_front (rev l) k) as [l' o] eqn:E. cbn [fst app].
    pose proof (dq_eat_front (rev l) k) as H. rewrite E in H. cbn [fst] in H.
    rewrite <- rev_app_distr, <- H. symmetry. apply rev_involutive.
  - cbn [rev app]. rewrite app_nil_r. reflexivity.
Qed.

(* Len is the length and changes nothing *)
Lemma dq_step_len l : dq_step l Len = (l, Count (lenA l)).
Proof. reflexivity. Qed.

(* how many items are left after a call *)
Lemma dq_front_length l k : lenA (fst (dq_front l k)) = lenA l - (k + 1).
Proof.
  rewrite dq_front_spec. cbn [fst]. unfold lenA. rewrite skipn_length. lia.
Qed.
Lemma dq_step_length l c :
  lenA (fst (dq_step l c)) =
  match c with Next | NextBack => lenA l - 1 | Nth k | NthBack k => lenA l - (k + 1) | Len => lenA l end.
Proof.
  destruct c as [| |k|k|]; cbn [dq_step].
  - pose proof (dq_front_length l 0) as H. destruct (dq_front l 0). exact H.
  - pose proof (dq_front_length (rev l) 0) as H. destruct (dq_front (rev l) 0). cbn [fst] in *.
    rewrite lenA_rev, H, lenA_rev. reflexivity.
  - pose proof (dq_front_length l k) as H. destruct (dq_front l k). exact H.
  - pose proof (dq_front_length (rev l) k) as H. destruct (dq_front (rev l) k). cbn [fst] in *.
    rewrite lenA_rev, H, lenA_rev. reflexivity.
  - reflexivity.
Qed.

(* the value returned, spelled out without the mirror trick *)
Lemma dq_step_next x l : dq_step (x :: l) Next = (l, Item (Some x)).
Proof. cbn [dq_step]. rewrite dq_front_cons. reflexivity. Qed.
Lemma dq_step_next_back l x : dq_step (l ++ [x]) NextBack = (l, Item (Some x)).
Proof.
  cbn [dq_step]. rewrite rev_app_distr. cbn [rev app]. rewrite dq_front_cons, rev_involutive. reflexivity.
Qed.
Lemma dq_front_app l1 x l2 k : lenA l1 = k -> dq_front (l1 ++ x :: l2) k = (l2, Some x).
Proof.
  intros H. rewrite dq_front_spec. unfold lenA in H.
  replace (N.to_nat k) with (length l1 + 0)%nat by lia.
  rewrite nth_error_app2 by lia. replace (length l1 + 0 - length l1)%nat with 0%nat by lia.
  replace (S (length l1 + 0)) with (length l1 + 1)%nat by lia.
  rewrite skipn_app, skipn_all2 by lia.
  replace (length l1 + 1 - length l1)%nat with 1%nat by lia. reflexivity.
Qed.
Lemma dq_step_nth l1 x l2 k : lenA l1 = k -> dq_step (l1 ++ x :: l2) (Nth k) = (l2, Item (Some x)).
Proof. intros H. cbn [dq_step]. rewrite dq_front_app by exact H. reflexivity. Qed.
Lemma dq_step_nth_back l1 x l2 k : lenA l2 = k -> dq_step (l1 ++ x :: l2) (NthBack k) = (l1, Item (Some x)).
Proof.
  intros H. cbn [dq_step]. rewrite rev_app_distr. cbn [rev]. rewrite <- app_assoc. cbn [app].
  pose proof (dq_step_nth (rev l2) x (rev l1) k) as E. cbn [dq_step] in E.
  rewrite lenA_rev in E. specialize (E H).
  destruct (dq_front (rev l2 ++ x :: rev l1) k) as [l' o]. injection E as -> ->.
  rewrite rev_involutive. reflexivity.
Qed.

Lemma dq_step_nth_none l k : lenA l <= k -> dq_step l (Nth k) = ([], Item None).
Proof. intros H. cbn [dq_step]. rewrite dq_front_none by exact H. reflexivity. Qed.
Lemma dq_step_nth_back_none l k : lenA l <= k -> dq_step l (NthBack k) = ([], Item None).
Proof. intros H. cbn [dq_step]. rewrite dq_front_none by (rewrite lenA_rev; exact H). reflexivity. Qed.
Lemma dq_step_next_nth l : dq_step l Next = dq_step l (Nth 0).
Proof. reflexivity. Qed.
Lemma dq_step_next_back_nth l : dq_step l NextBack = dq_step l (NthBack 0).
Proof. reflexivity. Qed.
Lemma dq_front_0 l : dq_front l 0 = (tl l, hd_error l).
Proof. destruct l as [|x t]; [reflexivity|]. apply dq_front_cons. Qed.

(* None is absorbing *)
Definition none_out (c : call) : out A := match c with Len => Count 0 | _ => Item None end.

Lemma dq_step_nil c : dq_step [] c = ([], none_out c).
Proof. destruct c as [| |k|k|]; cbn [dq_step rev none_out]; rewrite ?dq_front_nil; reflexivity. Qed.

Lemma dq_front_none_empties l k : snd (dq_front l k) = None -> fst (dq_front l k) = [].
Proof.
  destruct (N.ltb_spec k (lenA l)) as [H|H].
  - destruct (dq_front_some l k H) as (x & _ & E). rewrite E. discriminate.
  - rewrite dq_front_none by exact H. reflexivity.
Qed.

Lemma dq_step_none_empties l c : snd (dq_step l c) = Item None -> fst (dq_step l c) = [].
Proof.
  destruct c as [| |k|k|]; cbn [dq_step]; try discriminate.
  - pose proof (dq_front_none_empties l 0) as H. destruct (dq_front l 0) as [l' o]. cbn [fst snd] in *.
    intros E. injection E as E. auto.
  - pose proof (dq_front_none_empties (rev l) 0) as H. destruct (dq_front (rev l) 0) as [l' o]. cbn [fst snd] in *.
    intros E. injection E as E. rewrite (H E). reflexivity.
  - pose proof (dq_front_none_empties l k) as H. destruct (dq_front l k) as [l' o]. cbn [fst snd] in *.
    intros E. injection E as E. auto.
  - pose proof (dq_front_none_empties (rev l) k) as H. destruct (dq_front (rev l) k) as [l' o]. cbn [fst snd] in *.
    intros E. injection E as E. rewrite (H E). reflexivity.
Qed.

(* ---- call sequences ---- *)

Lemma dq_run_cons l c t :
  dq_run l (c :: t) = (fst (dq_run (fst (dq_step l c)) t), snd (dq_step l c) :: snd (dq_run (fst (dq_step l c)) t)).
Proof. cbn [dq_run]. destruct (dq_step l c) as [l1 x]. cbn [fst snd]. destruct (dq_run l1 t). reflexivity. Qed.

Lemma dq_run_app cs1 : forall l cs2,
  dq_run l (cs1 ++ cs2) =
  (fst (dq_run (fst (dq_run l cs1)) cs2), snd (dq_run l cs1) ++ snd (dq_run (fst (dq_run l cs1)) cs2)).
Proof.
  induction cs1 as [|c t IH]; intros l cs2.
  - cbn [app dq_run fst snd]. destruct (dq_run l cs2). reflexivity.
  - cbn [app]. rewrite !dq_run_cons. cbn [fst snd]. rewrite IH. reflexivity.
Qed.

Lemma dq_run_length cs : forall l, length (snd (dq_run l cs)) = length cs.
Proof.
  induction cs as [|c t IH]; intros l; [reflexivity|].
  rewrite dq_run_cons. cbn [snd length]. rewrite IH. reflexivity.
Qed.

(* Whatever the interleaving of calls: what was consumed from the front, in order, then what is left, then
   what was consumed from the back, reversed, is exactly the initial sequence. Nothing is lost, nothing
   is seen from both ends, nothing is produced twice. *)
Theorem dq_run_partition cs : forall l,
  l = fst (dq_eats_run l cs) ++ fst (dq_run l cs) ++ rev (snd (dq_eats_run l cs)).
Proof.
  induction cs as [|c t IH]; intros l.
  - cbn [dq_eats_run dq_run fst snd rev app]. rewrite app_nil_r. reflexivity.
  - rewrite dq_run_cons. cbn [dq_eats_run fst].
    pose proof (dq_step_partition l c) as Hs. specialize (IH (fst (dq_step l c))).
    destruct (dq_eats l c) as [f b]. destruct (dq_eats_run (fst (dq_step l c)) t) as [F B].
    cbn [fst snd] in *. rewrite rev_app_distr, <- !app_assoc.
    rewrite Hs at 1. f_equal. rewrite IH at 1. rewrite <- !app_assoc. reflexivity.
Qed.

(* every call that returns an item consumed k skipped items and then exactly that item *)
Theorem dq_eats_yield l c :
  match c with
  | Next => fst (dq_eats l c) = yield_front c (snd (dq_step l c)) /\ snd (dq_eats l c) = []
  | NextBack => snd (dq_eats l c) = yield_back c (snd (dq_step l c)) /\ fst (dq_eats l c) = []
  | Nth k => k < lenA l ->
      fst (dq_eats l c) = firstn (N.to_nat k) l ++ yield_front c (snd (dq_step l c)) /\ snd (dq_eats l c) = []
  | NthBack k => k < lenA l ->
      snd (dq_eats l c) = firstn (N.to_nat k) (rev l) ++ yield_back c (snd (dq_step l c)) /\ fst (dq_eats l c) = []
  | Len => dq_eats l c = ([], [])
  end.
Proof.
  assert (Hz : forall l0 : list A, dq_eat l0 0 = match snd (dq_front l0 0) with Some x => [x] | None => [] end).
  { intros [|x t]; [reflexivity|]. rewrite dq_front_cons. cbn [snd]. unfold dq_eat.
    rewrite lenA_cons. replace (0 <? lenA t + 1) with true by lia. reflexivity. }
  destruct c as [| |k|k|]; cbn [dq_eats dq_step fst snd].
  - split; [|reflexivity]. rewrite Hz. destruct (dq_front l 0) as [l' [x|]]; reflexivity.
  - split; [|reflexivity]. rewrite Hz. destruct (dq_front (rev l) 0) as [l' [x|]]; reflexivity.
  - intros H. split; [|reflexivity]. destruct (dq_eat_item l k H) as (x & E1 & E2).
    rewrite E2. destruct (dq_front l k) as [l' o]. cbn [snd] in *. subst o. reflexivity.
  - intros H. split; [|reflexivity]. rewrite <- lenA_rev in H.
    destruct (dq_eat_item (rev l) k H) as (x & E1 & E2).
    rewrite E2. destruct (dq_front (rev l) k) as [l' o]. cbn [snd] in *. subst o. reflexivity.
  - reflexivity.
Qed.

(* without nth/nth_back the items handed out ARE the consumed ones: front items in call order, the
   remainder, and the back items in reverse call order tile the initial sequence *)
Theorem dq_run_partition_single cs : Forall call_single cs -> forall l,
  l = yields yield_front cs (snd (dq_run l cs)) ++ fst (dq_run l cs) ++ rev (yields yield_back cs (snd (dq_run l cs))).
Proof.
  intros Hs l. rewrite (dq_run_partition cs l) at 1.
  assert (E : forall l0, dq_eats_run l0 cs =
              (yields yield_front cs (snd (dq_run l0 cs)), yields yield_back cs (snd (dq_run l0 cs)))).
  { clear l. induction Hs as [|c t Hc Ht IH]; intros l0; [reflexivity|].
    rewrite dq_run_cons. cbn [dq_eats_run snd yields]. rewrite IH.
    pose proof (dq_eats_yield l0 c) as Hy.
    destruct c as [| |k|k|]; cbn [call_single] in Hc; try contradiction.
    - destruct Hy as [H1 H2]. destruct (dq_eats l0 Next) as [f b]. cbn [fst snd] in *. subst f b.
      f_equal; try reflexivity; destruct (snd (dq_step l0 Next)) as [[x|]|]; reflexivity.
    - destruct Hy as [H1 H2]. destruct (dq_eats l0 NextBack) as [f b]. cbn [fst snd] in *. subst f b.
      f_equal; try reflexivity; destruct (snd (dq_step l0 NextBack)) as [[x|]|]; reflexivity.
    - rewrite Hy. reflexivity. }
  rewrite E. reflexivity.
Qed.

(* an exhausted iterator stays exhausted *)
Theorem dq_run_nil cs : dq_run [] cs = ([], map none_out cs).
Proof.
  induction cs as [|c t IH]; [reflexivity|].
  rewrite dq_run_cons, dq_step_nil. cbn [fst snd map]. rewrite IH. reflexivity.
Qed.

(* Len reports exactly the number of items that further Next calls will produce *)
Theorem dq_run_len_exact cs l : snd (dq_run l (cs ++ [Len])) = snd (dq_run l cs) ++ [Count (lenA (fst (dq_run l cs)))].
Proof. rewrite dq_run_app. reflexivity. Qed.

Fixpoint nexts (n : nat) : list call := match n with O => [] | S k => Next :: nexts k end.
Theorem dq_run_nexts l : dq_run l (nexts (length l)) = ([], map (fun x => Item (Some x)) l).
Proof.
  induction l as [|x t IH]; [reflexivity|].
  cbn [length nexts]. rewrite dq_run_cons, dq_step_next. cbn [fst snd map]. rewrite IH. reflexivity.
Qed.

End Deque.

(* mirror image: a back call on l is the front call on the reversed list *)
Definition mirror (c : call) : call :=
  match c with Next => NextBack | NextBack => Next | Nth k => NthBack k | NthBack k => Nth k | Len => Len end.
Lemma dq_step_mirror {A} (l : list A) c :
  dq_step (rev l) (mirror c) = (rev (fst (dq_step l c)), snd (dq_step l c)).
Proof.
  destruct c as [| |k|k|]; cbn [mirror dq_step]; rewrite ?rev_involutive.
  - destruct (dq_front l 0); reflexivity.
  - destruct (dq_front (rev l) 0); cbn [fst snd]. rewrite rev_involutive. reflexivity.
  - destruct (dq_front l k); reflexivity.
  - destruct (dq_front (rev l) k); cbn [fst snd]. rewrite rev_involutive. reflexivity.
  - cbn [fst snd]. rewrite lenA_rev. reflexivity.
Qed.

(* ================================================================ Part 2: lifting one-step refinement *)

(* a concrete iterator run over a call sequence; a failing call ends the run with that failure *)
Fixpoint it_run {St A} (step : St -> call -> res (St * out A)) (s : St) (cs : list call)
  : res (St * list (out A)) :=
  match cs with
  | [] => Ok (s, [])
  | c :: t =>
      let* (s1, x) := step s c in
      let* (s2, xs) := it_run step s1 t in
      Ok (s2, x :: xs)
  end.

Section Lifting.
Context {A St : Type}.
Variable step : St -> call -> res (St * out A).
(* [rep s l]: the concrete state s is valid and its unvisited items are l *)
Variable rep : St -> list A -> Prop.
(* the calls the iterator type implements, with machine-representable arguments *)
Variable ok : call -> Prop.

Definition step_refines_rel : Prop :=
  forall s l c, rep s l -> ok c ->
    exists s', step s c = Ok (s', snd (dq_step l c)) /\ rep s' (fst (dq_step l c)).

(* If every single call returns (no panic, no out-of-bounds access), gives the output of the deque
   specification and leaves a state representing the specification's remainder, then so does every
   finite sequence of calls. *)
Theorem lifting_rel : step_refines_rel ->
  forall cs s l, rep s l -> Forall ok cs ->
    exists s', it_run step s cs = Ok (s', snd (dq_run l cs)) /\ rep s' (fst (dq_run l cs)).
Proof.
  intros Hstep. induction cs as [|c t IH]; intros s l Hr Hok.
  - exists s. cbn [it_run dq_run fst snd]. auto.
  - inversion Hok as [|c' t' Hc Ht]; subst.
    destruct (Hstep s l c Hr Hc) as (s1 & E1 & Hr1).
    destruct (IH s1 _ Hr1 Ht) as (s2 & E2 & Hr2).
    exists s2. rewrite dq_run_cons. cbn [it_run fst snd]. rewrite E1. cbn [bind].
    rewrite E2. cbn [bind]. auto.
Qed.
End Lifting.

Section LiftingFun.
Context {A St : Type}.
Variable step : St -> call -> res (St * out A).
Variable abs : St -> list A.
Variable inv : St -> Prop.
Variable ok : call -> Prop.

Definition step_refines : Prop :=
  forall s c, inv s -> ok c ->
    exists s', step s c = Ok (s', snd (dq_step (abs s) c)) /\ inv s' /\ abs s' = fst (dq_step (abs s) c).

(* the same with an abstraction function and an invariant *)
Theorem lifting : step_refines ->
  forall cs s, inv s -> Forall ok cs ->
    exists s', it_run step s cs = Ok (s', snd (dq_run (abs s) cs)) /\ inv s' /\ abs s' = fst (dq_run (abs s) cs).
Proof.
  intros Hstep cs s Hinv Hok.
  destruct (lifting_rel step (fun s l => inv s /\ abs s = l) ok) with (cs := cs) (s := s) (l := abs s)
    as (s' & E & Hi & Ha); auto.
  - intros s0 l c [Hi <-] Hc. destruct (Hstep s0 c Hi Hc) as (s1 & E1 & Hi1 & Ha1). eauto.
  - eauto.
Qed.
End LiftingFun.
