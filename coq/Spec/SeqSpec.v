(* Specification for C05: a raw vector is a [list bool], an integer vector is a width and a [list N].
   Every operation of RawVector / IntVector is given its meaning on these plain sequences by the most
   naive list functions (append, firstn, skipn, repeat, map). Independent of gen/ and Model/.
   The second half holds lemmas about the specification itself (pointwise reading of the list functions). *)
From Coq Require Import NArith List Bool Lia.
Require Import SDS.Spec.BitSeq.
Import ListNotations.
Open Scope N_scope.
Require Import ZifyBool ZifyN ZifyNat.

(* ---- list functions indexed by N ---- *)

Definition lenL {A} (l : list A) : N := N.of_nat (length l).
Definition takeN {A} (n : N) (l : list A) : list A := firstn (N.to_nat n) l.
Definition dropN {A} (n : N) (l : list A) : list A := skipn (N.to_nat n) l.
Definition repN {A} (x : A) (n : N) : list A := repeat x (N.to_nat n).
Definition nthb (l : list bool) (i : N) : bool := nth (N.to_nat i) l false.
Definition nthn (l : list N) (i : N) : N := nth (N.to_nat i) l 0.

(* the number whose binary digits, least significant first, are [l] *)
Definition bits_val (l : list bool) : N := fold_right (fun b acc => b2n b + 2 * acc) 0 l.
(* the first [w] binary digits of [v], least significant first ([w] <= 64): the value truncated to the width *)
Definition vbits (v w : N) : list bool := takeN w (wbits v).

(* ---- operations and what they return ---- *)

Inductive out :=
| ONone
| OBool (b : bool)
| ONat (v : N)
| OOptBool (o : option bool)
| OOptNat (o : option N).

(* RawVector: every operation of the type and of AccessRaw / PushRaw / PopRaw *)
Inductive rop :=
| RWithLen (len : N) (value : bool)      (* v = RawVector::with_len(len, value) *)
| RResize (new_len : N) (value : bool)
| RClear
| RReserve (additional : N)
| RComplement                             (* v = v.complement() *)
| RBit (i : N)
| RInt (off w : N)
| RSetBit (i : N) (b : bool)
| RSetInt (off v w : N)
| RPushBit (b : bool)
| RPushInt (v w : N)
| RPopBit
| RPopInt (w : N)
| RCountOnes.

Definition rspec_step (l : list bool) (o : rop) : list bool * out :=
  match o with
  | RWithLen len value => (repN value len, ONone)
  | RResize n value => (takeN n l ++ repN value (n - lenL l), ONone)
  | RClear => ([], ONone)
  | RReserve _ => (l, ONone)
  | RComplement => (map negb l, ONone)
  | RBit i => (l, OBool (nthb l i))
  | RInt off w => (l, ONat (bits_val (takeN w (dropN off l))))
  | RSetBit i b => (takeN i l ++ [b] ++ dropN (i + 1) l, ONone)
  | RSetInt off v w => (takeN off l ++ vbits v w ++ dropN (off + w) l, ONone)
  | RPushBit b => (l ++ [b], ONone)
  | RPushInt v w => (l ++ vbits v w, ONone)
  | RPopBit =>
      if lenL l =? 0 then (l, OOptBool None)
      else (takeN (lenL l - 1) l, OOptBool (Some (nthb l (lenL l - 1))))
  | RPopInt w =>
      if w <=? lenL l then (takeN (lenL l - w) l, OOptNat (Some (bits_val (dropN (lenL l - w) l))))
      else (l, OOptNat None)
  | RCountOnes => (l, ONat (count l))
  end.

(* the documented preconditions: positions inside the vector, widths at most 64; values are arbitrary *)
Definition rop_pre (l : list bool) (o : rop) : Prop :=
  match o with
  | RBit i | RSetBit i _ => i < lenL l
  | RInt off w | RSetInt off _ w => w <= 64 /\ off + w <= lenL l
  | RPushInt _ w | RPopInt w => w <= 64
  | _ => True
  end.
Definition rop_preb (l : list bool) (o : rop) : bool :=
  match o with
  | RBit i | RSetBit i _ => i <? lenL l
  | RInt off w | RSetInt off _ w => (w <=? 64) && (off + w <=? lenL l)
  | RPushInt _ w | RPopInt w => w <=? 64
  | _ => true
  end.

Fixpoint rspec_run (l : list bool) (ops : list rop) : list bool * list out :=
  match ops with
  | [] => (l, [])
  | o :: t => let '(l1, x) := rspec_step l o in let '(l2, xs) := rspec_run l1 t in (l2, x :: xs)
  end.
Fixpoint rpre_all (l : list bool) (ops : list rop) : Prop :=
  match ops with
  | [] => True
  | o :: t => rop_pre l o /\ rpre_all (fst (rspec_step l o)) t
  end.

(* IntVector: the state is (width, items) *)
Inductive iop :=
| IWithLen (len w value : N)   (* v = IntVector::with_len(len, w, value).unwrap() *)
| IFrom (w : N) (xs : list N)  (* v = IntVector::from(Vec<uW>) *)
| IGet (i : N)
| ISet (i v : N)
| IPush (v : N)
| IPop
| IResize (n v : N)
| IClear
| IReserve (n : N)
| IPack
| IExtend (xs : list N)
| ICountOnes.                   (* count_ones of the underlying raw vector *)

Definition trunc (w v : N) : N := v mod 2 ^ w.
Definition list_maxN (l : list N) : N := fold_right N.max 0 l.
(* number of binary digits of m; one digit for 0 *)
Definition digits (m : N) : N := if m =? 0 then 1 else N.log2 m + 1.
Definition bits_of_items (w : N) (xs : list N) : list bool := flat_map (fun x => vbits x w) xs.

Definition ispec_step (s : N * list N) (o : iop) : (N * list N) * out :=
  let '(w, xs) := s in
  match o with
  | IWithLen len w' value => ((w', repN (trunc w' value) len), ONone)
  | IFrom w' ys => ((w', map (trunc w') ys), ONone)
  | IGet i => (s, ONat (nthn xs i))
  | ISet i v => ((w, takeN i xs ++ [trunc w v] ++ dropN (i + 1) xs), ONone)
  | IPush v => ((w, xs ++ [trunc w v]), ONone)
  | IPop =>
      if lenL xs =? 0 then (s, OOptNat None)
      else ((w, takeN (lenL xs - 1) xs), OOptNat (Some (nthn xs (lenL xs - 1))))
  | IResize n v => ((w, takeN n xs ++ repN (trunc w v) (n - lenL xs)), ONone)
  | IClear => ((w, []), ONone)
  | IReserve _ => (s, ONone)
  | IPack => (((if lenL xs =? 0 then w else digits (list_maxN xs)), xs), ONone)
  | IExtend ys => ((w, xs ++ map (trunc w) ys), ONone)
  | ICountOnes => (s, ONat (count (bits_of_items w xs)))
  end.

Definition iop_pre (s : N * list N) (o : iop) : Prop :=
  match o with
  | IWithLen _ w _ | IFrom w _ => 1 <= w <= 64
  | IGet i | ISet i _ => i < lenL (snd s)
  | _ => True
  end.
Definition iop_preb (s : N * list N) (o : iop) : bool :=
  match o with
  | IWithLen _ w _ | IFrom w _ => (1 <=? w) && (w <=? 64)
  | IGet i | ISet i _ => i <? lenL (snd s)
  | _ => true
  end.

Fixpoint ispec_run (s : N * list N) (ops : list iop) : (N * list N) * list out :=
  match ops with
  | [] => (s, [])
  | o :: t => let '(s1, x) := ispec_step s o in let '(s2, xs) := ispec_run s1 t in (s2, x :: xs)
  end.
Fixpoint ipre_all (s : N * list N) (ops : list iop) : Prop :=
  match ops with
  | [] => True
  | o :: t => iop_pre s o /\ ipre_all (fst (ispec_step s o)) t
  end.

(* the items of width [w] stored in a bit sequence *)
Fixpoint items_of (w : N) (n : nat) (l : list bool) : list N :=
  match n with
  | O => []
  | S k => bits_val (takeN w l) :: items_of w k (dropN w l)
  end.

(* ---- lemmas about the list functions ---- *)

Lemma lenL_nil {A} : lenL (@nil A) = 0. Proof. reflexivity. Qed.
Lemma lenL_cons {A} (x : A) l : lenL (x :: l) = lenL l + 1.
Proof. unfold lenL. cbn [length]. lia. Qed.
Lemma lenL_app {A} (l1 l2 : list A) : lenL (l1 ++ l2) = lenL l1 + lenL l2.
Proof. unfold lenL. rewrite app_length. lia. Qed.
Lemma lenL_takeN {A} n (l : list A) : lenL (takeN n l) = N.min n (lenL l).
Proof. unfold lenL, takeN. rewrite firstn_length. lia. Qed.
Lemma lenL_dropN {A} n (l : list A) : lenL (dropN n l) = lenL l - n.
Proof. unfold lenL, dropN. rewrite skipn_length. lia. Qed.
Lemma lenL_repN {A} (x : A) n : lenL (repN x n) = n.
Proof. unfold lenL, repN. rewrite repeat_length. lia. Qed.
Lemma lenL_map {A B} (f : A -> B) l : lenL (map f l) = lenL l.
Proof. unfold lenL. rewrite map_length. reflexivity. Qed.
Lemma lenL_wbits v : lenL (wbits v) = 64.
Proof. unfold lenL. rewrite wbits_length. reflexivity. Qed.
Lemma lenL_vbits v w : w <= 64 -> lenL (vbits v w) = w.
Proof. intros H. unfold vbits. rewrite lenL_takeN, lenL_wbits. lia. Qed.
Lemma lenL_0 {A} (l : list A) : lenL l = 0 -> l = [].
Proof. destruct l; [reflexivity|]. rewrite lenL_cons. lia. Qed.

Lemma takeN_all {A} n (l : list A) : lenL l <= n -> takeN n l = l.
Proof. intros H. unfold takeN. apply firstn_all2. unfold lenL in H. lia. Qed.
Lemma dropN_all {A} n (l : list A) : lenL l <= n -> dropN n l = [].
Proof. intros H. unfold dropN. apply skipn_all2. unfold lenL in H. lia. Qed.
Lemma takeN_0 {A} (l : list A) : takeN 0 l = [].
Proof. reflexivity. Qed.
Lemma dropN_0 {A} (l : list A) : dropN 0 l = l.
Proof. reflexivity. Qed.
Lemma takeN_dropN {A} n (l : list A) : takeN n l ++ dropN n l = l.
Proof. apply firstn_skipn. Qed.
Lemma takeN_app_exact {A} n (l1 l2 : list A) : lenL l1 = n -> takeN n (l1 ++ l2) = l1.
Proof.
  intros H. unfold takeN, lenL in *. rewrite firstn_app.
  replace (N.to_nat n - length l1)%nat with 0%nat by lia. cbn [firstn]. rewrite app_nil_r.
  apply firstn_all2. lia.
Qed.
Lemma dropN_app_exact {A} n (l1 l2 : list A) : lenL l1 = n -> dropN n (l1 ++ l2) = l2.
Proof.
  intros H. unfold dropN, lenL in *. rewrite skipn_app.
  replace (N.to_nat n - length l1)%nat with 0%nat by lia. cbn [skipn].
  rewrite skipn_all2 by lia. reflexivity.
Qed.
Lemma dropN_dropN {A} a b (l : list A) : dropN a (dropN b l) = dropN (b + a) l.
Proof.
  unfold dropN. replace (N.to_nat (b + a)) with (N.to_nat b + N.to_nat a)%nat by lia.
  revert l. induction (N.to_nat b) as [|k IH]; intros l; cbn [skipn Nat.add]; [reflexivity|].
  destruct l; [destruct (N.to_nat a); reflexivity|apply IH].
Qed.
Lemma repN_add {A} (x : A) a b : repN x (a + b) = repN x a ++ repN x b.
Proof. unfold repN. replace (N.to_nat (a + b)) with (N.to_nat a + N.to_nat b)%nat by lia. apply repeat_app. Qed.
Lemma repN_0 {A} (x : A) : repN x 0 = []. Proof. reflexivity. Qed.
Lemma repN_1 {A} (x : A) : repN x 1 = [x]. Proof. reflexivity. Qed.

Lemma nth_firstn_b (n k : nat) (l : list bool) :
  nth k (firstn n l) false = if (Nat.ltb (k) (n)) then nth k l false else false.
Proof.
  revert k l. induction n as [|n IH]; intros k l.
  - cbn [firstn]. destruct k; reflexivity.
  - destruct l as [|x t]; cbn [firstn].
    + destruct k; cbn [nth]; destruct (Nat.ltb (_) (_)); reflexivity.
    + destruct k as [|k]; cbn [nth]; [reflexivity|]. rewrite IH.
      change (Nat.ltb (S k) (S n)) with (Nat.ltb (k) (n)). reflexivity.
Qed.
Lemma nth_skipn_d {A} (n k : nat) (l : list A) d : nth k (skipn n l) d = nth (n + k) l d.
Proof.
  revert l. induction n as [|n IH]; intros l; cbn [skipn Nat.add]; [reflexivity|].
  destruct l as [|x t]; cbn [nth]; [destruct k; reflexivity|apply IH].
Qed.
Lemma nth_repeat_b (k n : nat) (b : bool) : nth k (repeat b n) false = (Nat.ltb (k) (n)) && b.
Proof.
  revert k. induction n as [|n IH]; intros k; cbn [repeat].
  - destruct k; reflexivity.
  - destruct k as [|k]; cbn [nth]; [reflexivity|]. rewrite IH. reflexivity.
Qed.
Lemma nth_map_negb (k : nat) (l : list bool) :
  nth k (map negb l) false = (Nat.ltb (k) (length l)) && negb (nth k l false).
Proof.
  revert k. induction l as [|x t IH]; intros k; cbn [map length].
  - destruct k; reflexivity.
  - destruct k as [|k]; cbn [nth]; [reflexivity|]. rewrite IH. reflexivity.
Qed.

Lemma nthb_nil i : nthb [] i = false.
Proof. unfold nthb. destruct (N.to_nat i); reflexivity. Qed.
Lemma nthb_cons b t i : nthb (b :: t) i = if i =? 0 then b else nthb t (i - 1).
Proof.
  unfold nthb. destruct (N.eqb_spec i 0) as [->|Hn]; [reflexivity|].
  replace (N.to_nat i) with (S (N.to_nat (i - 1))) by lia. reflexivity.
Qed.
Lemma nthb_beyond l i : lenL l <= i -> nthb l i = false.
Proof. intros H. unfold nthb, lenL in *. apply nth_overflow. lia. Qed.
Lemma nthb_app l1 l2 i : nthb (l1 ++ l2) i = if i <? lenL l1 then nthb l1 i else nthb l2 (i - lenL l1).
Proof.
  unfold nthb, lenL. destruct (N.ltb_spec i (N.of_nat (length l1))) as [H|H].
  - rewrite app_nth1 by lia. reflexivity.
  - rewrite app_nth2 by lia. f_equal. lia.
Qed.
Lemma nthb_takeN n l i : nthb (takeN n l) i = (i <? n) && nthb l i.
Proof.
  unfold nthb, takeN. rewrite nth_firstn_b.
  destruct (N.ltb_spec i n) as [H|H].
  - replace (Nat.ltb (N.to_nat i) (N.to_nat n)) with true by lia. reflexivity.
  - replace (Nat.ltb (N.to_nat i) (N.to_nat n)) with false by lia. reflexivity.
Qed.
Lemma nthb_dropN n l i : nthb (dropN n l) i = nthb l (n + i).
Proof. unfold nthb, dropN. rewrite nth_skipn_d. f_equal. lia. Qed.
Lemma nthb_repN b n i : nthb (repN b n) i = (i <? n) && b.
Proof.
  unfold nthb, repN. rewrite nth_repeat_b.
  destruct (N.ltb_spec i n) as [H|H].
  - replace (Nat.ltb (N.to_nat i) (N.to_nat n)) with true by lia. reflexivity.
  - replace (Nat.ltb (N.to_nat i) (N.to_nat n)) with false by lia. reflexivity.
Qed.
Lemma nthb_map_negb l i : nthb (map negb l) i = (i <? lenL l) && negb (nthb l i).
Proof.
  unfold nthb, lenL. rewrite nth_map_negb.
  destruct (N.ltb_spec i (N.of_nat (length l))) as [H|H].
  - replace (Nat.ltb (N.to_nat i) (length l)) with true by lia. reflexivity.
  - replace (Nat.ltb (N.to_nat i) (length l)) with false by lia. reflexivity.
Qed.
Lemma nthb_single b i : nthb [b] i = (i =? 0) && b.
Proof. rewrite nthb_cons, nthb_nil. destruct (i =? 0); reflexivity. Qed.
Lemma nthb_wbits v i : nthb (wbits v) i = (i <? 64) && N.testbit v i.
Proof.
  destruct (N.ltb_spec i 64) as [H|H]; cbn [andb].
  - unfold nthb, wbits. set (f := fun j => N.testbit v (N.of_nat j)).
    rewrite nth_indep with (d' := f 0%nat) by (rewrite map_length, seq_length; lia).
    rewrite map_nth, seq_nth by lia. subst f. cbv beta. f_equal. lia.
  - apply nthb_beyond. rewrite lenL_wbits. exact H.
Qed.
Lemma nthb_vbits v w i : w <= 64 -> nthb (vbits v w) i = (i <? w) && N.testbit v i.
Proof.
  intros Hw. unfold vbits. rewrite nthb_takeN, nthb_wbits.
  destruct (N.ltb_spec i w); cbn [andb]; [|reflexivity].
  replace (i <? 64) with true by lia. reflexivity.
Qed.

(* two bit lists are equal when they have the same length and the same bits *)
Lemma list_ext_nthb l1 l2 : lenL l1 = lenL l2 -> (forall i, nthb l1 i = nthb l2 i) -> l1 = l2.
Proof.
  intros Hl H. unfold lenL in Hl. apply nth_ext with (d := false) (d' := false); [lia|].
  intros n _. specialize (H (N.of_nat n)). unfold nthb in H. rewrite Nat2N.id in H. exact H.
Qed.

Lemma count_all_false l : (forall i, nthb l i = false) -> count l = 0.
Proof.
  induction l as [|b t IH]; intros H; cbn [count]; [reflexivity|].
  pose proof (H 0) as H0. rewrite nthb_cons in H0. cbn in H0. subst b.
  rewrite IH; [reflexivity|]. intros i. specialize (H (i + 1)). rewrite nthb_cons in H.
  replace (i + 1 =? 0) with false in H by lia. replace (i + 1 - 1) with i in H by lia. exact H.
Qed.

(* ---- numbers and their digits ---- *)

Lemma bits_val_cons b t : bits_val (b :: t) = 2 * bits_val t + N.b2n b.
Proof. unfold bits_val. cbn [fold_right]. unfold b2n, N.b2n. destruct b; lia. Qed.

Lemma bits_val_testbit l k : N.testbit (bits_val l) k = nthb l k.
Proof.
  revert k. induction l as [|b t IH]; intros k.
  - rewrite nthb_nil. apply N.bits_0.
  - rewrite bits_val_cons, nthb_cons. destruct (N.eqb_spec k 0) as [->|Hk].
    + apply N.testbit_0_r.
    + replace k with (N.succ (k - 1)) at 1 by lia. rewrite N.testbit_succ_r. apply IH.
Qed.

Lemma bits_val_lt l : bits_val l < 2 ^ lenL l.
Proof.
  induction l as [|b t IH].
  - cbn. lia.
  - rewrite bits_val_cons, lenL_cons, N.add_1_r, N.pow_succ_r'. destruct b; cbn [N.b2n]; lia.
Qed.

Lemma bits_val_vbits v w : w <= 64 -> bits_val (vbits v w) = v mod 2 ^ w.
Proof.
  intros Hw. apply N.bits_inj. intros k. rewrite bits_val_testbit, nthb_vbits by assumption.
  destruct (N.ltb_spec k w) as [H|H]; cbn [andb].
  - rewrite N.mod_pow2_bits_low by assumption. reflexivity.
  - rewrite N.mod_pow2_bits_high by assumption. reflexivity.
Qed.

Lemma vbits_trunc v w : w <= 64 -> vbits (trunc w v) w = vbits v w.
Proof.
  intros Hw. apply list_ext_nthb; [rewrite !lenL_vbits by assumption; reflexivity|].
  intros i. rewrite !nthb_vbits by assumption. unfold trunc.
  destruct (N.ltb_spec i w) as [H|H]; cbn [andb]; [|reflexivity].
  rewrite N.mod_pow2_bits_low by assumption. reflexivity.
Qed.

Lemma vbits_0 v : vbits v 0 = []. Proof. reflexivity. Qed.

Lemma trunc_lt w v : trunc w v < 2 ^ w.
Proof. unfold trunc. apply N.mod_lt. apply N.pow_nonzero. lia. Qed.
Lemma trunc_small w v : v < 2 ^ w -> trunc w v = v.
Proof. intros H. unfold trunc. apply N.mod_small. exact H. Qed.

(* ---- items <-> bits ---- *)

Lemma boi_nil w : bits_of_items w [] = []. Proof. reflexivity. Qed.
Lemma boi_cons w x t : bits_of_items w (x :: t) = vbits x w ++ bits_of_items w t. Proof. reflexivity. Qed.
Lemma boi_app w l1 l2 : bits_of_items w (l1 ++ l2) = bits_of_items w l1 ++ bits_of_items w l2.
Proof. apply flat_map_app. Qed.
Lemma boi_single w x : bits_of_items w [x] = vbits x w.
Proof. rewrite boi_cons, boi_nil. apply app_nil_r. Qed.

Lemma lenL_boi w xs : w <= 64 -> lenL (bits_of_items w xs) = lenL xs * w.
Proof.
  intros Hw. induction xs as [|x t IH]; [reflexivity|].
  rewrite boi_cons, lenL_app, lenL_vbits, lenL_cons, IH by assumption. lia.
Qed.

Lemma items_of_boi w xs :
  w <= 64 -> Forall (fun x => x < 2 ^ w) xs -> items_of w (length xs) (bits_of_items w xs) = xs.
Proof.
  intros Hw. induction xs as [|x t IH]; intros Hf; [reflexivity|].
  inversion Hf as [|? ? Hx Ht]; subst. cbn [length items_of]. rewrite boi_cons.
  rewrite takeN_app_exact, dropN_app_exact by (apply lenL_vbits; assumption).
  rewrite bits_val_vbits by assumption. rewrite N.mod_small by assumption. f_equal. apply IH. assumption.
Qed.

Lemma takeN_boi w i xs : w <= 64 -> i <= lenL xs -> takeN (i * w) (bits_of_items w xs) = bits_of_items w (takeN i xs).
Proof.
  intros Hw Hi. rewrite <- (takeN_dropN i xs) at 1. rewrite boi_app.
  apply takeN_app_exact. rewrite lenL_boi, lenL_takeN by assumption. rewrite N.min_l by assumption. reflexivity.
Qed.
Lemma dropN_boi w i xs : w <= 64 -> i <= lenL xs -> dropN (i * w) (bits_of_items w xs) = bits_of_items w (dropN i xs).
Proof.
  intros Hw Hi. rewrite <- (takeN_dropN i xs) at 1. rewrite boi_app.
  apply dropN_app_exact. rewrite lenL_boi, lenL_takeN by assumption. rewrite N.min_l by assumption. reflexivity.
Qed.

Lemma dropN_nthn i xs : i < lenL xs -> dropN i xs = nthn xs i :: dropN (i + 1) xs.
Proof.
  unfold dropN, nthn, lenL. replace (N.to_nat (i + 1)) with (S (N.to_nat i)) by lia.
  intros H0. assert (H : (N.to_nat i < length xs)%nat) by lia. clear H0. revert H.
  generalize (N.to_nat i) as k. intros k. revert xs. induction k as [|k IH]; intros xs H.
  - destruct xs; cbn [length] in H; [lia|reflexivity].
  - destruct xs as [|x t]; cbn [length] in H; [lia|]. cbn [skipn nth]. apply IH. lia.
Qed.

Lemma Forall_takeN {A} (P : A -> Prop) n l : Forall P l -> Forall P (takeN n l).
Proof. intros H. rewrite <- (takeN_dropN n l) in H. apply Forall_app in H. apply H. Qed.
Lemma Forall_dropN {A} (P : A -> Prop) n l : Forall P l -> Forall P (dropN n l).
Proof. intros H. rewrite <- (takeN_dropN n l) in H. apply Forall_app in H. apply H. Qed.
Lemma Forall_repN {A} (P : A -> Prop) x n : P x -> Forall P (repN x n).
Proof. intros H. unfold repN. induction (N.to_nat n); cbn [repeat]; constructor; assumption. Qed.
Lemma Forall_map_trunc w ys : Forall (fun x => x < 2 ^ w) (map (trunc w) ys).
Proof. induction ys; cbn [map]; constructor; [apply trunc_lt|assumption]. Qed.

Lemma list_maxN_ge xs x : In x xs -> x <= list_maxN xs.
Proof.
  induction xs as [|y t IH]; intros H; [destruct H|]. cbn [list_maxN fold_right].
  destruct H as [->|H]; [lia|]. specialize (IH H). fold (list_maxN t). lia.
Qed.
Lemma list_maxN_in xs : xs <> [] -> In (list_maxN xs) xs.
Proof.
  induction xs as [|y t IH]; intros H; [congruence|]. cbn [list_maxN fold_right]. fold (list_maxN t).
  destruct t as [|z u].
  - cbn. left. lia.
  - destruct (N.max_spec y (list_maxN (z :: u))) as [[_ ->]|[_ ->]].
    + right. apply IH. congruence.
    + left. reflexivity.
Qed.
