(* Specification library: bit sequences as [list bool], with rank / select / predecessor /
   successor defined by the most naive recursion available. Everything is executable and is
   also used as the search oracle of the correspondence checks. Independent of gen/ and Model/. *)
From Coq Require Import NArith List Bool Lia.
Import ListNotations.
Open Scope N_scope.

Definition b2n (b : bool) : N := if b then 1 else 0.

Fixpoint count (B : list bool) : N :=
  match B with [] => 0 | b :: t => b2n b + count t end.

Definition lenB (B : list bool) : N := N.of_nat (length B).

(* B[i] *)
Fixpoint getb (B : list bool) (i : N) : option bool :=
  match B with
  | [] => None
  | b :: t => if i =? 0 then Some b else getb t (i - 1)
  end.

(* number of set bits among the first i positions (all of them when i >= |B|) *)
Fixpoint rank1 (B : list bool) (i : N) : N :=
  match B with
  | [] => 0
  | b :: t => if i =? 0 then 0 else b2n b + rank1 t (i - 1)
  end.

(* positions of the set bits, increasing, shifted by [pos] *)
Fixpoint ones_from (B : list bool) (pos : N) : list N :=
  match B with
  | [] => []
  | b :: t => if b then pos :: ones_from t (pos + 1) else ones_from t (pos + 1)
  end.
Definition ones (B : list bool) : list N := ones_from B 0.
Definition zeros (B : list bool) : list N := ones_from (map negb B) 0.

Fixpoint nth_opt {A} (l : list A) (i : N) : option A :=
  match l with
  | [] => None
  | x :: t => if i =? 0 then Some x else nth_opt t (i - 1)
  end.

Definition select1 (B : list bool) (r : N) : option N := nth_opt (ones B) r.
Definition select0 (B : list bool) (r : N) : option N := nth_opt (zeros B) r.

(* (rank, position) pairs *)
Fixpoint index_from {A} (l : list A) (i : N) : list (N * A) :=
  match l with [] => [] | x :: t => (i, x) :: index_from t (i + 1) end.
Definition ranked_ones (B : list bool) : list (N * N) := index_from (ones B) 0.
Definition ranked_zeros (B : list bool) : list (N * N) := index_from (zeros B) 0.

(* successor: the suffix of ranked positions starting at the first position >= v *)
Fixpoint drop_below (l : list (N * N)) (v : N) : list (N * N) :=
  match l with
  | [] => []
  | (r, p) :: t => if p <? v then drop_below t v else l
  end.
Definition succ_suffix (B : list bool) (v : N) : list (N * N) := drop_below (ranked_ones B) v.
Definition succ1 (B : list bool) (v : N) : option (N * N) := hd_error (succ_suffix B v).

(* predecessor: the suffix of ranked positions starting at the last position <= v *)
Fixpoint pred_suffix_aux (l : list (N * N)) (v : N) (best : list (N * N)) : list (N * N) :=
  match l with
  | [] => best
  | (r, p) :: t => if p <=? v then pred_suffix_aux t v l else best
  end.
Definition pred_suffix (B : list bool) (v : N) : list (N * N) := pred_suffix_aux (ranked_ones B) v [].
Definition pred1 (B : list bool) (v : N) : option (N * N) := hd_error (pred_suffix B v).

(* suffix of the ranked ones starting at rank r (what select_iter r must yield) *)
Fixpoint skipN {A} (l : list A) (n : N) : list A :=
  match l with
  | [] => []
  | x :: t => if n =? 0 then l else skipN t (n - 1)
  end.

(* ---- words as 64 bits, least significant first ---- *)

Definition wbits (w : N) : list bool := map (fun j => N.testbit w (N.of_nat j)) (seq 0 64).
Definition bits_of_words (ws : list N) : list bool := flat_map wbits ws.
(* the bit sequence stored in (len, words) *)
Definition bits_of (len : N) (ws : list N) : list bool := firstn (N.to_nat len) (bits_of_words ws).

(* position of the set bit of rank r inside a 64-bit word *)
Definition select_in_word (w r : N) : option N := select1 (wbits w) r.

(* byte as 8 bits *)
Definition bbits (x : N) : list bool := map (fun j => N.testbit x (N.of_nat j)) (seq 0 8).

(* ---- basic algebra ---- *)

Lemma count_app l1 l2 : count (l1 ++ l2) = count l1 + count l2.
Proof. induction l1 as [|b t IH]; cbn [app count]; [lia|rewrite IH; lia]. Qed.

Lemma count_le_length l : count l <= N.of_nat (length l).
Proof. induction l as [|b t IH]; cbn [count length]; [lia|destruct b; cbn [b2n]; lia]. Qed.

Lemma wbits_length w : length (wbits w) = 64%nat.
Proof. unfold wbits. rewrite map_length, seq_length. reflexivity. Qed.

Lemma rank1_le B i : rank1 B i <= count B.
Proof.
  revert i. induction B as [|b t IH]; intros i; cbn [rank1 count]; [lia|].
  destruct (i =? 0); [lia|]. specialize (IH (i - 1)). lia.
Qed.

Lemma rank1_all B i : lenB B <= i -> rank1 B i = count B.
Proof.
  revert i. unfold lenB. induction B as [|b t IH]; intros i Hi; cbn [rank1 count length] in *; [reflexivity|].
  destruct (N.eqb_spec i 0) as [->|Hn]; [lia|]. rewrite IH by lia. reflexivity.
Qed.
