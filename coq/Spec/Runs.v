(* Specification library for run-length encoded bit sequences: a bit sequence of length L is given by a
   sorted list R of non-overlapping runs (start, length) of set bits. Everything is defined by naive position
   arithmetic on the run list (nothing ever materialises L bits: L reaches 2^64-1) and is executable; it is also
   the search oracle of the C03 correspondence check. Independent of gen/ and Model/. *)
From Coq Require Import NArith List Bool.
Import ListNotations.
Open Scope N_scope.

Notation run := (N * N)%type (only parsing).    (* (start, length) *)
Definition run_end (r : run) : N := fst r + snd r.

(* ---- validity ---- *)

(* sorted, non-overlapping (adjacency allowed), every length >= 1, starting at or after [from] *)
Fixpoint runs_sorted (from : N) (R : list run) : Prop :=
  match R with
  | [] => True
  | (s, l) :: t => from <= s /\ 1 <= l /\ runs_sorted (s + l) t
  end.
(* the same with a gap of at least one unset bit between consecutive runs: the maximal runs of a sequence *)
Fixpoint runs_maximal (first : bool) (from : N) (R : list run) : Prop :=
  match R with
  | [] => True
  | (s, l) :: t => (if first then from <= s else from < s) /\ 1 <= l /\ runs_maximal false (s + l) t
  end.
(* position after the last run *)
Definition runs_end (R : list run) : N := match R with [] => 0 | _ => run_end (last R (0, 0)) end.

(* ---- merging adjacent runs ---- *)

Fixpoint maximal_from (cur : run) (R : list run) : list run :=
  match R with
  | [] => [cur]
  | (s, l) :: t => if fst cur + snd cur =? s then maximal_from (fst cur, snd cur + l) t
                   else cur :: maximal_from (s, l) t
  end.
Definition maximal (R : list run) : list run :=
  match R with [] => [] | r :: t => maximal_from r t end.

(* ---- queries ---- *)

Definition in_run (i : N) (r : run) : bool := (fst r <=? i) && (i <? fst r + snd r).
Definition runs_get (R : list run) (i : N) : bool := existsb (in_run i) R.

(* number of positions of the run below i *)
Definition overlap (i : N) (r : run) : N := N.min i (fst r + snd r) - N.min i (fst r).
Fixpoint runs_rank (R : list run) (i : N) : N :=
  match R with [] => 0 | r :: t => overlap i r + runs_rank t i end.
Fixpoint runs_ones (R : list run) : N :=
  match R with [] => 0 | r :: t => snd r + runs_ones t end.

Fixpoint runs_select (R : list run) (r : N) : option N :=
  match R with
  | [] => None
  | (s, l) :: t => if r <? l then Some (s + r) else runs_select t (r - l)
  end.

(* [prev] = end of the previous run (0 at the start); L = total length *)
Fixpoint runs_select_zero_from (prev : N) (R : list run) (L r : N) : option N :=
  match R with
  | [] => if r <? L - prev then Some (prev + r) else None
  | (s, l) :: t => if r <? s - prev then Some (prev + r)
                   else runs_select_zero_from (s + l) t L (r - (s - prev))
  end.
Definition runs_select_zero (R : list run) (L r : N) : option N := runs_select_zero_from 0 R L r.

(* predecessor of v: the last set position <= v, with its rank; successor: the first set position >= v *)
Definition runs_pred (R : list run) (v : N) : option (N * N) :=
  let k := runs_rank R (v + 1) in
  if k =? 0 then None
  else match runs_select R (k - 1) with Some p => Some (k - 1, p) | None => None end.
Definition runs_succ (R : list run) (v : N) : option (N * N) :=
  let k := runs_rank R v in
  match runs_select R k with Some p => Some (k, p) | None => None end.

(* what an iterator over the set (unset) bits yields from rank r on, at most n items *)
Fixpoint ones_from_rank (n : nat) (R : list run) (r : N) : list (N * N) :=
  match n with
  | O => []
  | S k => match runs_select R r with Some p => (r, p) :: ones_from_rank k R (r + 1) | None => [] end
  end.
Fixpoint zeros_from_rank (n : nat) (R : list run) (L r : N) : list (N * N) :=
  match n with
  | O => []
  | S k => match runs_select_zero R L r with Some p => (r, p) :: zeros_from_rank k R L (r + 1) | None => [] end
  end.
Fixpoint bits_from (n : nat) (R : list run) (L i : N) : list bool :=
  match n with
  | O => []
  | S k => if i <? L then runs_get R i :: bits_from k R L (i + 1) else []
  end.

(* each run with the position after it and the number of set bits up to its end *)
Fixpoint runs_with_pos (ones : N) (R : list run) : list (run * (N * N)) :=
  match R with
  | [] => []
  | (s, l) :: t => ((s, l), (s + l, ones + l)) :: runs_with_pos (ones + l) t
  end.

(* ---- the builder as a specification: which calls are accepted and what sequence results ---- *)

Inductive sop := STrySet (start len : N) | SSetLen (len : N) | SSetBit (index : N).

Definition MAXP : N := 18446744073709551615.      (* usize::MAX *)

(* append a run at or after the current end; merge when adjacent to the last run *)
Fixpoint add_run (rs : list run) (s l : N) : list run :=
  match rs with
  | [] => [(s, l)]
  | [(s0, l0)] => if s0 + l0 =? s then [(s0, l0 + l)] else [(s0, l0); (s, l)]
  | r :: rs' => r :: add_run rs' s l
  end.

(* state (runs, length); result: new state and whether the call returned Ok *)
Definition spec_step (st : list run * N) (o : sop) : (list run * N) * bool :=
  let '(rs, n) := st in
  match o with
  | STrySet s l =>
      if (s <? n) || (MAXP - l <? s) then (st, false)
      else if l =? 0 then (st, true) else ((add_run rs s l, s + l), true)
  | SSetLen m => if n <? m then ((rs, m), true) else (st, true)
  | SSetBit i => ((add_run rs i 1, i + 1), true)
  end.
Fixpoint spec_run (st : list run * N) (ops : list sop) : (list run * N) * list bool :=
  match ops with
  | [] => (st, [])
  | o :: t => let '(st1, ok) := spec_step st o in
              let '(st2, oks) := spec_run st1 t in (st2, ok :: oks)
  end.
