(* Page-granular model of a process address space with file mappings (C18): the contract of
   mmap(2)/munmap(2) as the POSIX/Linux man pages state it. TRUSTED: this file is the kernel; the
   correspondence observes the real address space through /proc/self/maps.

   The set of mapped pages is kept as a finite list of regions (first page, number of pages, index of the file
   page shown by the first page); every operation is page-granular (a region can be cut at any page).

     mmap(NULL, len, prot, MAP_SHARED, fd, 0):
        len = 0                      -> fails (EINVAL), returns MAP_FAILED = (void * ) -1, maps nothing
        no room in the address space -> fails (ENOMEM), returns MAP_FAILED, maps nothing
        otherwise maps ceil(len / 4096) pages that were not mapped before, page i showing file page i,
        and returns the address of the first one (page aligned, never 0, never MAP_FAILED)
     munmap(addr, n):
        n = 0 or addr not page aligned -> fails (EINVAL), unmaps nothing
        otherwise every page that intersects [addr, addr + n) is unmapped (pages outside stay mapped;
        it is not an error if some of the range is not mapped)
     memory: an aligned 8-byte access inside a mapped page reads/writes (MAP_SHARED) the 8 bytes of the file at
        the corresponding offset, i.e. one little-endian element of the file; bytes of the last page beyond the
        end of the file read as 0 and are not written back; an access to an unmapped page faults.

   The address handed out by mmap is the kernel's choice; the model takes the first page above every
   existing mapping, which is one admissible choice (nothing in the model depends on which fresh range it is). *)
From Coq Require Import NArith List Bool.
Require Import SDS.Model.Mach.
Import ListNotations.
Open Scope N_scope.

Definition PAGE : N := 4096.
Definition MAP_FAILED : N := 2 ^ 64 - 1.
(* number of pages of a 64-bit address space *)
Definition SPACE_PAGES : N := 2 ^ 52.

Record region := mkR { r_first : N; r_pages : N; r_off : N }.
Definition aspace := list region.

Definition r_end (r : region) : N := r_first r + r_pages r.
Definition pages_of (len : N) : N := (len + 4095) / 4096.

(* the file page shown at page [p], if [p] is mapped *)
Fixpoint lookup (a : aspace) (p : N) : option N :=
  match a with
  | [] => None
  | r :: t => if (r_first r <=? p) && (p <? r_end r) then Some (r_off r + (p - r_first r)) else lookup t p
  end.

(* the first page above every mapping (and above the low pages, which are never handed out) *)
Definition top (a : aspace) : N := fold_right (fun r m => N.max (r_end r) m) 16 a.

(* number of mapped pages *)
Definition mapped_pages (a : aspace) : N := fold_right (fun r m => r_pages r + m) 0 a.

(* returns (address or MAP_FAILED, new address space) *)
Definition mmap (a : aspace) (len : N) : N * aspace :=
  if len =? 0 then (MAP_FAILED, a)
  else
    let n := pages_of len in
    let b := top a in
    if SPACE_PAGES <? b + n then (MAP_FAILED, a)
    else (b * PAGE, mkR b n 0 :: a).

(* what remains of region [r] when the pages [lo, hi) are unmapped *)
Definition cut (lo hi : N) (r : region) : list region :=
  if (r_end r <=? lo) || (hi <=? r_first r) then [r]
  else
    (if r_first r <? lo then [mkR (r_first r) (lo - r_first r) (r_off r)] else []) ++
    (if hi <? r_end r then [mkR hi (r_end r - hi) (r_off r + (hi - r_first r))] else []).

(* returns (success, new address space) *)
Definition munmap (a : aspace) (addr n : N) : bool * aspace :=
  if (n =? 0) || negb (addr mod PAGE =? 0) then (false, a)
  else (true, flat_map (cut (addr / PAGE) ((addr + n + 4095) / PAGE)) a).

(* index of the file element seen at an aligned address *)
Definition elem_index (a : aspace) (addr : N) : res N :=
  if negb (addr mod 8 =? 0) then OOB SITE_MAP_WORD          (* misaligned u64 reference: undefined *)
  else match lookup a (addr / PAGE) with
       | None => OOB SITE_MAP_WORD                           (* unmapped page: fault *)
       | Some fp => Ok ((fp * PAGE + addr mod PAGE) / 8)
       end.

(* the file is given as its sequence of complete 8-byte little-endian elements *)
Definition read_elem (a : aspace) (file : list N) (addr : N) : res N :=
  match elem_index a addr with
  | Ok i => match nthN file i with Some x => Ok x | None => Ok 0 end
  | Panic k => Panic k
  | OOB s => OOB s
  end.

(* a store through a MAP_SHARED mapping: returns the new file content *)
Definition write_elem (a : aspace) (file : list N) (addr v : N) : res (list N) :=
  match elem_index a addr with
  | Ok i => Ok (setN file i v)
  | Panic k => Panic k
  | OOB s => OOB s
  end.
