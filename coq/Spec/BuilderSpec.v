(* Specification of the two incremental builders (property C16), as naive as it can be stated:
   - run-length builder: the state is the list of maximal runs set so far plus the length;
   - sparse builder: the state is the list of accepted positions, with the acceptance rule written directly.
   Also the call alphabets shared with the model. Executable; independent of gen/ and Model/.
   The lemmas below are about the specification itself (they feed C03 / C02 / C15 later). *)
From Coq Require Import NArith List Bool Lia.
Import ListNotations.
Open Scope N_scope.
Require Import ZifyBool ZifyN ZifyNat.
Arguments N.add : simpl never. Arguments N.sub : simpl never. Arguments N.eqb : simpl never.
Arguments N.ltb : simpl never. Arguments N.leb : simpl never. Arguments N.pow : simpl never.

(* largest usize, stated here independently of the machine layer *)
Definition MAXW : N := 18446744073709551615.

(* what the caller sees of one call *)
Inductive sout := SAccepted | SRejected | SPanicked.

Definition lenL {A} (l : list A) : N := N.of_nat (length l).

Fixpoint lastO {A} (l : list A) : option A :=
  match l with
  | [] => None
  | [x] => Some x
  | _ :: t => lastO t
  end.

(* every two neighbours are related *)
Fixpoint chain {A} (R : A -> A -> Prop) (l : list A) : Prop :=
  match l with
  | a :: t => match t with b :: _ => R a b /\ chain R t | [] => True end
  | [] => True
  end.

(* ------------------------------------------------------------------ run-length builder *)

Inductive rlop := TrySet (start len : N) | SetLen (len : N).

Definition rlop_wf (o : rlop) : Prop :=
  match o with TrySet s l => s <= MAXW /\ l <= MAXW | SetLen m => m <= MAXW end.

(* append the run (s, l) to a list of maximal runs; merges with the last run when adjacent *)
Fixpoint add_run (rs : list (N * N)) (s l : N) : list (N * N) :=
  match rs with
  | [] => [(s, l)]
  | [(s0, l0)] => if s0 + l0 =? s then [(s0, l0 + l)] else [(s0, l0); (s, l)]
  | r :: rs' => r :: add_run rs' s l
  end.

Fixpoint run_sum (rs : list (N * N)) : N :=
  match rs with [] => 0 | r :: t => snd r + run_sum t end.

Definition rl_spec : Type := list (N * N) * N.
Definition rl_spec_init : rl_spec := ([], 0).

(* a run is accepted iff it starts at or after the current length and ends within a usize *)
Definition rl_spec_accepts (st : rl_spec) (o : rlop) : bool :=
  match o with
  | TrySet s l => (snd st <=? s) && (s + l <=? MAXW)
  | SetLen _ => true
  end.

Definition rl_spec_step (st : rl_spec) (o : rlop) : rl_spec :=
  match o with
  | TrySet s l => if rl_spec_accepts st o then (if l =? 0 then st else (add_run (fst st) s l, s + l)) else st
  | SetLen m => if snd st <? m then (fst st, m) else st
  end.

Definition rl_spec_out (st : rl_spec) (o : rlop) : sout :=
  if rl_spec_accepts st o then SAccepted else SRejected.

(* len, count_ones, count_zeros, is_empty, runs of the vector one would get by converting now *)
Definition rl_obs_t : Type := N * N * N * bool * list (N * N).
Definition rl_spec_obs (st : rl_spec) : rl_obs_t :=
  (snd st, run_sum (fst st), snd st - run_sum (fst st), snd st =? 0, fst st).

Fixpoint rl_spec_trace (st : rl_spec) (ops : list rlop) : list (sout * rl_obs_t) :=
  match ops with
  | [] => []
  | o :: t => let st' := rl_spec_step st o in (rl_spec_out st o, rl_spec_obs st') :: rl_spec_trace st' t
  end.

(* the converted vector: runs, len, count_ones *)
Definition rl_spec_final (st : rl_spec) : list (N * N) * N * N := (fst st, snd st, run_sum (fst st)).

(* bit p is set in a run list *)
Definition in_run (p : N) (r : N * N) : bool := (fst r <=? p) && (p <? fst r + snd r).
Definition in_runs (rs : list (N * N)) (p : N) : bool := existsb (in_run p) rs.

(* the accepted non-empty runs of a history, in call order (not merged) *)
Fixpoint rl_accepted (st : rl_spec) (ops : list rlop) : list (N * N) :=
  match ops with
  | [] => []
  | o :: t =>
    match o with
    | TrySet s l => if rl_spec_accepts st o && negb (l =? 0) then (s, l) :: rl_accepted (rl_spec_step st o) t
                    else rl_accepted (rl_spec_step st o) t
    | SetLen _ => rl_accepted (rl_spec_step st o) t
    end
  end.

(* well-formed run list for a vector of length n: positive lengths, strictly separated (sorted,
   non-overlapping, non-adjacent), the last one ends within n, n is a usize *)
Definition gap (r q : N * N) : Prop := fst r + snd r < fst q.
Definition last_end (rs : list (N * N)) : N := match lastO rs with None => 0 | Some r => fst r + snd r end.
Definition runs_ok (rs : list (N * N)) (n : N) : Prop :=
  chain gap rs /\ Forall (fun r => 0 < snd r) rs /\ last_end rs <= n /\ n <= MAXW.

(* ---- lemmas about lists *)

Lemma lastO_snoc {A} (l : list A) x : lastO (l ++ [x]) = Some x.
Proof.
  induction l as [|a t IH]; [reflexivity|].
  cbn [app lastO]. destruct (t ++ [x]) eqn:E; [destruct t; discriminate|]. exact IH.
Qed.

Lemma snoc_cases {A} (l : list A) : l = [] \/ exists l' x, l = l' ++ [x].
Proof. induction l using rev_ind; [left; reflexivity|right; eauto]. Qed.

Lemma chain_snoc {A} (R : A -> A -> Prop) l x :
  chain R (l ++ [x]) <-> chain R l /\ match lastO l with None => True | Some p => R p x end.
Proof.
  induction l as [|a t IH]; [cbn; tauto|].
  destruct t as [|b t'].
  - cbn. tauto.
  - change ((a :: b :: t') ++ [x]) with (a :: ((b :: t') ++ [x])).
    change (lastO (a :: b :: t')) with (lastO (b :: t')).
    change (chain R (a :: b :: t')) with (R a b /\ chain R (b :: t')).
    change (chain R (a :: (b :: t') ++ [x])) with (R a b /\ chain R ((b :: t') ++ [x])).
    rewrite IH. tauto.
Qed.

Lemma lenL_snoc {A} (l : list A) x : lenL (l ++ [x]) = lenL l + 1.
Proof. unfold lenL. rewrite app_length. cbn [length]. lia. Qed.

(* ---- lemmas about run lists *)

Lemma add_run_cons2 r q t s l : add_run (r :: q :: t) s l = r :: add_run (q :: t) s l.
Proof. destruct r as [a c]. reflexivity. Qed.

Lemma add_run_snoc rs s0 l0 s l :
  add_run (rs ++ [(s0, l0)]) s l =
  if s0 + l0 =? s then rs ++ [(s0, l0 + l)] else rs ++ [(s0, l0); (s, l)].
Proof.
  induction rs as [|r rs IH].
  - cbn [app add_run]. destruct (s0 + l0 =? s); reflexivity.
  - destruct rs as [|q rs'].
    + cbn [app] in *. rewrite add_run_cons2, IH. destruct (s0 + l0 =? s); reflexivity.
    + cbn [app] in *. rewrite add_run_cons2, IH. destruct (s0 + l0 =? s); reflexivity.
Qed.

Lemma run_sum_app a b : run_sum (a ++ b) = run_sum a + run_sum b.
Proof. induction a as [|r t IH]; cbn [app run_sum]; lia. Qed.

Lemma run_sum_add_run rs s l : run_sum (add_run rs s l) = run_sum rs + l.
Proof.
  destruct (snoc_cases rs) as [->|(rs' & [s0 l0] & ->)]; [cbn; lia|].
  rewrite add_run_snoc. destruct (s0 + l0 =? s); rewrite !run_sum_app; cbn [run_sum fst snd]; lia.
Qed.

Lemma in_runs_app a b p : in_runs (a ++ b) p = in_runs a p || in_runs b p.
Proof. unfold in_runs. apply existsb_app. Qed.

(* the bits of add_run are the old bits plus the new run *)
Lemma in_runs_add_run rs s l p : in_runs (add_run rs s l) p = in_runs rs p || in_run p (s, l).
Proof.
  destruct (snoc_cases rs) as [->|(rs' & [s0 l0] & ->)]; [cbn; rewrite !orb_false_r; reflexivity|].
  rewrite add_run_snoc. destruct (N.eqb_spec (s0 + l0) s) as [E|E].
  - rewrite !in_runs_app. unfold in_runs, in_run. cbn [existsb fst snd]. rewrite !orb_false_r.
    rewrite <- orb_assoc. f_equal. lia.
  - change [(s0, l0); (s, l)] with ([(s0, l0)] ++ [(s, l)]). rewrite app_assoc, in_runs_app.
    unfold in_runs at 2. cbn [existsb]. rewrite orb_false_r. reflexivity.
Qed.

Lemma runs_ok_sum rs n : runs_ok rs n -> run_sum rs <= last_end rs.
Proof.
  intros (Hc & Hp & _ & _). clear Hp. revert Hc.
  induction rs as [|[s l] rs' IH] using rev_ind; [cbn; lia|].
  intros Hc. apply chain_snoc in Hc. destruct Hc as [Hc Hl]. specialize (IH Hc).
  unfold last_end in *. rewrite lastO_snoc, run_sum_app. cbn [run_sum fst snd].
  destruct (lastO rs') as [[s0 l0]|]; unfold gap in *; cbn [fst snd] in *; lia.
Qed.

(* every run (not only the last one) has a positive length and lies within the vector *)
Lemma runs_ok_within rs n : runs_ok rs n -> Forall (fun r => 0 < snd r /\ fst r + snd r <= n) rs.
Proof.
  intros (Hc & Hp & He & _). revert n Hc Hp He.
  induction rs as [|[s l] rs' IH] using rev_ind; intros n Hc Hp He; [constructor|].
  apply chain_snoc in Hc. destruct Hc as [Hc Hl]. apply Forall_app in Hp. destruct Hp as [Hp Hp0].
  unfold last_end in He. rewrite lastO_snoc in He. cbn [fst snd] in He.
  apply Forall_app. split.
  - assert (Hs : last_end rs' <= s).
    { unfold last_end. destruct (lastO rs') as [[s0 l0]|]; unfold gap in *; cbn [fst snd] in *; lia. }
    specialize (IH s Hc Hp Hs). eapply Forall_impl; [|exact IH]. cbn beta. intros r Hr. lia.
  - constructor; [|constructor]. inversion Hp0; subst. cbn [fst snd] in *. lia.
Qed.

Lemma runs_ok_init : runs_ok [] 0.
Proof. unfold runs_ok, last_end, MAXW. cbn. repeat split; [constructor|lia|lia]. Qed.

Lemma runs_ok_add_run rs n s l :
  runs_ok rs n -> n <= s -> 0 < l -> s + l <= MAXW -> runs_ok (add_run rs s l) (s + l).
Proof.
  intros (Hc & Hp & He & Hn) Hs Hl Hm.
  destruct (snoc_cases rs) as [->|(rs' & [s0 l0] & ->)].
  - unfold runs_ok, last_end. cbn. repeat split; [constructor; [cbn; lia|constructor]|lia|lia].
  - unfold last_end in He. rewrite lastO_snoc in He. cbn [fst snd] in He.
    apply chain_snoc in Hc. destruct Hc as [Hc Hl0].
    apply Forall_app in Hp. destruct Hp as [Hp Hp0].
    rewrite add_run_snoc. destruct (N.eqb_spec (s0 + l0) s) as [E|E]; unfold runs_ok, last_end.
    + rewrite lastO_snoc. cbn [fst snd]. repeat split; [|apply Forall_app; split; [exact Hp|]|lia|lia].
      * apply chain_snoc. split; [exact Hc|]. destruct (lastO rs'); [exact Hl0|exact I].
      * constructor; [|constructor]. cbn [snd]. inversion Hp0; subst. cbn [snd] in *. lia.
    + change [(s0, l0); (s, l)] with ([(s0, l0)] ++ [(s, l)]). rewrite app_assoc, lastO_snoc. cbn [fst snd].
      repeat split; [|apply Forall_app; split; [apply Forall_app; split; assumption|]|lia|lia].
      * apply chain_snoc. split; [apply chain_snoc; split; assumption|].
        rewrite lastO_snoc. unfold gap. cbn [fst snd]. lia.
      * constructor; [cbn [snd]; lia|constructor].
Qed.

Lemma rl_spec_step_ok st o :
  runs_ok (fst st) (snd st) -> rlop_wf o -> runs_ok (fst (rl_spec_step st o)) (snd (rl_spec_step st o)).
Proof.
  destruct st as [rs n]. cbn [fst snd]. intros H Hw. destruct o as [s l|m]; cbn [rl_spec_step rl_spec_accepts fst snd].
  - destruct (N.leb_spec n s) as [Hs|Hs]; cbn [andb]; [|exact H].
    destruct (N.leb_spec (s + l) MAXW) as [Hm|Hm]; [|exact H].
    destruct (N.eqb_spec l 0) as [E|E]; [exact H|]. cbn [fst snd].
    apply (runs_ok_add_run rs n); [exact H|lia|lia|lia].
  - destruct (N.ltb_spec n m) as [Hlt|Hge]; [|exact H]. cbn [fst snd].
    destruct H as (Hc & Hp & He & Hn). cbn [rlop_wf] in Hw. repeat split; [assumption|assumption|lia|lia].
Qed.

Lemma Forall_tail {A} (P : A -> Prop) a l : Forall P (a :: l) -> P a /\ Forall P l.
Proof. intros H. inversion H; subst. split; assumption. Qed.

(* every history keeps the run list well-formed *)
Lemma rl_spec_history_ok ops st :
  runs_ok (fst st) (snd st) -> Forall rlop_wf ops ->
  runs_ok (fst (fold_left rl_spec_step ops st)) (snd (fold_left rl_spec_step ops st)).
Proof.
  revert st. induction ops as [|o t IH]; intros st H Hw; cbn [fold_left]; [exact H|].
  apply Forall_tail in Hw. destruct Hw as [Hw Hw']. apply IH; [apply rl_spec_step_ok; assumption|exact Hw'].
Qed.

(* one step changes the bit set by exactly the accepted run *)
Lemma rl_spec_step_bits st o p :
  in_runs (fst (rl_spec_step st o)) p =
  in_runs (fst st) p ||
  match o with TrySet s l => rl_spec_accepts st o && in_run p (s, l) | SetLen _ => false end.
Proof.
  destruct st as [rs n]. destruct o as [s l|m]; cbn [rl_spec_step fst snd].
  - destruct (rl_spec_accepts (rs, n) (TrySet s l)); cbn [andb fst]; [|rewrite orb_false_r; reflexivity].
    destruct (N.eqb_spec l 0) as [E|E]; cbn [fst].
    + subst l. unfold in_run. cbn [fst snd]. replace ((s <=? p) && (p <? s + 0)) with false by lia.
      rewrite orb_false_r. reflexivity.
    + apply in_runs_add_run.
  - destruct (n <? m); cbn [fst]; rewrite orb_false_r; reflexivity.
Qed.

(* the set bits of the result are precisely the positions covered by accepted calls *)
Lemma rl_spec_history_bits ops st p :
  in_runs (fst (fold_left rl_spec_step ops st)) p = in_runs (fst st) p || in_runs (rl_accepted st ops) p.
Proof.
  revert st. induction ops as [|o t IH]; intros st; cbn [fold_left rl_accepted]; [cbn; rewrite orb_false_r; reflexivity|].
  rewrite IH, rl_spec_step_bits. destruct o as [s l|m].
  - destruct (rl_spec_accepts st (TrySet s l)); cbn [andb negb].
    + destruct (N.eqb_spec l 0) as [E|E]; cbn [negb].
      * subst l. unfold in_run. cbn [fst snd]. replace ((s <=? p) && (p <? s + 0)) with false by lia.
        rewrite orb_false_r. reflexivity.
      * change (in_runs ((s, l) :: ?x) p) with (in_run p (s, l) || in_runs x p).
        unfold in_runs at 4. cbn [existsb]. rewrite orb_assoc. reflexivity.
    + rewrite orb_false_r. reflexivity.
  - rewrite orb_false_r. reflexivity.
Qed.

(* ------------------------------------------------------------------ sparse builder *)

Inductive sctor := NewS (universe ones : N) | MultisetS (universe ones : N).
Inductive sop := TrySetS (i : N) | SetS (i : N) | ExtendS (l : list N).

(* (universe, capacity, multiset) or None when the constructor refuses *)
Definition sparams : Type := N * N * bool.
Definition sp_params (c : sctor) : option sparams :=
  match c with
  | NewS u o => if u <? o then None else Some (u, o, false)
  | MultisetS u o => Some (u, o, true)
  end.
Definition p_univ (P : sparams) : N := fst (fst P).
Definition p_cap (P : sparams) : N := snd (fst P).
Definition p_multi (P : sparams) : bool := snd P.

(* the acceptance rule: not full, below the universe, after (or, for multisets, not before) the last one *)
Definition sp_accepts (P : sparams) (ps : list N) (i : N) : bool :=
  (lenL ps <? p_cap P) && (i <? p_univ P) &&
  match lastO ps with
  | None => true
  | Some p => if p_multi P then p <=? i else p <? i
  end.

Fixpoint sp_extend (P : sparams) (ps : list N) (l : list N) : list N * bool :=
  match l with
  | [] => (ps, true)
  | i :: t => if sp_accepts P ps i then sp_extend P (ps ++ [i]) t else (ps, false)
  end.

Definition sp_step (P : sparams) (ps : list N) (o : sop) : list N * sout :=
  match o with
  | TrySetS i => if sp_accepts P ps i then (ps ++ [i], SAccepted) else (ps, SRejected)
  | SetS i => if sp_accepts P ps i then (ps ++ [i], SAccepted) else (ps, SPanicked)
  | ExtendS l => let r := sp_extend P ps l in (fst r, if snd r then SAccepted else SPanicked)
  end.

(* len, capacity, universe, next_index, is_full, is_empty, is_multiset *)
Definition sp_obs_t : Type := N * N * N * N * bool * bool * bool.
Definition sp_next (P : sparams) (ps : list N) : N :=
  match lastO ps with None => 0 | Some p => if p_multi P then p else p + 1 end.
Definition sp_obs (P : sparams) (ps : list N) : sp_obs_t :=
  (lenL ps, p_cap P, p_univ P, sp_next P ps, lenL ps =? p_cap P, lenL ps =? 0, p_multi P).

Fixpoint sp_trace (P : sparams) (ps : list N) (ops : list sop) : list (sout * sp_obs_t) :=
  match ops with
  | [] => []
  | o :: t => let r := sp_step P ps o in (snd r, sp_obs P (fst r)) :: sp_trace P (fst r) t
  end.

Fixpoint sp_run (P : sparams) (ps : list N) (ops : list sop) : list N :=
  match ops with [] => ps | o :: t => sp_run P (fst (sp_step P ps o)) t end.

(* conversion: only a full builder converts; the vector has length universe and exactly the accepted positions *)
Definition sp_finish (P : sparams) (ps : list N) : option (N * N * list N) :=
  if lenL ps =? p_cap P then Some (p_univ P, lenL ps, ps) else None.

(* what a legal list of accepted positions looks like *)
Definition pos_ok (P : sparams) (ps : list N) : Prop :=
  chain (fun a b => if p_multi P then a <= b else a < b) ps /\
  Forall (fun p => p < p_univ P) ps /\ lenL ps <= p_cap P.

Lemma pos_ok_nil P : pos_ok P [].
Proof. unfold pos_ok, lenL. cbn. repeat split; [constructor|lia]. Qed.

Lemma pos_ok_accept P ps i : pos_ok P ps -> sp_accepts P ps i = true -> pos_ok P (ps ++ [i]).
Proof.
  intros (Hc & Hu & Hl) Ha. unfold sp_accepts in Ha.
  apply andb_prop in Ha. destruct Ha as [Ha H3]. apply andb_prop in Ha. destruct Ha as [H1 H2].
  repeat split.
  - apply chain_snoc. split; [exact Hc|]. destruct (lastO ps) as [p|]; [|exact I].
    destruct (p_multi P); lia.
  - apply Forall_app. split; [exact Hu|]. constructor; [lia|constructor].
  - rewrite lenL_snoc. lia.
Qed.

Lemma sp_extend_ok P l : forall ps, pos_ok P ps -> pos_ok P (fst (sp_extend P ps l)).
Proof.
  induction l as [|i t IH]; intros ps H; cbn [sp_extend]; [exact H|].
  destruct (sp_accepts P ps i) eqn:E; [|exact H]. apply IH. apply pos_ok_accept; assumption.
Qed.

Lemma sp_step_ok P ps o : pos_ok P ps -> pos_ok P (fst (sp_step P ps o)).
Proof.
  intros H. destruct o as [i|i|l]; cbn [sp_step].
  - destruct (sp_accepts P ps i) eqn:E; cbn [fst]; [apply pos_ok_accept; assumption|exact H].
  - destruct (sp_accepts P ps i) eqn:E; cbn [fst]; [apply pos_ok_accept; assumption|exact H].
  - cbn [fst]. apply sp_extend_ok. exact H.
Qed.

Lemma sp_run_ok P ops : forall ps, pos_ok P ps -> pos_ok P (sp_run P ps ops).
Proof.
  induction ops as [|o t IH]; intros ps H; cbn [sp_run]; [exact H|]. apply IH. apply sp_step_ok. exact H.
Qed.

(* extend = the longest acceptable prefix is applied; it fails iff some element is refused *)
Lemma sp_extend_prefix P l : forall ps,
  exists pre post, l = pre ++ post /\ fst (sp_extend P ps l) = ps ++ pre /\
    sp_extend P ps pre = (ps ++ pre, true) /\
    (snd (sp_extend P ps l) = true -> post = []) /\
    (snd (sp_extend P ps l) = false -> exists x post', post = x :: post' /\ sp_accepts P (ps ++ pre) x = false).
Proof.
  induction l as [|i t IH]; intros ps.
  - exists [], []. cbn [sp_extend fst snd app]. rewrite app_nil_r. repeat split; [discriminate].
  - cbn [sp_extend]. destruct (sp_accepts P ps i) eqn:E.
    + destruct (IH (ps ++ [i])) as (pre & post & -> & H1 & H2 & H3 & H4).
      exists (i :: pre), post. rewrite <- !app_assoc in *. cbn [app] in *.
      repeat split; [exact H1| |exact H3|exact H4].
      cbn [sp_extend]. rewrite E. exact H2.
    + exists [], (i :: t). cbn [fst snd app sp_extend]. rewrite app_nil_r.
      repeat split; [discriminate|]. intros _. exists i, t. split; [reflexivity|exact E].
Qed.
