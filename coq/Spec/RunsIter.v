(* Reference sequences of the run-length vector's iterators over the run-list specification (Spec/Runs.v):
   the complete list of items each iterator must yield, front to back, as a function of the maximal runs F and
   the length L. [N.to_nat] occurs only to give the lists their length (they are specifications: a list of
   2^64-1 items is never built); for the correspondence check the same sequences are computed on small
   instances from the bit-list specification (Spec/IterRefs.v). Independent of gen/ and Model/. *)
From Coq Require Import NArith List Bool.
Require Import SDS.Spec.Runs SDS.Spec.IterRefs.
Import ListNotations.
Open Scope N_scope.

(* all (rank, position) pairs of the set bits from rank k on *)
Definition ones_all (F : list run) (k : N) : list (N * N) :=
  ones_from_rank (N.to_nat (runs_ones F - k)) F k.
(* all (rank, position) pairs of the unset bits from rank k on *)
Definition zeros_all (F : list run) (L k : N) : list (N * N) :=
  zeros_from_rank (N.to_nat (L - runs_ones F - k)) F L k.
(* all bits from position p on *)
Definition bits_all (F : list run) (L p : N) : list bool :=
  bits_from (N.to_nat (L - p)) F L p.

(* the reference of every entry point of an RLVector with maximal runs F and length L:
   run_iter() yields the runs; iter() the bits; one_iter() / select_iter(r) the set bits from rank 0 / r;
   zero_iter() / select_zero_iter(r) the unset bits; successor(x) the set bits from rank rank(x) on (the first
   one at a position >= x); predecessor(x) the set bits from the last one at a position <= x on (rank
   rank(x + 1) - 1), nothing when there is none. Items are pairs as in Spec/IterRefs.v. *)
Definition rl_ref (F : list run) (L : N) (e : entry) : option (list (N * N)) :=
  match e with
  | ERuns => Some F
  | EIter => Some (map enc_bool (bits_all F L 0))
  | EOne => Some (ones_all F 0)
  | ESelect r => Some (ones_all F r)
  | ESucc x => Some (ones_all F (runs_rank F x))
  | EPred x => Some (let k := runs_rank F (x + 1) in if k =? 0 then [] else ones_all F (k - 1))
  | EZero => Some (zeros_all F L 0)
  | ESelectZero r => Some (zeros_all F L r)
  | _ => None
  end.
