(* Specification of UTF-8 well-formedness by decoding (Unicode definition D92): independent of Model/ and gen/.
   Used by the spec side of the C13 correspondence and, in Proofs/MappedProof.v, shown equal to the
   byte-range table the model uses for str::from_utf8. *)
From Coq Require Import NArith List Bool.
Import ListNotations.
Open Scope N_scope.

(* UTF-8 by decoding: lead byte gives the length, continuation bytes carry 6 bits each, the scalar value must
   need that length, must not be a surrogate and must not exceed 0x10FFFF *)
Definition sp_cont (b : N) : bool := (128 <=? b) && (b <? 192).
Definition sp_scalar_ok (cp lo : N) : bool :=
  (lo <=? cp) && (cp <=? 1114111) && negb ((55296 <=? cp) && (cp <=? 57343)).
Fixpoint sp_utf8 (l : list N) : bool :=
  match l with
  | [] => true
  | b0 :: t0 =>
      if b0 <? 128 then sp_utf8 t0
      else if b0 <? 192 then false
      else if b0 <? 224 then
        match t0 with
        | b1 :: t1 => sp_cont b1 && sp_scalar_ok ((b0 - 192) * 64 + (b1 - 128)) 128 && sp_utf8 t1
        | _ => false end
      else if b0 <? 240 then
        match t0 with
        | b1 :: b2 :: t2 =>
            sp_cont b1 && sp_cont b2 && sp_scalar_ok ((b0 - 224) * 4096 + (b1 - 128) * 64 + (b2 - 128)) 2048 && sp_utf8 t2
        | _ => false end
      else if b0 <? 248 then
        match t0 with
        | b1 :: b2 :: b3 :: t3 =>
            sp_cont b1 && sp_cont b2 && sp_cont b3
            && sp_scalar_ok ((b0 - 240) * 262144 + (b1 - 128) * 4096 + (b2 - 128) * 64 + (b3 - 128)) 65536 && sp_utf8 t3
        | _ => false end
      else false
  end.
