(* Interleavings of per-thread atomic programs over one shared counter (C20).
   Every thread runs, per call, the same list of atomic operations (the list generated from
   serialize.rs::temp_file_name); one scheduler step is ONE atomic operation of ONE thread; a schedule
   is any finite list of thread ids. Executable: [run] evaluates a schedule.

   Trusted reading of the atomic operations (language/hardware contract, any Ordering):
     fetch_add(k) : one indivisible step: returns the old value, counter := (old + k) mod 2^64
     load()       : one step: returns the current value
     store(r + k) : one step: counter := (r + k) mod 2^64 where r is the value the thread loaded earlier
   Anything else the translator reports (Store_other, Other_op) has no semantics here: [step] fails
   closed (None), so no theorem about a program containing it can be proved. *)
From Coq Require Import NArith List Bool String.
Require Import SDS.gen.TempName.
Import ListNotations.
Open Scope N_scope.

Record tstate := mkT {
  pc   : nat;         (* next operation of the current call *)
  reg  : N;           (* the value last loaded / returned by an atomic operation *)
  cnt  : option N;    (* the value bound to `count` in the current call, once its operation has run *)
  rets : list N       (* counts returned by the completed calls of this thread, latest first *)
}.
Record state := mkS { counter : N; threads : list tstate }.

(* the method name the translator reports in temp_count_from *)
Definition op_name (o : atomic_op) : string :=
  match o with
  | Rmw_add _ => "fetch_add"
  | Load => "load"
  | Store_plus _ | Store_other => "store"
  | Other_op => "other"
  end.

(* one atomic operation: (new counter, new register, value returned by the operation if any) *)
Definition exec_op (o : atomic_op) (c r : N) : option (N * N * option N) :=
  match o with
  | Rmw_add k => Some ((c + k) mod 2 ^ 64, c, Some c)
  | Load => Some (c, c, Some c)
  | Store_plus k => Some ((r + k) mod 2 ^ 64, r, None)
  | Store_other | Other_op => None
  end.

Fixpoint upd {A} (l : list A) (i : nat) (x : A) : list A :=
  match l, i with
  | [], _ => []
  | _ :: t, O => x :: t
  | h :: t, S j => h :: upd t j x
  end.

(* one step of thread [t]. A thread id outside the thread table is a no-op. A call that completes
   without having bound `count` fails closed. *)
Definition step (prog : list atomic_op) (from : string) (st : state) (t : nat) : option state :=
  match nth_error (threads st) t with
  | None => Some st
  | Some ts =>
    match nth_error prog (pc ts) with
    | None => None
    | Some o =>
      match exec_op o (counter st) (reg ts) with
      | None => None
      | Some (c', r', res) =>
        let cnt' := if String.eqb (op_name o) from
                    then match res with Some v => Some v | None => cnt ts end
                    else cnt ts in
        if Nat.eqb (S (pc ts)) (List.length prog) then
          match cnt' with
          | None => None
          | Some v => Some (mkS c' (upd (threads st) t (mkT 0 r' None (v :: rets ts))))
          end
        else Some (mkS c' (upd (threads st) t (mkT (S (pc ts)) r' cnt' (rets ts))))
      end
    end
  end.

Fixpoint run_from (prog : list atomic_op) (from : string) (st : state) (sched : list nat) : option state :=
  match sched with
  | [] => Some st
  | t :: rest => match step prog from st t with
                 | Some st' => run_from prog from st' rest
                 | None => None
                 end
  end.

Definition init_state (init : N) (nthreads : nat) : state :=
  mkS init (repeat (mkT 0 0 None []) nthreads).

Definition run (prog : list atomic_op) (from : string) (init : N) (nthreads : nat) (sched : list nat) : option state :=
  run_from prog from (init_state init nthreads) sched.

(* every count returned by a completed call, over all threads *)
Definition all_counts (st : state) : list N := flat_map rets (threads st).
(* number of completed calls *)
Definition completed (st : state) : nat := List.length (all_counts st).

(* the i-th value a wrapping usize counter started at [init] takes *)
Definition nth_count (init : N) (i : nat) : N := (init + N.of_nat i) mod 2 ^ 64.
