(* Reference sequences of the crate's iterators (property C10): for every structure, given by its
   defining input, and every way of obtaining an iterator from it, the list of items the iterator must
   yield, front to back. Naive, executable, independent of Model/ and gen/. Used by the statements of
   Props/C10.v and by the specification side of the correspondence check.

   Items are uniformly pairs of numbers: a bit b is (0, b), a vector item x is (0, x), a set/unset bit
   is (rank, position), a run is (start, length), an occurrence of a value is (rank, index). *)
From Coq Require Import NArith List Bool.
Require Import SDS.Spec.BitSeq.
Import ListNotations.
Open Scope N_scope.

(* how the iterator was obtained *)
Inductive entry :=
| EIter                          (* iter(): all bits / all items *)
| EInto                          (* into_iter() *)
| EOne | EZero                   (* one_iter() / zero_iter() *)
| ESelect (r : N)                (* select_iter(r) *)
| ESelectZero (r : N)            (* select_zero_iter(r) *)
| EPred (v : N) | ESucc (v : N)  (* predecessor(v) / successor(v) *)
| ERuns                          (* run_iter() *)
| EValue (x : N)                 (* value_iter(x) *)
| EValueSelect (r x : N)         (* select_iter(r, x) *)
| EValuePred (i x : N)           (* predecessor(i, x) *)
| EValueSucc (i x : N).          (* successor(i, x) *)

(* the structure, by its defining input *)
Inductive src :=
| SBits (len : N) (words : list N)       (* BitVector holding the first len bits of the words *)
| SSparse (len : N) (vs : list N)        (* SparseVector over universe len with the non-decreasing values vs
                                            (a multiset when values repeat) *)
| SRL (len : N) (runs : list (N * N))    (* RLVector of length len with these maximal runs (start, length) *)
| SInts (width : N) (xs : list N)        (* IntVector of that width holding xs *)
| SWM (xs : list N).                     (* WaveletMatrix of xs *)

Definition enc_bool (b : bool) : N * N := (0, b2n b).
Definition enc_item (x : N) : N * N := (0, x).

Definition positions (len : N) : list N := map N.of_nat (seq 0 (N.to_nat len)).

(* membership bits of a set / multiset of values *)
Definition mem_bits (len : N) (vs : list N) : list bool :=
  map (fun i => existsb (N.eqb i) vs) (positions len).

(* the bits described by a list of runs *)
Definition runs_bits (len : N) (runs : list (N * N)) : list bool :=
  map (fun i => existsb (fun r => (fst r <=? i) && (i <? fst r + snd r)) runs) (positions len).

(* maximal runs of set bits *)
Fixpoint runs_from (B : list bool) (pos : N) (cur : option (N * N)) : list (N * N) :=
  match B with
  | [] => match cur with Some r => [r] | None => [] end
  | true :: t =>
      match cur with
      | Some (s, l) => runs_from t (pos + 1) (Some (s, l + 1))
      | None => runs_from t (pos + 1) (Some (pos, 1))
      end
  | false :: t =>
      match cur with
      | Some r => r :: runs_from t (pos + 1) None
      | None => runs_from t (pos + 1) None
      end
  end.
Definition runs_of (B : list bool) : list (N * N) := runs_from B 0 None.

(* occurrences of x in xs as (rank among the occurrences, index) *)
Fixpoint pos_of (xs : list N) (x : N) (pos : N) : list N :=
  match xs with
  | [] => []
  | y :: t => if y =? x then pos :: pos_of t x (pos + 1) else pos_of t x (pos + 1)
  end.
Definition occ (xs : list N) (x : N) : list (N * N) := index_from (pos_of xs x 0) 0.

(* suffixes of a ranked list selected by an entry point *)
Definition ones_ref (full : list (N * N)) (e : entry) : option (list (N * N)) :=
  match e with
  | EOne => Some full
  | ESelect r => Some (skipN full r)
  | EPred v => Some (pred_suffix_aux full v [])   (* from the LAST item with position <= v *)
  | ESucc v => Some (drop_below full v)           (* from the FIRST item with position >= v *)
  | _ => None
  end.
Definition zeros_ref (full : list (N * N)) (e : entry) : option (list (N * N)) :=
  match e with
  | EZero => Some full
  | ESelectZero r => Some (skipN full r)
  | _ => None
  end.

(* a bitvector with bits B whose set positions, ranked, are [one_full] *)
Definition bitvec_ref (B : list bool) (one_full : list (N * N)) (e : entry) : option (list (N * N)) :=
  match e with
  | EIter => Some (map enc_bool B)
  | EOne | ESelect _ | EPred _ | ESucc _ => ones_ref one_full e
  | EZero | ESelectZero _ => zeros_ref (ranked_zeros B) e
  | ERuns => Some (runs_of B)
  | _ => None
  end.

Definition vector_ref (xs : list N) (e : entry) : option (list (N * N)) :=
  match e with
  | EIter | EInto => Some (map enc_item xs)
  | EValue x => Some (occ xs x)
  | EValueSelect r x => Some (skipN (occ xs x) r)
  | EValuePred i x => Some (pred_suffix_aux (occ xs x) i [])
  | EValueSucc i x => Some (drop_below (occ xs x) i)
  | _ => None
  end.

Definition src_bits (s : src) : list bool :=
  match s with
  | SBits len words => bits_of len words
  | SSparse len vs => mem_bits len vs
  | SRL len runs => runs_bits len runs
  | _ => []
  end.

(* the reference sequence; None = the structure has no such iterator *)
Definition ref_of (s : src) (e : entry) : option (list (N * N)) :=
  match s with
  | SBits _ _ => match e with ERuns => None | _ => bitvec_ref (src_bits s) (ranked_ones (src_bits s)) e end
  | SSparse _ vs => match e with ERuns => None | _ => bitvec_ref (src_bits s) (index_from vs 0) e end
  | SRL _ _ => bitvec_ref (src_bits s) (ranked_ones (src_bits s)) e
  | SInts _ xs => match e with EIter | EInto => vector_ref xs e | _ => None end
  | SWM xs => vector_ref xs e
  end.
