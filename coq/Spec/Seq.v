(* Specification library: a vector of unsigned integers as a plain [list N]. Occurrence-based
   rank / select / predecessor / successor of a value, and the stable sort by reversed bit
   representation that the wavelet matrix core realises. Most naive recursion available; executable;
   also used as the search oracle of the correspondence checks. Independent of gen/ and Model/. *)
From Coq Require Import NArith List Bool.
Require Import SDS.Spec.BitSeq.
Import ListNotations.
Open Scope N_scope.

Definition lenS (V : list N) : N := N.of_nat (length V).

(* positions of the items equal to v, increasing, shifted by [pos] *)
Fixpoint occ_from (V : list N) (v pos : N) : list N :=
  match V with
  | [] => []
  | x :: t => if x =? v then pos :: occ_from t v (pos + 1) else occ_from t v (pos + 1)
  end.
Definition occ (V : list N) (v : N) : list N := occ_from V v 0.

(* number of positions p < i with V[p] = v (all occurrences when i >= |V|) *)
Fixpoint rank_v (V : list N) (i v : N) : N :=
  match V with
  | [] => 0
  | x :: t => if i =? 0 then 0 else (if x =? v then 1 else 0) + rank_v t (i - 1) v
  end.

Definition get_v (V : list N) (i : N) : option N := nth_opt V i.
Definition select_v (V : list N) (r v : N) : option N := nth_opt (occ V v) r.
Definition inverse_select_v (V : list N) (i : N) : option (N * N) :=
  match nth_opt V i with Some v => Some (rank_v V i v, v) | None => None end.
Definition contains_v (V : list N) (v : N) : bool := existsb (N.eqb v) V.

(* (rank, position) pairs of the occurrences of v: what value_iter yields *)
Definition value_iter_v (V : list N) (v : N) : list (N * N) := index_from (occ V v) 0.
(* what select_iter r v yields: the occurrences from rank r on *)
Definition select_iter_v (V : list N) (r v : N) : list (N * N) := skipN (value_iter_v V v) r.
(* predecessor: occurrences starting at the last one at a position <= i (nothing if there is none) *)
Definition pred_v (V : list N) (i v : N) : list (N * N) := pred_suffix_aux (value_iter_v V v) i [].
(* successor: occurrences starting at the first one at a position >= i *)
Definition succ_v (V : list N) (i v : N) : list (N * N) := drop_below (value_iter_v V v) i.

Definition max_v (V : list N) : N := fold_right N.max 0 V.
(* minimal number of bits that hold every item (1 for the all-zero and the empty vector) *)
Definition width_v (V : list N) : N := N.max 1 (N.size (max_v V)).

(* the low k bits of v in reverse order (bit 0 becomes bit k-1), appended below the bits of [acc] *)
Fixpoint krev_from (k : nat) (v acc : N) : N :=
  match k with
  | O => acc
  | S j => krev_from j (N.div2 v) (2 * acc + N.b2n (N.odd v))
  end.
Definition krev (k : nat) (v : N) : N := krev_from k v 0.
(* the reversed 64-bit representation: the sort key of the wavelet matrix *)
Definition revkey (v : N) : N := krev 64 v.

(* stable insertion sort by the first component (an element goes before the equal keys already placed,
   which come later in the input) *)
Fixpoint insert_key {A} (x : N * A) (l : list (N * A)) : list (N * A) :=
  match l with
  | [] => [x]
  | y :: t => if fst x <=? fst y then x :: y :: t else y :: insert_key x t
  end.
Definition stable_sort_key {A} (l : list (N * A)) : list (N * A) := fold_right insert_key [] l.
(* V reordered: (original position, value), stably sorted by the reversed bits of the value *)
Definition reordered (V : list N) : list (N * N) :=
  map snd (stable_sort_key (map (fun pv => (revkey (snd pv), pv)) (index_from V 0))).

(* index of the entry with original position p *)
Fixpoint find_pos (l : list (N * N)) (p j : N) : option N :=
  match l with
  | [] => None
  | x :: t => if fst x =? p then Some j else find_pos t p (j + 1)
  end.

(* map down: position of item i in the reordered vector, and its value *)
Definition map_down_v (V : list N) (i : N) : option (N * N) :=
  match nth_opt V i, find_pos (reordered V) i 0 with
  | Some v, Some j => Some (j, v)
  | _, _ => None
  end.
(* map up with a value: the original position of reordered item j, provided that item is v *)
Definition map_up_v (V : list N) (j v : N) : option N :=
  match nth_opt (reordered V) j with
  | Some (p, x) => if x =? v then Some p else None
  | None => None
  end.
(* items that sort strictly before v: how many keys are below the key of v *)
Definition keys_v (V : list N) : list N := map revkey V.
Definition less_k (keys : list N) (kv : N) : N := N.of_nat (length (filter (fun k => k <? kv) keys)).
Definition less_v (V : list N) (v : N) : N := less_k (keys_v V) (revkey v).
(* map down with a value: items sorting before v, plus occurrences of v before i *)
Definition map_down_with_v (V : list N) (i v : N) : N := less_v V v + rank_v V i v.
