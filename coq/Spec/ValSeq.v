(* Specification library for the sparse vector: a (multi)set of positions as a sorted [list N] of
   values inside a universe [0, n). Everything is the most naive executable definition available and is
   used both in the statements of C02 / C15 and as the oracle of the correspondence check.
   Independent of gen/ and Model/. *)
From Coq Require Import NArith List Bool Lia.
Require Import SDS.Spec.BitSeq.
Import ListNotations.
Open Scope N_scope.

(* strictly increasing / non-decreasing, all elements below n *)
Fixpoint increasing (l : list N) : bool :=
  match l with
  | a :: (b :: _) as t => (a <? b) && increasing t
  | _ => true
  end.
Fixpoint nondecreasing (l : list N) : bool :=
  match l with
  | a :: (b :: _) as t => (a <=? b) && nondecreasing t
  | _ => true
  end.
Definition all_below (n : N) (l : list N) : bool := forallb (fun v => v <? n) l.

(* two equal neighbours (for a sorted list: some value occurs twice) *)
Fixpoint has_dup (l : list N) : bool :=
  match l with
  | a :: (b :: _) as t => (a =? b) || has_dup t
  | _ => false
  end.

(* get(i): does i occur *)
Definition vs_get (vs : list N) (i : N) : bool := existsb (N.eqb i) vs.

(* rank(i): number of values below i *)
Fixpoint vs_rank (vs : list N) (i : N) : N :=
  match vs with
  | [] => 0
  | v :: t => (if v <? i then 1 else 0) + vs_rank t i
  end.

(* select(r): the r-th value *)
Definition vs_select (vs : list N) (r : N) : option N := nth_opt vs r.

(* (index, value) pairs: what one_iter yields *)
Definition vs_ranked (vs : list N) : list (N * N) := index_from vs 0.

(* successor(v): the suffix starting at the FIRST pair whose value is >= v *)
Definition vs_succ (vs : list N) (v : N) : list (N * N) := drop_below (vs_ranked vs) v.
(* predecessor(v): the suffix starting at the LAST pair whose value is <= v *)
Definition vs_pred (vs : list N) (v : N) : list (N * N) := pred_suffix_aux (vs_ranked vs) v [].

(* select_zero(r) for a strictly increasing list: walk over the gaps. [base] = first position not yet
   accounted for *)
Fixpoint vs_select_zero_from (vs : list N) (base n r : N) : option N :=
  match vs with
  | [] => if base + r <? n then Some (base + r) else None
  | v :: t => if r <? v - base then Some (base + r)
              else vs_select_zero_from t (v + 1) n (r - (v - base))
  end.
Definition vs_select_zero (vs : list N) (n r : N) : option N := vs_select_zero_from vs 0 n r.

(* the unset positions with their ranks, from rank r, at most k of them *)
Fixpoint vs_zeros_from (vs : list N) (n r : N) (k : nat) : list (N * N) :=
  match k with
  | O => []
  | S k' => match vs_select_zero vs n r with
            | Some z => (r, z) :: vs_zeros_from vs n (r + 1) k'
            | None => []
            end
  end.

(* [0; 1; ...; n-1] (small n only) *)
Definition N_range (n : N) : list N := map N.of_nat (seq 0 (N.to_nat n)).
(* the bit sequence of a small universe *)
Definition vs_bits (vs : list N) (n : N) : list bool := map (vs_get vs) (N_range n).

(* a double-ended iterator over a list: for every entry of [pat], false = next(), true = next_back() *)
Fixpoint deque_run {A} (l : list A) (pat : list bool) : list (option A) :=
  match pat with
  | [] => []
  | false :: t => match l with
                  | [] => None :: deque_run [] t
                  | x :: l' => Some x :: deque_run l' t
                  end
  | true :: t => match nth_error l (length l - 1) with
                 | None => None :: deque_run [] t
                 | Some x => Some x :: deque_run (removelast l) t
                 end
  end.

(* last element *)
Definition last_opt (l : list N) : option N := hd_error (rev l).
