(* Correspondence check for C05: operation histories observed on the real RawVector / IntVector are replayed
   through the models (Model/Hist.v: rstep / istep) and, independently, through the list specification
   (Spec/SeqSpec.v: rspec_step / ispec_step). After every step the implementation's output, length, full content
   (words or items), count of set bits, serialized elements and equality with a freshly built vector of the
   same content are compared. *)
From Coq Require Import NArith ZArith List Bool.
Require Import SDS.Model.Mach SDS.Model.Bits SDS.Model.Raw SDS.Model.IntVec SDS.Model.Hist.
Require Import SDS.Spec.BitSeq SDS.Check.Common.
(* exported: the generated case files name the operation constructors *)
Require Export SDS.Spec.SeqSpec.
Import ListNotations.
Open Scope N_scope.

(* Large numbers of the generated case files are written [W hi lo] (two 32-bit halves as primitive integers):
   a 64-bit literal of type N costs Coq milliseconds to elaborate, a primitive one nothing. Only the transport of
   literals uses primitive integers; every comparison is done on N. *)
Require Coq.Numbers.Cyclic.Int63.Uint63.
Definition W (hi lo : PrimInt63.int) : N :=
  Z.to_N (Uint63.to_Z hi) * 4294967296 + Z.to_N (Uint63.to_Z lo).

(* what was observed after one operation on a RawVector *)
Inductive robs :=
  RObs (o : ires out)        (* value returned by the operation *)
       (len : N)             (* len() *)
       (words : list N)      (* as_ref(): the backing words *)
       (ones : N)            (* count_ones() *)
       (ser : list N)        (* serialize() read back as little-endian u64 elements *)
       (eq_fresh : bool).    (* v == a new vector into which the bits v.bit(0..len) were pushed *)

(* what was observed after one operation on an IntVector *)
Inductive iobs :=
  IObs (o : ires out)
       (len width : N)
       (items : list N)      (* iter() *)
       (ones : N)            (* count_ones() of the underlying raw vector *)
       (ser : list N)
       (eq_fresh : bool).    (* v == IntVector::new(width) into which the items were pushed *)

Inductive case :=
| CRaw (steps : list (rop * robs))            (* a history starting from RawVector::new() *)
| CInt (w : N) (steps : list (iop * iobs))    (* a history starting from IntVector::new(w).unwrap() *)
| CNew (w : N) (ok : bool)                    (* IntVector::new(w).is_ok() *)
(* RawVector::with_len(n, value).count_ones() for an n too large to replay on a list of words (2^32 bits and
   more); [dbg] records whether the build had overflow checks on (the expected result does not depend on it) *)
| CBigCount (dbg : bool) (n : N) (value : bool) (out : ires N).

Definition obool_eqb := opt_eqb Bool.eqb.
Definition out_eqb (a b : out) : bool :=
  match a, b with
  | ONone, ONone => true
  | OBool x, OBool y => Bool.eqb x y
  | ONat x, ONat y => x =? y
  | OOptBool x, OOptBool y => obool_eqb x y
  | OOptNat x, OOptNat y => onat_eqb x y
  | _, _ => false
  end.

(* ---- model side ---- *)

Fixpoint raw_fresh_aux (src acc : raw) (i : N) (n : nat) : res raw :=
  match n with
  | O => Ok acc
  | S k => let* b := raw_bit src i in let* acc' := raw_push_bit acc b in raw_fresh_aux src acc' (i + 1) k
  end.
Definition raw_fresh (r : raw) : res raw := raw_fresh_aux r raw_new 0 (N.to_nat (rlen r)).

Definition raw_state_ok (r : raw) (ob : robs) : bool :=
  let '(RObs _ len words ones ser eqf) := ob in
  (rlen r =? len) && nlist_eqb (rdata r) words && (raw_count_ones r =? ones) &&
  nlist_eqb (raw_serialize r) ser &&
  match raw_fresh r with Ok f => Bool.eqb (raw_eqb r f) eqf | _ => false end.

Fixpoint raw_model_ok (r : raw) (steps : list (rop * robs)) : bool :=
  match steps with
  | [] => true
  | (o, ob) :: t =>
      let '(RObs io _ _ _ _ _) := ob in
      match rstep r o, io with
      | Ok (r', x), IOk y => out_eqb x y && raw_state_ok r' ob && raw_model_ok r' t
      | Panic k, IPanic c => (pk_code k =? c) && raw_state_ok r ob && raw_model_ok r t
      | _, _ => false
      end
  end.

Definition iv_fresh (v : intvec) (items : list N) : res intvec :=
  match iv_new (iwidth v) with Some e => iv_push_all e items | None => Panic PUnwrap end.

Definition iv_state_ok (v : intvec) (ob : iobs) : bool :=
  let '(IObs _ len width items ones ser eqf) := ob in
  (ilen v =? len) && (iwidth v =? width) &&
  match iv_items v with
  | Ok xs => nlist_eqb xs items &&
             match iv_fresh v xs with Ok f => Bool.eqb (iv_eqb v f) eqf | _ => false end
  | _ => false
  end &&
  (raw_count_ones (idata v) =? ones) && nlist_eqb (iv_serialize v) ser.

Fixpoint iv_model_ok (v : intvec) (steps : list (iop * iobs)) : bool :=
  match steps with
  | [] => true
  | (o, ob) :: t =>
      let '(IObs io _ _ _ _ _ _) := ob in
      match istep v o, io with
      | Ok (v', x), IOk y => out_eqb x y && iv_state_ok v' ob && iv_model_ok v' t
      (* the panics generated here (get/set past the end) are raised before anything is modified *)
      | Panic k, IPanic c => (pk_code k =? c) && iv_state_ok v ob && iv_model_ok v t
      | _, _ => false
      end
  end.

(* ---- specification side (no model, no generated constants) ---- *)

Definition raw_spec_state_ok (l : list bool) (ob : robs) : bool :=
  let '(RObs _ len words ones ser eqf) := ob in
  let ws := words_of_bits l in
  (lenL l =? len) && nlist_eqb ws words && (count l =? ones) &&
  nlist_eqb (lenL l :: (lenL l + 63) / 64 :: ws) ser && eqf.

Fixpoint raw_spec_ok (l : list bool) (steps : list (rop * robs)) : bool :=
  match steps with
  | [] => true
  | (o, ob) :: t =>
      let '(RObs io _ _ _ _ _) := ob in
      if rop_preb l o then
        let '(l', x) := rspec_step l o in
        match io with
        | IOk y => out_eqb x y && raw_spec_state_ok l' ob && raw_spec_ok l' t
        | IPanic _ => false
        end
      else
        (* outside the documented preconditions nothing is claimed about the call; the harness only issues
           such calls where the code is expected to refuse them, and the content must then be untouched *)
        raw_spec_state_ok l ob && raw_spec_ok l t
  end.

Definition iv_spec_state_ok (s : N * list N) (ob : iobs) : bool :=
  let '(IObs _ len width items ones ser eqf) := ob in
  let '(w, xs) := s in
  let bits := bits_of_items w xs in
  (lenL xs =? len) && (w =? width) && nlist_eqb xs items && (count bits =? ones) &&
  nlist_eqb (lenL xs :: w :: lenL xs * w :: (lenL xs * w + 63) / 64 :: words_of_bits bits) ser && eqf.

Fixpoint iv_spec_ok (s : N * list N) (steps : list (iop * iobs)) : bool :=
  match steps with
  | [] => true
  | (o, ob) :: t =>
      let '(IObs io _ _ _ _ _ _) := ob in
      if iop_preb s o then
        let '(s', x) := ispec_step s o in
        match io with
        | IOk y => out_eqb x y && iv_spec_state_ok s' ob && iv_spec_ok s' t
        | IPanic _ => false
        end
      else iv_spec_state_ok s ob && iv_spec_ok s t
  end.

Definition check (c : case) : N :=
  match c with
  | CRaw steps => code (raw_model_ok raw_new steps) (raw_spec_ok [] steps)
  | CInt w steps =>
      let m_ok := match iv_new w with Some v => iv_model_ok v steps | None => false end in
      code m_ok ((1 <=? w) && (w <=? 64) && iv_spec_ok (w, []) steps)
  | CNew w ok =>
      code (Bool.eqb (match iv_new w with Some _ => true | None => false end) ok)
           (Bool.eqb ((1 <=? w) && (w <=? 64)) ok)
  | CBigCount _ n value o =>
      (* model side: the model vector is NOT built; by theorem C05_big_with_len_count (Props/C05_big.v)
         [raw_with_len n value = Ok r] with [raw_count_ones r = if value then n else 0] for every n.
         spec side: a sequence of n copies of [value] has n (resp. 0) set bits, and the call must return *)
      code (res_agree N.eqb (Ok (if value then n else 0)) o)
           (match o with IOk x => if value then x =? n else x =? 0 | IPanic _ => false end)
  end.

(* diagnostic used by ./check --replay: index of the first step at which each side disagrees *)
Fixpoint first_bad {A B} (f : A -> B -> option A) (a : A) (l : list B) (i : N) : option N :=
  match l with
  | [] => None
  | b :: t => match f a b with Some a' => first_bad f a' t (i + 1) | None => Some i end
  end.
Definition explain (c : case) : option N * option N :=
  match c with
  | CRaw steps =>
      (first_bad (fun r (s : rop * robs) =>
                    let '(o, ob) := s in
                    match rstep r o with
                    | Ok (r', _) => if raw_model_ok r [s] then Some r' else None
                    | _ => if raw_model_ok r [s] then Some r else None end) raw_new steps 0,
       first_bad (fun l (s : rop * robs) =>
                    let '(o, ob) := s in
                    if raw_spec_ok l [s] then Some (if rop_preb l o then fst (rspec_step l o) else l) else None) [] steps 0)
  | CInt w steps =>
      (match iv_new w with
       | Some v0 =>
         first_bad (fun v (s : iop * iobs) =>
                    let '(o, ob) := s in
                    match istep v o with
                    | Ok (v', _) => if iv_model_ok v [s] then Some v' else None
                    | _ => if iv_model_ok v [s] then Some v else None end) v0 steps 0
       | None => Some 0 end,
       first_bad (fun st (s : iop * iobs) =>
                    let '(o, ob) := s in
                    if iv_spec_ok st [s] then Some (if iop_preb st o then fst (ispec_step st o) else st) else None) (w, []) steps 0)
  | CNew _ _ => (None, None)
  | CBigCount _ _ _ _ => (None, None)
  end.

(* the generated case files write their large literals with the primitive-integer number notation *)
Require Export Coq.Numbers.Cyclic.Int63.Uint63.
