(* Correspondence check for C19: a bitvector written with any subset of its supports loads with exactly that
   subset; enabling the rest in any order, with repeats and with serialize/load round trips in between, gives
   the fully enabled vector with identical bytes; skip_option lands exactly behind an optional structure. *)
From Coq Require Import NArith List Bool.
Require Import SDS.Model.Mach SDS.Model.Bits SDS.Model.Raw SDS.Model.IntVec SDS.Model.BitVec SDS.Model.Ser.
Require Import SDS.Spec.Stream SDS.Check.Common.
Require Export SDS.Model.Ser SDS.Check.SerCommon.
Require Export SDS.Check.SerWM.   (* WMCore / WaveletMatrix: the CStripW case *)
Require SDS.Check.SerSparse SDS.Model.SerSparse SDS.Model.Sparse.
Import ListNotations.
Open Scope N_scope.

Inductive case :=
(* (len, words): the bits; subset: supports enabled before writing (bit 0 rank, 1 select, 2 select_zero);
   elems_s: the bytes written; flags: supports_* after load; ops: what was then done to the loaded vector
   (0/1/2 = enable_rank/select/select_zero, 3 = serialize + load); flags_end: supports_* at the end;
   elems_end: bytes at the end; eq_full: final value == fully enabled original; idem: every enable_* of a support
   already present left the value == itself; answers: the sampled queries never changed *)
| CSupp (path : N) (dbg : bool) (len : N) (words : list N) (subset : N) (elems_s : list N) (flags : N)
        (ops : list N) (flags_end : N) (elems_end : list N) (eq_full idem answers : bool)
(* skip_option on a stream: declared = its first element; outcome code; reader position afterwards;
   the element read next *)
| CSkip (dbg : bool) (elems : list N) (outcome pos next : N)
(* WMCore / WaveletMatrix of V written by a writer that gives every level only the supports of [subset] (0 = none:
   what another implementation of the format produces): elems = that file; loading it (followed by [extra])
   consumed [consumed] bytes; eq_native: the loaded value == the natively built one; answers: sampled queries agree *)
| CStripW (path : N) (dbg : bool) (t : wty) (V : list N) (subset : N) (elems : list N) (extra : list N) (consumed : N)
          (eq_native answers : bool)
(* CStripW / CStripS behind an option header: elems = [number of elements of the stripped file] ++ that file, loaded
   as Option<T>; eq_native: the result is Some of a value == the natively built one *)
| CStripWO (path : N) (dbg : bool) (t : wty) (V : list N) (subset : N) (elems : list N) (extra : list N) (consumed : N)
           (eq_native answers : bool)
| CStripSO (w path : N) (dbg : bool) (len : N) (multi : bool) (vals : list N) (subset : N) (elems : list N)
           (extra : list N) (consumed : N) (eq_native answers : bool)
(* SparseVector of (len, vals) built natively with low width w; elems = its file with the embedded high bitvector
   rewritten to carry only the supports of [subset] (bit 1 select, bit 2 select_zero; what another writer of the
   format produces); loading it (followed by [extra]) consumed [consumed] bytes; eq_native / answers as in CStripW *)
| CStripS (w path : N) (dbg : bool) (len : N) (multi : bool) (vals : list N) (subset : N) (elems : list N)
          (extra : list N) (consumed : N) (eq_native answers : bool)
(* a call of the library panicked where none is allowed while the CSupp observations of these bits were taken *)
| CCrash (len : N) (words : list N) (k : N).

(* the model of an op sequence on a loaded vector *)
Fixpoint run_ops (sp : selpath) (m : mode) (ops : list N) (b : bitvec) : option bitvec :=
  match ops with
  | [] => Some b
  | op :: t =>
      if op =? 3 then
        match c_dec (bv_codec m) (c_enc (bv_codec m) b) with
        | IoOk (b', []) => run_ops sp m t b'
        | _ => None
        end
      else match bv_enable_op sp m op b with
           | Ok b' => run_ops sp m t b'
           | _ => None
           end
  end.

Fixpoint subset_of_ops (ops : list N) (s : N) : N :=
  match ops with
  | [] => s
  | op :: t => subset_of_ops t (if op =? 3 then s else N.lor s (2 ^ op))
  end.

Definition check (c : case) : N :=
  match c with
  | CSupp path dbg len words subset elems_s flags ops flags_end elems_end eq_full idem answers =>
      let sp := sp_of path in let m := mode_of dbg in
      let m_ok :=
        match bv_enable_all sp m (bv_from_raw (mkraw len words)) with
        | Ok bf =>
            let bs := bv_restrict subset bf in
            let bytes := stream elems_s [] in
            nlist_eqb (c_enc (bv_codec m) bs) bytes
            && match c_dec (bv_codec m) bytes with
               | IoOk (l, []) =>
                   bv_eqb l bs && (bv_supports l =? flags)
                   && match run_ops sp m ops l with
                      | Some e => (bv_supports e =? flags_end)
                                  && nlist_eqb (c_enc (bv_codec m) e) (stream elems_end [])
                                  && (if flags_end =? 7 then bv_eqb e bf else true)
                      | None => false
                      end
               | _ => false
               end
        | _ => false
        end in
      let s_ok := (flags =? subset) && (flags_end =? subset_of_ops ops subset)
                  && (if flags_end =? 7 then eq_full else true) && idem && answers in
      code m_ok s_ok
  | CSkip dbg elems outcome pos next =>
      let m := mode_of dbg in
      let bytes := stream elems [] in
      let r := skip_option m bytes in
      let m_ok := (io_code r =? outcome)
                  && match r with
                     | IoOk (_, rest) => (lenN bytes =? pos + lenN rest)
                                         && match dec_elem rest with IoOk (x, _) => x =? next | _ => false end
                     | _ => true
                     end in
      let declared := match elems with d :: _ => d | [] => 0 end in
      let s_ok := (outcome =? 0) && (pos =? 8 * (1 + declared))
                  && match nthN elems (1 + declared) with Some x => x =? next | None => false end in
      code m_ok s_ok
  | CStripW path dbg t V subset elems extra consumed eq_native answers =>
      let bytes := stream elems [] in
      let m_ok := SerWM.stripped_ok (sp_of path) (mode_of dbg) t V subset bytes extra consumed in
      let s_ok := eq_native && answers && (consumed =? 8 * lenN elems) && SerWM.header_ok t V elems in
      code m_ok s_ok
  | CStripS w path dbg len multi vals subset elems extra consumed eq_native answers =>
      let sp := sp_of path in let m := mode_of dbg in
      let bytes := stream elems [] in
      let m_ok :=
        match SerSparse.build_sv sp m w len multi vals with
        | Some x =>
            let c := SDS.Model.SerSparse.sparse_codec sp m in
            let x' := SDS.Model.Sparse.mksv (SDS.Model.Sparse.sv_len x) (bv_restrict subset (SDS.Model.Sparse.sv_high x))
                                            (SDS.Model.Sparse.sv_low x) in
            nlist_eqb (c_enc c x') bytes
            && match c_dec c (bytes ++ extra) with
               | IoOk (y, rest) => SerSparse.sv_eqb x y && nlist_eqb rest extra && (consumed =? lenN bytes)
               | _ => false
               end
        | None => false
        end in
      let s_ok := eq_native && answers && (consumed =? 8 * lenN elems) in
      code m_ok s_ok
  | CStripWO path dbg t V subset elems extra consumed eq_native answers =>
      (* Option<V>::load reads the size element and then loads the value, whatever its in-memory size turns out to be *)
      let m_ok := match elems with
                  | n :: body => negb (n =? 0) && (n =? lenN body)
                                 && SerWM.stripped_ok (sp_of path) (mode_of dbg) t V subset (stream body []) extra (consumed - 8)
                                 && (8 <=? consumed)
                  | [] => false
                  end in
      let s_ok := eq_native && answers && (consumed =? 8 * lenN elems) in
      code m_ok s_ok
  | CStripSO w path dbg len multi vals subset elems extra consumed eq_native answers =>
      let sp := sp_of path in let m := mode_of dbg in
      let bytes := stream elems [] in
      let m_ok :=
        match SerSparse.build_sv sp m w len multi vals with
        | Some x =>
            let c := SDS.Model.SerSparse.sparse_codec sp m in
            let x' := SDS.Model.Sparse.mksv (SDS.Model.Sparse.sv_len x) (bv_restrict subset (SDS.Model.Sparse.sv_high x))
                                            (SDS.Model.Sparse.sv_low x) in
            nlist_eqb (c_enc (option_codec c) (Some x')) bytes
            && match c_dec (option_codec c) (bytes ++ extra) with
               | IoOk (Some y, rest) => SerSparse.sv_eqb x y && nlist_eqb rest extra && (consumed =? lenN bytes)
               | _ => false
               end
        | None => false
        end in
      let s_ok := eq_native && answers && (consumed =? 8 * lenN elems) in
      code m_ok s_ok
  | CCrash _ _ _ => 3
  end.

Definition explain (c : case) :=
  match c with
  | CSupp path dbg len words subset elems_s flags ops flags_end elems_end eq_full idem answers =>
      let sp := sp_of path in let m := mode_of dbg in
      match bv_enable_all sp m (bv_from_raw (mkraw len words)) with
      | Ok bf => (c_enc (bv_codec m) (bv_restrict subset bf), io_code (c_dec (bv_codec m) (stream elems_s [])))
      | _ => ([], 99)
      end
  | CSkip dbg elems outcome pos next => ([], io_code (skip_option (mode_of dbg) (stream elems [])))
  | CStripW path dbg t V subset elems extra consumed eq_native answers =>
      ([], fst (SerWM.bad_dec (sp_of path) (mode_of dbg) t (stream elems [] ++ extra)))
  | CStripS w path dbg len multi vals subset elems extra consumed eq_native answers =>
      ([], io_code (c_dec (SDS.Model.SerSparse.sparse_codec (sp_of path) (mode_of dbg)) (stream elems [] ++ extra)))
  | CStripWO path dbg t V subset elems extra consumed eq_native answers =>
      ([], fst (SerWM.bad_dec (sp_of path) (mode_of dbg) t (stream (tl elems) [] ++ extra)))
  | CStripSO w path dbg len multi vals subset elems extra consumed eq_native answers =>
      ([], io_code (c_dec (option_codec (SDS.Model.SerSparse.sparse_codec (sp_of path) (mode_of dbg))) (stream elems [] ++ extra)))
  | CCrash _ _ _ => ([], 98)
  end.
