(* Model side of the C09 correspondence for WaveletMatrix / WMCore: the structures are rebuilt by Model/WM.v from
   the value list of the case (WMCore::from, and WaveletMatrix::from when the harness built one) and every call
   is answered by the model in the build's overflow mode and select path. Kept in a file of its own (like
   Check/C09RL.v); Check/C09.v refers to the functions below by qualified names. *)
From Coq Require Import NArith List Bool.
Require Import SDS.Model.Mach SDS.Model.Bits SDS.Model.Raw SDS.Model.IntVec SDS.Model.BitVec SDS.Model.Iters SDS.Model.WM.
Require SDS.Check.WMBuild.
Import ListNotations.
Open Scope N_scope.

(* WMCore::from(vals), and WaveletMatrix::from(vals) when the harness built it (alphabets up to 4096); for
   alphabets above Check/C04.v's BIG_ALPHABET the offsets are bit-packed directly (Check/WMBuild.v) *)
Definition build := WMBuild.build.

(* iterator.next() of a freshly positioned ValueIter *)
Definition q_first (sp : selpath) (m : mode) (w : wmatrix) (r : res viter) : res (option (N * N)) :=
  let* it := r in let* (_, x) := vi_next sp m w it in Ok x.

(* value_iter(v): nth(n) (the std default: advance_by(n) stopping at the first None, then next()), then next().
   At most len items are left, so advance_by makes at most len + 1 calls *)
Definition q_val_nth (sp : selpath) (m : mode) (w : wmatrix) (v n : N) : res (option (N * N) * option (N * N)) :=
  let* (it1, a1) := std_nth (vi_next sp m w) (S (S (N.to_nat (wm_len w)))) (wm_value_iter v) n in
  let* (_, a2) := vi_next sp m w it1 in
  Ok (a1, a2).

(* Access::get_or: if index >= self.len() { value } else { self.get(index) } *)
Definition q_get_or (m : mode) (w : wmatrix) (i d : N) : res N :=
  if wm_len w <=? i then Ok d else wm_get m w i.

Fixpoint consume {St A} (next : St -> res (St * option A)) (k : nat) (s : St) : res St :=
  match k with
  | O => Ok s
  | S k' => let* (s', _) := next s in consume next k' s'
  end.
Definition small (k : N) : nat := N.to_nat (N.min k 100000).

(* iter() (AccessIter, ops.rs): k x next(), nth(n) / nth_back(n), next() / next_back(), len() *)
Definition q_iter_nth (m : mode) (w : wmatrix) (back : bool) (k n : N) : res (option N * option N * N) :=
  let get := wm_get m w in
  let* it0 := consume (cur_next get) (small k) (cur_start (wm_len w)) in
  if back then
    let* (it1, a1) := cur_nth_back get it0 n in
    let* (it2, a2) := cur_next_back get it1 in Ok (a1, a2, cur_len it2)
  else
    let* (it1, a1) := cur_nth get it0 n in
    let* (it2, a2) := cur_next get it1 in Ok (a1, a2, cur_len it2).
