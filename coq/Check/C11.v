(* Correspondence check for C11: conversions between the three bitvector types and construction routes.

   For one bit sequence the harness builds BitVector / SparseVector / RLVector directly with the type's own
   builder, then converts along every chain of length 1..3 (From and copy_bit_vec) and feeds the RLBuilder
   with many decompositions of the same run list. Recorded: length, count_ones, the set positions, `==` with
   the directly built structure of the target type, and the serialized elements (None = identical to the
   directly built one).

   Model side (code bit 1): Model/BitVec.v, Model/Sparse.v, Model/RL.v replay the direct builds and the
   copy_bit_vec of every target on (len, set positions); their serializations must be the observed elements.
   Spec side (code bit 2): only Spec/: positions preserved, every recorded equality true, and the builder
   calls of every decomposition accepted by the naive run-list builder with the maximal runs as result. *)
From Coq Require Import NArith List Bool.
Require Import SDS.Model.Mach SDS.Model.Raw SDS.Model.IntVec SDS.Model.BitVec SDS.Model.SerBV SDS.Model.Sparse SDS.Model.RL.
Require Import SDS.Spec.BitSeq.
Require Export SDS.Spec.Runs.        (* the case files name the builder calls STrySet / SSetLen / SSetBit *)
Require Import SDS.Check.Common.
Import ListNotations.
Open Scope N_scope.

(* type codes: 0 = BitVector, 1 = SparseVector, 2 = RLVector.
   A chain is ([S; T1; ..; Tk], via): the structure of type S built directly, converted to T1, then T2, ...
   (k = 0: the directly built structure itself); via: 0 = From (by value), 1 = copy_bit_vec (by reference),
   2 = copy_bit_vec from a source BitVector with all supports enabled.
   One record per observed OUTCOME, listing every chain that gave it:
   len(), count_ones(), the positions yielded by one_iter() of the result (None = not recorded),
   eq: result == directly built structure of the final type,
   ser: None = serializes to exactly the elements of the directly built structure, Some s = to s instead. *)
Inductive chainres :=
| CG (chains : list (list N * N)) (len ones : N) (pos : option (list N)) (eq : bool) (ser : option (list N)).

(* decompositions of the run list as RLBuilder calls, with the results of the calls (false = Err), grouped by
   outcome: len, count_ones, run_iter of the vector; eq / ser as above, against the RLVector built by
   maximal runs + set_len *)
Inductive decomp :=
| DG (hists : list (list sop * list bool)) (len ones : N) (runs : list (N * N)) (eq : bool) (ser : option (list N)).

Inductive case :=
(* path: 0 = BMI2 select, 1 = portable; dbg: overflow checks; the bit sequence = the first len bits of words;
   w: low width of the sparse vector (taken from its serialization); the serialized elements of the three
   directly built structures; direct: every direct route of a type gave == structures with identical bytes
   (BitVector: from RawVector / from a bool iterator; SparseVector: SparseBuilder::new + set / + extend;
   RLVector: try_set by maximal runs + set_len) *)
| CConv (path : N) (dbg : bool) (len : N) (words : list N) (w : N)
        (ser_bv ser_sv ser_rl : list N) (direct : bool)
        (chains : list chainres) (decomps : list decomp)
(* the implementation panicked somewhere while building / converting *)
| CCrash (len : N) (words : list N) (k : N).

Definition sp_of (path : N) : selpath := if path =? 0 then Pdep else Portable.
Definition mode_of (dbg : bool) : mode := if dbg then Debug else Release.

Definition bop_of (o : sop) : bop :=
  match o with STrySet s l => BTrySet s l | SSetLen l => BSetLen l | SSetBit i => BSetBit i end.

(* maximal runs of a list of increasing positions *)
Definition runs_of_positions (ps : list N) : list (N * N) := maximal (map (fun p => (p, 1)) ps).

(* ---- model side *)

Definition res_ser {A} (f : A -> list N) (r : res A) : option (list N) :=
  match r with Ok a => Some (f a) | _ => None end.
Definition ser_is (o : option (list N)) (s : list N) : bool :=
  match o with Some x => nlist_eqb x s | None => false end.

Definition unsum {A} (r : res (A + N)) : res A :=
  let* x := r in match x with inl a => Ok a | inr _ => Panic PUnwrap end.

Definition last_of (l : list N) (d : N) : N := last l d.

Definition model_ok (sp : selpath) (m : mode) (len : N) (words : list N) (w : N)
           (ser_bv ser_sv ser_rl : list N) (chains : list chainres) (decomps : list decomp) : bool :=
  let B := bits_of len words in
  let ps := ones B in
  (* BitVector: from the raw vector, from the bits, by copy_bit_vec *)
  let bv1 := Some (bv_serialize (bv_from_raw (mkraw len words))) in
  let bv2 := res_ser bv_serialize (bv_from_bits B) in
  let bv3 := res_ser bv_serialize (bv_copy len ps) in
  (* SparseVector: builder, copy_bit_vec *)
  let sv1 := res_ser sv_serialize (unsum (sv_build_set sp m w len ps)) in
  let sv2 := res_ser sv_serialize (sv_copy sp m w len ps) in
  (* RLVector: maximal runs + set_len, copy_bit_vec *)
  let rl1 := res_ser rl_serialize
               (let* (v, _) := rl_build m (map (fun r => BTrySet (fst r) (snd r)) (runs_of_positions ps) ++ [BSetLen len]) in Ok v) in
  let rl2 := res_ser rl_serialize (rl_copy_bit_vec m ps len) in
  ser_is bv1 ser_bv && ser_is bv2 ser_bv && ser_is bv3 ser_bv &&
  ser_is sv1 ser_sv && ser_is sv2 ser_sv &&
  ser_is rl1 ser_rl && ser_is rl2 ser_rl &&
  (* a chain result that did not serialize like the direct structure must at least be what the model of the
     last conversion produces from the same bits; never the case on a correct tree *)
  forallb (fun c => match c with
                    | CG chains n o pos eq ser =>
                      match ser with
                      | None => true
                      | Some s => forallb (fun ch => match last_of (fst ch) 3 with
                                                     | 0 => ser_is bv3 s
                                                     | 1 => ser_is sv2 s
                                                     | _ => ser_is rl2 s
                                                     end) chains
                      end
                    end) chains &&
  forallb (fun d => match d with
                    | DG hists n o runs eq ser =>
                      forallb (fun h =>
                        match rl_build m (map bop_of (fst h)) with
                        | Ok (v, oks') =>
                          blist_eqb (snd h) oks' && (rl_len v =? n) && (rl_ones v =? o) &&
                          nlist_eqb (rl_serialize v) (match ser with None => ser_rl | Some s => s end)
                        | _ => false
                        end) hists
                    end) decomps.

(* ---- spec side: Spec/BitSeq.v and Spec/Runs.v only *)

Definition chain_wf (chain : list N) (via : N) : bool :=
  forallb (fun t => t <? 3) chain && (1 <=? N.of_nat (length chain)) && (N.of_nat (length chain) <=? 4) && (via <? 3).

Definition olist_is (o : option (list N)) (l : list N) : bool :=
  match o with None => true | Some x => nlist_eqb x l end.
Definition is_none {A} (o : option A) : bool := match o with None => true | Some _ => false end.

Definition spec_ok (len : N) (words : list N) (w : N) (ser_bv ser_sv ser_rl : list N) (direct : bool)
           (chains : list chainres) (decomps : list decomp) : bool :=
  let B := bits_of len words in
  let ps := ones B in
  let cnt := count B in
  let R := runs_of_positions ps in
  (lenB B =? len) && direct &&
  (* the three direct structures are present among the records (chains of length 0) *)
  forallb (fun t => existsb (fun c => match c with CG chains _ _ pos _ _ =>
                                        existsb (fun ch => nlist_eqb (fst ch) [t]) chains && negb (is_none pos) end) chains)
          [0; 1; 2] &&
  forallb (fun c => match c with
                    | CG chains n o pos eq ser =>
                      forallb (fun ch => chain_wf (fst ch) (snd ch)) chains &&
                      (n =? len) && (o =? cnt) && olist_is pos ps && eq && is_none ser
                    end) chains &&
  forallb (fun d => match d with
                    | DG hists n o runs eq ser =>
                      forallb (fun h =>
                        let '((R', L'), oks') := spec_run ([], 0) (fst h) in
                        blist_eqb (snd h) oks' && forallb (fun x => x) (snd h) && nnlist_eqb R' R && (L' =? len)) hists &&
                      (n =? len) && (o =? cnt) && nnlist_eqb runs R && eq && is_none ser
                    end) decomps.

Definition check (c : case) : N :=
  match c with
  | CConv path dbg len words w ser_bv ser_sv ser_rl direct chains decomps =>
      code (model_ok (sp_of path) (mode_of dbg) len words w ser_bv ser_sv ser_rl chains decomps)
           (spec_ok len words w ser_bv ser_sv ser_rl direct chains decomps)
  | CCrash _ _ _ => 3
  end.

(* what the model computes for a case (for replays) *)
Definition explain (c : case) :=
  match c with
  | CConv path dbg len words w ser_bv ser_sv ser_rl direct chains decomps =>
      let sp := sp_of path in let m := mode_of dbg in
      let B := bits_of len words in
      let ps := ones B in
      (ps, runs_of_positions ps,
       res_ser bv_serialize (bv_copy len ps),
       res_ser sv_serialize (sv_copy sp m w len ps),
       res_ser rl_serialize (rl_copy_bit_vec m ps len),
       map (fun d => match d with DG hists _ _ _ _ _ =>
                       map (fun h => (spec_run ([], 0) (fst h),
                                      match rl_build m (map bop_of (fst h)) with
                                      | Ok (v, _) => Some (rl_len v, rl_ones v, nlist_eqb (rl_serialize v) ser_rl)
                                      | _ => None end)) hists
                     end) decomps)
  | CCrash _ _ _ => ([], [], None, None, None, [])
  end.
