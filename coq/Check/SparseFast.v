(* One-pass evaluation of the builder state that Model/Sparse.v reaches after SparseBuilder::new / multiset
   followed by try_set for every value of a SORTED list inside the universe.

   Why: the model keeps the word arrays as lists and replays `high.set_bit` / `low.set` once per value, which
   costs a traversal of both arrays per value (about 0.4 us per word and value inside vm_compute). The inputs
   that put LONG superblocks into the select supports of `high` need 40 000 .. 250 000 values and arrays of
   2000 .. 20 000 words; replaying them value by value takes minutes. The functions below produce the same two
   word arrays in one pass over the values (both arrays are written at non-decreasing word indices when the
   values are sorted).

   Everything after the builder - BitVector::from, enable_select, enable_select_zero, every query, the
   serialized form - is still evaluated by the model itself on these arrays (Check/C02.v).
   Agreement of the one-pass arrays with the arrays of the replaying model is checked on EVERY case that is
   small enough to replay ([fast_agrees] in Check/C02.v: thousands of cases per run, all construction routes). *)
From Coq Require Import NArith List Bool.
Require Import SDS.Model.Mach SDS.Model.Bits SDS.Model.Raw SDS.Model.IntVec SDS.Model.BitVec SDS.Model.Sparse.
Import ListNotations.
Open Scope N_scope.

(* k zero words in front of a (reversed) word list *)
Fixpoint push_zeros (k : nat) (acc : list N) : list N :=
  match k with O => acc | S k' => push_zeros k' (0 :: acc) end.

(* high: value number i with high part h = v >> w sets bit h + i. State: index of the word being filled, its
   content, the finished words in reverse order. *)
Fixpoint fh_go (w : N) (vals : list N) (i cur_idx cur : N) (done : list N) : N * N * list N :=
  match vals with
  | [] => (cur_idx, cur, done)
  | v :: t =>
      let '(j, o) := split_offset (N.shiftr v w + i) in
      if j =? cur_idx then fh_go w t (i + 1) cur_idx (N.lor cur (N.shiftl 1 o)) done
      else fh_go w t (i + 1) j (N.shiftl 1 o) (push_zeros (N.to_nat (j - cur_idx - 1)) (cur :: done))
  end.

Definition fast_high_words (w : N) (vals : list N) (hlen : N) : list N :=
  let total := bits_to_words hlen in
  if total =? 0 then []
  else
    let '(ci, cur, done) := fh_go w vals 0 0 0 [] in
    rev' (push_zeros (N.to_nat (total - ci - 1)) (cur :: done)).

(* low: the w low bits of value number i are the field at bit i * w. State: bit offset inside the word being
   filled, its content (may temporarily exceed 64 bits), the finished words in reverse order. *)
Fixpoint fl_go (w : N) (vals : list N) (off cur : N) (done : list N) : N * N * list N :=
  match vals with
  | [] => (off, cur, done)
  | v :: t =>
      let cur' := N.lor cur (N.shiftl (N.land v (N.ones w)) off) in
      if off + w <? 64 then fl_go w t (off + w) cur' done
      else fl_go w t (off + w - 64) (N.shiftr cur' 64) (N.land cur' (N.ones 64) :: done)
  end.

Definition fast_low_words (w : N) (vals : list N) : list N :=
  let '(off, cur, done) := fl_go w vals 0 0 [] in
  rev' (if off =? 0 then done else cur :: done).

(* the inputs the one-pass evaluation is defined for: sorted (strictly when inc = 1), inside the universe *)
Fixpoint sorted_from (inc prev : N) (l : list N) : bool :=
  match l with
  | [] => true
  | v :: t => (prev <=? v) && sorted_from inc (v + inc) t
  end.
Definition fast_valid (inc n : N) (vals : list N) : bool :=
  sorted_from inc 0 vals && forallb (fun v => v <? n) vals.

(* the full builder: b_next is not read by try_from *)
Definition fast_builder (m : mode) (w n inc : N) (vals : list N) : res builder :=
  let ones := lenN vals in
  let* (width, high_len) := get_params m w n ones in
  if 2 ^ 27 <=? high_len then Panic PFuel
  else
    let low := mkiv ones width (mkraw (ones * width) (fast_low_words width vals)) in
    let high := mkraw high_len (fast_high_words width vals high_len) in
    Ok (mkb n low high ones 0 inc).

(* what the replaying model computes for the same input: the builder after the last try_set *)
Definition replay_builder (m : mode) (w n inc : N) (vals : list N) : res (builder + N) :=
  let* r := (if inc =? 1 then sb_new m w n (lenN vals)
             else let* b := sb_multiset m w n (lenN vals) in Ok (inl b)) in
  match r with
  | inr e => Ok (inr e)
  | inl b => sb_try_set_all m b vals
  end.

Definition builder_same (a b : builder) : bool :=
  (b_universe a =? b_universe b) && (b_len a =? b_len b) && (b_inc a =? b_inc b)
  && iv_eqb (b_low a) (b_low b) && raw_eqb (b_high a) (b_high b).
