(* One-pass evaluation of the builder state that Model/Sparse.v reaches after SparseBuilder::new / multiset
   followed by try_set for every value of a SORTED list inside the universe.

   Why: the model keeps the word arrays as lists and replays `high.set_bit` / `low.set` once per value, which
   costs a traversal of both arrays per value (about 0.4 us per word and value inside vm_compute). The inputs
   that put LONG superblocks into the select supports of `high` need 40 000 .. 250 000 values and arrays of
   2000 .. 20 000 words; replaying them value by value takes minutes. The functions below produce the same two
   word arrays in one pass over the values (both arrays are written at non-decreasing word indices when the
   values are sorted).

   Everything after the builder - BitVector::from, enable_select, enable_select_zero, every query, the
   serialized form - is still evaluated by the model itself on these arrays (Check/C02.v).

   PROVED (Proofs/SparseFastProof.v, stated in Props/C02_fast.v and Props/C15_fast.v): for every mode, width
   1..63, universe below 2^64 and every value list the builder accepts, [fast_builder] is exactly the builder the
   model reaches by replaying try_set (all fields but b_next, which try_from does not read), and
   [model_build_checked] returns the result of the pure model build on every construction route whenever its
   flag is true. In addition the one-pass arrays are still compared at run time with the replayed arrays on EVERY
   case that is small enough to replay ([fast_agrees]: thousands of cases per run, all construction routes).

   This file imports only Model/ (no primitive integers), so that it can be part of a theorem cone. *)
From Coq Require Import NArith List Bool.
Require Import SDS.Model.Mach SDS.Model.Bits SDS.Model.Raw SDS.Model.IntVec SDS.Model.BitVec SDS.Model.Sparse.
Import ListNotations.
Open Scope N_scope.

(* k zero words in front of a (reversed) word list *)
Fixpoint push_zeros (k : nat) (acc : list N) : list N :=
  match k with O => acc | S k' => push_zeros k' (0 :: acc) end.

(* high: value number i with high part h = v >> w sets bit h + i. State: index of the word being filled, its
   content, the finished words in reverse order. *)
Fixpoint fh_go (w : N) (vals : list N) (i cur_idx cur : N) (done : list N) : N * N * list N :=
  match vals with
  | [] => (cur_idx, cur, done)
  | v :: t =>
      let '(j, o) := split_offset (N.shiftr v w + i) in
      if j =? cur_idx then fh_go w t (i + 1) cur_idx (N.lor cur (N.shiftl 1 o)) done
      else fh_go w t (i + 1) j (N.shiftl 1 o) (push_zeros (N.to_nat (j - cur_idx - 1)) (cur :: done))
  end.

Definition fast_high_words (w : N) (vals : list N) (hlen : N) : list N :=
  let total := bits_to_words hlen in
  if total =? 0 then []
  else
    let '(ci, cur, done) := fh_go w vals 0 0 0 [] in
    rev' (push_zeros (N.to_nat (total - ci - 1)) (cur :: done)).

(* low: the w low bits of value number i are the field at bit i * w. State: bit offset inside the word being
   filled, its content (may temporarily exceed 64 bits), the finished words in reverse order. *)
Fixpoint fl_go (w : N) (vals : list N) (off cur : N) (done : list N) : N * N * list N :=
  match vals with
  | [] => (off, cur, done)
  | v :: t =>
      let cur' := N.lor cur (N.shiftl (N.land v (N.ones w)) off) in
      if off + w <? 64 then fl_go w t (off + w) cur' done
      else fl_go w t (off + w - 64) (N.shiftr cur' 64) (N.land cur' (N.ones 64) :: done)
  end.

Definition fast_low_words (w : N) (vals : list N) : list N :=
  let '(off, cur, done) := fl_go w vals 0 0 [] in
  rev' (if off =? 0 then done else cur :: done).

(* the inputs the one-pass evaluation is defined for: sorted (strictly when inc = 1), inside the universe *)
Fixpoint sorted_from (inc prev : N) (l : list N) : bool :=
  match l with
  | [] => true
  | v :: t => (prev <=? v) && sorted_from inc (v + inc) t
  end.
Definition fast_valid (inc n : N) (vals : list N) : bool :=
  sorted_from inc 0 vals && forallb (fun v => v <? n) vals.

(* the full builder: b_next is not read by try_from *)
Definition fast_builder (m : mode) (w n inc : N) (vals : list N) : res builder :=
  let ones := lenN vals in
  let* (width, high_len) := get_params m w n ones in
  let low := mkiv ones width (mkraw (ones * width) (fast_low_words width vals)) in
  let high := mkraw high_len (fast_high_words width vals high_len) in
  Ok (mkb n low high ones 0 inc).

(* a builder with b_next reset: what [fast_builder] yields for the builder the model reaches *)
Definition forget_next (b : builder) : builder :=
  mkb (b_universe b) (b_low b) (b_high b) (b_len b) 0 (b_inc b).

(* protection of the checker, not of the model: a high part of 2^27 bits or more (2^21 words as a Coq list) is
   refused by [model_build_checked] with its flag false, i.e. the case is reported, never accepted *)
Definition fast_too_large (m : mode) (w n : N) (vals : list N) : bool :=
  match get_params m w n (lenN vals) with
  | Ok (_, high_len) => 2 ^ 27 <=? high_len
  | _ => false
  end.

(* where the theorem about [fast_builder] holds: oracle width 1..63, universe below 2^64, fewer than 2^63 values
   (then ones + buckets < 2^64) *)
Definition fast_domain (w u : N) (vals : list N) : bool :=
  (1 <=? w) && (w <=? 63) && (u <? 2 ^ 64) && (lenN vals <? 2 ^ 63).

(* what the replaying model computes for the same input: the builder after the last try_set *)
Definition replay_builder (m : mode) (w n inc : N) (vals : list N) : res (builder + N) :=
  let* r := (if inc =? 1 then sb_new m w n (lenN vals)
             else let* b := sb_multiset m w n (lenN vals) in Ok (inl b)) in
  match r with
  | inr e => Ok (inr e)
  | inl b => sb_try_set_all m b vals
  end.

Definition builder_same (a b : builder) : bool :=
  (b_universe a =? b_universe b) && (b_len a =? b_len b) && (b_inc a =? b_inc b)
  && iv_eqb (b_low a) (b_low b) && raw_eqb (b_high a) (b_high b).

(* ---- the model's vector for a case, through the one-pass builder where replaying would take minutes *)

(* the last element in one pass ([ValSeq.last_opt] reverses the list with [rev], which is quadratic) *)
Fixpoint fast_last (l : list N) : option N :=
  match l with
  | [] => None
  | [x] => Some x
  | _ :: t => fast_last t
  end.

(* route: 0 = SparseBuilder::new + try_set + try_from, 1 = SparseBuilder::multiset + try_set + try_from,
   2 = copy_bit_vec from a plain bitvector of length n with the given positions set, 3 = try_from_iter *)
Definition model_build (sp : selpath) (m : mode) (route w n : N) (vals : list N) : res (sparse + N) :=
  match route with
  | 0 => sv_build_set sp m w n vals
  | 1 => sv_build_multiset sp m w n vals
  | 2 => let* s := sv_copy sp m w n vals in Ok (inl s)
  | _ => sv_try_from_iter sp m w vals
  end.

(* from this many values on, the builder state is evaluated in one pass only (replaying try_set value by value
   over list-based arrays would take minutes); below it, the model replays every call and the one-pass arrays are
   compared with the arrays the replay produced *)
Definition FAST_FROM : N := 20000.

(* (increment, universe) when the route accepts the input, i.e. when the one-pass evaluation is defined *)
Definition fast_params (route n : N) (vals : list N) : option (N * N) :=
  match route with
  | 0 | 2 => if fast_valid 1 n vals then Some (1, n) else None
  | 1 => if fast_valid 0 n vals then Some (0, n) else None
  | _ => let u := match fast_last vals with None => 0 | Some last => last + 1 end in
         if fast_valid 0 u vals && (u <? 2 ^ 64) then Some (0, u) else None
  end.

Definition fast_agrees (sv : sparse) (fb : builder) : bool :=
  (sv_len sv =? b_universe fb) && raw_eqb (bv_data (sv_high sv)) (b_high fb) && iv_eqb (sv_low sv) (b_low fb).

(* the model's vector, and a flag: false when the one-pass arrays differ from the replayed ones, or when the
   one-pass route refuses the case as too large (true when nothing was compared).
   Proofs/SparseFastProof.v [fast_checked_exact]: flag = true -> the first component = model_build. *)
Definition model_build_checked (sp : selpath) (m : mode) (route w n : N) (vals : list N) : res (sparse + N) * bool :=
  match fast_params route n vals with
  | Some (inc, u) =>
      if (FAST_FROM <=? lenN vals) && fast_domain w u vals then
        if fast_too_large m w u vals then (Panic PFuel, false)
        else ((let* b := fast_builder m w u inc vals in sv_try_from sp m b), true)
      else
        let r := model_build sp m route w n vals in
        (r, match r, fast_builder m w u inc vals with
            | Ok (inl sv), Ok fb => fast_agrees sv fb
            | _, _ => true
            end)
  | None => (model_build sp m route w n vals, true)
  end.
