(* Model side of the serialization checks (C06, C14) for SparseVector: the vector is rebuilt by Model/Sparse.v from the
   recipe of the case exactly as the harness builds it (SparseBuilder::new or ::multiset, try_set per value, try_from)
   with the low width the crate chose (read from the bytes it wrote: the f64 width rule is an oracle argument of the
   model), encoded and decoded by [sparse_codec] (Model/SerSparse.v, the subject of Props/C06_sparse.v,
   Props/C14_sparse.v, Props/C19_sparse.v) with the select path and mode of the build under test.
   Kept in a file of its own: Model/Sparse.v is referred to by qualified names. *)
From Coq Require Import NArith List Bool.
Require Import SDS.Model.Mach SDS.Model.Bits SDS.Model.Raw SDS.Model.IntVec SDS.Model.BitVec SDS.Model.Ser.
Require Import SDS.Spec.Stream SDS.Check.Common SDS.Check.SerCommon.
Require SDS.Model.Sparse SDS.Model.SerSparse.
Import ListNotations.
Open Scope N_scope.

Definition build_sv (sp : selpath) (m : mode) (w len : N) (multi : bool) (vals : list N) : option Sparse.sparse :=
  ok_opt (Sparse.unwrap_sum (if multi then Sparse.sv_build_multiset sp m w len vals
                             else Sparse.sv_build_set sp m w len vals)).

(* all three fields; the high part with its supports *)
Definition sv_eqb (a b : Sparse.sparse) : bool :=
  (Sparse.sv_len a =? Sparse.sv_len b) && bv_eqb (Sparse.sv_high a) (Sparse.sv_high b)
  && iv_eqb (Sparse.sv_low a) (Sparse.sv_low b).

(* C06: the bytes are the model's encoding, the size agrees, load returns the value and leaves what followed *)
Definition round_model (sp : selpath) (m : mode) (w len : N) (multi : bool) (vals : list N)
    (bytes extra : list byte) (size_el consumed : N) : bool :=
  match build_sv sp m w len multi vals with
  | Some x =>
      let c := SerSparse.sparse_codec sp m in
      nlist_eqb (c_enc c x) bytes
      && (c_size c x =? size_el)
      && match c_dec c (bytes ++ extra) with
         | IoOk (y, rest) => sv_eqb x y && nlist_eqb rest extra && (consumed =? lenN bytes)
         | _ => false
         end
  | None => false
  end.

(* C14: the outcome of load on the first k bytes, k = 0 .. size-1 (where sampled) *)
Definition trunc_model (sp : selpath) (m : mode) (w len : N) (multi : bool) (vals : list N)
    (bytes : list byte) (keep : N -> bool) (obs : list N) : bool :=
  match build_sv sp m w len multi vals with
  | Some x =>
      let c := SerSparse.sparse_codec sp m in
      nlist_eqb (c_enc c x) bytes
      && agree_from (fun k => io_code (c_dec c (firstn (N.to_nat k) bytes))) keep 0 obs
  | None => false
  end.

(* for replays *)
Definition explain_round (sp : selpath) (m : mode) (w len : N) (multi : bool) (vals : list N) (bytes : list byte)
  : list byte * N * N :=
  match build_sv sp m w len multi vals with
  | Some x => let c := SerSparse.sparse_codec sp m in (c_enc c x, c_size c x, io_code (c_dec c bytes))
  | None => ([], 0, 99)
  end.
