(* Correspondence check shared by C02 (sets) and C15 (multisets): construction of the sparse vector through
   every route, its serialized form, every query and the three iterators against Model/Sparse.v, and the
   answers against the naive definitions over the sorted value list (Spec/ValSeq.v). *)
From Coq Require Import NArith List Bool.
Require Import SDS.Model.Mach SDS.Model.Bits SDS.Model.Raw SDS.Model.IntVec SDS.Model.BitVec SDS.Model.Sparse.
Require Import SDS.Spec.BitSeq SDS.Spec.ValSeq SDS.Check.Common SDS.Check.SparseFast.
Import ListNotations.
Open Scope N_scope.

(* Long value lists are written as runs (start, count, step): start, start + step, ... (count values).
   This is only a compact notation of the input list; model and spec both see the expanded list. *)
Fixpoint run_vals (start step : N) (k : nat) : list N :=
  match k with O => [] | S k' => start :: run_vals (start + step) step k' end.
Definition expand (runs : list (N * N * N)) : list N :=
  flat_map (fun r => match r with (s, c, st) => run_vals s st (N.to_nat c) end) runs.

(* the last element in one pass ([ValSeq.last_opt] reverses the list with [rev], which is quadratic) *)
Fixpoint last_lin (l : list N) : option N :=
  match l with
  | [] => None
  | [x] => Some x
  | _ :: t => last_lin t
  end.

Inductive query :=
| QLens (len ones zeros : N)
| QGet (i : N) (out : ires bool)
| QRank (i : N) (out : ires N)
| QRank0 (i : N) (out : ires N)
| QSel (r : N) (out : ires (option N))
| QSel0 (r : N) (out : ires (option N))
(* first k items of the iterator returned by predecessor / successor / select_iter / select_zero_iter / zero_iter *)
| QPred (v k : N) (out : ires (list (N * N)))
| QSucc (v k : N) (out : ires (list (N * N)))
| QSelIter (r k : N) (out : ires (list (N * N)))
| QSel0Iter (r k : N) (out : ires (list (N * N)))
| QZeroIter (k : N) (out : ires (list (N * N)))
(* one_iter() driven by a pattern: false = next(), true = next_back() *)
| QOneIter (pat : list bool) (out : ires (list (option (N * N))))
(* the iterator returned by successor(v) / predecessor(v) driven by a pattern (it is double-ended too) *)
| QSuccD (v : N) (pat : list bool) (out : ires (list (option (N * N))))
| QPredD (v : N) (pat : list bool) (out : ires (list (option (N * N))))
(* iter() driven by a pattern *)
| QBits (pat : list bool) (out : ires (list (option bool)))
| QIsMulti (out : ires bool).

(* route: 0 = SparseBuilder::new + try_set + try_from, 1 = SparseBuilder::multiset + try_set + try_from,
   2 = copy_bit_vec from a plain bitvector of length n with the given positions set, 3 = try_from_iter.
   w: the low width the crate chose (0 when nothing was built); built: serialized elements, or the error code. *)
Inductive case :=
| CSV (path : N) (dbg : bool) (route : N) (n : N) (vals : list N) (w : N)
      (built : ires (list N + N)) (qs : list query).

Definition sp_of (path : N) : selpath := if path =? 0 then Pdep else Portable.
Definition mode_of (dbg : bool) : mode := if dbg then Debug else Release.

(* [model_build] (the four construction routes) and [model_build_checked] (the same result through the one-pass
   builder for long value lists, proved equal in Proofs/SparseFastProof.v) are defined in Check/SparseFast.v *)

Section Q.
Variable sp : selpath.
Variable m : mode.
Variable sv : sparse.

Definition model_query (q : query) : bool :=
  match q with
  | QLens len ones zeros => (sv_len sv =? len) && (sv_count_ones sv =? ones) && (sv_count_zeros sv =? zeros)
  | QGet i out => res_agree Bool.eqb (sv_get sp m sv i) out
  | QRank i out => res_agree N.eqb (sv_rank sp m sv i) out
  | QRank0 i out => res_agree N.eqb (sv_rank_zero sp m sv i) out
  | QSel r out => res_agree onat_eqb (sv_select sp m sv r) out
  | QSel0 r out => res_agree onat_eqb (sv_select_zero sp m sv r) out
  | QPred v k out => res_agree nnlist_eqb (let* it := sv_predecessor sp m sv v in it_take m sv (N.to_nat k) it) out
  | QSucc v k out => res_agree nnlist_eqb (let* it := sv_successor sp m sv v in it_take m sv (N.to_nat k) it) out
  | QSelIter r k out => res_agree nnlist_eqb (let* it := sv_select_iter sp m sv r in it_take m sv (N.to_nat k) it) out
  | QSel0Iter r k out => res_agree nnlist_eqb (let* z := sv_select_zero_iter sp m sv r in zi_take m sv (N.to_nat k) z) out
  | QZeroIter k out => res_agree nnlist_eqb (let* z := sv_zero_iter m sv in zi_take m sv (N.to_nat k) z) out
  | QOneIter pat out => res_agree (list_eqb onn_eqb) (it_drive m sv pat (sv_one_iter sv)) out
  | QSuccD v pat out => res_agree (list_eqb onn_eqb) (let* it := sv_successor sp m sv v in it_drive m sv pat it) out
  | QPredD v pat out => res_agree (list_eqb onn_eqb) (let* it := sv_predecessor sp m sv v in it_drive m sv pat it) out
  | QBits pat out => res_agree (list_eqb (opt_eqb Bool.eqb)) (let* s := sv_iter_new m sv in sbi_drive m sv pat s) out
  | QIsMulti out => res_agree Bool.eqb (sv_is_multiset m sv) out
  end.
End Q.

(* ---- spec side: only Spec/ *)

Definition ires_is {A} (eqb : A -> A -> bool) (out : ires A) (v : A) : bool :=
  match out with IOk x => eqb x v | IPanic _ => false end.

(* zq: the queries about unset bits are defined (no duplicates) *)
Definition spec_query (zq : bool) (n : N) (vs : list N) (q : query) : bool :=
  match q with
  | QLens len ones zeros => (len =? n) && (ones =? N.of_nat (length vs)) && (zeros =? n - N.of_nat (length vs))
  | QGet i out => ires_is Bool.eqb out (vs_get vs i)
  | QRank i out => ires_is N.eqb out (vs_rank vs i)
  | QRank0 i out => if zq then ires_is N.eqb out (i - vs_rank vs i) else true
  | QSel r out => ires_is onat_eqb out (vs_select vs r)
  | QSel0 r out => if zq then ires_is onat_eqb out (vs_select_zero vs n r) else true
  | QPred v k out => ires_is nnlist_eqb out (firstn (N.to_nat k) (vs_pred vs v))
  | QSucc v k out => ires_is nnlist_eqb out (firstn (N.to_nat k) (vs_succ vs v))
  | QSelIter r k out => ires_is nnlist_eqb out (firstn (N.to_nat k) (skipN (vs_ranked vs) r))
  | QSel0Iter r k out => if zq then ires_is nnlist_eqb out (vs_zeros_from vs n r (N.to_nat k)) else true
  | QZeroIter k out => if zq then ires_is nnlist_eqb out (vs_zeros_from vs n 0 (N.to_nat k)) else true
  | QOneIter pat out => ires_is (list_eqb onn_eqb) out (deque_run (vs_ranked vs) pat)
  | QSuccD v pat out => ires_is (list_eqb onn_eqb) out (deque_run (vs_succ vs v) pat)
  | QPredD v pat out => ires_is (list_eqb onn_eqb) out (deque_run (vs_pred vs v) pat)
  | QBits pat out => ires_is (list_eqb (opt_eqb Bool.eqb)) out (deque_run (vs_bits vs n) pat)
  | QIsMulti out => ires_is Bool.eqb out (has_dup vs)
  end.

(* which inputs each route must accept *)
Definition accepted (route n : N) (vs : list N) : bool :=
  match route with
  | 0 | 2 => increasing vs && all_below n vs
  | 1 => nondecreasing vs && all_below n vs
  | _ => nondecreasing vs
  end.
(* the universe of the result *)
Definition universe_of (route n : N) (vs : list N) : N :=
  match route with
  | 0 | 1 | 2 => n
  | _ => match last_lin vs with Some v => v + 1 | None => 0 end
  end.
(* try_from_iter with last value 2^64-1 is outside the property (the universe would be 2^64) *)
Definition excluded (route : N) (vs : list N) : bool :=
  match route with
  | 0 | 1 | 2 => false
  | _ => match last_lin vs with Some v => 2 ^ 64 - 1 <=? v | None => false end
  end.

Definition check (c : case) : N :=
  match c with
  | CSV path dbg route n vals w built qs =>
      let sp := sp_of path in let m := mode_of dbg in
      let mb := model_build_checked sp m route w n vals in
      let m_ok :=
        snd mb &&
        match fst mb, built with
        | Ok (inl sv), IOk (inl ser) => nlist_eqb (sv_serialize sv) ser && forallb (model_query sp m sv) qs
        | Ok (inr e), IOk (inr e') => e =? e'
        | Panic k, IPanic c => pk_code k =? c
        | _, _ => false
        end in
      let s_ok :=
        if excluded route vals then true
        else match built with
             | IOk (inl ser) =>
                 let n' := universe_of route n vals in
                 accepted route n vals && (1 <=? w) && (w <=? 63)
                 && onat_eqb (hd_error ser) (Some n')
                 && forallb (spec_query (negb (has_dup vals)) n' vals) qs
             | IOk (inr _) => negb (accepted route n vals)
             | IPanic _ => false
             end in
      code m_ok s_ok
  end.

(* what the model computes for a case (for replays): the serialized form (omitted for the long value lists),
   whether it equals the observed one, whether the one-pass builder arrays agree with the replayed ones,
   and the verdict of model and spec on every query *)
Definition explain (c : case) :=
  match c with
  | CSV path dbg route n vals w built qs =>
      let sp := sp_of path in let m := mode_of dbg in
      let mb := model_build_checked sp m route w n vals in
      match fst mb with
      | Ok (inl sv) => (Some (if FAST_FROM <=? lenN vals then [] else sv_serialize sv),
                        match built with IOk (inl ser) => nlist_eqb (sv_serialize sv) ser | _ => false end,
                        snd mb,
                        map (model_query sp m sv) qs,
                        map (spec_query (negb (has_dup vals)) (universe_of route n vals) vals) qs)
      | _ => (None, false, snd mb, [], [])
      end
  end.
