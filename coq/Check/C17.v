(* Correspondence check for C17: the implementation's observed outputs against Model/Bits.v and
   against the naive specification. *)
From Coq Require Import NArith List Bool.
Require Import SDS.Model.Mach SDS.Model.Bits SDS.gen.Funs SDS.Spec.BitSeq SDS.Check.Common.
Import ListNotations.
Open Scope N_scope.

Inductive case :=
(* write_int on [a] then read_int back: resulting array and value read *)
| CWR (a : list N) (off v w : N) (out_a : list N) (out_r : N)
(* read_int alone *)
| CRd (a : list N) (off w : N) (out_r : N)
(* bits::select(n, r) on the build's path (0 = BMI2/PDEP, 1 = portable) *)
| CSel (path n r out : N)
(* the implementation panicked (class k) on a valid (word, rank < popcount) pair *)
| CSelCrash (path n r k : N)
| CLow (n out : N) | CHigh (n out : N)
| CBitLen (n out : N)
| CRevLow (dbg : bool) (n bits : N) (out : ires N)
(* one-expression helpers, by index in the order of gen/Funs.v; dbg = overflow checks on *)
| CFun (which : N) (dbg : bool) (args : list N) (out : ires N).

Definition mode_of (dbg : bool) : mode := if dbg then Debug else Release.

Definition vbits (v w : N) : list bool := firstn (N.to_nat w) (wbits v).

Definition spec_write (a : list N) (off v w : N) : list bool :=
  let B := bits_of_words a in
  firstn (N.to_nat off) B ++ vbits v w ++ skipn (N.to_nat (off + w)) B.

Definition spec_read (a : list N) (off w : N) : N :=
  bits_to_N (firstn (N.to_nat w) (skipn (N.to_nat off) (bits_of_words a))).

Definition res_is {A} (eqb : A -> A -> bool) (r : res A) (x : A) : bool :=
  match r with Ok y => eqb y x | _ => false end.

Definition arg (l : list N) (k : nat) : N := nth k l 0.

Definition run_fun (which : N) (m : mode) (args : list N) : res N :=
  match which with
  | 0 => f_words_to_bytes m (arg args 0)
  | 1 => f_bytes_to_words m (arg args 0)
  | 2 => f_round_up_to_word_bytes m (arg args 0)
  | 3 => f_words_to_bits m (arg args 0)
  | 4 => f_bits_to_words m (arg args 0)
  | 5 => f_round_up_to_word_bits m (arg args 0)
  | 6 => f_div_round_up m (arg args 0) (arg args 1)
  | 7 => f_bit_offset m (arg args 0) (arg args 1)
  | _ => Ok (filler_value (negb (arg args 0 =? 0)))
  end.

(* mathematical value; None when the true result does not fit in 64 bits or is undefined *)
Definition fits (x : N) : option N := if x <? 2 ^ 64 then Some x else None.
Definition spec_fun (which : N) (args : list N) : option N :=
  let a := arg args 0 in let b := arg args 1 in
  match which with
  | 0 => fits (a * 8)
  | 1 => fits ((a + 7) / 8)
  | 2 => fits ((a + 7) / 8 * 8)
  | 3 => fits (a * 64)
  | 4 => fits ((a + 63) / 64)
  | 5 => fits ((a + 63) / 64 * 64)
  | 6 => if b =? 0 then None else fits ((a + b - 1) / b)
  | 7 => fits (a * 64 + b)
  | _ => Some (if a =? 0 then 0 else 18446744073709551615)
  end.

(* the domains the rustdoc of each helper documents ("May panic if ...") *)
Definition in_domain (which : N) (args : list N) : bool :=
  let a := arg args 0 in let b := arg args 1 in
  match which with
  | 0 => a * 8 <? 2 ^ 64
  | 1 | 2 => a + 7 <? 2 ^ 64
  | 3 => a * 64 <? 2 ^ 64
  | 4 | 5 => a + 63 <? 2 ^ 64
  | 6 => (a + b <? 2 ^ 64) && negb (b =? 0)
  | 7 => (a * 64 + b <? 2 ^ 64) && (b <? 64)
  | _ => true
  end.

(* spec side for helpers: inside the documented domain the mathematical value must be returned;
   outside it the call may panic or return anything, but never touches a table out of bounds *)
Definition spec_fun_ok (which : N) (dbg : bool) (args : list N) (out : ires N) : bool :=
  if in_domain which args then
    match spec_fun which args, out with
    | Some v, IOk r => r =? v
    | _, _ => false
    end
  else match out with IPanic k => negb (k =? 9) | IOk _ => true end.

Definition check (c : case) : N :=
  match c with
  | CWR a off v w out_a out_r =>
      let m_ok := match write_int a off v w with
                  | Ok a' => nlist_eqb a' out_a && res_is N.eqb (read_int a' off w) out_r
                  | _ => false end in
      let s_ok := blist_eqb (bits_of_words out_a) (spec_write a off v w) && (out_r =? v mod 2 ^ w) in
      code m_ok s_ok
  | CRd a off w out_r =>
      code (res_is N.eqb (read_int a off w) out_r) (out_r =? spec_read a off w)
  | CSel path n r out =>
      let m := if path =? 0 then select_pdep Release n r else select_portable Release n r in
      (* both paths of the model must agree with the observed value, whatever path the build took *)
      let m_ok := res_is N.eqb m out &&
                  res_is N.eqb (select_pdep Debug n r) out && res_is N.eqb (select_portable Debug n r) out in
      code m_ok (onat_eqb (select_in_word n r) (Some out))
  | CSelCrash _ _ _ _ => 3
  | CLow n out => code (res_is N.eqb (low_set n) out) (out =? N.ones n)
  | CHigh n out => code (res_is N.eqb (high_set n) out) (out =? N.shiftl (N.ones n) (64 - n))
  | CBitLen n out => code (bit_len n =? out) (out =? (if n =? 0 then 1 else N.log2 n + 1))
  | CRevLow dbg n bits out =>
      let s_ok := match out with
                  | IOk r => if (1 <=? bits) && (bits <=? 64)
                             then r =? bits_to_N (rev (firstn (N.to_nat bits) (wbits n)))
                             else negb dbg
                  | IPanic k => negb ((1 <=? bits) && (bits <=? 64)) && negb (k =? 9) end in
      code (res_agree N.eqb (reverse_low (mode_of dbg) n bits) out) s_ok
  | CFun which dbg args out =>
      code (res_agree N.eqb (run_fun which (mode_of dbg) args) out) (spec_fun_ok which dbg args out)
  end.
