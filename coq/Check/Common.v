(* Shared definitions of the correspondence checks: the implementation's observed results as a
   Coq type, agreement predicates, and the driver that returns the failing case ids.
   A check function returns a code: 0 = implementation agrees with model and spec,
   1 = differs from the model only, 2 = differs from the naive spec only, 3 = differs from both. *)
From Coq Require Import NArith ZArith List Bool.
Require Import SDS.Model.Mach.
Import ListNotations.
Open Scope N_scope.

(* Transport of large literals: elaborating a 20-digit [N] numeral costs Coq ~1.3 ms, a primitive integer
   ~0.1 ms. The harness writes numbers >= 2^32 as [W hi lo] (two 32-bit halves); they become [N] inside
   vm_compute. Primitive integers occur only in case files and Check/, never in a theorem cone. *)
Require Export Coq.Numbers.Cyclic.Int63.Uint63.
Definition W (hi lo : PrimInt63.int) : N :=
  Z.to_N (Uint63.to_Z hi) * 4294967296 + Z.to_N (Uint63.to_Z lo).
Arguments W (hi lo)%uint63.

Inductive ires (A : Type) := IOk (a : A) | IPanic (k : N).
Arguments IOk {A} a. Arguments IPanic {A} k.

Definition pk_code (k : pkind) : N :=
  match k with POverflow => 1 | PIndex => 2 | PUnwrap => 3 | PAssert => 4 | PDoc => 5 | PFuel => 6 end.

(* exact agreement: value, or the same panic class; an OOB of the model must be the hook's report (9) *)
Definition res_agree {A} (eqb : A -> A -> bool) (m : res A) (i : ires A) : bool :=
  match m, i with
  | Ok a, IOk b => eqb a b
  | Panic k, IPanic c => pk_code k =? c
  | OOB _, IPanic c => c =? 9
  | _, _ => false
  end.
(* agreement up to the panic class (any panic matches any panic; OOB only matches the hook) *)
Definition res_agree_loose {A} (eqb : A -> A -> bool) (m : res A) (i : ires A) : bool :=
  match m, i with
  | Ok a, IOk b => eqb a b
  | Panic _, IPanic c => negb (c =? 9)
  | OOB _, IPanic c => c =? 9
  | _, _ => false
  end.

Definition code (model_ok spec_ok : bool) : N :=
  (if model_ok then 0 else 1) + (if spec_ok then 0 else 2).

Definition failing {C} (check : C -> N) (cases : list (N * C)) : list (N * N) :=
  flat_map (fun ic => let r := check (snd ic) in if r =? 0 then [] else [(fst ic, r)]) cases.

Fixpoint list_eqb {A} (eqb : A -> A -> bool) (l1 l2 : list A) : bool :=
  match l1, l2 with
  | [], [] => true
  | x :: t, y :: u => eqb x y && list_eqb eqb t u
  | _, _ => false
  end.
Definition opt_eqb {A} (eqb : A -> A -> bool) (a b : option A) : bool :=
  match a, b with Some x, Some y => eqb x y | None, None => true | _, _ => false end.
Definition pair_eqb {A B} (ea : A -> A -> bool) (eb : B -> B -> bool) (a b : A * B) : bool :=
  ea (fst a) (fst b) && eb (snd a) (snd b).
Definition nlist_eqb := list_eqb N.eqb.
Definition blist_eqb := list_eqb Bool.eqb.
Definition nn_eqb := pair_eqb N.eqb N.eqb.
Definition nnlist_eqb := list_eqb nn_eqb.
Definition onat_eqb := opt_eqb N.eqb.
Definition onn_eqb := opt_eqb nn_eqb.
Definition unit_eqb (a b : unit) : bool := true.

(* words <-> bits, for spec-side comparisons *)
Fixpoint bits_to_N (l : list bool) : N :=
  match l with [] => 0 | b :: t => (if b then 1 else 0) + 2 * bits_to_N t end.
Fixpoint chunk64 (fuel : nat) (l : list bool) : list N :=
  match fuel with
  | O => []
  | S k => match l with [] => [] | _ => bits_to_N (firstn 64 l) :: chunk64 k (skipn 64 l) end
  end.
Definition words_of_bits (l : list bool) : list N := chunk64 (S (Nat.div (length l) 64)) l.
