(* Correspondence check for C08: no call of the safe API ends in an out-of-bounds access.
   The harness runs every structure's batch of calls in a child process and records for each call whether it
   returned or panicked (class; 9 = the `VERIF-OOB` bounds hook inside an unchecked accessor).
   spec side  (code bit 2): no call has class 9 and no batch died from a signal / abnormal exit;
   model side (code bit 1): for the plain bitvector, RawVector, IntVector and the mask functions the same call
   is replayed on the model in the build's mode and on the build's select path and must end the same way
   (same value, same panic class, or OOB <-> 9).
   CRawSet: set_bit with any offset (inside, in the unused bits of the last word, beyond the words) on a copy,
   then BitVector::from of the copy and its iterators: the model keeps the state after a refused call.
   CHistR / CHistI: a whole history of safe RawVector resp. IntVector calls (only the calls that returned; a refused
   call ran on a copy that was dropped), the final length and backing words, BitVector::from of the final raw vector
   (for an IntVector: of RawVector::from of it) and calls on that bitvector.
   spec side: the observed (length, words) satisfy the representation invariant - ceil(len / 64) words, no bit set at
   or beyond len - which is what the unchecked scans rely on, and no call ends in the hook;
   model side: the history replayed on the models (Model/Hist.v) returns, ends in exactly that length and those
   words, and every call on the bitvector ends like the model's.
   Memory-mapped views (CMapped / CMGet): real files made of library-serialized values are mapped and every view
   type is requested at every offset; for a view `new` returned the harness records map_offset, map_len, the claimed
   data length, whether the claimed range lies inside the mapping, and the outcome of touching its first and last
   element.
   spec side: no returned view claims a range beyond the file (recomputed here from the file, the requested offset
   and the claimed length - not from the model), no touch and no `new` ends in the hook;
   model side: [view_new] of Model/Mapped.v on the same file and offset in the build's mode ends the same way
   (Ok with the same offset / length / claimed length, Err of the same kind, panic of the same class), and every touch
   ends like the model's accessor.
   Objects (CObj, Check/C08Obj.v): Transformation::{bit, word, count_ones, one_iter}, RankSupport::{blocks, rank} and
   SelectSupport::<T>::{superblocks, long_superblocks, short_superblocks, select} called directly on a parent with the
   supports `new` builds from the parent itself and from another bitvector.
   spec side: no hook; an index whose word lies behind the parent's buffer panics; in-range answers with the parent's
   own support are the naive ones; model side: Model/BitVecObj.v ends every call the same way. *)
From Coq Require Import NArith List Bool.
Require Import SDS.Model.Mach SDS.Model.Bits SDS.Model.Raw SDS.Model.IntVec SDS.Model.BitVec.
Require Export SDS.Model.Mapped.   (* the case files name the view types *)
Require Import SDS.Model.MappedGet.
Require Import SDS.Check.Common.
Require Export SDS.Check.C08Obj.   (* the calls of the "objects" family (CObj) *)
(* operation histories: only qualified names are used (rop / iop share constructor names with rcall / icall below) *)
Require SDS.Spec.SeqSpec SDS.Model.Hist.
Import ListNotations.
Open Scope N_scope.

(* the extreme arguments, by name: the case files refer to these constants instead of repeating 64-bit numerals
   (a numeral of that size costs the parser ~100x its text in memory) *)
Definition MX : N := 18446744073709551615.   (* usize::MAX *)
Definition MX1 : N := 18446744073709551614.  (* usize::MAX - 1 *)
Definition H63 : N := 9223372036854775808.   (* 2^63 *)

(* one step of an iterator: op 0 = next, 1 = next_back, 2 = nth(n), 3 = nth_back(n) *)
Definition istep (A : Type) : Type := (N * N * ires A)%type.

Inductive bcall :=
| BGet (i : N) (o : ires bool)
| BRank (i : N) (o : ires N)
| BRank0 (i : N) (o : ires N)
| BSel (z : bool) (r : N) (o : ires (option N))
(* src 0 = one_iter/zero_iter, 1 = select_iter/select_zero_iter(arg), 2 = predecessor(arg), 3 = successor(arg);
   z = the zero (Complement) variant; opened: did obtaining the iterator return *)
| BIter (src : N) (z : bool) (arg : N) (opened : ires unit) (ops : list (istep (option (N * N))))
| BBits (ops : list (istep (option bool))).

Inductive rcall :=
| RBit (i : N) (o : ires bool)
| RWord (i : N) (o : ires N)
| RSetBit (i : N) (v : bool) (o : ires unit)
| RInt (off w : N) (o : ires N)
| RSetInt (off v w : N) (o : ires unit)
| RPushInt (v w : N) (o : ires unit)
| RPopInt (w : N) (o : ires (option N))
| RPushBit (v : bool) (o : ires unit)
| RPopBit (o : ires (option bool))
| RResize (n : N) (v : bool) (o : ires unit).

Inductive icall :=
| IGet (i : N) (o : ires N)
| IGetOr (i d : N) (o : ires N)
| ISet (i v : N) (o : ires unit)
| IPush (v : N) (o : ires unit)
| IPop (o : ires (option N))
| IResize (n v : N) (o : ires unit)
| IPack (o : ires unit).

(* what one `T::new(&map, offset)` did. Err kinds: 1 = UnexpectedEof, 2 = InvalidData, 0 = any other.
   touch = (accessor, index, outcome): accessor 0 = `view[index]` (slices, bytes, the bytes of a string),
   1 = word(index) of a raw mapper / of the raw mapper inside an integer-vector mapper, 2 = bit(index),
   3 = get(index) of an integer-vector mapper; through a MappedOption the accessors are those of the value *)
Definition mtouch : Type := (N * N * ires unit)%type.
Inductive mobs :=
| MErr (kind : N)
| MPanic (k : N)
| MOk (map_offset map_len : ires N) (claimed : N) (inside : bool) (touch : list mtouch).

Inductive case :=
(* path: 0 = BMI2 build, 1 = portable; dbg: overflow checks on; sup: enabled supports (1 rank + 2 select + 4 select_zero) *)
| CBV (path : N) (dbg : bool) (sup : N) (len : N) (words : list N) (calls : list bcall)
| CRaw (dbg : bool) (len : N) (words : list N) (calls : list rcall)
| CIV (dbg : bool) (len width rawlen : N) (words : list N) (calls : list icall)
(* bits::low_set (false) / high_set (true) *)
| CMasks (calls : list (bool * N * ires N))
(* structures without a model here (sparse, run-length, wavelet matrix, builders, loaded copies):
   outcome class per call, 0 = returned, k = panic class *)
| COther (kind : N) (classes : list N)
(* RawVector (len, words): set_bit(i, v) on a copy with outcome o, then BitVector::from of that same copy (unchanged
   when the call panicked) and iterator calls on it *)
| CRawSet (path : N) (dbg : bool) (len : N) (words : list N) (i : N) (v : bool) (o : ires unit) (calls : list bcall)
(* RawVector::new() followed by the safe calls ops (each of them returned): final len() and backing words, then
   BitVector::from of that vector and calls on it *)
| CHistR (path : N) (dbg : bool) (ops : list SDS.Spec.SeqSpec.rop) (olen : N) (owords : list N) (calls : list bcall)
(* IntVector::new(w0) followed by the safe calls ops (each of them returned), RawVector::from of the result: its
   len() and backing words, then BitVector::from of it and calls on it *)
| CHistI (path : N) (dbg : bool) (w0 : N) (ops : list SDS.Spec.SeqSpec.iop) (olen : N) (owords : list N) (calls : list bcall)
(* one mapped file, one view type, every requested offset *)
| CMapped (dbg : bool) (file : list N) (ty : vtype) (views : list (N * mobs))
(* every IntVectorMapper (opt: inside a MappedOption) that `new` returned on the file: offset, len(), width(), and
   get(index) at extreme indexes below len() (the length element is whatever the file holds) *)
| CMGet (dbg : bool) (file : list N) (opt : bool) (probes : list (N * N * N * list (N * ires unit)))
(* the safe entry points of Transformation / RankSupport / SelectSupport called directly on the parent (len, words),
   with the supports `new` builds from the parent and from another bitvector (slen, swords): Check/C08Obj.v *)
| CObj (path : N) (dbg : bool) (len : N) (words : list N) (slen : N) (swords : list N) (calls : list ocall)
(* the batch's process died: status = signal number, or 1000 + exit code, or 2000 = result file incomplete *)
| CDied (kind : N) (status : N).

(* the history operations under short names for the case files *)
Definition HWithLen := SDS.Spec.SeqSpec.RWithLen.
Definition HResize := SDS.Spec.SeqSpec.RResize.
Definition HClear := SDS.Spec.SeqSpec.RClear.
Definition HReserve := SDS.Spec.SeqSpec.RReserve.
Definition HCompl := SDS.Spec.SeqSpec.RComplement.
Definition HPushBit := SDS.Spec.SeqSpec.RPushBit.
Definition HPopBit := SDS.Spec.SeqSpec.RPopBit.
Definition HSetBit := SDS.Spec.SeqSpec.RSetBit.
Definition HBit := SDS.Spec.SeqSpec.RBit.
Definition HCount := SDS.Spec.SeqSpec.RCountOnes.
Definition JWithLen := SDS.Spec.SeqSpec.IWithLen.
Definition JFrom := SDS.Spec.SeqSpec.IFrom.
Definition JGet := SDS.Spec.SeqSpec.IGet.
Definition JSet := SDS.Spec.SeqSpec.ISet.
Definition JPush := SDS.Spec.SeqSpec.IPush.
Definition JPop := SDS.Spec.SeqSpec.IPop.
Definition JResize := SDS.Spec.SeqSpec.IResize.
Definition JClear := SDS.Spec.SeqSpec.IClear.
Definition JReserve := SDS.Spec.SeqSpec.IReserve.
Definition JPack := SDS.Spec.SeqSpec.IPack.
Definition JExtend := SDS.Spec.SeqSpec.IExtend.
Definition JCount := SDS.Spec.SeqSpec.ICountOnes.

Definition sp_of (path : N) : selpath := if path =? 0 then Pdep else Portable.
Definition mode_of (dbg : bool) : mode := if dbg then Debug else Release.
Definition tr_of (z : bool) : transf := if z then Complement else Identity.

Definition not9 {A} (o : ires A) : bool := match o with IPanic k => negb (k =? 9) | IOk _ => true end.
Definition obool_eqb := opt_eqb Bool.eqb.

(* ---- model side: the bitvector ---- *)

(* the default DoubleEndedIterator::nth_back: n times next_back (stop at the first None), then next_back *)
Fixpoint oi_nth_back (m : mode) (t : transf) (b : bitvec) (fuel : nat) (it : one_iter) (n : N)
  : res (one_iter * option (N * N)) :=
  match fuel with
  | O => Panic PFuel
  | S k =>
      let* (it', r) := oi_next_back m t b it in
      if n =? 0 then Ok (it', r)
      else match r with None => Ok (it', None) | Some _ => oi_nth_back m t b k it' (n - 1) end
  end.

Definition oi_op (sp : selpath) (m : mode) (t : transf) (b : bitvec) (it : one_iter) (op n : N)
  : res (one_iter * option (N * N)) :=
  match op with
  | 0 => oi_next_f t b it
  | 1 => oi_next_back m t b it
  | 2 => oi_nth sp m t b it n
  | _ => oi_nth_back m t b (S (S (N.to_nat (oi_len it)))) it n
  end.

(* the harness stops a sequence at the first panic *)
Fixpoint replay_oi (sp : selpath) (m : mode) (t : transf) (b : bitvec) (it : one_iter)
         (ops : list (istep (option (N * N)))) : bool :=
  match ops with
  | [] => true
  | (op, n, o) :: rest =>
      match oi_op sp m t b it op n with
      | Ok (it', v) => res_agree onn_eqb (Ok v) o && replay_oi sp m t b it' rest
      | Panic k => res_agree onn_eqb (Panic k) o && match rest with [] => true | _ => false end
      | OOB s => res_agree onn_eqb (OOB s) o && match rest with [] => true | _ => false end
      end
  end.

Definition bi_op (b : bitvec) (it : bit_iter) (op n : N) : res (bit_iter * option bool) :=
  match op with
  | 0 => bi_next_f b it
  | 1 => bi_next_back b it
  | 2 => bi_nth b it n
  | _ => bi_nth_back b it n
  end.

Fixpoint replay_bi (b : bitvec) (it : bit_iter) (ops : list (istep (option bool))) : bool :=
  match ops with
  | [] => true
  | (op, n, o) :: rest =>
      match bi_op b it op n with
      | Ok (it', v) => res_agree obool_eqb (Ok v) o && replay_bi b it' rest
      | Panic k => res_agree obool_eqb (Panic k) o && match rest with [] => true | _ => false end
      | OOB s => res_agree obool_eqb (OOB s) o && match rest with [] => true | _ => false end
      end
  end.

Definition open_iter (sp : selpath) (m : mode) (b : bitvec) (src : N) (z : bool) (arg : N) : res one_iter :=
  match src with
  | 0 => Ok (oi_start (tr_of z) b)
  | 1 => bv_select_iter_t sp m (tr_of z) b arg
  | 2 => bv_predecessor sp m b arg
  | _ => bv_successor sp m b arg
  end.

Definition model_bcall (sp : selpath) (m : mode) (b : bitvec) (c : bcall) : bool :=
  match c with
  | BGet i o => res_agree Bool.eqb (bv_get b i) o
  | BRank i o => res_agree N.eqb (bv_rank_q b i) o
  | BRank0 i o => res_agree N.eqb (bv_rank_zero m b i) o
  | BSel z r o => res_agree onat_eqb (bv_select_t sp m (tr_of z) b r) o
  | BIter src z arg opened ops =>
      match open_iter sp m b src z arg with
      | Ok it => res_agree unit_eqb (Ok tt) opened && replay_oi sp m (tr_of z) b it ops
      | Panic k => res_agree unit_eqb (Panic k) opened && match ops with [] => true | _ => false end
      | OOB s => res_agree unit_eqb (OOB s) opened && match ops with [] => true | _ => false end
      end
  | BBits ops => replay_bi b (bi_start b) ops
  end.

Definition spec_bcall (c : bcall) : bool :=
  match c with
  | BGet _ o => not9 o | BRank _ o => not9 o | BRank0 _ o => not9 o | BSel _ _ o => not9 o
  | BIter _ _ _ opened ops => not9 opened && forallb (fun s => not9 (snd s)) ops
  | BBits ops => forallb (fun s => not9 (snd s)) ops
  end.

Definition enable_mask (sp : selpath) (m : mode) (sup : N) (b : bitvec) : res bitvec :=
  let* b1 := if N.testbit sup 0 then bv_enable_rank b else Ok b in
  let* b2 := if N.testbit sup 1 then bv_enable_select_t sp m Identity b1 else Ok b1 in
  if N.testbit sup 2 then bv_enable_select_t sp m Complement b2 else Ok b2.

(* ---- model side: raw vector and int vector (every call on the same initial value) ---- *)

Definition runit {A} (r : res A) : res unit := rmap (fun _ => tt) r.

Definition model_rcall (r : raw) (c : rcall) : bool :=
  match c with
  | RBit i o => res_agree Bool.eqb (raw_bit r i) o
  | RWord i o => res_agree N.eqb (raw_word r i) o
  | RSetBit i v o => res_agree_loose unit_eqb (runit (raw_set_bit r i v)) o
  | RInt off w o => res_agree N.eqb (raw_int r off w) o
  | RSetInt off v w o => res_agree unit_eqb (runit (raw_set_int r off v w)) o
  | RPushInt v w o => res_agree unit_eqb (runit (raw_push_int r v w)) o
  | RPopInt w o => res_agree onat_eqb (rmap snd (raw_pop_int r w)) o
  | RPushBit v o => res_agree unit_eqb (runit (raw_push_bit r v)) o
  | RPopBit o => res_agree obool_eqb (rmap snd (raw_pop_bit r)) o
  | RResize n v o => res_agree unit_eqb (runit (raw_resize r n v)) o
  end.
Definition spec_rcall (c : rcall) : bool :=
  match c with
  | RBit _ o => not9 o | RWord _ o => not9 o | RSetBit _ _ o => not9 o | RInt _ _ o => not9 o
  | RSetInt _ _ _ o => not9 o | RPushInt _ _ o => not9 o | RPopInt _ o => not9 o | RPushBit _ o => not9 o
  | RPopBit o => not9 o | RResize _ _ o => not9 o
  end.

Definition model_icall (v : intvec) (c : icall) : bool :=
  match c with
  | IGet i o => res_agree N.eqb (iv_get v i) o
  | IGetOr i d o => res_agree N.eqb (iv_get_or v i d) o
  | ISet i x o => res_agree unit_eqb (runit (iv_set v i x)) o
  | IPush x o => res_agree unit_eqb (runit (iv_push v x)) o
  | IPop o => res_agree onat_eqb (rmap snd (iv_pop v)) o
  | IResize n x o => res_agree unit_eqb (runit (iv_resize v n x)) o
  | IPack o => res_agree unit_eqb (runit (iv_pack v)) o
  end.
Definition spec_icall (c : icall) : bool :=
  match c with
  | IGet _ o => not9 o | IGetOr _ _ o => not9 o | ISet _ _ o => not9 o | IPush _ o => not9 o
  | IPop o => not9 o | IResize _ _ o => not9 o | IPack o => not9 o
  end.

Definition model_mask (c : bool * N * ires N) : bool :=
  let '(hi, n, o) := c in res_agree N.eqb (if hi then high_set n else low_set n) o.
(* spec of the safe mask functions, without the tables: value for n <= 64, a (non-hook) panic above *)
Definition spec_mask (c : bool * N * ires N) : bool :=
  let '(hi, n, o) := c in
  match o with
  | IOk v => (n <=? 64) && (v =? (if hi then N.shiftl (N.ones n) (64 - n) else N.ones n))
  | IPanic k => (64 <? n) && negb (k =? 9)
  end.

(* ---- memory-mapped views ---- *)

Definition ek_code (k : ekind) : N := match k with UnexpectedEof => 1 | InvalidData => 2 end.

(* the data length a view claims: items of a slice, bytes, words of a mapper; of the value through an option *)
Fixpoint claimed_of (v : view) : N :=
  match v with
  | VwVec s | VwPairs s => ms_len s
  | VwBytes b | VwStr b => mb_len b
  | VwRaw r => ms_len (rm_data r)
  | VwInt i => ms_len (rm_data (im_data i))
  | VwOpt o => match mo_data o with Some v' => claimed_of v' | None => 0 end
  end.

Fixpoint touch_model (m : mode) (v : view) (acc i : N) : res unit :=
  match v with
  | VwVec s => if acc =? 0 then runit (ms_get1 s i) else Panic PDoc
  | VwPairs s => if acc =? 0 then runit (ms_get2 s i) else Panic PDoc
  | VwBytes b | VwStr b => if acc =? 0 then runit (mb_get b i) else Panic PDoc
  | VwRaw r => if acc =? 1 then runit (rm_word r i) else if acc =? 2 then runit (rm_bit r i) else Panic PDoc
  | VwInt iv =>
      if acc =? 1 then runit (rm_word (im_data iv) i)
      else if acc =? 2 then runit (rm_bit (im_data iv) i)
      else if acc =? 3 then runit (im_get_w m iv i) else Panic PDoc
  | VwOpt o => match mo_data o with Some v' => touch_model m v' acc i | None => Panic PDoc end
  end.

Definition model_mview (m : mode) (file : list N) (ty : vtype) (o : N * mobs) : bool :=
  let '(off, ob) := o in
  match view_new m ty file off, ob with
  | VOk v, MOk mo ml claimed _ touch =>
      res_agree N.eqb (view_map_offset m v) mo && res_agree N.eqb (view_map_len m v) ml
      && (claimed_of v =? claimed)
      && forallb (fun t => match t with (acc, i, r) => res_agree unit_eqb (touch_model m v acc i) r end) touch
  | VErr k, MErr c => ek_code k =? c
  | VPanic k, MPanic c => pk_code k =? c
  | VOOB _, MPanic c => c =? 9
  | _, _ => false
  end.

(* spec side: element [off] of the file, when there is one *)
Definition mp_get (l : list N) (i : N) : option N :=
  if i <? N.of_nat (length l) then nth_error l (N.to_nat i) else None.

(* the range a view of type t at offset off with the claimed data length lies inside a file: exact arithmetic;
   whether an optional value is present is read from the file (size element 0 = absent) *)
Fixpoint spec_inside (t : vtype) (file : list N) (off claimed : N) : bool :=
  let n := N.of_nat (length file) in
  match t with
  | TyVec => off + 1 + claimed <=? n
  | TyPairs => off + 1 + 2 * claimed <=? n
  | TyBytes | TyStr => off + 1 + (claimed + 7) / 8 <=? n
  | TyRaw => off + 2 + claimed <=? n
  | TyInt => off + 4 + claimed <=? n
  | TyOpt t' =>
      match mp_get file off with
      | None => false
      | Some sz => if sz =? 0 then claimed =? 0 else spec_inside t' file (off + 1) claimed
      end
  end.

Definition spec_mview (file : list N) (ty : vtype) (o : N * mobs) : bool :=
  let '(off, ob) := o in
  match ob with
  | MOk mo ml claimed inside touch =>
      inside && spec_inside ty file off claimed && not9 mo && not9 ml
      && forallb (fun t => not9 (snd t)) touch
  | MErr _ => true
  | MPanic k => negb (k =? 9)
  end.

Definition mprobe : Type := (N * N * N * list (N * ires unit))%type.

Fixpoint int_of_view (v : view) : option imapper :=
  match v with
  | VwInt i => Some i
  | VwOpt o => match mo_data o with Some v' => int_of_view v' | None => None end
  | _ => None
  end.

Definition model_mget (m : mode) (file : list N) (opt : bool) (p : mprobe) : bool :=
  let '(off, len, width, gets) := p in
  match view_new m (if opt then TyOpt TyInt else TyInt) file off with
  | VOk v =>
      match int_of_view v with
      | Some i => (im_len i =? len) && (im_width i =? width)
                  && forallb (fun g => res_agree unit_eqb (runit (im_get_w m i (fst g))) (snd g)) gets
      | None => false
      end
  | _ => false
  end.
(* spec side: an accepted view has a width the 65-entry mask table covers, and no get ends in the hook *)
Definition spec_mget (p : mprobe) : bool :=
  let '(off, len, width, gets) := p in
  (1 <=? width) && (width <=? 64) && forallb (fun g => not9 (snd g)) gets.

(* ---- histories ---- *)

(* model side: the raw vector a history ends in, when every call of it returns *)
Definition hist_raw (ops : list SDS.Spec.SeqSpec.rop) : option raw :=
  match SDS.Model.Hist.rrun raw_new ops with Ok (r, _) => Some r | _ => None end.
Definition hist_int (w0 : N) (ops : list SDS.Spec.SeqSpec.iop) : option raw :=
  match iv_new w0 with
  | Some v0 => match SDS.Model.Hist.irun v0 ops with Ok (v, _) => Some (idata v) | _ => None end
  | None => None
  end.
Definition same_raw (r : raw) (olen : N) (owords : list N) : bool := (rlen r =? olen) && nlist_eqb (rdata r) owords.

(* spec side, on the observation alone: exactly ceil(olen / 64) words, every one a 64-bit value, and no bit of the last
   word set at or beyond olen *)
Definition spec_repr (olen : N) (owords : list N) : bool :=
  (N.of_nat (length owords) =? (olen + 63) / 64)
  && forallb (fun w => w <? 18446744073709551616) owords
  && (if olen mod 64 =? 0 then true else N.shiftr (last owords 0) (olen mod 64) =? 0).

Definition check_hist (path : N) (dbg : bool) (mr : option raw) (olen : N) (owords : list N) (calls : list bcall) : N :=
  let m_ok := match mr with
              | Some r => same_raw r olen owords && forallb (model_bcall (sp_of path) (mode_of dbg) (bv_from_raw r)) calls
              | None => false
              end in
  code m_ok (spec_repr olen owords && forallb spec_bcall calls).

(* history returned in the model; same length; same words; observation inside the invariant; then per call *)
Definition explain_hist (path : N) (dbg : bool) (mr : option raw) (olen : N) (owords : list N) (calls : list bcall) : list bool :=
  match mr with
  | Some r =>
      true :: (rlen r =? olen) :: nlist_eqb (rdata r) owords :: spec_repr olen owords
      :: map (fun c => model_bcall (sp_of path) (mode_of dbg) (bv_from_raw r) c && spec_bcall c) calls
  | None => false :: false :: false :: spec_repr olen owords :: map spec_bcall calls
  end.

Definition check (c : case) : N :=
  match c with
  | CBV path dbg sup len words calls =>
      let sp := sp_of path in let m := mode_of dbg in
      let m_ok := match enable_mask sp m sup (bv_from_raw (mkraw len words)) with
                  | Ok b => forallb (model_bcall sp m b) calls
                  | _ => false
                  end in
      code m_ok (forallb spec_bcall calls)
  | CRaw dbg len words calls =>
      code (forallb (model_rcall (mkraw len words)) calls) (forallb spec_rcall calls)
  | CIV dbg len width rawlen words calls =>
      code (forallb (model_icall (mkiv len width (mkraw rawlen words))) calls) (forallb spec_icall calls)
  | CMasks calls => code (forallb model_mask calls) (forallb spec_mask calls)
  | COther _ classes => code true (forallb (fun k => negb (k =? 9)) classes)
  | CRawSet path dbg len words i v o calls =>
      let sp := sp_of path in let m := mode_of dbg in
      let st := raw_set_bit (mkraw len words) i v in
      let r' := match st with Ok r' => r' | _ => mkraw len words end in
      (* spec side: an offset at or beyond the length is refused (the invariant the unchecked scans rely on), and
         nothing ends in the hook *)
      code (res_agree unit_eqb (runit st) o && forallb (model_bcall sp m (bv_from_raw r')) calls)
           ((if len <=? i then match o with IPanic _ => true | IOk _ => false end else true)
            && not9 o && forallb spec_bcall calls)
  | CHistR path dbg ops olen owords calls => check_hist path dbg (hist_raw ops) olen owords calls
  | CHistI path dbg w0 ops olen owords calls => check_hist path dbg (hist_int w0 ops) olen owords calls
  | CMapped dbg file ty views =>
      code (forallb (model_mview (mode_of dbg) file ty) views) (forallb (spec_mview file ty) views)
  | CMGet dbg file opt probes =>
      code (forallb (model_mget (mode_of dbg) file opt) probes) (forallb spec_mget probes)
  | CObj path dbg len words slen swords calls => check_obj (sp_of path) (mode_of dbg) len words slen swords calls
  | CDied _ _ => 3
  end.

(* what the model says for each call of a case (for replays): true = agrees *)
Definition explain (c : case) : list bool :=
  match c with
  | CBV path dbg sup len words calls =>
      let sp := sp_of path in let m := mode_of dbg in
      match enable_mask sp m sup (bv_from_raw (mkraw len words)) with
      | Ok b => map (model_bcall sp m b) calls
      | _ => []
      end
  | CRaw dbg len words calls => map (model_rcall (mkraw len words)) calls
  | CIV dbg len width rawlen words calls => map (model_icall (mkiv len width (mkraw rawlen words))) calls
  | CMasks calls => map model_mask calls
  | COther _ classes => map (fun k => negb (k =? 9)) classes
  | CRawSet path dbg len words i v o calls =>
      let st := raw_set_bit (mkraw len words) i v in
      let r' := match st with Ok r' => r' | _ => mkraw len words end in
      res_agree unit_eqb (runit st) o :: map (model_bcall (sp_of path) (mode_of dbg) (bv_from_raw r')) calls
  | CHistR path dbg ops olen owords calls => explain_hist path dbg (hist_raw ops) olen owords calls
  | CHistI path dbg w0 ops olen owords calls => explain_hist path dbg (hist_int w0 ops) olen owords calls
  | CMapped dbg file ty views =>
      map (fun o => model_mview (mode_of dbg) file ty o && spec_mview file ty o) views
  | CMGet dbg file opt probes =>
      map (fun p => model_mget (mode_of dbg) file opt p && spec_mget p) probes
  | CObj path dbg len words slen swords calls => explain_obj (sp_of path) (mode_of dbg) len words slen swords calls
  | CDied _ _ => []
  end.
