(* Correspondence check for C07: files against the codec written from SERIALIZATION.md (Spec/Format.v).
   WRITE direction (CW): bytes the real crate wrote for a structure whose logical content the harness computed
   from the defining input; the document reader must accept them and return that content.
   READ direction (CR): a file the harness produced with its own port of the document's writer (random
   admissible choices, no support structures), handed to the crate's `load`, plus the number of answers that
   differed from the content. The file must be exactly what the Coq document writer produces for that content
   and choice, must be accepted by the document reader with that content (so the port itself is checked), the
   load must have succeeded and no answer may be wrong.
   Code bit 1: the harness' port disagrees with the document codec (the harness is broken, not the crate).
   Code bit 2: the crate disagrees with the document. *)
From Coq Require Import NArith List Bool.
Require Import SDS.Spec.BitSeq SDS.Spec.Format SDS.Check.Common.
Import ListNotations.
Open Scope N_scope.

Inductive ty :=
| TVec | TPairs | TBytes | TString | TOptVec | TOptInt
| TRaw | TInt | TBV | TSparse | TRL | TWMCore | TWM.

Inductive content :=
| KList (l : list N)                       (* vector of elements, bytes, string (its bytes), items of a wavelet matrix *)
| KPairs (l : list (N * N))
| KNone                                    (* absent optional *)
| KSome (c : content)
| KBits (len : N) (ones : list N)          (* raw bitvector / bitvector: length, positions of the set bits *)
| KInt (w : N) (items : list N)            (* integer vector: width, items *)
| KSparse (n : N) (items : list N)         (* sparse bitvector: length, sorted positions *)
| KRuns (len : N) (runs : list (N * N)).   (* run-length bitvector: length, maximal runs (start, length) *)

Inductive fdata := FBytes (bs : list N) | FElems (es : list N).

(* "A file is an array of elements, which are unsigned 64-bit little-endian integers" *)
Definition file_elems (f : fdata) : option (list N) :=
  match f with
  | FBytes bs => if bytes_ok bs then elems_of_bytes bs else None
  | FElems es => Some es
  end.

Fixpoint content_eqb (a b : content) : bool :=
  match a, b with
  | KList x, KList y => nlist_eqb x y
  | KPairs x, KPairs y => nnlist_eqb x y
  | KNone, KNone => true
  | KSome x, KSome y => content_eqb x y
  | KBits n x, KBits m y => (n =? m) && nlist_eqb x y
  | KInt w x, KInt v y => (w =? v) && nlist_eqb x y
  | KSparse n x, KSparse m y => (n =? m) && nlist_eqb x y
  | KRuns n x, KRuns m y => (n =? m) && nnlist_eqb x y
  | _, _ => false
  end.

Definition omap {A B} (f : A -> B) (o : option A) : option B :=
  match o with Some a => Some (f a) | None => None end.
Definition kbits (B : list bool) : content := KBits (lenN B) (ones B).
Definition kint (p : N * list N) : content := KInt (fst p) (snd p).
Definition kopt {A} (f : A -> content) (o : option A) : content :=
  match o with Some a => KSome (f a) | None => KNone end.

(* the document reader, per type *)
Definition doc_decode (t : ty) (f : list N) : option content :=
  match t with
  | TVec => omap KList (doc_content_vec f)
  | TPairs => omap KPairs (doc_content_pairs f)
  | TBytes => omap KList (doc_content_bytes f)
  | TString => omap KList (doc_content_string f)
  | TOptVec => omap (kopt KList) (doc_content_opt p_vec f)
  | TOptInt => omap (kopt kint) (doc_content_opt p_int f)
  | TRaw => omap kbits (doc_content_raw f)
  | TInt => omap kint (doc_content_int f)
  | TBV => omap kbits (doc_content_bv f)
  | TSparse => omap (fun p => KSparse (fst p) (snd p)) (doc_content_sparse f)
  | TRL => omap (fun p => KRuns (fst p) (snd p)) (doc_content_rl f)
  | TWMCore => omap (fun p => KList (snd p)) (doc_content_wmcore f)
  | TWM => omap (fun p => KList (snd p)) (doc_content_wm f)
  end.

Fixpoint bits_of_ones (n : nat) (pos : N) (ones : list N) : list bool :=
  match n with
  | O => []
  | S k => match ones with
           | p :: t => if p =? pos then true :: bits_of_ones k (pos + 1) t else false :: bits_of_ones k (pos + 1) ones
           | [] => false :: bits_of_ones k (pos + 1) []
           end
  end.

(* the document writer, per type; [choice] is the writer-side freedom (low width of a sparse vector, width of
   the items of a wavelet matrix); None when the content does not belong to the type *)
Definition doc_encode (t : ty) (choice : N) (c : content) : option (list N) :=
  match t, c with
  | TVec, KList l => Some (doc_encode_vec l)
  | TPairs, KPairs l => Some (doc_encode_pairs l)
  | TBytes, KList l => Some (doc_encode_bytes l)
  | TString, KList l => Some (doc_encode_string l)
  | TOptVec, KNone => Some (doc_encode_opt None)
  | TOptVec, KSome (KList l) => Some (doc_encode_opt (Some (doc_encode_vec l)))
  | TOptInt, KNone => Some (doc_encode_opt None)
  | TOptInt, KSome (KInt w l) => Some (doc_encode_opt (Some (doc_encode_int w l)))
  | TRaw, KBits n o => Some (doc_encode_raw (bits_of_ones (N.to_nat n) 0 o))
  | TInt, KInt w l => Some (doc_encode_int w l)
  | TBV, KBits n o => Some (doc_encode_bv no_sup (bits_of_ones (N.to_nat n) 0 o))
  | TSparse, KSparse n l => Some (doc_encode_sparse choice (n, l))
  | TRL, KRuns n r => Some (doc_encode_rl (n, r))
  | TWMCore, KList l => Some (doc_encode_wmcore (choice, l))
  | TWM, KList l => Some (doc_encode_wm (choice, l))
  | _, _ => None
  end.

Inductive case :=
(* the crate wrote [f] for a structure of type [t] with logical content [c] *)
| CW (t : ty) (c : content) (f : fdata)
(* the harness wrote [f] from the document for content [c] with choice [choice]; the crate's load returned Ok
   ([loaded]) and consumed everything, and [wrong] of its answers differed from the content *)
| CR (t : ty) (c : content) (choice : N) (f : list N) (loaded : bool) (wrong : N).

Definition reads_as (t : ty) (f : list N) (c : content) : bool :=
  file_ok f && match doc_decode t f with Some c' => content_eqb c' c | None => false end.

Definition check (cs : case) : N :=
  match cs with
  | CW t c f =>
      code true (match file_elems f with Some es => reads_as t es c | None => false end)
  | CR t c choice f loaded wrong =>
      let port_ok := reads_as t f c &&
                     match doc_encode t choice c with Some f' => nlist_eqb f f' | None => false end in
      code port_ok (loaded && (wrong =? 0))
  end.

(* replay aid: what the document reader makes of the file *)
Definition explain (cs : case) : option content * option (list N) :=
  match cs with
  | CW t c f => (match file_elems f with Some es => doc_decode t es | None => None end, None)
  | CR t c choice f _ _ => (doc_decode t f, doc_encode t choice c)
  end.
