(* Model side of the C09 correspondence for SparseVector: the vector is rebuilt by Model/Sparse.v from the content of
   the case exactly as the harness builds it (SparseBuilder::new or ::multiset, try_set per value, try_from) with the
   low width the crate chose (recorded by the harness: the f64 width rule is an oracle argument of the model), and
   every query is answered by the model; the iterator walks use the step functions of Model/SparseIters.v, the ones
   the theorems of Props/C09_sparse.v and Props/C10_sparse.v are about. Kept in a file of its own because
   Model/Sparse.v and the definitions of Check/C09.v share names; Check/C09.v refers to the functions below by
   qualified names. *)
From Coq Require Import NArith List Bool.
Require Import SDS.Model.Mach SDS.Model.BitVec SDS.Model.Iters SDS.Spec.Deque SDS.Model.Sparse SDS.Model.SparseIters.
Import ListNotations.
Open Scope N_scope.

Fixpoint iotaN (s : N) (n : nat) : list N :=
  match n with O => [] | S k => s :: iotaN (s + 1) k end.
(* the positions covered by a list of runs (the harness expands them only when they are few) *)
Definition positions_of_runs (runs : list (N * N)) : list N :=
  flat_map (fun sl => iotaN (fst sl) (N.to_nat (snd sl))) runs.

(* SparseBuilder::new(len, |vals|).unwrap() or SparseBuilder::multiset(len, |vals|); try_set(v).unwrap() per value;
   SparseVector::try_from(builder).unwrap() *)
Definition build (sp : selpath) (m : mode) (w len : N) (multi : bool) (vals : list N) : res sparse :=
  unwrap_sum (if multi then sv_build_multiset sp m w len vals else sv_build_set sp m w len vals).

Definition q_counts (sv : sparse) : res (N * N * N) := Ok (sv_len sv, sv_count_ones sv, sv_count_zeros sv).

(* select_iter(r) / select_zero_iter(r): len() of the fresh iterator, then next() *)
Definition q_sel_iter (sp : selpath) (m : mode) (sv : sparse) (zero : bool) (r : N) : res (option (N * N) * N) :=
  if zero then
    let* z := sv_select_zero_iter sp m sv r in
    let* l := zi_len m z in
    let* (_, x) := zi_next_f m sv z in Ok (x, l)
  else
    let* it := sv_select_iter sp m sv r in
    let* l := it_len m it in
    let* (_, x) := it_next_f m sv it in Ok (x, l).

Definition q_pred (sp : selpath) (m : mode) (sv : sparse) (x : N) : res (option (N * N)) :=
  it_first m sv (sv_predecessor sp m sv x).
Definition q_succ (sp : selpath) (m : mode) (sv : sparse) (x : N) : res (option (N * N)) :=
  it_first m sv (sv_successor sp m sv x).

(* the walks are short by construction of the cases (the harness only walks iterators of at most 4096 items) *)
Definition small (k : N) : nat := N.to_nat (N.min k 100000).

(* k x next(), then nth(n), next(), len() - or nth_back(n), next_back(), len() *)
Definition calls (back : bool) (k n : N) : list call :=
  repeat Next (small k) ++ (if back then [NthBack n; NextBack; Len] else [Nth n; Next; Len]).
Definition last3 {A} (os : list (out A)) : res (option A * option A * N) :=
  match rev os with
  | Count l :: Item a2 :: Item a1 :: _ => Ok (a1, a2, l)
  | _ => Panic PDoc
  end.

Definition q_one_nth (m : mode) (sv : sparse) (back : bool) (k n : N) : res (option (N * N) * option (N * N) * N) :=
  let* (_, os) := it_run (sp_oi_step m sv) (sv_one_iter sv) (calls back k n) in last3 os.
(* j x next_back() first *)
Definition q_one_nth_j (m : mode) (sv : sparse) (j k n : N) : res (option (N * N) * option (N * N) * N) :=
  let* (_, os) := it_run (sp_oi_step m sv) (sv_one_iter sv) (repeat NextBack (small j) ++ calls false k n) in last3 os.
(* ZeroIter is forward only *)
Definition q_zero_nth (m : mode) (sv : sparse) (k n : N) : res (option (N * N) * option (N * N) * N) :=
  let* z := sv_zero_iter m sv in
  let* (_, os) := it_run (sp_zi_step m sv) z (calls false k n) in last3 os.
Definition q_bit_nth (m : mode) (sv : sparse) (back : bool) (k n : N) : res (option bool * option bool * N) :=
  let* s := sv_iter_new m sv in
  let* (_, os) := it_run (sp_bi_step m sv) s (calls back k n) in last3 os.
