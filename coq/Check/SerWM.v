(* Model side of the serialization checks (C06, C14, C19) for WMCore and WaveletMatrix: the structure is rebuilt by
   Model/WM.v from the value list of the case (Check/WMBuild.v) and encoded / decoded with the codecs of
   Model/SerWM.v (the faithful loaders of Model/SerComposite.v) in the build's mode and select path. The closed
   type universe [ty] of Model/Ser.v cannot hold the two types (Model/SerComposite.v is built on Model/Ser.v), so
   they get their own small universe [wty] and their own case constructors in Check/C06.v, C14.v, C19.v. *)
From Coq Require Import NArith List Bool.
Require Import SDS.Model.Mach SDS.Model.Bits SDS.Model.Raw SDS.Model.IntVec SDS.Model.BitVec SDS.Model.Ser.
Require Import SDS.Model.WM SDS.Model.SerComposite SDS.Model.SerWM.
Require Import SDS.Spec.Stream SDS.Check.Common SDS.Check.SerCommon.
Require SDS.Check.WMBuild.
Import ListNotations.
Open Scope N_scope.

Inductive wty := WCore | WMat.

Definition core_eqb (a b : wmcore) : bool := list_eqb bv_eqb (wc_levels a) (wc_levels b).
(* every field: len, every level with its three supports, first *)
Definition wm_eqb (a b : wmatrix) : bool :=
  (wm_len a =? wm_len b) && core_eqb (wm_data a) (wm_data b) && iv_eqb (wm_first a) (wm_first b).

(* a built value with its codec and equality *)
Inductive wval := WV (A : Type) (c : codec A) (eqb : A -> A -> bool) (x : A).

(* WMCore::from(V) / WaveletMatrix::from(V) *)
Definition wbuild (sp : selpath) (m : mode) (t : wty) (V : list N) : option wval :=
  match t with
  | WCore => match wm_core_from sp m V with Ok c => Some (WV _ (wmcore_codec sp m) core_eqb c) | _ => None end
  | WMat => match WMBuild.build_wm sp m V with Ok w => Some (WV _ (wm_codec sp m) wm_eqb w) | _ => None end
  end.

Definition wenc (v : wval) : list byte := match v with WV _ c _ x => c_enc c x end.
Definition wsize (v : wval) : N := match v with WV _ c _ x => c_size c x end.
(* load: outcome code, and on success (equal to the original, bytes left) *)
Definition wdec (v : wval) (s : list byte) : N * option (bool * list byte) :=
  match v with
  | WV _ c eqb x =>
      let r := c_dec c s in
      (io_code r, match r with IoOk (y, rest) => Some (eqb x y, rest) | _ => None end)
  end.

(* C06: bytes, size, load consumes exactly the serialization and returns the value *)
Definition round_ok (sp : selpath) (m : mode) (t : wty) (V : list N) (bytes extra : list byte) (consumed size_el : N) : bool :=
  match wbuild sp m t V with
  | Some v =>
      nlist_eqb (wenc v) bytes && (wsize v =? size_el)
      && match snd (wdec v (bytes ++ extra)) with
         | Some (eq, rest) => eq && nlist_eqb rest extra && (consumed =? lenN bytes)
         | None => false
         end
  | None => false
  end.

(* several structures back to back *)
Fixpoint concat_ok (sp : selpath) (m : mode) (items : list (wty * list N)) (consumed : list N) (s : list byte) : bool :=
  match items, consumed with
  | [], [] => match s with [] => true | _ => false end
  | (t, V) :: it, c :: ct =>
      match wbuild sp m t V with
      | Some v =>
          match snd (wdec v s) with
          | Some (eq, rest) => eq && (c =? lenN (wenc v)) && (lenN s =? c + lenN rest) && concat_ok sp m it ct rest
          | None => false
          end
      | None => false
      end
  | _, _ => false
  end.
Fixpoint concat_enc (sp : selpath) (m : mode) (items : list (wty * list N)) : option (list byte) :=
  match items with
  | [] => Some []
  | (t, V) :: it =>
      match wbuild sp m t V, concat_enc sp m it with
      | Some v, Some e => Some (wenc v ++ e)
      | _, _ => None
      end
  end.

(* the loader on an arbitrary stream: outcome code and bytes left *)
Definition bad_dec (sp : selpath) (m : mode) (t : wty) (s : list byte) : N * option N :=
  match t with
  | WCore => let r := wmcore_dec sp m s in (io_code r, match r with IoOk (_, rest) => Some (lenN rest) | _ => None end)
  | WMat => let r := wm_dec sp m s in (io_code r, match r with IoOk (_, rest) => Some (lenN rest) | _ => None end)
  end.

(* C14: the bytes are the model's, and load on the first k bytes gives the observed outcome at every sampled k *)
Definition trunc_ok (sp : selpath) (m : mode) (t : wty) (V : list N) (bytes : list byte) (keep : N -> bool) (obs : list N) : bool :=
  match wbuild sp m t V with
  | Some v => nlist_eqb (wenc v) bytes && agree_from (fun k => fst (wdec v (firstn (N.to_nat k) bytes))) keep 0 obs
  | None => false
  end.

Definition enc_ok (sp : selpath) (m : mode) (t : wty) (V : list N) (bytes : list byte) : bool :=
  match wbuild sp m t V with Some v => nlist_eqb (wenc v) bytes | None => false end.

(* C19: the file of a matrix whose levels carry no support structures (or the subset [subset] of them) *)
Definition stripped_ok (sp : selpath) (m : mode) (t : wty) (V : list N) (subset : N) (bytes extra : list byte) (consumed : N) : bool :=
  match t with
  | WCore =>
      match wm_core_from sp m V with
      | Ok c =>
          let c' := mkcore (map (bv_restrict subset) (wc_levels c)) in
          nlist_eqb (wmcore_enc m c') bytes
          && match wmcore_dec sp m (bytes ++ extra) with
             | IoOk (y, rest) => core_eqb c y && nlist_eqb rest extra && (consumed =? lenN bytes)
             | _ => false
             end
      | _ => false
      end
  | WMat =>
      match WMBuild.build_wm sp m V with
      | Ok w =>
          let w' := mkwm (wm_len w) (mkcore (map (bv_restrict subset) (wc_levels (wm_data w)))) (wm_first w) in
          nlist_eqb (wm_enc m w') bytes
          && match wm_dec sp m (bytes ++ extra) with
             | IoOk (y, rest) => wm_eqb w y && nlist_eqb rest extra && (consumed =? lenN bytes)
             | _ => false
             end
      | _ => false
      end
  end.

(* ---- naive side: what the header must say, from the value list alone ---- *)
Definition naive_width (V : list N) : N := N.max 1 (N.size (fold_left N.max V 0)).
Definition header_ok (t : wty) (V : list N) (elems : list N) : bool :=
  match t with
  | WCore => opt_eqb N.eqb (hd_error elems) (Some (naive_width V))
  | WMat => opt_eqb N.eqb (hd_error elems) (Some (N.of_nat (length V)))
            && opt_eqb N.eqb (hd_error (tl elems)) (Some (naive_width V))
  end.
