(* Correspondence check for C18: what the real MemoryMap did to real files and to the real address space
   (/proc/self/maps), against Model/Mmap.v over Spec/AddrSpace.v and against the direct statement. *)
From Coq Require Import NArith List Bool.
Require Import SDS.Model.Mach SDS.Spec.AddrSpace SDS.gen.MmapCfg SDS.Model.Mmap SDS.Check.Common.
Import ListNotations.
Open Scope N_scope.

(* one new/drop cycle as observed:
   ok      0 = MemoryMap::new returned Ok; 1 = Err of open/metadata; 2 = Err "File size must be a multiple of 8 bytes";
           3 = Err "Memory mapping failed"; 4 = another Err; 5 = panic
   len     map.len()
   same    as_ref() == the file's content (as little-endian u64 elements), compared in the harness
   during  bytes of /proc/self/maps lines backed by the file while the map is alive
   after   the same after drop
   wr      0 = nothing written; 1 = elements stored through as_mut_slice() were in the file after drop, nothing
           else changed; 2 = the file differs from the expected content
   fw, sl  small files only (else []): the file's elements before new, and the elements seen through as_ref() *)
Inductive cyc := Cyc (ok len : N) (same : bool) (during after wr : N) (fw sl : list N).

(* dbg: overflow checks on; mutable: MappingMode::Mutable; fsize: None = no such file *)
Inductive case := CMap (dbg mutable : bool) (fsize : option N) (obs : list cyc).

Definition mode_of (dbg : bool) : mode := if dbg then Debug else Release.
Definition mm_of (mutable : bool) : mapping_mode := if mutable then Mutable else ReadOnly.

Definition err_code (e : map_err) : N := match e with ErrOpen => 1 | ErrSize => 2 | ErrMmap => 3 end.

(* the address space the model starts from: something is already mapped *)
Definition a_init : aspace := [mkR 100 5 0].

Definition extra_bytes (a : aspace) : N := (mapped_pages a - mapped_pages a_init) * PAGE.

Fixpoint indices (n : nat) (i : N) : list N :=
  match n with O => [] | S k => i :: indices k (i + 1) end.

(* every element read through the model's map equals the observed one *)
Definition slice_agrees (a : aspace) (fw sl : list N) (mp : memmap) : bool :=
  match sl, fw with
  | [], [] => true
  | _, _ =>
      (lenN sl =? mm_len mp) &&
      forallb (fun i => match map_get a fw mp i, nthN sl i with
                        | Ok x, Some y => x =? y
                        | _, _ => false
                        end) (indices (length sl) 0)
  end.

Fixpoint model_cycles (m : mode) (mm : mapping_mode) (mutable : bool) (fsize : option N) (a : aspace) (obs : list cyc) : bool :=
  match obs with
  | [] => true
  | Cyc ok len same during after wr fw sl :: rest =>
      match map_new cur_cmp m mm fsize a with
      | Ok (a1, Failed e) =>
          (ok =? err_code e) && (len =? 0) && (during =? extra_bytes a1) && (after =? extra_bytes a1) && (wr =? 0) &&
          model_cycles m mm mutable fsize a1 rest
      | Ok (a1, Mapped mp) =>
          match map_drop cur_unmap m mp a1 with
          | Ok a2 =>
              (ok =? 0) && (len =? mm_len mp) && same && slice_agrees a1 fw sl mp &&
              (during =? extra_bytes a1) && (after =? extra_bytes a2) &&
              (wr =? (if mutable then 1 else 0)) &&
              model_cycles m mm mutable fsize a2 rest
          | _ => false
          end
      | _ => false
      end
  end.

(* the direct statement, without the model: errors exactly for a missing file / a size that is not a multiple of 8 /
   an empty file; otherwise the whole file is visible, whole pages are mapped while alive, nothing after drop,
   and what was stored is in the file *)
Definition spec_cycle (mutable : bool) (fsize : option N) (c : cyc) : bool :=
  match c with
  | Cyc ok len same during after wr fw sl =>
      match fsize with
      | None => (ok =? 1) && (during =? 0) && (after =? 0) && (wr =? 0)
      | Some sz =>
          if negb (sz mod 8 =? 0) then (ok =? 2) && (during =? 0) && (after =? 0) && (wr =? 0)
          else if sz =? 0 then (ok =? 3) && (during =? 0) && (after =? 0) && (wr =? 0)
          else (ok =? 0) && (len * 8 =? sz) && same && nlist_eqb fw sl &&
               (during =? (sz + 4095) / 4096 * 4096) && (after =? 0) &&
               (wr =? (if mutable then 1 else 0))
      end
  end.

Definition check (c : case) : N :=
  match c with
  | CMap dbg mutable fsize obs =>
      code (model_cycles (mode_of dbg) (mm_of mutable) mutable fsize a_init obs)
           (forallb (spec_cycle mutable fsize) obs)
  end.
