(* Correspondence check for C09: queries are total on out-of-range and extreme arguments.
   A case holds one structure (its defining content: bit list / run list / value list) and a list of calls with
   the OBSERVED result of the real crate (a value or a panic class), for the three bitvector types side by side.
   spec side: the documented answer computed naively from the content (Spec/BitSeq.v for bit lists; direct
     recursions over the run list / value list for universes up to 2^64-1 that cannot be expanded). A panic is
     never an acceptable answer. The spec side uses neither Model/ nor gen/.
   model side: Model/BitVec.v for the plain bitvector (in the build's mode and select path), Model/RL.v for the
     run-length vector (rebuilt from the content by the same builder calls as in the harness; Check/C09RL.v),
     Model/Sparse.v for the sparse vector (rebuilt from the content with the low width recorded in CSeqS;
     Check/C09Sparse.v), Model/IntVec.v and Model/Builders.v for the constructors, Model/WM.v for WaveletMatrix /
     WMCore (rebuilt from the value list by the model's From<Vec<T>>; Check/C09WM.v). *)
From Coq Require Import NArith List Bool.
Require Import SDS.Model.Mach SDS.Model.Bits SDS.Model.Raw SDS.Model.IntVec SDS.Model.BitVec SDS.Model.Builders.
Require Import SDS.Spec.BitSeq SDS.Spec.BuilderSpec SDS.Check.Common.
Require SDS.Model.RL SDS.Check.C09RL.     (* qualified: the iterator records have the same names as in BitVec *)
Require SDS.Model.WM SDS.Check.C09WM.     (* qualified: WaveletMatrix / WMCore rebuilt by Model/WM.v *)
Require SDS.Model.Sparse SDS.Check.C09Sparse.   (* qualified as well *)
Import ListNotations.
Open Scope N_scope.

(* the observed results of BitVector, SparseVector, RLVector; None = the type does not implement the call
   (e.g. nth_back on a forward-only iterator) or the call was not made (walks of 2^63 items) *)
Definition o3 (A : Type) : Type := (option (ires A) * option (ires A) * option (ires A))%type.

Inductive bq :=
| QCounts (o : o3 (N * N * N))                                   (* len, count_ones, count_zeros *)
| QGet (i : N) (o : o3 bool)                                      (* only i < len *)
| QRank (i : N) (o : o3 N)
| QRank0 (i : N) (o : o3 N)                                       (* only i <= len *)
| QSel (zero : bool) (r : N) (o : o3 (option N))
| QSelIter (zero : bool) (r : N) (o : o3 (option (N * N) * N))    (* len() of the iterator, then its first item *)
| QPred (v : N) (o : o3 (option (N * N)))
| QSucc (v : N) (o : o3 (option (N * N)))
(* one_iter / zero_iter: k x next(), then nth(n) or nth_back(n), then next() or next_back(), then len() *)
| QNth (zero back : bool) (k n : N) (o : o3 (option (N * N) * option (N * N) * N))
| QBitNth (back : bool) (k n : N) (o : o3 (option bool * option bool * N))
(* one_iter / zero_iter: j x next_back(), k x next(), then nth(n), next(), len() *)
| QNthJ (zero : bool) (j k n : N) (o : o3 (option (N * N) * option (N * N) * N)).

Inductive content :=
| Bits (len : N) (words : list N)           (* a bit sequence, 64 bits per word, least significant first *)
| Runs (len : N) (runs : list (N * N))      (* maximal runs (start, length) of set bits in a universe of size len <= 2^64-1 *)
| Multi (len : N) (vals : list N).          (* a sorted multiset of values below len (SparseVector only) *)

Inductive wq :=
| WRank (i v : N) (o : ires N)
| WSel (r v : N) (o : ires (option N))
| WSelIter (r v : N) (o : ires (option (N * N)))
| WInv (i : N) (o : ires (option (N * N)))
| WContains (v : N) (o : ires bool)
| WPred (i v : N) (o : ires (option (N * N)))
| WSucc (i v : N) (o : ires (option (N * N)))
| WValNth (v n : N) (o : ires (option (N * N) * option (N * N)))
| WGetOr (i d : N) (o : ires N)
| WIterNth (back : bool) (k n : N) (o : ires (option N * option N * N))
| MDown (i : N) (o : ires (option (N * N)))
| MDownWith (i v : N) (o : ires N)
| MDown2 (i j v : N) (o : ires (N * N))
| MUpWith (i v : N) (o : ires (option N)).

Inductive ivq :=
| IGetOr (i d : N) (o : ires N)
| IIterNth (back : bool) (k n : N) (o : ires (option N * option N * N)).

Inductive case :=
| CSeq (path : N) (dbg : bool) (c : content) (qs : list bq)
(* the same when a SparseVector was built: sw = the low width the crate chose for it (read from its serialization) *)
| CSeqS (sw : N) (path : N) (dbg : bool) (c : content) (qs : list bq)
| CWM (path : N) (dbg : bool) (has_wm : bool) (vals : list N) (r_len r_width : N) (qs : list wq)
| CIV (dbg : bool) (width : N) (vals : list N) (qs : list ivq)
(* constructors: IOk true = Ok(_), IOk false = Err(_) *)
| CCtor (dbg : bool) (kind a b : N) (o : ires bool)
| CCrash (k : N)      (* building a structure panicked *)
| CDied (sig : N).    (* the process running the OneIter::nth probes was killed *)

Definition sp_of (path : N) : selpath := if path =? 0 then Pdep else Portable.
Definition mode_of (dbg : bool) : mode := if dbg then Debug else Release.

(* ================================================================ spec side *)

Definition ok1 {A} (eqb : A -> A -> bool) (x : A) (o : option (ires A)) : bool :=
  match o with None => true | Some (IOk y) => eqb x y | Some (IPanic _) => false end.
Definition ok3 {A} (eqb : A -> A -> bool) (x : A) (o : o3 A) : bool :=
  let '(a, b, c) := o in ok1 eqb x a && ok1 eqb x b && ok1 eqb x c.
Definition okr {A} (eqb : A -> A -> bool) (x : A) (o : ires A) : bool := ok1 eqb x (Some o).

Definition n3_eqb (a b : N * N * N) : bool := nn_eqb (fst a) (fst b) && (snd a =? snd b).
Definition seli_eqb := pair_eqb onn_eqb N.eqb.
Definition nth_eqb {A} (e : A -> A -> bool) := pair_eqb (pair_eqb (opt_eqb e) (opt_eqb e)) N.eqb.

Record oracle := mkO {
  o_len : N; o_ones : N; o_zeros : N;
  o_get : N -> option bool;
  o_rank : N -> N;
  o_sel : bool -> N -> option N;
  o_pred : N -> option (N * N);
  o_succ : N -> option (N * N);
  o_items : bool -> list (N * N);    (* the (rank, position) pairs of the set / unset bits, when short enough to walk *)
  o_bits : list bool }.

Definition oracle_bits (len : N) (words : list N) : oracle :=
  let B := bits_of len words in
  let os := ranked_ones B in
  let zs := ranked_zeros B in
  mkO (lenB B) (count B) (lenB B - count B) (getb B) (rank1 B)
      (fun z r => if z then select0 B r else select1 B r)
      (pred1 B) (succ1 B) (fun z => if z then zs else os) B.

(* run lists, by direct recursion; every number is an exact N, so nothing can wrap *)
Fixpoint r_ones (runs : list (N * N)) : N :=
  match runs with [] => 0 | (_, l) :: t => l + r_ones t end.
Fixpoint r_rank (runs : list (N * N)) (i : N) : N :=
  match runs with [] => 0 | (s, l) :: t => (if i <=? s then 0 else N.min l (i - s)) + r_rank t i end.
Fixpoint r_get (runs : list (N * N)) (i : N) : bool :=
  match runs with [] => false | (s, l) :: t => ((s <=? i) && (i <? s + l)) || r_get t i end.
Fixpoint r_sel (runs : list (N * N)) (r : N) : option N :=
  match runs with [] => None | (s, l) :: t => if r <? l then Some (s + r) else r_sel t (r - l) end.
Fixpoint r_sel0 (runs : list (N * N)) (pos r : N) : N :=
  match runs with
  | [] => pos + r
  | (s, l) :: t => if r <? s - pos then pos + r else r_sel0 t (s + l) (r - (s - pos))
  end.
Fixpoint r_pred (runs : list (N * N)) (rk v : N) (best : option (N * N)) : option (N * N) :=
  match runs with
  | [] => best
  | (s, l) :: t =>
      if s <=? v then r_pred t (rk + l) v (Some (if v <? s + l then (rk + (v - s), v) else (rk + l - 1, s + l - 1)))
      else best
  end.
Fixpoint r_succ (runs : list (N * N)) (rk v : N) : option (N * N) :=
  match runs with
  | [] => None
  | (s, l) :: t => if v <? s + l then Some (if v <=? s then (rk, s) else (rk + (v - s), v)) else r_succ t (rk + l) v
  end.
Fixpoint iotaN (s : N) (n : nat) : list N :=
  match n with O => [] | S k => s :: iotaN (s + 1) k end.

Definition WALK : N := 5000.

Definition oracle_runs (len : N) (runs : list (N * N)) : oracle :=
  let ones := r_ones runs in
  let bits := if len <=? WALK then map (r_get runs) (iotaN 0 (N.to_nat len)) else [] in
  let os := if ones <=? WALK then index_from (flat_map (fun sl => iotaN (fst sl) (N.to_nat (snd sl))) runs) 0 else [] in
  let zs := ranked_zeros bits in
  mkO len ones (len - ones)
      (fun i => if i <? len then Some (r_get runs i) else None)
      (r_rank runs)
      (fun z r => if z then (let p := r_sel0 runs 0 r in if p <? len then Some p else None) else r_sel runs r)
      (fun v => r_pred runs 0 v None) (fun v => r_succ runs 0 v)
      (fun z => if z then zs else os) bits.

Definition oracle_multi (len : N) (vals : list N) : oracle :=
  let ones := lenN vals in
  let rk := index_from vals 0 in
  mkO len ones (if len <=? ones then 0 else len - ones)
      (fun i => if i <? len then Some (existsb (N.eqb i) vals) else None)
      (fun i => lenN (filter (fun v => v <? i) vals))
      (fun z r => if z then None else nth_opt vals r)
      (fun v => hd_error (pred_suffix_aux rk v []))
      (fun v => hd_error (drop_below rk v))
      (fun z => if z then [] else rk) [].

Definition oracle_of (c : content) : oracle :=
  match c with
  | Bits len words => oracle_bits len words
  | Runs len runs => oracle_runs len runs
  | Multi len vals => oracle_multi len vals
  end.

(* a deque after k items were taken: nth(n), then next(), then the remaining length *)
Definition after_nth {A} (R : list A) (n : N) : option A * option A * N :=
  let R1 := skipN R (n + 1) in (nth_opt R n, hd_error R1, lenN (tl R1)).

Definition spec_bq (O : oracle) (q : bq) : bool :=
  match q with
  | QCounts o => ok3 n3_eqb (o_len O, o_ones O, o_zeros O) o
  | QGet i o => match o_get O i with Some x => ok3 Bool.eqb x o | None => false end
  | QRank i o => ok3 N.eqb (o_rank O i) o
  | QRank0 i o => (i <=? o_len O) && ok3 N.eqb (i - o_rank O i) o
  | QSel z r o => ok3 onat_eqb (o_sel O z r) o
  | QSelIter z r o =>
      let cnt := if z then o_zeros O else o_ones O in
      ok3 seli_eqb (match o_sel O z r with Some p => (Some (r, p), cnt - r) | None => (None, 0) end) o
  | QPred v o => ok3 onn_eqb (o_pred O v) o
  | QSucc v o => ok3 onn_eqb (o_succ O v) o
  | QNth z back k n o =>
      let R := skipN (o_items O z) k in
      ok3 (nth_eqb nn_eqb) (after_nth (if back then rev R else R) n) o
  | QBitNth back k n o =>
      let R := skipN (o_bits O) k in
      ok3 (nth_eqb Bool.eqb) (after_nth (if back then rev R else R) n) o
  | QNthJ z j k n o =>
      let R := skipN (rev (skipN (rev (o_items O z)) j)) k in
      ok3 (nth_eqb nn_eqb) (after_nth R n) o
  end.

(* ---- wavelet matrix: everything from the value list ---- *)

Fixpoint w_rank (l : list N) (i v : N) : N :=
  match l with
  | [] => 0
  | x :: t => if i =? 0 then 0 else (if x =? v then 1 else 0) + w_rank t (i - 1) v
  end.
Fixpoint w_positions (l : list N) (v pos : N) : list N :=
  match l with
  | [] => []
  | x :: t => if x =? v then pos :: w_positions t v (pos + 1) else w_positions t v (pos + 1)
  end.
(* the lowest w bits in reverse order *)
Fixpoint revbits (w : nat) (x : N) : N :=
  match w with
  | O => 0
  | S k => (if N.odd x then 2 ^ N.of_nat k else 0) + revbits k (N.div2 x)
  end.
Definition list_max (l : list N) : N := fold_left N.max l 0.
Definition w_width (l : list N) : N := N.max 1 (N.size (list_max l)).
(* number of items that come before value v in the reordered vector *)
Definition w_before (l : list N) (w : N) (v : N) : N :=
  let key := revbits (N.to_nat w) v in
  lenN (filter (fun x => revbits (N.to_nat w) x <? key) l).

Definition spec_wq (l : list N) (w : N) (q : wq) : bool :=
  let ranked v := index_from (w_positions l v 0) 0 in
  let mask v := v mod 2 ^ w in
  match q with
  | WRank i v o => okr N.eqb (w_rank l i v) o
  | WSel r v o => okr onat_eqb (nth_opt (w_positions l v 0) r) o
  | WSelIter r v o => okr onn_eqb (nth_opt (ranked v) r) o
  | WInv i o => okr onn_eqb (match nth_opt l i with Some x => Some (w_rank l i x, x) | None => None end) o
  | WContains v o => okr Bool.eqb (existsb (N.eqb v) l) o
  | WPred i v o => okr onn_eqb (hd_error (pred_suffix_aux (ranked v) i [])) o
  | WSucc i v o => okr onn_eqb (hd_error (drop_below (ranked v) i)) o
  | WValNth v n o => okr (pair_eqb onn_eqb onn_eqb) (nth_opt (ranked v) n, nth_opt (ranked v) (n + 1)) o
  | WGetOr i d o => okr N.eqb (match nth_opt l i with Some x => x | None => d end) o
  | WIterNth back k n o =>
      let R := skipN l k in okr (nth_eqb N.eqb) (after_nth (if back then rev R else R) n) o
  | MDown i o => okr onn_eqb (match nth_opt l i with Some x => Some (w_before l w x + w_rank l i x, x) | None => None end) o
  | MDownWith i v o => okr N.eqb (w_before l w (mask v) + w_rank l i (mask v)) o
  | MDown2 i j v o => okr nn_eqb (w_before l w (mask v) + w_rank l i (mask v), w_before l w (mask v) + w_rank l j (mask v)) o
  | MUpWith i v o =>
      let st := w_before l w (mask v) in
      okr onat_eqb (if i <? st then None else nth_opt (w_positions l (mask v) 0) (i - st)) o
  end.

Definition spec_ivq (l : list N) (q : ivq) : bool :=
  match q with
  | IGetOr i d o => okr N.eqb (match nth_opt l i with Some x => x | None => d end) o
  | IIterNth back k n o =>
      let R := skipN l k in okr (nth_eqb N.eqb) (after_nth (if back then rev R else R) n) o
  end.

Definition spec_ctor (kind a b : N) : option bool :=
  let wok w := (1 <=? w) && (w <=? 64) in
  match kind with
  | 0 => Some (wok a)                                   (* IntVector::new(width a) *)
  | 1 => Some (wok b)                                   (* IntVector::with_len(len a, width b, 1) *)
  | 2 => Some (wok b)                                   (* IntVector::with_capacity(capacity a, width b) *)
  | 3 => Some (wok a)                                   (* IntVectorWriter::new(file, width a) *)
  | 4 => Some (wok a)                                   (* IntVectorWriter::with_buf_len(file, width a, buf_len b) *)
  | 5 => Some (b <=? a)                                 (* SparseBuilder::new(universe a, ones b) *)
  | 6 => Some (a + b <=? 18446744073709551615)          (* RLBuilder::new().try_set(start a, len b) *)
  | 7 => Some ((15 <=? a) && (a + b <=? 18446744073709551615))   (* ... after try_set(10, 5) *)
  | _ => None
  end.

(* ================================================================ model side *)

Definition m1 {A} (eqb : A -> A -> bool) (r : res A) (o : o3 A) : bool :=
  match fst (fst o) with None => true | Some i => res_agree eqb r i end.

Definition tr (z : bool) : transf := if z then Complement else Identity.

Fixpoint oi_consume (t : transf) (b : bitvec) (k : nat) (it : one_iter) : res one_iter :=
  match k with
  | O => Ok it
  | S k' => let* (it', _) := oi_next_f t b it in oi_consume t b k' it'
  end.
Fixpoint bi_consume (b : bitvec) (k : nat) (it : bit_iter) : res bit_iter :=
  match k with
  | O => Ok it
  | S k' => let* (it', _) := bi_next_f b it in bi_consume b k' it'
  end.
(* DoubleEndedIterator::nth_back as core provides it: advance_back_by(n) stops at the first None, then next_back() *)
Fixpoint oi_nth_back_default (fuel : nat) (m : mode) (t : transf) (b : bitvec) (it : one_iter) (n : N)
  : res (one_iter * option (N * N)) :=
  match fuel with
  | O => Panic PFuel
  | S f =>
      if n =? 0 then oi_next_back m t b it
      else let* (it', x) := oi_next_back m t b it in
           match x with
           | None => Ok (it', None)
           | Some _ => oi_nth_back_default f m t b it' (n - 1)
           end
  end.

Definition small (k : N) : nat := N.to_nat (N.min k 100000).

Fixpoint oi_consume_back (m : mode) (t : transf) (b : bitvec) (k : nat) (it : one_iter) : res one_iter :=
  match k with
  | O => Ok it
  | S k' => let* (it', _) := oi_next_back m t b it in oi_consume_back m t b k' it'
  end.

Definition model_bq (sp : selpath) (m : mode) (b : bitvec) (q : bq) : bool :=
  match q with
  | QCounts o => m1 n3_eqb (Ok (bv_len b, bv_count_ones b, bv_count_zeros b)) o
  | QGet i o => m1 Bool.eqb (bv_get b i) o
  | QRank i o => m1 N.eqb (bv_rank_q b i) o
  | QRank0 i o => m1 N.eqb (bv_rank_zero m b i) o
  | QSel z r o => m1 onat_eqb (bv_select_t sp m (tr z) b r) o
  | QSelIter z r o =>
      m1 seli_eqb (let* it := bv_select_iter_t sp m (tr z) b r in
                   let* (_, x) := oi_next_f (tr z) b it in Ok (x, oi_len it)) o
  | QPred v o => m1 onn_eqb (let* it := bv_predecessor sp m b v in let* (_, x) := oi_next_f Identity b it in Ok x) o
  | QSucc v o => m1 onn_eqb (let* it := bv_successor sp m b v in let* (_, x) := oi_next_f Identity b it in Ok x) o
  | QNth z back k n o =>
      let t := tr z in
      m1 (nth_eqb nn_eqb)
         (let* it0 := oi_consume t b (small k) (oi_start t b) in
          if back then
            let* (it1, a1) := oi_nth_back_default (S (S (small (oi_len it0)))) m t b it0 n in
            let* (it2, a2) := oi_next_back m t b it1 in Ok (a1, a2, oi_len it2)
          else
            let* (it1, a1) := oi_nth sp m t b it0 n in
            let* (it2, a2) := oi_next_f t b it1 in Ok (a1, a2, oi_len it2)) o
  | QBitNth back k n o =>
      m1 (nth_eqb Bool.eqb)
         (let* it0 := bi_consume b (small k) (bi_start b) in
          if back then
            let* (it1, a1) := bi_nth_back b it0 n in
            let* (it2, a2) := bi_next_back b it1 in Ok (a1, a2, bi_len it2)
          else
            let* (it1, a1) := bi_nth b it0 n in
            let* (it2, a2) := bi_next_f b it1 in Ok (a1, a2, bi_len it2)) o
  | QNthJ z j k n o =>
      let t := tr z in
      m1 (nth_eqb nn_eqb)
         (let* itb := oi_consume_back m t b (small j) (oi_start t b) in
          let* it0 := oi_consume t b (small k) itb in
          let* (it1, a1) := oi_nth sp m t b it0 n in
          let* (it2, a2) := oi_next_f t b it1 in Ok (a1, a2, oi_len it2)) o
  end.

(* ---- RLVector: the third observed result. The model is evaluated only when the call was made (the thunk: walks
   of 2^63 items are not executed by the harness and must not be evaluated here either) ---- *)
Definition mr {A} (eqb : A -> A -> bool) (f : unit -> res A) (o : o3 A) : bool :=
  match snd o with None => true | Some i => res_agree eqb (f tt) i end.
Definition not_made {A} (o : o3 A) : bool := match snd o with None => true | Some _ => false end.

Definition model_rl_bq (m : mode) (v : RL.rlvec) (q : bq) : bool :=
  match q with
  | QCounts o => mr n3_eqb (fun _ => C09RL.q_counts v) o
  | QGet i o => mr Bool.eqb (fun _ => RL.rl_get m v i) o
  | QRank i o => mr N.eqb (fun _ => RL.rl_rank m v i) o
  | QRank0 i o => mr N.eqb (fun _ => RL.rl_rank_zero m v i) o
  | QSel z r o => mr onat_eqb (fun _ => if z then RL.rl_select_zero m v r else RL.rl_select m v r) o
  | QSelIter z r o => mr seli_eqb (fun _ => C09RL.q_sel_iter m v z r) o
  | QPred x o => mr onn_eqb (fun _ => C09RL.q_pred m v x) o
  | QSucc x o => mr onn_eqb (fun _ => C09RL.q_succ m v x) o
  (* the RL iterators are forward only: nth_back / next_back do not exist *)
  | QNth z back k n o => if back then not_made o else mr (nth_eqb nn_eqb) (fun _ => C09RL.q_nth m v z k n) o
  | QBitNth back k n o => if back then not_made o else mr (nth_eqb Bool.eqb) (fun _ => C09RL.q_bit_nth m v k n) o
  | QNthJ _ _ _ _ o => not_made o
  end.

(* the RLVector of a content, as the harness builds it *)
Definition rl_of (m : mode) (ct : content) : option (res RL.rlvec) :=
  match ct with
  | Bits len words => Some (C09RL.build m len (C09RL.runs_of_bits 0 None (bits_of len words)))
  | Runs len runs => Some (C09RL.build m len runs)
  | Multi _ _ => None
  end.
Definition model_rl (m : mode) (ct : content) (qs : list bq) : bool :=
  match rl_of m ct with
  | Some (Ok v) => forallb (model_rl_bq m v) qs
  | Some _ => false
  | None => forallb (fun q => match q with
                              | QCounts o => not_made o | QGet _ o => not_made o | QRank _ o => not_made o
                              | QRank0 _ o => not_made o | QSel _ _ o => not_made o | QSelIter _ _ o => not_made o
                              | QPred _ o => not_made o | QSucc _ o => not_made o | QNth _ _ _ _ o => not_made o
                              | QBitNth _ _ _ o => not_made o | QNthJ _ _ _ _ o => not_made o end) qs
  end.

(* ---- SparseVector: the second observed result, against Model/Sparse.v on the vector rebuilt with the recorded width ---- *)
Definition ms {A} (eqb : A -> A -> bool) (f : unit -> res A) (o : o3 A) : bool :=
  match snd (fst o) with None => true | Some i => res_agree eqb (f tt) i end.
Definition sp_not_made {A} (o : o3 A) : bool := match snd (fst o) with None => true | Some _ => false end.

Definition model_sp_bq (sp : selpath) (m : mode) (v : Sparse.sparse) (q : bq) : bool :=
  match q with
  | QCounts o => ms n3_eqb (fun _ => C09Sparse.q_counts v) o
  | QGet i o => ms Bool.eqb (fun _ => Sparse.sv_get sp m v i) o
  | QRank i o => ms N.eqb (fun _ => Sparse.sv_rank sp m v i) o
  | QRank0 i o => ms N.eqb (fun _ => Sparse.sv_rank_zero sp m v i) o
  | QSel z r o => ms onat_eqb (fun _ => if z then Sparse.sv_select_zero sp m v r else Sparse.sv_select sp m v r) o
  | QSelIter z r o => ms seli_eqb (fun _ => C09Sparse.q_sel_iter sp m v z r) o
  | QPred x o => ms onn_eqb (fun _ => C09Sparse.q_pred sp m v x) o
  | QSucc x o => ms onn_eqb (fun _ => C09Sparse.q_succ sp m v x) o
  (* ZeroIter is forward only: nth_back / next_back do not exist *)
  | QNth z back k n o =>
      if z then (if back then sp_not_made o else ms (nth_eqb nn_eqb) (fun _ => C09Sparse.q_zero_nth m v k n) o)
      else ms (nth_eqb nn_eqb) (fun _ => C09Sparse.q_one_nth m v back k n) o
  | QBitNth back k n o => ms (nth_eqb Bool.eqb) (fun _ => C09Sparse.q_bit_nth m v back k n) o
  | QNthJ z j k n o => if z then sp_not_made o else ms (nth_eqb nn_eqb) (fun _ => C09Sparse.q_one_nth_j m v j k n) o
  end.

(* the SparseVector of a content, as the harness builds it, with low width sw *)
Definition sp_of_content (sp : selpath) (m : mode) (sw : N) (ct : content) : res Sparse.sparse :=
  match ct with
  | Bits len words => C09Sparse.build sp m sw len false (ones (bits_of len words))
  | Runs len runs => C09Sparse.build sp m sw len false (C09Sparse.positions_of_runs runs)
  | Multi len vals => C09Sparse.build sp m sw len true vals
  end.
Definition model_sp (sp : selpath) (m : mode) (sw : N) (ct : content) (qs : list bq) : bool :=
  match sp_of_content sp m sw ct with
  | Ok v => forallb (model_sp_bq sp m v) qs
  | _ => false
  end.

Definition model_ivq (v : res intvec) (q : ivq) : bool :=
  match q with
  | IGetOr i d o => res_agree N.eqb (let* x := v in iv_get_or x i d) o
  | IIterNth _ _ _ _ => true
  end.

Definition is_some {A} (o : option A) : bool := match o with Some _ => true | None => false end.
Definition accepted (r : res (rlb * outcome)) : res bool :=
  let* (_, oc) := r in Ok (match oc with Accepted => true | Rejected => false end).

Definition model_ctor (m : mode) (kind a b : N) : res bool :=
  match kind with
  | 0 => Ok (is_some (iv_new a))
  | 1 => Ok (is_some (iv_with_len a b 1))
  | 2 => Ok (is_some (iv_with_capacity a b))
  | 3 => Ok (width_ok a)
  | 4 => Ok (width_ok a)
  | 5 => Ok (is_some (sb_make (NewS a b)))
  | 6 => accepted (rl_try_set m rl_init a b)
  | 7 => accepted (let* (b1, _) := rl_try_set m rl_init 10 5 in rl_try_set m b1 a b)
  | _ => Panic PDoc
  end.

(* ---- WaveletMatrix / WMCore: rebuilt by the model from the value list (Check/C09WM.v); the matrix calls occur
   only in cases where the harness built a matrix ---- *)
Definition model_wq (sp : selpath) (m : mode) (core : WM.wmcore) (ow : option WM.wmatrix) (q : wq) : bool :=
  let on {A} (f : WM.wmatrix -> res A) : res A := match ow with Some w => f w | None => Panic PDoc end in
  match q with
  | WRank i v o => res_agree N.eqb (on (fun w => WM.wm_rank m w i v)) o
  | WSel r v o => res_agree onat_eqb (on (fun w => WM.wm_select sp m w r v)) o
  | WSelIter r v o => res_agree onn_eqb (on (fun w => C09WM.q_first sp m w (Ok (WM.wm_select_iter r v)))) o
  | WInv i o => res_agree onn_eqb (on (fun w => WM.wm_inverse_select m w i)) o
  | WContains v o => res_agree Bool.eqb (on (fun w => WM.wm_contains w v)) o
  | WPred i v o => res_agree onn_eqb (on (fun w => C09WM.q_first sp m w (WM.wm_predecessor m w i v))) o
  | WSucc i v o => res_agree onn_eqb (on (fun w => C09WM.q_first sp m w (WM.wm_successor m w i v))) o
  | WValNth v n o => res_agree (pair_eqb onn_eqb onn_eqb) (on (fun w => C09WM.q_val_nth sp m w v n)) o
  | WGetOr i d o => res_agree N.eqb (on (fun w => C09WM.q_get_or m w i d)) o
  | WIterNth back k n o => res_agree (nth_eqb N.eqb) (on (fun w => C09WM.q_iter_nth m w back k n)) o
  | MDown i o => res_agree onn_eqb (WM.wc_map_down m core i) o
  | MDownWith i v o => res_agree N.eqb (WM.wc_map_down_with m core i v) o
  | MDown2 i j v o => res_agree nn_eqb (WM.wc_map_down_with_two m core i j v) o
  | MUpWith i v o => res_agree onat_eqb (WM.wc_map_up_with sp m core i v) o
  end.
Definition model_wm (sp : selpath) (m : mode) (has_wm : bool) (vals : list N) (r_len r_width : N) (qs : list wq) : bool :=
  match C09WM.build sp m has_wm vals with
  | Ok (core, ow) =>
      res_agree N.eqb (WM.wc_len core) (IOk r_len) && (WM.wc_width core =? r_width) && forallb (model_wq sp m core ow) qs
  | _ => false
  end.

(* ================================================================ check *)

Definition check (c : case) : N :=
  match c with
  | CSeq path dbg ct qs =>
      let sp := sp_of path in let m := mode_of dbg in
      let m_ok :=
        match ct with
        | Bits len words =>
            match bv_enable_all sp m (bv_from_raw (mkraw len words)) with
            | Ok b => forallb (model_bq sp m b) qs
            | _ => false
            end
        | _ => true
        end && model_rl m ct qs in
      let O := oracle_of ct in
      code m_ok (forallb (spec_bq O) qs)
  | CSeqS sw path dbg ct qs =>
      let sp := sp_of path in let m := mode_of dbg in
      let m_ok :=
        match ct with
        | Bits len words =>
            match bv_enable_all sp m (bv_from_raw (mkraw len words)) with
            | Ok b => forallb (model_bq sp m b) qs
            | _ => false
            end
        | _ => true
        end && model_rl m ct qs && model_sp sp m sw ct qs in
      code m_ok (forallb (spec_bq (oracle_of ct)) qs)
  | CWM path dbg has_wm vals r_len r_width qs =>
      let w := w_width vals in
      code (model_wm (sp_of path) (mode_of dbg) has_wm vals r_len r_width qs)
           ((r_len =? lenN vals) && (r_width =? w) && forallb (spec_wq vals w) qs)
  | CIV dbg width vals qs =>
      let v := match iv_new width with Some v0 => iv_push_all v0 vals | None => Panic PDoc end in
      code (forallb (model_ivq v) qs) (forallb (spec_ivq vals) qs)
  | CCtor dbg kind a b o =>
      code (res_agree Bool.eqb (model_ctor (mode_of dbg) kind a b) o)
           (match spec_ctor kind a b with Some x => okr Bool.eqb x o | None => false end)
  | CCrash _ => 3
  | CDied _ => 3
  end.

(* for replays: the positions of the calls of a case that disagree, as (index, agrees with model, agrees with spec) *)
Fixpoint tag {A} (f g : A -> bool) (l : list A) (i : N) : list (N * bool * bool) :=
  match l with
  | [] => []
  | x :: t => let r := tag f g t (i + 1) in if f x && g x then r else (i, f x, g x) :: r
  end.
Definition explain (c : case) : list (N * bool * bool) :=
  match c with
  | CSeq path dbg ct qs =>
      let sp := sp_of path in let m := mode_of dbg in
      let O := oracle_of ct in
      match ct with
      | Bits len words =>
          match bv_enable_all sp m (bv_from_raw (mkraw len words)), rl_of m ct with
          | Ok b, Some (Ok v) => tag (fun q => model_bq sp m b q && model_rl_bq m v q) (spec_bq O) qs 0
          | _, _ => tag (fun _ => false) (spec_bq O) qs 0
          end
      | _ =>
          match rl_of m ct with
          | Some (Ok v) => tag (model_rl_bq m v) (spec_bq O) qs 0
          | Some _ => tag (fun _ => false) (spec_bq O) qs 0
          | None => tag (fun _ => true) (spec_bq O) qs 0
          end
      end
  | CSeqS sw path dbg ct qs =>
      let sp := sp_of path in let m := mode_of dbg in
      let f_bv := match ct with
                  | Bits len words => match bv_enable_all sp m (bv_from_raw (mkraw len words)) with
                                      | Ok b => model_bq sp m b | _ => fun _ => false end
                  | _ => fun _ => true
                  end in
      let f_rl := match rl_of m ct with Some (Ok v) => model_rl_bq m v | Some _ => fun _ => false | None => fun _ => true end in
      let f_sp := match sp_of_content sp m sw ct with Ok v => model_sp_bq sp m v | _ => fun _ => false end in
      tag (fun q => f_bv q && f_rl q && f_sp q) (spec_bq (oracle_of ct)) qs 0
  | CWM path dbg has_wm vals r_len r_width qs =>
      match C09WM.build (sp_of path) (mode_of dbg) has_wm vals with
      | Ok (core, ow) => tag (model_wq (sp_of path) (mode_of dbg) core ow) (spec_wq vals (w_width vals)) qs 0
      | _ => tag (fun _ => false) (spec_wq vals (w_width vals)) qs 0
      end
  | CIV dbg width vals qs => tag (fun _ => true) (spec_ivq vals) qs 0
  | _ => []
  end.
