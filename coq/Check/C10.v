(* Correspondence check for C10: call strings run on the crate's iterators.
   A case holds the structure by its defining input, the entry point, the reference sequence the
   harness computed naively in Rust, and for each call string every output the real iterator gave.
     spec side : (a) the harness's reference sequence equals Spec/IterRefs.v on the defining input;
                 (b) the deque specification (Spec/Deque.v) run over it reproduces every output; only
                     calls the iterator type implements occur (forward-only types: Next / Nth / Len;
                     types without an exact size: no Len).
     model side: the models that exist (AccessIter / IntoIter over IntVector, bit_vector::Iter,
                 bit_vector::OneIter<Identity|Complement> from every entry point, and the four iterators
                 of the run-length vector - Model/RL.v + Model/RLIters.v - on the vector rebuilt by the
                 model's builder with the harness's calls; ValueIter / IntoIter / AccessIter of the wavelet
                 matrix - Model/WM.v + Model/WMIters.v - on the matrix rebuilt by the model's From<Vec<T>>;
                 and the three iterators of the sparse vector - Model/Sparse.v + Model/SparseIters.v - on the
                 vector rebuilt with the recorded low width: cases CIterS / CExhS) replayed on the same calls. *)
From Coq Require Import NArith List Bool.
Require Import SDS.Model.Mach SDS.Model.Bits SDS.Model.Raw SDS.Model.IntVec SDS.Model.BitVec SDS.Model.Iters.
Require Export SDS.Spec.Deque SDS.Spec.IterRefs.
Require Import SDS.Spec.BitSeq SDS.Check.Common.
Require SDS.Model.RL SDS.Model.RLIters.   (* qualified: Model/RL.v reuses record names of Model/BitVec.v *)
Require SDS.Model.WM SDS.Model.WMIters SDS.Check.WMBuild.   (* qualified: the wavelet matrix rebuilt by Model/WM.v *)
Require SDS.Model.Sparse SDS.Model.SparseIters.   (* qualified as well *)
Import ListNotations.
Open Scope N_scope.

(* what the implementation returned for one call *)
Inductive obs :=
| ONo                              (* None *)
| OIt (a b : N)                    (* Some(item), encoded as in IterRefs *)
| OLen (lo : N) (hi : option N)    (* size_hint() *)
| OPanic (k : N).                  (* the call panicked (class k); the string ends here *)

Inductive case :=
(* path: 0 = BMI2 build, 1 = portable; dbg: overflow checks on *)
| CIter (path : N) (dbg : bool) (s : src) (e : entry) (ref : list (N * N)) (runs : list (list call * list obs))
(* the 256 call strings [exh_calls] in their fixed order; only the outputs are listed *)
| CExh (path : N) (dbg : bool) (s : src) (e : entry) (ref : list (N * N)) (outs : list (list obs))
(* the same two for a SparseVector, with the low width w the crate chose (read from its serialization: the f64
   width rule is an oracle argument of Model/Sparse.v) *)
| CIterS (w : N) (path : N) (dbg : bool) (s : src) (e : entry) (ref : list (N * N)) (runs : list (list call * list obs))
| CExhS (w : N) (path : N) (dbg : bool) (s : src) (e : entry) (ref : list (N * N)) (outs : list (list obs))
(* building the structure or opening / driving one of its iterators panicked outside a recorded call (class k) *)
| CCrash (s : src) (k : N).

Definition sp_of (path : N) : selpath := if path =? 0 then Pdep else Portable.
Definition mode_of (dbg : bool) : mode := if dbg then Debug else Release.

(* ---- exhaustive call strings: 4 calls over {next, next_back, nth(1), nth_back(1)}, then a tail that
   exhausts any iterator that had at most 5 items (each of the 4 calls consumes one) and keeps calling ---- *)
Definition exh_alpha : list call := [Next; NextBack; Nth 1; NthBack 1].
Definition exh_tail : list call := [Len; Next; Next; Len; NextBack; Nth 0; NthBack 0; Len].
Definition exh_calls : list (list call) :=
  flat_map (fun c1 => flat_map (fun c2 => flat_map (fun c3 => map (fun c4 => [c1; c2; c3; c4] ++ exh_tail)
    exh_alpha) exh_alpha) exh_alpha) exh_alpha.

(* ---- agreement of outputs ---- *)
Definition obs_agree (o : out (N * N)) (x : obs) : bool :=
  match o, x with
  | Item None, ONo => true
  | Item (Some (a, b)), OIt c d => (a =? c) && (b =? d)
  | Count n, OLen lo (Some hi) => (n =? lo) && (n =? hi)
  | _, _ => false
  end.
Fixpoint all_agree (os : list (out (N * N))) (xs : list obs) : bool :=
  match os, xs with
  | [], [] => true
  | o :: t, x :: u => obs_agree o x && all_agree t u
  | _, _ => false
  end.

Definition out_map {A B} (f : A -> B) (o : out A) : out B :=
  match o with Item None => Item None | Item (Some x) => Item (Some (f x)) | Count n => Count n end.

(* ---- spec side ---- *)

(* (double-ended, advertises an exact size) *)
Definition caps (s : src) (e : entry) : bool * bool :=
  match s, e with
  | SBits _ _, _ => (true, true)
  | SSparse _ _, (EZero | ESelectZero _) => (false, true)
  | SSparse _ _, _ => (true, true)
  | SRL _ _, ERuns => (false, false)
  | SRL _ _, _ => (false, true)
  | SInts _ _, EInto => (false, true)
  | SInts _ _, _ => (true, true)
  | SWM _, EIter => (true, true)
  | SWM _, EInto => (false, true)
  | SWM _, _ => (false, false)
  end.

Definition call_allowed (cp : bool * bool) (c : call) : bool :=
  match c with
  | NextBack | NthBack _ => fst cp
  | Len => snd cp
  | _ => true
  end.

Definition spec_run (cp : bool * bool) (ref : list (N * N)) (r : list call * list obs) : bool :=
  forallb (call_allowed cp) (fst r) && all_agree (snd (dq_run ref (fst r))) (snd r).

Definition spec_ok (s : src) (e : entry) (ref : list (N * N)) (runs : list (list call * list obs)) : bool :=
  opt_eqb nnlist_eqb (ref_of s e) (Some ref) && forallb (spec_run (caps s e) ref) runs.

(* ---- model side ---- *)

Definition run_agrees {St A} (step : St -> call -> res (St * out A)) (enc : A -> N * N) (s0 : St)
           (r : list call * list obs) : bool :=
  match it_run step s0 (fst r) with
  | Ok (_, os) => all_agree (map (out_map enc) os) (snd r)
  | _ => false
  end.

Definition needs_supports (e : entry) : bool :=
  match e with ESelect _ | ESelectZero _ | EPred _ | ESucc _ => true | _ => false end.

Definition model_ok (sp : selpath) (m : mode) (s : src) (e : entry) (runs : list (list call * list obs)) : bool :=
  match s with
  | SInts w xs =>
      match iv_from w xs with
      | Ok v =>
          match e with
          | EIter => forallb (run_agrees (ai_step v) enc_item (ai_start v)) runs
          | EInto => forallb (run_agrees (ivinto_step v) enc_item 0) runs
          | _ => false
          end
      | _ => false
      end
  | SBits len words =>
      let b0 := bv_from_raw (mkraw len words) in
      match e with
      | EIter => forallb (run_agrees (bi_step b0) enc_bool (bi_start b0)) runs
      | _ =>
          match (if needs_supports e then bv_enable_all sp m b0 else Ok b0) with
          | Ok b =>
              match oi_entry sp m b e with
              | Some (tr, Ok it) => forallb (run_agrees (oi_step sp m tr b) (fun x => x) it) runs
              | _ => false
              end
          | _ => false
          end
      end
  | SRL len rl_runs =>
      (* RLBuilder::new(); try_set(s, l).unwrap() per run; set_len(len); RLVector::from *)
      match RL.rl_build m (map (fun r => RL.BTrySet (fst r) (snd r)) rl_runs ++ [RL.BSetLen len]) with
      | Ok (v, oks) =>
          forallb (fun x => x) oks &&
          match e with
          | ERuns =>
              match RL.rl_run_iter v with
              | Ok it => forallb (run_agrees (RLIters.rl_ri_step m v) (fun x => x) it) runs
              | _ => false
              end
          | EIter =>
              match RL.rl_iter v with
              | Ok it => forallb (run_agrees (RLIters.rl_bi_step m v) enc_bool it) runs
              | _ => false
              end
          | _ =>
              match RLIters.rl_oi_entry m v e, RLIters.rl_zi_entry m v e with
              | Some (Ok it), _ => forallb (run_agrees (RLIters.rl_oi_step m v) (fun x => x) it) runs
              | None, Some (Ok it) => forallb (run_agrees (RLIters.rl_zi_step m v) (fun x => x) it) runs
              | _, _ => false
              end
          end
      | _ => false
      end
  | SWM xs =>
      (* WaveletMatrix::from(xs), rebuilt by the model (Check/WMBuild.v) *)
      match WMBuild.build_wm sp m xs with
      | Ok w =>
          match e with
          | EIter => forallb (run_agrees (WMIters.wm_ai_step m w) enc_item (WMIters.wm_ai_start w)) runs
          | EInto => forallb (run_agrees (WMIters.wm_into_step m w) enc_item 0) runs
          | _ =>
              match WMIters.wm_vi_entry m w e with
              | Some (Ok it) => forallb (run_agrees (WMIters.wm_vi_step sp m w) (fun x => x) it) runs
              | _ => false
              end
          end
      | _ => false
      end
  | _ => true   (* sparse: see model_sparse below (cases CIterS / CExhS);  *)
  end.

(* SparseVector: rebuilt by Model/Sparse.v as the harness builds it (SparseBuilder::multiset when two neighbours of the
   sorted value list are equal, SparseBuilder::new otherwise; set per value; try_from) with the recorded low width;
   the iterators are the step functions of Model/SparseIters.v (the subject of Props/C10_sparse.v) *)
Fixpoint dup_neighbours (l : list N) : bool :=
  match l with
  | a :: (b :: _) as t => (a =? b) || dup_neighbours t
  | _ => false
  end.
Definition model_sparse (sp : selpath) (m : mode) (w : N) (s : src) (e : entry) (runs : list (list call * list obs)) : bool :=
  match s with
  | SSparse len vs =>
      match Sparse.unwrap_sum (if dup_neighbours vs then Sparse.sv_build_multiset sp m w len vs
                               else Sparse.sv_build_set sp m w len vs) with
      | Ok sv =>
          match e with
          | EIter =>
              match Sparse.sv_iter_new m sv with
              | Ok it => forallb (run_agrees (SparseIters.sp_bi_step m sv) enc_bool it) runs
              | _ => false
              end
          | _ =>
              match SparseIters.sp_oi_entry sp m sv e, SparseIters.sp_zi_entry sp m sv e with
              | Some (Ok it), _ => forallb (run_agrees (SparseIters.sp_oi_step m sv) (fun x => x) it) runs
              | None, Some (Ok it) => forallb (run_agrees (SparseIters.sp_zi_step m sv) (fun x => x) it) runs
              | _, _ => false
              end
          end
      | _ => false
      end
  | _ => false
  end.

Definition runs_of_case (c : case) : list (list call * list obs) :=
  match c with
  | CIter _ _ _ _ _ runs | CIterS _ _ _ _ _ _ runs => runs
  | CExh _ _ _ _ _ outs | CExhS _ _ _ _ _ _ outs => combine exh_calls outs
  | CCrash _ _ => []
  end.

Definition check (c : case) : N :=
  match c with
  | CIter path dbg s e ref runs =>
      code (model_ok (sp_of path) (mode_of dbg) s e runs) (spec_ok s e ref runs)
  | CExh path dbg s e ref outs =>
      let runs := combine exh_calls outs in
      code (model_ok (sp_of path) (mode_of dbg) s e runs)
           (spec_ok s e ref runs && (N.of_nat (length outs) =? 256))
  | CIterS w path dbg s e ref runs =>
      code (model_sparse (sp_of path) (mode_of dbg) w s e runs) (spec_ok s e ref runs)
  | CExhS w path dbg s e ref outs =>
      let runs := combine exh_calls outs in
      code (model_sparse (sp_of path) (mode_of dbg) w s e runs)
           (spec_ok s e ref runs && (N.of_nat (length outs) =? 256))
  | CCrash _ _ => 3
  end.

(* for replays: the reference by the spec, and per call string the spec's outputs *)
Definition explain (c : case) :=
  match c with
  | CIter _ _ s e ref _ | CExh _ _ s e ref _ | CIterS _ _ _ s e ref _ | CExhS _ _ _ s e ref _ =>
      (ref_of s e, map (fun r => (fst r, snd (dq_run ref (fst r)), snd r)) (runs_of_case c))
  | CCrash _ _ => (None, [])
  end.
