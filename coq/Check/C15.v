(* C15 shares the correspondence check of C02 (same case type; the harness emits the multiset cases). *)
Require Export SDS.Check.C02.
