(* Correspondence for the "objects" family of C08 (case constructor CObj of Check/C08.v): the safe entry points of
   Transformation (Identity / Complement), RankSupport and SelectSupport<T>, called directly on a parent bitvector
   (len, words) with supports built by `new` from the parent itself (own) and from ANOTHER bitvector (other).
   model side (bit 1): Model/BitVecObj.v replayed in the build's mode and select path ends every call the same way
                       (value, panic class, OOB <-> hook class 9);
   spec side  (bit 2): from the bits alone - no call ends in the hook; a word / bit / rank index whose word lies
                       behind the parent's buffer must panic (a returned value could only come from outside);
                       an in-range bit / word, and an in-range rank / select with the parent's own support, is the
                       naive answer. Everything else (documented "may panic") is not asserted either way. *)
From Coq Require Import NArith List Bool.
Require Import SDS.Model.Mach SDS.Model.Bits SDS.Model.Raw SDS.Model.IntVec SDS.Model.BitVec SDS.Model.BitVecObj.
Require Import SDS.Spec.BitSeq SDS.Check.Common.
Import ListNotations.
Open Scope N_scope.

(* z: the Complement variant; own: the support built from the parent (true) or from the other vector (false) *)
Inductive ocall :=
| OBit (z : bool) (i : N) (o : ires bool)                 (* T::bit(parent, i) *)
| OWord (z : bool) (k : N) (o : ires N)                   (* T::word(parent, k) *)
| OCount (z : bool) (o : ires N)                          (* T::count_ones(parent) *)
| OIter3 (z : bool) (o : ires (list (N * N)))             (* T::one_iter(parent).take(3) *)
| OBlocks (own : bool) (o : ires N)                       (* RankSupport::blocks *)
| OSuper (own z : bool) (o : ires (N * (N * N)))          (* superblocks, long_superblocks, short_superblocks *)
| ORank (own : bool) (i : N) (o : ires N)                 (* RankSupport::rank(parent, i) *)
| OSel (own z : bool) (r : N) (o : ires N).               (* SelectSupport::<T>::select(parent, r) *)

Definition otr (z : bool) : transf := if z then Complement else Identity.

(* the three supports `new` builds from one bitvector *)
Record osup := mkosup { os_rank : res rank_support; os_sel : res select_support; os_sel0 : res select_support }.
Definition build_osup (sp : selpath) (m : mode) (b : bitvec) : osup :=
  mkosup (rank_new b) (select_new sp m Identity b) (select_new sp m Complement b).
Definition osel (s : osup) (z : bool) : res select_support := if z then os_sel0 s else os_sel s.
Definition with_ok {A} (r : res A) (f : A -> bool) : bool := match r with Ok a => f a | _ => false end.
Definition n3_eqb := pair_eqb N.eqb nn_eqb.

Definition model_ocall (sp : selpath) (m : mode) (b : bitvec) (own other : osup) (c : ocall) : bool :=
  let pick (o : bool) := if o then own else other in
  match c with
  | OBit z i o => res_agree Bool.eqb (t_bit (otr z) b i) o
  | OWord z k o => res_agree N.eqb (t_word (otr z) b k) o
  | OCount z o => res_agree N.eqb (Ok (t_count_ones (otr z) b)) o
  | OIter3 z o => res_agree nnlist_eqb (oi_collect (otr z) b 3 (oi_start (otr z) b)) o
  | OBlocks ow o => with_ok (os_rank (pick ow)) (fun rs => res_agree N.eqb (Ok (rs_blocks rs)) o)
  | OSuper ow z o =>
      with_ok (osel (pick ow) z) (fun s =>
        res_agree n3_eqb (Ok (ss_superblocks s, (ss_long_superblocks s, ss_short_superblocks s))) o)
  | ORank ow i o => with_ok (os_rank (pick ow)) (fun rs => res_agree N.eqb (rank_checked m rs b i) o)
  | OSel ow z r o => with_ok (osel (pick ow) z) (fun s => res_agree N.eqb (select_checked sp m (otr z) s b r) o)
  end.

(* ---- spec side: lists of bits and positions only ---- *)

Definition o_not9 {A} (o : ires A) : bool := match o with IPanic k => negb (k =? 9) | IOk _ => true end.
Definition o_panics {A} (o : ires A) : bool := match o with IPanic k => negb (k =? 9) | IOk _ => false end.
Definition o_is {A} (eqb : A -> A -> bool) (v : A) (o : ires A) : bool :=
  match o with IOk x => eqb v x | IPanic _ => false end.

(* number of positions below i in an increasing list *)
Fixpoint o_below (l : list N) (i : N) : N :=
  match l with [] => 0 | p :: t => if p <? i then 1 + o_below t i else 0 end.

(* word k of a bit list, false beyond its end *)
Definition o_word (B : list bool) (k : N) : N := bits_to_N (firstn 64 (skipn (N.to_nat (64 * k)) B)).

(* what is known about one vector: its bits, the positions of the ones and of the zeros *)
Record oinfo := mkoinfo { ox_B : list bool; ox_os : list N; ox_zs : list N }.
Definition oinfo_of (len : N) (words : list N) : oinfo :=
  let B := bits_of len words in mkoinfo B (ones B) (zeros B).
Definition o_pos (x : oinfo) (z : bool) : list N := if z then ox_zs x else ox_os x.

Definition spec_ocall (p q : oinfo) (c : ocall) : bool :=
  let len := lenB (ox_B p) in
  let nw := (len + 63) / 64 in
  let vec (o : bool) := if o then p else q in
  match c with
  | OBit z i o =>
      o_not9 o &&
      (if i <? len then o_is Bool.eqb (xorb z (nth (N.to_nat i) (ox_B p) false)) o
       else if 64 * nw <=? i then o_panics o else true)
  | OWord z k o =>
      o_not9 o &&
      (if k <? nw then o_is N.eqb (o_word (if z then map negb (ox_B p) else ox_B p) k) o else o_panics o)
  | OCount z o => o_is N.eqb (N.of_nat (length (o_pos p z))) o
  | OIter3 z o => o_is nnlist_eqb (firstn 3 (index_from (o_pos p z) 0)) o
  | OBlocks ow o => o_is N.eqb ((lenB (ox_B (vec ow)) + 511) / 512) o
  | OSuper ow z o =>
      match o with
      | IOk (sb, (l, s)) => (sb =? (N.of_nat (length (o_pos (vec ow) z)) + 4095) / 4096) && (sb =? l + s)
      | IPanic _ => false
      end
  | ORank ow i o =>
      o_not9 o &&
      (if nw <=? i / 64 then o_panics o else true) &&
      (if ow && (i <? len) then o_is N.eqb (o_below (ox_os p) i) o else true)
  | OSel ow z r o =>
      o_not9 o &&
      (if ow then match nth_opt (o_pos p z) r with Some x => o_is N.eqb x o | None => true end else true)
  end.

Definition check_obj (sp : selpath) (m : mode) (len : N) (words : list N) (slen : N) (swords : list N)
           (calls : list ocall) : N :=
  let b := bv_from_raw (mkraw len words) in
  let own := build_osup sp m b in
  let other := build_osup sp m (bv_from_raw (mkraw slen swords)) in
  let p := oinfo_of len words in
  let q := oinfo_of slen swords in
  code (forallb (model_ocall sp m b own other) calls) (forallb (spec_ocall p q) calls).

Definition explain_obj (sp : selpath) (m : mode) (len : N) (words : list N) (slen : N) (swords : list N)
           (calls : list ocall) : list bool :=
  let b := bv_from_raw (mkraw len words) in
  let own := build_osup sp m b in
  let other := build_osup sp m (bv_from_raw (mkraw slen swords)) in
  let p := oinfo_of len words in
  let q := oinfo_of slen swords in
  map (fun c => model_ocall sp m b own other c && spec_ocall p q c) calls.
