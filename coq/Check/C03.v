(* Correspondence check for C03: the run-length vector built through the RLBuilder API, its runs, its serialized
   elements and its queries against Model/RL.v, and the answers against the naive run-list specification
   (Spec/Runs.v; the spec side uses neither the model nor gen/). *)
From Coq Require Import NArith List Bool.
Require Import SDS.Model.Mach SDS.Model.IntVec SDS.Model.RL.
Require Export SDS.Spec.Runs.
Require Import SDS.Check.Common.
Import ListNotations.
Open Scope N_scope.

Inductive query :=
| QGet (i : N) (out : ires bool)
| QRank (i : N) (out : ires N)
| QRank0 (i : N) (out : ires N)
| QSel (r : N) (out : ires (option N))
| QSel0 (r : N) (out : ires (option N))
(* first item of predecessor(v) / successor(v) *)
| QPred (v : N) (out : ires (option (N * N)))
| QSucc (v : N) (out : ires (option (N * N)))
(* the first n items of an iterator and its size_hint after them *)
| QSelIter (r n : N) (out : ires (list (N * N) * N))
| QSel0Iter (r n : N) (out : ires (list (N * N) * N))
| QOneIter (n : N) (out : ires (list (N * N) * N))
| QZeroIter (n : N) (out : ires (list (N * N) * N))
| QIter (n : N) (out : ires (list bool * N)).

Inductive case :=
(* dbg: overflow checks on; ops: the builder calls; built: Ok/Err of every call, or the panic class of the
   construction (builder calls + RLVector::from); then len / count_ones / count_zeros, run_iter() with
   (offset(), rank()) after each item, the serialized elements, and the queries *)
| CRL (dbg : bool) (ops : list sop) (built : ires (list bool)) (len ones zeros : N)
      (runs : list (N * N * (N * N))) (ser : list N) (qs : list query).

Definition mode_of (dbg : bool) : mode := if dbg then Debug else Release.

Definition bop_of (o : sop) : bop :=
  match o with STrySet s l => BTrySet s l | SSetLen l => BSetLen l | SSetBit i => BSetBit i end.

Definition run4_eqb := pair_eqb nn_eqb nn_eqb.
Definition obool_eqb := opt_eqb Bool.eqb.
Definition ln_eqb := pair_eqb nnlist_eqb N.eqb.
Definition lb_eqb := pair_eqb blist_eqb N.eqb.

Definition first_item (m : mode) (v : rlvec) (it : res oneiter) : res (option (N * N)) :=
  let* s := it in let* (_, r) := oi_next m v s in Ok r.

Definition oi_prefix (m : mode) (v : rlvec) (n : N) (it : res oneiter) : res (list (N * N) * N) :=
  let* s := it in
  let* l := oi_take (N.to_nat n) m v s in
  (* size_hint after the items: replay the calls to get the state *)
  let* s' := (fix go (k : nat) (s : oneiter) : res oneiter :=
               match k with O => Ok s | S k' => let* (s1, _) := oi_next m v s in go k' s1 end) (length l) s in
  Ok (l, oi_size_hint v s').
Definition zi_prefix (m : mode) (v : rlvec) (n : N) (it : res zeroiter) : res (list (N * N) * N) :=
  let* s := it in
  let* l := zi_take (N.to_nat n) m v s in
  let* s' := (fix go (k : nat) (s : zeroiter) : res zeroiter :=
               match k with O => Ok s | S k' => let* (s1, _) := zi_next m v s in go k' s1 end) (length l) s in
  Ok (l, zi_size_hint v s').
Definition bi_prefix (m : mode) (v : rlvec) (n : N) (it : res bititer) : res (list bool * N) :=
  let* s := it in
  let* l := bi_take (N.to_nat n) m v s in
  let* s' := (fix go (k : nat) (s : bititer) : res bititer :=
               match k with O => Ok s | S k' => let* (s1, _) := bi_next m v s in go k' s1 end) (length l) s in
  Ok (l, bi_size_hint v s').

Definition model_query (m : mode) (v : rlvec) (q : query) : bool :=
  match q with
  | QGet i out => res_agree Bool.eqb (rl_get m v i) out
  | QRank i out => res_agree N.eqb (rl_rank m v i) out
  | QRank0 i out => res_agree N.eqb (rl_rank_zero m v i) out
  | QSel r out => res_agree onat_eqb (rl_select m v r) out
  | QSel0 r out => res_agree onat_eqb (rl_select_zero m v r) out
  | QPred x out => res_agree onn_eqb (first_item m v (rl_predecessor m v x)) out
  | QSucc x out => res_agree onn_eqb (first_item m v (rl_successor m v x)) out
  | QSelIter r n out => res_agree ln_eqb (oi_prefix m v n (rl_select_iter m v r)) out
  | QSel0Iter r n out => res_agree ln_eqb (zi_prefix m v n (rl_select_zero_iter m v r)) out
  | QOneIter n out => res_agree ln_eqb (oi_prefix m v n (rl_one_iter v)) out
  | QZeroIter n out => res_agree ln_eqb (zi_prefix m v n (rl_zero_iter m v)) out
  | QIter n out => res_agree lb_eqb (bi_prefix m v n (rl_iter v)) out
  end.

Definition is_val {A} (eqb : A -> A -> bool) (out : ires A) (x : A) : bool :=
  match out with IOk y => eqb y x | IPanic _ => false end.

(* R: the maximal runs, L: the length, O: the number of set bits *)
Definition spec_query (R : list run) (L O : N) (q : query) : bool :=
  match q with
  | QGet i out => is_val Bool.eqb out (runs_get R i)
  | QRank i out => is_val N.eqb out (runs_rank R i)
  | QRank0 i out => is_val N.eqb out (i - runs_rank R i)
  | QSel r out => is_val onat_eqb out (runs_select R r)
  | QSel0 r out => is_val onat_eqb out (runs_select_zero R L r)
  | QPred x out => is_val onn_eqb out (runs_pred R x)
  | QSucc x out => is_val onn_eqb out (runs_succ R x)
  | QSelIter r n out =>
      let l := ones_from_rank (N.to_nat n) R r in
      is_val ln_eqb out (l, O - N.min O (r + lenN l))
  | QSel0Iter r n out =>
      let l := zeros_from_rank (N.to_nat n) R L r in
      is_val ln_eqb out (l, (L - O) - N.min (L - O) (r + lenN l))
  | QOneIter n out =>
      let l := ones_from_rank (N.to_nat n) R 0 in is_val ln_eqb out (l, O - lenN l)
  | QZeroIter n out =>
      let l := zeros_from_rank (N.to_nat n) R L 0 in is_val ln_eqb out (l, (L - O) - lenN l)
  | QIter n out =>
      let l := bits_from (N.to_nat n) R L 0 in is_val lb_eqb out (l, L - lenN l)
  end.

Definition check (c : case) : N :=
  match c with
  | CRL dbg ops built len ones zeros runs ser qs =>
      let m := mode_of dbg in
      let m_ok :=
        match rl_build m (map bop_of ops), built with
        | Ok (v, oks), IOk oks' =>
            blist_eqb oks oks' && (rl_len v =? len) && (rl_ones v =? ones) && (rl_count_zeros v =? zeros)
            && res_agree (list_eqb run4_eqb) (rl_runs m v) (IOk runs)
            && nlist_eqb (rl_serialize v) ser
            && forallb (model_query m v) qs
        | Panic k, IPanic c => pk_code k =? c
        | _, _ => false
        end in
      let s_ok :=
        let '((R, L), oks) := spec_run ([], 0) ops in
        match built with
        | IOk oks' =>
            blist_eqb oks oks' && (L =? len) && (runs_ones R =? ones) && (L - runs_ones R =? zeros)
            && list_eqb run4_eqb (runs_with_pos 0 R) runs
            && forallb (spec_query R L (runs_ones R)) qs
        | IPanic _ => false      (* every accepted history must be constructible *)
        end in
      code m_ok s_ok
  end.

(* what model and spec say for a case (for replays) *)
Definition explain (c : case) :=
  match c with
  | CRL dbg ops built len ones zeros runs ser qs =>
      let m := mode_of dbg in
      let '((R, L), oks) := spec_run ([], 0) ops in
      (match rl_build m (map bop_of ops) with
       | Ok (v, oks) => (Some (oks, rl_len v, rl_ones v, rl_runs m v, nlist_eqb (rl_serialize v) ser), map (model_query m v) qs)
       | _ => (None, [])
       end,
       (R, L, oks, map (spec_query R L (runs_ones R)) qs))
  end.
