(* Correspondence check for C20 (supporting stress run): T threads x K calls of the real
   serialize::temp_file_name behind a barrier. Observed per run: the sorted multiset of counter values
   parsed from the returned file names, flags computed over ALL returned paths, a few complete names.
   Model side: the generated atomic program run under Spec/Sched.v for T*K calls from the observed start,
   and the names rendered from the generated format. Spec side: pairwise distinct, right number, every
   name contains its part. *)
From Coq Require Import NArith List Bool Ascii Lia Orders Mergesort.
Require Import SDS.gen.TempName SDS.Spec.Sched SDS.Model.TempFile SDS.Check.Common.
Import ListNotations.
Open Scope N_scope.

Inductive case :=
(* threads, calls per thread, counter value before the run (one sentinel call + 1), process id;
   runs: the sorted list of observed counts, run-length encoded as maximal (first, length) stretches of
         consecutive values (lossless: a repeated value starts a new stretch);
   in_tmp: every path lies directly under env::temp_dir();  has_part: every file name contains its name part;
   distinct: the returned paths are pairwise distinct as strings (hash set over all of them);
   samples: (name part, count, file name) as byte lists, a few per run *)
| CRun (threads calls start pid : N) (runs : list (N * N)) (in_tmp has_part distinct : bool)
       (samples : list (list N * N * list N))
(* the same with [others] further calls made meanwhile by the other public function that draws temporary names
   (serialize::test with remove = true, from [tthreads] more threads); their names are not observed *)
| CMixed (threads calls start pid : N) (tthreads others : N) (runs : list (N * N)) (in_tmp has_part distinct : bool).

Definition rangeN (s l : N) : list N :=
  rev (snd (N.iter l (fun xa : N * list N => (fst xa + 1, fst xa :: snd xa)) (s, []))).

Definition expand (runs : list (N * N)) : list N := flat_map (fun r => rangeN (fst r) (snd r)) runs.

Definition lenN' {A} (l : list A) : N := fold_left (fun a _ => a + 1) l 0.

Fixpoint strict_inc (l : list N) : bool :=
  match l with
  | a :: (b :: _) as t => (a <? b) && strict_inc t
  | _ => true
  end.

Module NLe <: TotalLeBool.
  Definition t := N.
  Definition leb := N.leb.
  Theorem leb_total : forall a1 a2, leb a1 a2 = true \/ leb a2 a1 = true.
  Proof.
    intros a1 a2. unfold leb. destruct (N.leb_spec a1 a2); [left; reflexivity|right].
    apply N.leb_le. lia.
  Qed.
End NLe.
Module NSort := Sort NLe.

(* round-robin schedule of whole calls: K rounds, in each round every thread performs one call *)
Definition round (nthreads : nat) (oplen : nat) : list nat :=
  flat_map (fun t => repeat t oplen) (seq 0 nthreads).
Definition round_robin (nthreads : nat) (oplen : nat) (calls : N) : list nat :=
  N.iter calls (fun acc => round nthreads oplen ++ acc) [].

(* naive substring test *)
Fixpoint prefixb (p s : list N) : bool :=
  match p, s with
  | [], _ => true
  | a :: p', b :: s' => (a =? b) && prefixb p' s'
  | _ :: _, [] => false
  end.
Fixpoint containsb (p s : list N) : bool :=
  prefixb p s || match s with [] => false | _ :: s' => containsb p s' end.

Definition sample_model_ok (pid : N) (smp : list N * N * list N) : bool :=
  match smp with
  | (part, count, name) =>
      match temp_name (map ascii_of_N part) pid count with
      | Some nm => nlist_eqb (map N_of_ascii nm) name
      | None => false
      end
  end.

Definition sample_spec_ok (obs : list N) (smp : list N * N * list N) : bool :=
  match smp with
  | (part, count, name) => containsb part name && existsb (N.eqb count) obs
  end.

Definition check (c : case) : N :=
  match c with
  | CRun threads calls start pid runs in_tmp has_part distinct samples =>
      let obs := expand runs in
      let total := threads * calls in
      let sched := round_robin (N.to_nat threads) (length temp_counter_ops) calls in
      let m_ok :=
        match run temp_counter_ops temp_count_from start (N.to_nat threads) sched with
        | Some st => nlist_eqb (NSort.sort (all_counts st)) obs
        | None => false
        end && forallb (sample_model_ok pid) samples in
      let s_ok :=
        strict_inc obs && (lenN' obs =? total) && in_tmp && has_part && distinct &&
        forallb (sample_spec_ok obs) samples in
      code m_ok s_ok
  | CMixed threads calls start pid tthreads others runs in_tmp has_part distinct =>
      let obs := expand runs in
      let total := threads * calls in
      (* model: every call of either function performs the generated atomic program once on the one counter, so
         the observed counts are distinct values of [start, start + total + others) (any interleaving: C20_unique) *)
      let m_ok := strict_inc obs && (lenN' obs =? total)
                  && forallb (fun c => (start <=? c) && (c <? start + total + others)) obs in
      let s_ok := strict_inc obs && (lenN' obs =? total) && in_tmp && has_part && distinct in
      code m_ok s_ok
  end.
