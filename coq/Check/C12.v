(* Correspondence check for C12: the files left by the real RawVectorWriter / IntVectorWriter against
   Model/Writer.v (model side) and against a naive bit-list encoding plus the crate's own in-memory
   serialization (spec side; uses neither the model nor gen/). *)
From Coq Require Import NArith List Bool.
Require Import SDS.Model.Mach SDS.Model.Raw SDS.Model.IntVec SDS.Model.Writer SDS.Spec.BitSeq SDS.Check.Common.
Import ListNotations.
Open Scope N_scope.

(* a push: one bit, or the low [w] bits of [v] *)
Inductive cop := OB (b : bool) | OI (v w : N).

(* how the writer was finished: 0 = close; 1 = close twice; 2 = dropped while open;
   3 = close, then the [extra] pushes into the closed writer.  In every case the writer is then dropped,
   [len] is len() read just before that drop, [file] the elements of the file afterwards.
   bl = Some n: with_buf_len(.., n); None: new(..) (default buffer size).
   mem = Serialize::serialize of the RawVector / IntVector built in memory by [ops] / [xs]. *)
Inductive case :=
| CRaw (dbg : bool) (bl : option N) (h0 h1 : list N) (ops : list cop) (how : N) (extra : list cop)
       (mem : list N) (out : ires (list N * N))
| CInt (dbg : bool) (bl : option N) (width : N) (xs : list N) (how : N) (extra : list N)
       (mem : list N) (out : ires (list N * N)).

Definition mode_of (dbg : bool) : mode := if dbg then Debug else Release.

(* ---- model side ---- *)

Definition to_wop (o : cop) : wop := match o with OB b => PBit b | OI v w => PInt v w end.

Definition finish_raw (how : N) (h1 : list N) (extra : list wop) (w1 : writer) : res (list N * N) :=
  match how with
  | 0 => let* w2 := w_close_with_header w1 h1 in let* w3 := w_drop w2 in Ok (wdisk w3, wlen w2)
  | 1 => let* w2 := w_close_with_header w1 h1 in let* w2' := w_close w2 in
         let* w3 := w_drop w2' in Ok (wdisk w3, wlen w2')
  | 2 => let* w3 := w_drop w1 in Ok (wdisk w3, wlen w1)
  | _ => let* w2 := w_close_with_header w1 h1 in let* w2' := w_run w2 extra in
         let* w3 := w_drop w2' in Ok (wdisk w3, wlen w2')
  end.

Definition model_raw (m : mode) (bl : option N) (h0 h1 : list N) (ops : list wop) (how : N) (extra : list wop)
  : res (list N * N) :=
  let* w0 := match bl with Some n => w_with_buf_len m h0 n | None => Ok (w_new h0) end in
  let* w1 := w_run w0 ops in
  finish_raw how h1 extra w1.

Definition finish_int (how : N) (extra : list N) (iw1 : iwriter) : res (list N * N) :=
  match how with
  | 0 => let* iw2 := iw_close iw1 in let* iw3 := iw_drop iw2 in Ok (wdisk (iww iw3), iwlen iw2)
  | 1 => let* iw2 := iw_close iw1 in let* iw2' := iw_close iw2 in
         let* iw3 := iw_drop iw2' in Ok (wdisk (iww iw3), iwlen iw2')
  | 2 => let* iw3 := iw_drop iw1 in Ok (wdisk (iww iw3), iwlen iw1)
  | _ => let* iw2 := iw_close iw1 in let* iw2' := iw_extend iw2 extra in
         let* iw3 := iw_drop iw2' in Ok (wdisk (iww iw3), iwlen iw2')
  end.

(* None: the constructor returned Err (invalid width) *)
Definition model_int (m : mode) (bl : option N) (width : N) (xs : list N) (how : N) (extra : list N)
  : option (res (list N * N)) :=
  match (match bl with Some n => iw_with_buf_len m width n | None => option_map Ok (iw_new width) end) with
  | None => None
  | Some r => Some (let* iw0 := r in let* iw1 := iw_extend iw0 xs in finish_int how extra iw1)
  end.

Definition out_eqb := pair_eqb nlist_eqb N.eqb.
Definition res_is {A} (eqb : A -> A -> bool) (r : res A) (x : A) : bool :=
  match r with Ok y => eqb y x | _ => false end.

(* ---- spec side: bits pushed, packed 64 per element, least significant first ---- *)

Definition vbits (v w : N) : list bool := firstn (N.to_nat w) (wbits v).
Definition cop_bits (o : cop) : list bool := match o with OB b => [b] | OI v w => vbits v w end.
Definition enc_bits (B : list bool) : list N := lenB B :: (lenB B + 63) / 64 :: words_of_bits B.

(* creation with a buffer of 2^63 bits or more is outside what any machine can hold; the API may panic there
   (IntVectorWriter::with_buf_len documents it); if it returns, the file must still be right *)
Definition huge (bits : N) : bool := 2 ^ 63 <=? bits.

Definition spec_ok (hugeb : bool) (file_mem file_enc : list N) (len_expected : N) (out : ires (list N * N)) : bool :=
  match out with
  | IOk (file, len) =>
      nlist_eqb file file_mem && nlist_eqb file file_enc && (len =? len_expected)
  | IPanic k => hugeb && negb (k =? 9)
  end.

Definition check (c : case) : N :=
  match c with
  | CRaw dbg bl h0 h1 ops how extra mem out =>
      let wops := map to_wop ops in
      let m_ok := res_agree out_eqb (model_raw (mode_of dbg) bl h0 h1 wops how (map to_wop extra)) out &&
                  res_is nlist_eqb (let* r := mem_run raw_new wops in Ok (raw_serialize r)) mem in
      let B := flat_map cop_bits ops in
      let s_ok := spec_ok (match bl with Some n => huge n | None => false end) (h1 ++ mem) (h1 ++ enc_bits B)
                          (lenB B + lenB (flat_map cop_bits extra)) out in
      code m_ok s_ok
  | CInt dbg bl width xs how extra mem out =>
      let m_ok := match model_int (mode_of dbg) bl width xs how extra with
                  | Some r => res_agree out_eqb r out
                  | None => false
                  end &&
                  res_is nlist_eqb (let* v := iv_from width xs in Ok (iv_serialize v)) mem in
      let B := flat_map (fun x => vbits x width) xs in
      let s_ok := (1 <=? width) && (width <=? 64) &&
                  spec_ok (match bl with Some n => huge (n * width) | None => false end)
                          mem (lenN xs :: width :: enc_bits B) (lenN xs + lenN extra) out in
      code m_ok s_ok
  end.
