(* Correspondence check for C04: WaveletMatrix / WMCore built by the real crate against Model/WM.v
   (construction replayed through the model, every observed answer and the serialized elements
   compared), and independently against the naive list specification Spec/Seq.v. *)
From Coq Require Import NArith List Bool.
Require Import SDS.Model.Mach SDS.Model.Bits SDS.Model.Raw SDS.Model.IntVec SDS.Model.BitVec SDS.Model.SerBV SDS.Model.WM.
Require Import SDS.Spec.BitSeq SDS.Spec.Seq SDS.Check.Common.
Import ListNotations.
Open Scope N_scope.

Inductive query :=
| QGet (i : N) (out : ires N)                                (* wm.get(i), only for i < len *)
| QRank (i v : N) (out : ires N)
| QSel (r v : N) (out : ires (option N))
| QInv (i : N) (out : ires (option (N * N)))
| QContains (v : N) (out : ires bool)
| QPred (i v k : N) (out : ires (list (N * N)))              (* predecessor(i, v).take(k) *)
| QSucc (i v k : N) (out : ires (list (N * N)))
| QValIter (v k : N) (out : ires (list (N * N)))             (* value_iter(v).take(k), value_of *)
| QSelIter (r v k : N) (out : ires (list (N * N)))
| QDown (i : N) (out : ires (option (N * N)))                (* WMCore::map_down *)
| QDownWith (i v : N) (out : ires N)
| QDownTwo (i j v : N) (out : ires (N * N))
| QUpWith (j v : N) (out : ires (option N)).

Inductive prow := PRow (i : N) (get : option N) (inv down : option (N * N)).
Inductive cell := Cell (rank : N) (sel : option N) (pred succ seliter : list (N * N)) (downwith : N) (upwith : option N).
Inductive vrow := VRow (v : N) (contains : bool) (valiter : list (N * N)) (ti tj : N) (two : N * N) (cells : list cell).

Inductive case :=
(* path: 0 = BMI2 build, 1 = portable; dbg: overflow checks on; ty: bits of the item type (65 = usize);
   V: the source vector; same: every item type that can hold V gave byte-identical structures and the
   separately built WMCore serializes to the core part of the matrix; len/width as reported by the matrix,
   clen/cwidth by the core; ser: serialized elements of the matrix; items: iter() and into_iter() output *)
| CWM (path : N) (dbg : bool) (ty : N) (V : list N) (same : bool)
      (r_len r_width r_clen r_cwidth : N) (ser : list N) (items : ires (list N)) (items2 : ires (list N))
      (qs : list query)
(* the same case when no call panicked, answers as plain rows: per position (get if i < len, inverse_select,
   map_down); per value (contains, value_iter.take(k), one map_down_with_two_positions) and per index of [is]
   a cell (rank, select, predecessor/successor/select_iter .take(k), map_down_with, map_up_with) *)
| CWMc (path : N) (dbg : bool) (ty : N) (V : list N) (same : bool)
      (r_len r_width r_clen r_cwidth : N) (ser : list N) (items : ires (list N)) (items2 : ires (list N))
      (prows : list prow) (k : N) (is : list N) (vrows : list vrow)
(* construction itself panicked: always a failure *)
| CBuildPanic (path : N) (dbg : bool) (ty : N) (V : list N) (k : N).

(* rows back to queries; None when a row does not have one cell per index *)
Definition prow_queries (r : prow) : list query :=
  match r with
  | PRow i g inv down =>
      (match g with Some x => [QGet i (IOk x)] | None => [] end) ++ [QInv i (IOk inv); QDown i (IOk down)]
  end.
Fixpoint cell_queries (k v : N) (is : list N) (cs : list cell) : option (list query) :=
  match is, cs with
  | [], [] => Some []
  | i :: it, Cell rk sl pr su si dw uw :: ct =>
      match cell_queries k v it ct with
      | Some rest => Some (QRank i v (IOk rk) :: QSel i v (IOk sl) :: QPred i v k (IOk pr) :: QSucc i v k (IOk su)
                           :: QSelIter i v k (IOk si) :: QDownWith i v (IOk dw) :: QUpWith i v (IOk uw) :: rest)
      | None => None
      end
  | _, _ => None
  end.
Fixpoint vrow_queries (k : N) (is : list N) (rows : list vrow) : option (list query) :=
  match rows with
  | [] => Some []
  | VRow v c vi ti tj two cells :: t =>
      match cell_queries k v is cells, vrow_queries k is t with
      | Some a, Some b => Some (QContains v (IOk c) :: QValIter v k (IOk vi) :: QDownTwo ti tj v (IOk two) :: a ++ b)
      | _, _ => None
      end
  end.

Definition sp_of (path : N) : selpath := if path =? 0 then Pdep else Portable.
Definition mode_of (dbg : bool) : mode := if dbg then Debug else Release.

Definition oonn_eqb := opt_eqb nn_eqb.

(* iterator.take(k).collect() *)
Fixpoint vi_take (sp : selpath) (m : mode) (w : wmatrix) (k : nat) (it : viter) : res (list (N * N)) :=
  match k with
  | O => Ok []
  | S j => let* (it', r) := vi_next sp m w it in
           match r with
           | None => Ok []
           | Some x => let* rest := vi_take sp m w j it' in Ok (x :: rest)
           end
  end.

Definition model_query (sp : selpath) (m : mode) (w : wmatrix) (core : wmcore) (q : query) : bool :=
  match q with
  | QGet i out => res_agree N.eqb (wm_get m w i) out
  | QRank i v out => res_agree N.eqb (wm_rank m w i v) out
  | QSel r v out => res_agree onat_eqb (wm_select sp m w r v) out
  | QInv i out => res_agree oonn_eqb (wm_inverse_select m w i) out
  | QContains v out => res_agree Bool.eqb (wm_contains w v) out
  | QPred i v k out => res_agree nnlist_eqb (let* it := wm_predecessor m w i v in vi_take sp m w (N.to_nat k) it) out
  | QSucc i v k out => res_agree nnlist_eqb (let* it := wm_successor m w i v in vi_take sp m w (N.to_nat k) it) out
  | QValIter v k out => res_agree nnlist_eqb (vi_take sp m w (N.to_nat k) (wm_value_iter v)) out
                        && (wm_value_of (wm_value_iter v) =? v)
  | QSelIter r v k out => res_agree nnlist_eqb (vi_take sp m w (N.to_nat k) (wm_select_iter r v)) out
  | QDown i out => res_agree oonn_eqb (wc_map_down m core i) out
  | QDownWith i v out => res_agree N.eqb (wc_map_down_with m core i v) out
  | QDownTwo i j v out => res_agree nn_eqb (wc_map_down_with_two m core i j v) out
  | QUpWith j v out => res_agree onat_eqb (wc_map_up_with sp m core j v) out
  end.

(* ---- spec side ---- *)

Definition ires_is {A} (eqb : A -> A -> bool) (x : A) (i : ires A) : bool :=
  match i with IOk y => eqb x y | IPanic _ => false end.

Fixpoint firstnN {A} (l : list A) (k : N) : list A :=
  match l with
  | [] => []
  | x :: t => if k =? 0 then [] else x :: firstnN t (k - 1)
  end.

(* spec answers, with the reordered vector computed once per case; wd = minimal width *)
Definition spec_query (V : list N) (R : list (N * N)) (keys : list N) (wd : N) (q : query) : bool :=
  let dw := fun i v => less_k keys (revkey v) + rank_v V i v in
  match q with
  | QGet i out => match get_v V i with Some x => ires_is N.eqb x out | None => true end
  | QRank i v out => ires_is N.eqb (rank_v V i v) out
  | QSel r v out => ires_is onat_eqb (select_v V r v) out
  | QInv i out => ires_is oonn_eqb (inverse_select_v V i) out
  | QContains v out => ires_is Bool.eqb (contains_v V v) out
  | QPred i v k out => ires_is nnlist_eqb (firstnN (pred_v V i v) k) out
  | QSucc i v k out => ires_is nnlist_eqb (firstnN (succ_v V i v) k) out
  | QValIter v k out => ires_is nnlist_eqb (firstnN (value_iter_v V v) k) out
  | QSelIter r v k out => ires_is nnlist_eqb (firstnN (select_iter_v V r v) k) out
  | QDown i out =>
      ires_is oonn_eqb (match nth_opt V i, find_pos R i 0 with Some v, Some j => Some (j, v) | _, _ => None end) out
  (* the core looks only at the low [wd] bits of the value *)
  | QDownWith i v out => ires_is N.eqb (dw i (v mod 2 ^ wd)) out
  | QDownTwo i j v out =>
      ires_is nn_eqb (dw i (v mod 2 ^ wd), dw j (v mod 2 ^ wd)) out
  | QUpWith j v out =>
      ires_is onat_eqb (match nth_opt R j with
                        | Some (p, x) => if x =? v mod 2 ^ wd then Some p else None
                        | None => None end) out
  end.

Fixpoint countN (i : N) (n : nat) : list N := match n with O => [] | S k => i :: countN (i + 1) k end.

(* the offsets `first` must hold, from the list alone: start of v in the reordered vector, or len *)
Definition spec_offsets (V : list N) : list N :=
  let keys := keys_v V in
  let n := lenS V in
  map (fun v => if contains_v V v then less_k keys (revkey v) else n)
      (countN 0 (S (N.to_nat (max_v V)))).

(* bit-packed little-endian fields of [w] bits *)
Fixpoint field_bits (w : nat) (x : N) : list bool :=
  match w with O => [] | S k => N.odd x :: field_bits k (N.div2 x) end.
Definition packed_elems (w : N) (xs : list N) : list N :=
  let bits := flat_map (field_bits (N.to_nat w)) xs in
  let ws := words_of_bits bits in
  lenS xs :: w :: lenS xs * w :: N.of_nat (length ws) :: ws.

(* split [ser] = [len] ++ core ++ first where first = [n; w; bits; words] ++ data: the IntVector is at the end *)
Definition split_first (n_first : N) (w : N) (ser : list N) : list N * list N :=
  let fl := 4 + (n_first * w + 63) / 64 in
  let k := (length ser - N.to_nat fl)%nat in
  (firstn k ser, skipn k ser).

Definition intvec_of_elems (e : list N) : option intvec :=
  match e with
  | n :: w :: bits :: nw :: data => Some (mkiv n w (mkraw bits data))
  | _ => None
  end.

(* alphabets above this size: the model's element-by-element IntVector writer is quadratic, so the serialized
   `first` is compared with the directly packed model offsets and then read back through the model's reader *)
Definition BIG_ALPHABET : N := 600.

Definition check_wm (path : N) (dbg : bool) (ty : N) (V : list N) (same : bool)
      (r_len r_width r_clen r_cwidth : N) (ser : list N) (items items2 : ires (list N)) (qs : list query) : N :=
      let sp := sp_of path in let m := mode_of dbg in
      let mx := list_max V in
      let m_ok :=
        match wm_core_from sp m V with
        | Ok core =>
            let first_r :=
              if mx <? BIG_ALPHABET then
                match start_offsets m V (lenN V) mx with Ok f => Some f | _ => None end
              else
                match first_offsets m V (lenN V) mx with
                | Ok offs =>
                    let w := bit_len (list_max offs) in
                    let '(_, fe) := split_first (lenN offs) w ser in
                    if nlist_eqb fe (packed_elems w offs) then intvec_of_elems fe else None
                | _ => None
                end in
            match first_r with
            | Some first =>
                let w := mkwm (lenN V) core first in
                nlist_eqb (wm_serialize w) ser
                && (wm_len w =? r_len) && (wm_width w =? r_width)
                && res_agree N.eqb (wc_len core) (IOk r_clen) && (wc_width core =? r_cwidth)
                && res_agree nlist_eqb (wm_into_iter m w) items
                && res_agree nlist_eqb (wm_into_iter m w) items2
                && forallb (model_query sp m w core) qs
            | None => false
            end
        | _ => false
        end in
      let R := reordered V in
      let wd := width_v V in
      let offs := spec_offsets V in
      let '(pre, fe) := split_first (lenS offs) (N.max 1 (N.size (max_v offs))) ser in
      let s_ok :=
        same && forallb (fun x => x <? 2 ^ (N.min ty 64)) V
        && (lenS V =? r_len) && (wd =? r_width) && (lenS V =? r_clen) && (wd =? r_cwidth)
        && ires_is nlist_eqb V items && ires_is nlist_eqb V items2
        && nlist_eqb fe (packed_elems (N.max 1 (N.size (max_v offs))) offs)
        && opt_eqb N.eqb (hd_error ser) (Some (lenS V)) && opt_eqb N.eqb (nth_opt ser 1) (Some wd)
        && forallb (spec_query V R (keys_v V) wd) qs in
      code m_ok s_ok.

Definition case_queries (c : case) : option (list query) :=
  match c with
  | CWM _ _ _ _ _ _ _ _ _ _ _ _ qs => Some qs
  | CWMc _ _ _ _ _ _ _ _ _ _ _ _ prows k is vrows =>
      match vrow_queries k is vrows with
      | Some q => Some (flat_map prow_queries prows ++ q)
      | None => None
      end
  | CBuildPanic _ _ _ _ _ => None
  end.

Definition check (c : case) : N :=
  match c, case_queries c with
  | CWM path dbg ty V same r_len r_width r_clen r_cwidth ser items items2 _, Some qs
  | CWMc path dbg ty V same r_len r_width r_clen r_cwidth ser items items2 _ _ _ _, Some qs =>
      check_wm path dbg ty V same r_len r_width r_clen r_cwidth ser items items2 qs
  | _, _ => 3
  end.

(* what model and spec say per query (for replays) *)
Definition explain (c : case) :=
  match c, case_queries c with
  | CWM path dbg ty V same r_len r_width r_clen r_cwidth ser items items2 _, Some qs
  | CWMc path dbg ty V same r_len r_width r_clen r_cwidth ser items items2 _ _ _ _, Some qs =>
      let sp := sp_of path in let m := mode_of dbg in
      match wm_from sp m V with
      | Ok w => (nlist_eqb (wm_serialize w) ser, map (model_query sp m w (wm_data w)) qs,
                 map (spec_query V (reordered V) (keys_v V) (width_v V)) qs)
      | _ => (false, [], [])
      end
  | _, _ => (false, [], [])
  end.
