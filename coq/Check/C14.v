(* Correspondence check for C14: every strict prefix of a serialization makes load (and skip_option) return
   the error the model predicts -- never a value, never a panic -- and every write budget below the size makes
   serialize return the sink's error after exactly the bytes that fit. *)
From Coq Require Import NArith List Bool.
Require Import SDS.Model.Mach SDS.Model.Bits SDS.Model.Raw SDS.Model.IntVec SDS.Model.BitVec SDS.Model.Ser.
Require Import SDS.Spec.Stream SDS.Check.Common.
Require Export SDS.Model.Ser SDS.Check.SerCommon.
Import ListNotations.
Open Scope N_scope.

Inductive case :=
(* outcomes: run-length encoded outcome codes of T::load on the first k bytes, k = 0 .. size-1 *)
| CTrunc (path : N) (dbg : bool) (t : ty) (r : recipe) (elems : list N) (outcomes : list (N * N))
(* skip_option on the first k bytes of a serialized Option, k = 0 .. size-1 *)
| CSkipTrunc (path : N) (dbg : bool) (elems : list N) (outcomes : list (N * N))
(* serialize into a sink that accepts b bytes, b = 0 .. size-1. kind 0: the sink then fails with its own error;
   kind 1: a `&mut [u8]` of b bytes (WriteZero). prefix_ok: the sink received exactly the first b bytes, every b *)
| CSink (path : N) (dbg : bool) (t : ty) (r : recipe) (elems : list N) (kind : N) (outcomes : list (N * N)) (prefix_ok : bool).

Definition LIMIT : N := 320.
Definition STRIDE : N := 13.

Definition check (c : case) : N :=
  match c with
  | CTrunc path dbg t r elems outcomes =>
      let sp := sp_of path in let m := mode_of dbg in
      let bytes := stream elems [] in
      let obs := rle_expand outcomes in
      let total := lenN bytes in
      let m_ok :=
        match build sp m t r with
        | Some x =>
            nlist_eqb (c_enc (codec_of m t) x) bytes
            && agree_from (fun k => io_code (c_dec (codec_of m t) (firstn (N.to_nat k) bytes)))
                          (sampled LIMIT STRIDE total) 0 obs
        | None => false
        end in
      let s_ok := (lenN obs =? total) && forallb code_is_err obs in
      code m_ok s_ok
  | CSkipTrunc path dbg elems outcomes =>
      let m := mode_of dbg in
      let bytes := stream elems [] in
      let obs := rle_expand outcomes in
      let total := lenN bytes in
      let m_ok := agree_from (fun k => io_code (skip_option m (firstn (N.to_nat k) bytes)))
                             (sampled LIMIT STRIDE total) 0 obs in
      let s_ok := (lenN obs =? total) && forallb code_is_err obs in
      code m_ok s_ok
  | CSink path dbg t r elems kind outcomes prefix_ok =>
      let sp := sp_of path in let m := mode_of dbg in
      let bytes := stream elems [] in
      let obs := rle_expand outcomes in
      let total := lenN bytes in
      let err := if kind =? 0 then OtherErr else WriteZero in
      let m_ok :=
        match build sp m t r with
        | Some x =>
            nlist_eqb (c_enc (codec_of m t) x) bytes
            && agree_from (fun b => io_code (snd (write_seq [bytes] (mksink [] b err))))
                          (sampled LIMIT STRIDE total) 0 obs
        | None => false
        end in
      let s_ok := (lenN obs =? total) && forallb code_is_err obs && prefix_ok in
      code m_ok s_ok
  end.

Definition explain (c : case) :=
  match c with
  | CTrunc path dbg t r elems outcomes =>
      let bytes := stream elems [] in
      map (fun k => io_code (c_dec (codec_of (mode_of dbg) t) (firstn k bytes))) (seq 0 (length bytes))
  | CSkipTrunc path dbg elems outcomes =>
      let bytes := stream elems [] in
      map (fun k => io_code (skip_option (mode_of dbg) (firstn k bytes))) (seq 0 (length bytes))
  | CSink path dbg t r elems kind outcomes prefix_ok => []
  end.
