(* Correspondence check for C14 (the writer cases and the serialize_to cases are described further down): every strict prefix of a serialization makes load (and skip_option) return
   the error the model predicts -- never a value, never a panic -- and every write budget below the size makes
   serialize return the sink's error after exactly the bytes that fit. *)
From Coq Require Import NArith List Bool.
Require Import SDS.Model.Mach SDS.Model.Bits SDS.Model.Raw SDS.Model.IntVec SDS.Model.BitVec SDS.Model.Ser.
Require Import SDS.Spec.Stream SDS.Spec.BitSeq SDS.Check.Common.
Require Import SDS.Model.Writer SDS.Model.WriterFail.
Require Export SDS.Model.Ser SDS.Check.SerCommon.
Require Export SDS.Check.SerWM.   (* WMCore / WaveletMatrix: the CTruncW / CSinkW cases *)
Require SDS.Check.SerSparse.
Import ListNotations.
Open Scope N_scope.

(* a push of the raw writer: one bit, or the low [w] bits of [v] *)
Inductive wcop := WB (b : bool) | WI (v w : N).

(* the value handed to serialize_to: a value of the closed type universe, WMCore / WaveletMatrix::from(V), or a
   SparseVector (low width w the crate chose, universe, multiset?, values) *)
Inductive fval :=
| FT (t : ty) (r : recipe)
| FW (t : wty) (V : list N)
| FS (w len : N) (multi : bool) (vals : list N).

Inductive case :=
(* outcomes: run-length encoded outcome codes of T::load on the first k bytes, k = 0 .. size-1 *)
| CTrunc (path : N) (dbg : bool) (t : ty) (r : recipe) (elems : list N) (outcomes : list (N * N))
(* the same for one SparseVector (recipe: low width w the crate chose, universe len, multi = SparseBuilder::multiset,
   the values): SparseVector::load on the first k bytes, k = 0 .. size-1 *)
| CTruncS (w : N) (path : N) (dbg : bool) (len : N) (multi : bool) (vals : list N) (elems : list N) (outcomes : list (N * N))
(* skip_option on the first k bytes of a serialized Option, k = 0 .. size-1 *)
| CSkipTrunc (path : N) (dbg : bool) (elems : list N) (outcomes : list (N * N))
(* serialize into a sink that accepts b bytes, b = 0 .. size-1. kind 0: the sink then fails with its own error;
   kind 1: a `&mut [u8]` of b bytes (WriteZero). prefix_ok: the sink received exactly the first b bytes, every b *)
| CSink (path : N) (dbg : bool) (t : ty) (r : recipe) (elems : list N) (kind : N) (outcomes : list (N * N)) (prefix_ok : bool)
(* the same two for WMCore::from(V) / WaveletMatrix::from(V) (Check/SerWM.v) *)
| CTruncW (path : N) (dbg : bool) (t : wty) (V : list N) (elems : list N) (outcomes : list (N * N))
| CSinkW (path : N) (dbg : bool) (t : wty) (V : list N) (elems : list N) (kind : N) (outcomes : list (N * N)) (prefix_ok : bool)
(* One session of a real buffered file writer over a file that cannot take everything.
   sk = 0: RLIMIT_FSIZE = L bytes (SIGXFSZ ignored) on a regular file; sk = 1: the file is /dev/full (L unused).
   RawVectorWriter::with_buf_len(file, [], bl) then the pushes [ops] one by one / IntVectorWriter::with_buf_len(file,
   width, items) then push of every x; pushing stops at the first push that panics; then close(); then the
   writer is dropped. mem = Serialize::serialize of the vector built in memory by all the pushes.
   Observed: created = 0 or the errno of the constructor's error (then nothing else happens);
   panic = (index of the push that panicked, panic class); close = 0 or the errno of close()'s error;
   open = is_open() after close(); len = len() after close(); file = the whole elements of the file read back
   after the drop and after lifting the limit ([] for /dev/full). *)
| CWRaw (dbg : bool) (sk L bl : N) (ops : list wcop) (mem : list N)
        (created : N) (panic : option (N * N)) (close : N) (open : bool) (len : N) (file : list N)
| CWInt (dbg : bool) (sk L width items : N) (xs : list N) (mem : list N)
        (created : N) (panic : option (N * N)) (close : N) (open : bool) (len : N) (file : list N)
(* The real serialize::serialize_to(&value, file) on a file that cannot take everything, then serialize::load_from
   of whatever that left behind. v: the recipe of the value; elems ++ tail: Serialize::serialize of the value into
   memory; size_by: its size_in_bytes().
   One run = (sk, L, rc, flen, class, load):
     sk    = 0: a regular file under RLIMIT_FSIZE = L bytes (soft limit, SIGXFSZ ignored); 1: /dev/full (L = 0);
     rc    = 0: serialize_to returned Ok(()); otherwise the errno of the error it returned (1000: an error without
             errno, 2000 + class: it panicked, 3000: the forked child did not report);
     flen  = length in bytes of the file afterwards (limit lifted; 0 for /dev/full);
     class = 0: the file is exactly the in-memory serialization, 1: it is a STRICT prefix of it, 2: anything else;
     load  = outcome of load_from::<T>(file) afterwards: 0 = Ok and equal to the value (and its sampled answers
             agree), 5 = Ok with something else, 1..4 an I/O error (codes of SerCommon.v), 10 + class a panic,
             99 = not called (/dev/full, or the file does not exist). *)
| CFile (path : N) (dbg : bool) (v : fval) (elems tail : list N) (size_by : N)
        (runs : list (N * N * N * N * N * N)).

Definition LIMIT : N := 320.
Definition STRIDE : N := 13.

(* ---- writers: model side (Model/WriterFail.v) ---- *)

Definition to_wop (o : wcop) : wop := match o with WB b => PBit b | WI v w => PInt v w end.
Definition sink_of (sk L : N) : fsink := if sk =? 0 then Limit L else Full.
Definition errno (e : werr) : N := match e with EFBIG => 27 | ENOSPC => 28 end.
Definition out_code {A} (o : wout A) : N := match o with WOk _ => 0 | WErr e _ => errno e | WPanic _ _ => 77 end.

(* (created, panic, close, open, len, file) *)
Definition wobs := (N * option (N * N) * N * bool * N * list N)%type.
Definition NOT_CALLED : N := 99.

Definition model_wraw (m : mode) (s : fsink) (bl : N) (ops : list wop) : res wobs :=
  let* c := wf_with_buf_len m s [] bl in
  match c with
  | WOk w0 =>
      let* (i, r) := wf_run s w0 ops 0 in
      let panic := match r with WOk _ => None | WErr _ _ => Some (i, 77) | WPanic k _ => Some (i, pk_code k) end in
      let* c2 := wf_close s (wout_state r) in
      let w2 := wout_state c2 in
      let* w3 := wf_drop s w2 in
      Ok (0, panic, out_code c2, w_is_open w2, wlen w2, wdisk w3)
  | other => Ok (out_code other, None, NOT_CALLED, false, 0, wdisk (wout_state other))
  end.

(* None: the constructor rejected the width *)
Definition model_wint (m : mode) (s : fsink) (width items : N) (xs : list N) : option (res wobs) :=
  match wf_iw_with_buf_len m s width items with
  | None => None
  | Some rc => Some (
      let* c := rc in
      match c with
      | WOk iw0 =>
          let* (i, r) := wf_iw_extend s iw0 xs 0 in
          let panic := match r with WOk _ => None | WErr _ _ => Some (i, 77) | WPanic k _ => Some (i, pk_code k) end in
          let* c2 := wf_iw_close s (wout_state r) in
          let iw2 := wout_state c2 in
          let* iw3 := wf_iw_drop s iw2 in
          Ok (0, panic, out_code c2, w_is_open (iww iw2), iwlen iw2, wdisk (iww iw3))
      | other => Ok (out_code other, None, NOT_CALLED, false, 0, wdisk (iww (wout_state other)))
      end)
  end.

Definition wobs_eqb (a b : wobs) : bool :=
  match a, b with
  | (c1, p1, k1, o1, l1, f1), (c2, p2, k2, o2, l2, f2) =>
      (c1 =? c2) && onn_eqb p1 p2 && (k1 =? k2) && Bool.eqb o1 o2 && (l1 =? l2) && nlist_eqb f1 f2
  end.
Definition wres_is (r : res wobs) (x : wobs) : bool := match r with Ok y => wobs_eqb y x | _ => false end.

(* ---- writers: spec side. The property itself, on the observation alone (no model, no gen/):
   a session that reported nothing (constructor Ok, no panic, close Ok) left exactly the in-memory serialization
   - compared with what the crate serializes in memory AND with the naive encoding of the pushed bits -, closed,
   within the limit; a session on a file that can take the complete serialization reported nothing;
   /dev/full always reports. ---- *)

Definition vbits (v w : N) : list bool := firstn (N.to_nat w) (wbits v).
Definition wcop_bits (o : wcop) : list bool := match o with WB b => [b] | WI v w => vbits v w end.
Definition enc_bits (B : list bool) : list N := lenB B :: (lenB B + 63) / 64 :: words_of_bits B.

Definition wspec (sk L : N) (mem enc : list N) (o : wobs) : bool :=
  match o with
  | (created, panic, close, open, len, file) =>
      let silent := (created =? 0) && (match panic with None => true | Some _ => false end) && (close =? 0) in
      let fits := (sk =? 0) && (8 * lenN enc <=? L) in
      nlist_eqb mem enc &&
      (if silent then nlist_eqb file enc && negb open && fits
       else negb fits && ((created =? 0) || ((close =? NOT_CALLED) && negb open)))
  end.

(* ---- serialize_to on a failing file: model side. The file behind serialize_to is the sink of Spec/Stream.v with a
   budget of L bytes (0 for /dev/full): serialize is a sequence of write_all calls chained with `?` (write_seq), and
   serialize_to passes its error through unchanged (Props/C14.v: C14_sink_budget, C14_sink_fits; the file system
   is read as in Model/WriterFail.v: what fits below the limit is written, then EFBIG; /dev/full takes nothing,
   ENOSPC). The file left behind is what the sink received; load_from of it is the model's loader on those bytes
   (Props/C14_file.v: C14_failed_write_leaves_unloadable_file). ---- *)

(* the model's encoding of the value and its loader as an outcome code *)
Definition fmodel (sp : selpath) (m : mode) (v : fval) : option (list byte * (list byte -> N)) :=
  match v with
  | FT t r =>
      match build sp m t r with
      | Some x => Some (c_enc (codec_of m t) x, fun s => io_code (c_dec (codec_of m t) s))
      | None => None
      end
  | FW t V =>
      match SerWM.wbuild sp m t V with
      | Some x => Some (SerWM.wenc x, fun s => fst (SerWM.wdec x s))
      | None => None
      end
  | FS w len multi vals =>
      match SerSparse.build_sv sp m w len multi vals with
      | Some x => let c := SerSparse.sparse_codec sp m in Some (c_enc c x, fun s => io_code (c_dec c s))
      | None => None
      end
  end.

(* where the model's loader is evaluated on the file left behind: always for serializations up to 1 KiB; up to
   8 KiB when the file is shorter than 3 elements, or every 13th length, or within 3 elements of the end;
   beyond 8 KiB only on files shorter than 3 elements. Elsewhere the model side only asks for an I/O error. *)
Definition fdec_here (total flen : N) : bool :=
  (total <=? 1024) || (flen <? 24) || ((total <=? 8192) && ((flen mod 13 =? 0) || (total <? flen + 24))).

Definition NO_LOAD : N := 99.

Definition frun_model (bytes : list byte) (total : N) (dec : list byte -> N) (r : N * N * N * N * N * N) : bool :=
  match r with
  | (sk, L, rc, flen, class, load) =>
      let room := if sk =? 0 then L else 0 in
      match write_seq [bytes] (mksink [] room OtherErr) with
      | (_, IoOk _) => (sk =? 0) && (rc =? 0) && (flen =? total) && (class =? 0) && (load =? 0)
      | (w, IoErr _) =>
          (rc =? errno (fs_err (sink_of sk L))) && (class =? 1)
          && (if sk =? 0 then
                (flen =? lenN (sk_out w))
                && (if fdec_here total flen then load =? dec (sk_out w) else code_is_err load)
              else (flen =? 0) && (load =? NO_LOAD))
      | (_, IoPanic _) => false
      end
  end.

(* ---- serialize_to on a failing file: spec side. The property on the observation alone: Ok(()) is returned exactly
   when the complete serialization fits, and then the file IS the serialization (and loads back); otherwise an error
   (not a panic) is returned, the file holds a strict prefix of the serialization that lies within the limit, and
   load_from of that file is an I/O error - never a structure, never a panic. ---- *)
Definition frun_spec (size : N) (r : N * N * N * N * N * N) : bool :=
  match r with
  | (sk, L, rc, flen, class, load) =>
      let fits := (sk =? 0) && (size <=? L) in
      if rc =? 0 then fits && (class =? 0) && (flen =? size) && (load =? 0)
      else negb fits && (rc <? 2000) && (class =? 1) && (flen <? size)
           && (if sk =? 0 then (flen <=? L) && (1 <=? load) && (load <=? 4) else (flen =? 0) && (load =? 99))
  end.

Definition check (c : case) : N :=
  match c with
  | CTrunc path dbg t r elems outcomes =>
      let sp := sp_of path in let m := mode_of dbg in
      let bytes := stream elems [] in
      let obs := rle_expand outcomes in
      let total := lenN bytes in
      let m_ok :=
        match build sp m t r with
        | Some x =>
            nlist_eqb (c_enc (codec_of m t) x) bytes
            && agree_from (fun k => io_code (c_dec (codec_of m t) (firstn (N.to_nat k) bytes)))
                          (sampled LIMIT STRIDE total) 0 obs
        | None => false
        end in
      let s_ok := (lenN obs =? total) && forallb code_is_err obs in
      code m_ok s_ok
  | CTruncS w path dbg len multi vals elems outcomes =>
      let bytes := stream elems [] in
      let obs := rle_expand outcomes in
      let total := lenN bytes in
      let m_ok := SerSparse.trunc_model (sp_of path) (mode_of dbg) w len multi vals bytes (sampled LIMIT STRIDE total) obs in
      let s_ok := (lenN obs =? total) && forallb code_is_err obs in
      code m_ok s_ok
  | CSkipTrunc path dbg elems outcomes =>
      let m := mode_of dbg in
      let bytes := stream elems [] in
      let obs := rle_expand outcomes in
      let total := lenN bytes in
      let m_ok := agree_from (fun k => io_code (skip_option m (firstn (N.to_nat k) bytes)))
                             (sampled LIMIT STRIDE total) 0 obs in
      let s_ok := (lenN obs =? total) && forallb code_is_err obs in
      code m_ok s_ok
  | CSink path dbg t r elems kind outcomes prefix_ok =>
      let sp := sp_of path in let m := mode_of dbg in
      let bytes := stream elems [] in
      let obs := rle_expand outcomes in
      let total := lenN bytes in
      let err := if kind =? 0 then OtherErr else WriteZero in
      let m_ok :=
        match build sp m t r with
        | Some x =>
            nlist_eqb (c_enc (codec_of m t) x) bytes
            && agree_from (fun b => io_code (snd (write_seq [bytes] (mksink [] b err))))
                          (sampled LIMIT STRIDE total) 0 obs
        | None => false
        end in
      let s_ok := (lenN obs =? total) && forallb code_is_err obs && prefix_ok in
      code m_ok s_ok
  | CTruncW path dbg t V elems outcomes =>
      let bytes := stream elems [] in
      let obs := rle_expand outcomes in
      let total := lenN bytes in
      let m_ok := SerWM.trunc_ok (sp_of path) (mode_of dbg) t V bytes (sampled LIMIT STRIDE total) obs in
      let s_ok := (lenN obs =? total) && forallb code_is_err obs in
      code m_ok s_ok
  | CSinkW path dbg t V elems kind outcomes prefix_ok =>
      let bytes := stream elems [] in
      let obs := rle_expand outcomes in
      let total := lenN bytes in
      let err := if kind =? 0 then OtherErr else WriteZero in
      let m_ok :=
        SerWM.enc_ok (sp_of path) (mode_of dbg) t V bytes
        && agree_from (fun b => io_code (snd (write_seq [bytes] (mksink [] b err))))
                      (sampled LIMIT STRIDE total) 0 obs in
      let s_ok := (lenN obs =? total) && forallb code_is_err obs && prefix_ok in
      code m_ok s_ok
  | CWRaw dbg sk L bl ops mem created panic close open len file =>
      let o := (created, panic, close, open, len, file) in
      let m_ok := wres_is (model_wraw (mode_of dbg) (sink_of sk L) bl (map to_wop ops)) o in
      let s_ok := wspec sk L mem (enc_bits (flat_map wcop_bits ops)) o in
      code m_ok s_ok
  | CWInt dbg sk L width items xs mem created panic close open len file =>
      let o := (created, panic, close, open, len, file) in
      let m_ok := match model_wint (mode_of dbg) (sink_of sk L) width items xs with
                  | Some r => wres_is r o
                  | None => false
                  end in
      let s_ok := (1 <=? width) && (width <=? 64) &&
                  wspec sk L mem (lenN xs :: width :: enc_bits (flat_map (fun x => vbits x width) xs)) o in
      code m_ok s_ok
  | CFile path dbg v elems tail size_by runs =>
      let bytes := stream elems tail in
      let total := lenN bytes in
      let m_ok :=
        match fmodel (sp_of path) (mode_of dbg) v with
        | Some (enc, dec) => nlist_eqb enc bytes && forallb (frun_model bytes total dec) runs
        | None => false
        end in
      let size := 8 * lenN elems + lenN tail in
      let s_ok := (size_by =? size) && (1 <=? lenN runs) && forallb (frun_spec size) runs in
      code m_ok s_ok
  end.

Definition explain (c : case) :=
  match c with
  | CTrunc path dbg t r elems outcomes =>
      let bytes := stream elems [] in
      map (fun k => io_code (c_dec (codec_of (mode_of dbg) t) (firstn k bytes))) (seq 0 (length bytes))
  | CSkipTrunc path dbg elems outcomes =>
      let bytes := stream elems [] in
      map (fun k => io_code (skip_option (mode_of dbg) (firstn k bytes))) (seq 0 (length bytes))
  | CFile path dbg v elems tail size_by runs =>
      (* per run: the limit, the model's result (0 / errno) and file length, 1 if the run contradicts the spec side *)
      let bytes := stream elems tail in
      flat_map (fun r => match r with
                         | (sk, L, rc, flen, class, load) =>
                             let room := if sk =? 0 then L else 0 in
                             let '(w, res) := write_seq [bytes] (mksink [] room OtherErr) in
                             [L; match res with IoOk _ => 0 | _ => errno (fs_err (sink_of sk L)) end; lenN (sk_out w);
                              if frun_spec (lenN bytes) r then 0 else 1]
                         end) runs
  | _ => []
  end.
