(* Correspondence check for C06: the bytes the crate writes are the model's encoding of the model value built
   from the same data, sizes agree, load consumes exactly the serialization and returns the value; the same
   for several values written back to back; malformed headers get the outcome the model predicts. *)
From Coq Require Import NArith List Bool.
Require Import SDS.Model.Mach SDS.Model.Bits SDS.Model.Raw SDS.Model.IntVec SDS.Model.BitVec SDS.Model.Ser.
Require Import SDS.Spec.Stream SDS.Check.Common.
Require Export SDS.Model.Ser SDS.Check.SerCommon.
Require Export SDS.Check.SerWM.   (* WMCore / WaveletMatrix: their own universe wty and the CRoundW / CConcatW / CBadW cases *)
Require SDS.Check.SerSparse.
Import ListNotations.
Open Scope N_scope.

Inductive case :=
(* one value. elems/tail: the bytes written; size_el/size_by: size_in_elements / size_in_bytes;
   extra: bytes that followed the value in the reader; consumed: bytes the counting reader handed out;
   eq_loaded: loaded == original; eq_answers: a few queries agree (and, where tried, serialize_to / load_from through a file gave the same bytes and an equal value); sbp: size_by_params where the type has it *)
| CRound (path : N) (dbg : bool) (t : ty) (r : recipe) (elems tail : list N)
         (size_el size_by : N) (extra : list N) (consumed : N) (eq_loaded eq_answers : bool) (sbp : option N)
(* one SparseVector (outside the closed type universe [ty]: its loader depends on the select path). Recipe: low width w
   the crate chose, universe len, multi = built with SparseBuilder::multiset, the values; the rest as in CRound *)
| CRoundS (w : N) (path : N) (dbg : bool) (len : N) (multi : bool) (vals : list N) (elems tail : list N)
          (size_el size_by : N) (extra : list N) (consumed : N) (eq_loaded eq_answers : bool)
(* several values in one stream; consumed: per value *)
| CConcat (path : N) (dbg : bool) (items : list (ty * recipe)) (elems : list N) (consumed : list N) (all_eq : bool)
(* arbitrary (malformed / extreme) stream loaded as type t *)
| CBad (path : N) (dbg : bool) (t : ty) (elems tail : list N) (outcome consumed : N)
(* the same three for WMCore::from(V) / WaveletMatrix::from(V) (Check/SerWM.v) *)
| CRoundW (path : N) (dbg : bool) (t : wty) (V : list N) (elems tail : list N)
          (size_el size_by : N) (extra : list N) (consumed : N) (eq_loaded eq_answers : bool)
| CConcatW (path : N) (dbg : bool) (items : list (wty * list N)) (elems : list N) (consumed : list N) (all_eq : bool)
| CBadW (path : N) (dbg : bool) (t : wty) (elems tail : list N) (outcome consumed : N).

Definition model_sbp (t : ty) : interp t -> option N :=
  match t return interp t -> option N with
  | TRaw => fun x => Some (raw_size_by_params (rlen x))
  | TIntVec => fun x => Some (iv_size_by_params (ilen x) (iwidth x))
  | _ => fun _ => None
  end.

(* decode the items one after the other; each must come back equal and consume what it wrote *)
Fixpoint concat_ok (sp : selpath) (m : mode) (items : list (ty * recipe)) (consumed : list N) (s : list byte) : bool :=
  match items, consumed with
  | [], [] => match s with [] => true | _ => false end
  | (t, r) :: it, c :: ct =>
      match build sp m t r with
      | Some x =>
          match c_dec (codec_of m t) s with
          | IoOk (y, rest) =>
              val_eqb t x y && (c =? lenN (c_enc (codec_of m t) x)) && (lenN s =? c + lenN rest)
              && concat_ok sp m it ct rest
          | _ => false
          end
      | None => false
      end
  | _, _ => false
  end.

Fixpoint concat_enc (sp : selpath) (m : mode) (items : list (ty * recipe)) : option (list byte) :=
  match items with
  | [] => Some []
  | (t, r) :: it =>
      match build sp m t r, concat_enc sp m it with
      | Some x, Some e => Some (c_enc (codec_of m t) x ++ e)
      | _, _ => None
      end
  end.

Definition sumN (l : list N) : N := fold_right N.add 0 l.

Definition check (c : case) : N :=
  match c with
  | CRound path dbg t r elems tail size_el size_by extra consumed eq_loaded eq_answers sbp =>
      let sp := sp_of path in let m := mode_of dbg in
      let bytes := stream elems tail in
      let m_ok :=
        match build sp m t r with
        | Some x =>
            nlist_eqb (c_enc (codec_of m t) x) bytes
            && (c_size (codec_of m t) x =? size_el)
            && match c_dec (codec_of m t) (bytes ++ extra) with
               | IoOk (y, rest) => val_eqb t x y && nlist_eqb rest extra && (consumed =? lenN bytes)
               | _ => false
               end
            && opt_eqb N.eqb (model_sbp t x) sbp
        | None => false
        end in
      let s_ok :=
        match tail with [] => true | _ => false end
        && (size_by =? 8 * size_el) && (lenN elems =? size_el) && (consumed =? size_by)
        && eq_loaded && eq_answers
        && match sbp with Some v => v =? size_el | None => true end in
      code m_ok s_ok
  | CRoundS w path dbg len multi vals elems tail size_el size_by extra consumed eq_loaded eq_answers =>
      let bytes := stream elems tail in
      let m_ok := SerSparse.round_model (sp_of path) (mode_of dbg) w len multi vals bytes extra size_el consumed in
      let s_ok :=
        match tail with [] => true | _ => false end
        && (size_by =? 8 * size_el) && (lenN elems =? size_el) && (consumed =? size_by)
        && eq_loaded && eq_answers in
      code m_ok s_ok
  | CConcat path dbg items elems consumed all_eq =>
      let sp := sp_of path in let m := mode_of dbg in
      let bytes := stream elems [] in
      let m_ok :=
        match concat_enc sp m items with
        | Some e => nlist_eqb e bytes && concat_ok sp m items consumed bytes
        | None => false
        end in
      let s_ok := all_eq && (sumN consumed =? 8 * lenN elems) && (lenN consumed =? lenN items) in
      code m_ok s_ok
  | CBad path dbg t elems tail outcome consumed =>
      let m := mode_of dbg in
      let bytes := stream elems tail in
      let r := c_dec (codec_of m t) bytes in
      let m_ok := (io_code r =? outcome)
                  && match r with IoOk (_, rest) => lenN bytes =? consumed + lenN rest | _ => true end in
      code m_ok true
  | CRoundW path dbg t V elems tail size_el size_by extra consumed eq_loaded eq_answers =>
      let bytes := stream elems tail in
      let m_ok := SerWM.round_ok (sp_of path) (mode_of dbg) t V bytes extra consumed size_el in
      let s_ok :=
        match tail with [] => true | _ => false end
        && (size_by =? 8 * size_el) && (lenN elems =? size_el) && (consumed =? size_by)
        && eq_loaded && eq_answers && SerWM.header_ok t V elems in
      code m_ok s_ok
  | CConcatW path dbg items elems consumed all_eq =>
      let sp := sp_of path in let m := mode_of dbg in
      let bytes := stream elems [] in
      let m_ok :=
        match SerWM.concat_enc sp m items with
        | Some e => nlist_eqb e bytes && SerWM.concat_ok sp m items consumed bytes
        | None => false
        end in
      let s_ok := all_eq && (sumN consumed =? 8 * lenN elems) && (lenN consumed =? lenN items) in
      code m_ok s_ok
  | CBadW path dbg t elems tail outcome consumed =>
      let bytes := stream elems tail in
      let r := SerWM.bad_dec (sp_of path) (mode_of dbg) t bytes in
      let m_ok := (fst r =? outcome)
                  && match snd r with Some lft => lenN bytes =? consumed + lft | None => true end in
      code m_ok true
  end.

Definition explain (c : case) :=
  match c with
  | CRound path dbg t r elems tail size_el size_by extra consumed eq_loaded eq_answers sbp =>
      let sp := sp_of path in let m := mode_of dbg in
      match build sp m t r with
      | Some x => (c_enc (codec_of m t) x, c_size (codec_of m t) x, io_code (c_dec (codec_of m t) (stream elems tail ++ extra)))
      | None => ([], 0, 99)
      end
  | CRoundS w path dbg len multi vals elems tail size_el size_by extra consumed eq_loaded eq_answers =>
      SerSparse.explain_round (sp_of path) (mode_of dbg) w len multi vals (stream elems tail ++ extra)
  | CConcat path dbg items elems consumed all_eq =>
      (match concat_enc (sp_of path) (mode_of dbg) items with Some e => e | None => [] end, 0, 0)
  | CBad path dbg t elems tail outcome consumed =>
      ([], 0, io_code (c_dec (codec_of (mode_of dbg) t) (stream elems tail)))
  | CRoundW path dbg t V elems tail size_el size_by extra consumed eq_loaded eq_answers =>
      match SerWM.wbuild (sp_of path) (mode_of dbg) t V with
      | Some v => (SerWM.wenc v, SerWM.wsize v, fst (SerWM.wdec v (stream elems tail ++ extra)))
      | None => ([], 0, 99)
      end
  | CConcatW path dbg items elems consumed all_eq =>
      (match SerWM.concat_enc (sp_of path) (mode_of dbg) items with Some e => e | None => [] end, 0, 0)
  | CBadW path dbg t elems tail outcome consumed =>
      ([], 0, fst (SerWM.bad_dec (sp_of path) (mode_of dbg) t (stream elems tail)))
  end.
