(* Model side of the C09 correspondence for RLVector: the vector is rebuilt by Model/RL.v from the content of the
   case exactly as the harness builds it (one try_set per maximal run, then set_len) and every query is answered
   by the model. Kept in a file of its own because Model/RL.v and Model/BitVec.v use the same names for their
   iterator records; Check/C09.v refers to the functions below by qualified names. *)
From Coq Require Import NArith List Bool.
Require Import SDS.Model.Mach SDS.Model.Iters SDS.Model.RL.
Import ListNotations.
Open Scope N_scope.

(* the maximal runs of a bit list: what the harness passes to try_set for a Bits content *)
Fixpoint runs_of_bits (pos : N) (cur : option (N * N)) (B : list bool) : list (N * N) :=
  match B with
  | [] => match cur with Some r => [r] | None => [] end
  | true :: t => runs_of_bits (pos + 1) (match cur with Some (s, l) => Some (s, l + 1) | None => Some (pos, 1) end) t
  | false :: t => match cur with Some r => r :: runs_of_bits (pos + 1) None t | None => runs_of_bits (pos + 1) None t end
  end.

(* RLBuilder::new(); try_set(s, l).unwrap() per run; set_len(len); RLVector::from: every call must be accepted *)
Definition build (m : mode) (len : N) (runs : list (N * N)) : res rlvec :=
  let* (v, oks) := rl_build m (map (fun r => BTrySet (fst r) (snd r)) runs ++ [BSetLen len]) in
  if forallb (fun x => x) oks then Ok v else Panic PUnwrap.

Definition q_counts (v : rlvec) : res (N * N * N) := Ok (rl_len v, rl_ones v, rl_count_zeros v).

(* select_iter(r) / select_zero_iter(r): len() of the fresh iterator, then next() *)
Definition q_sel_iter (m : mode) (v : rlvec) (zero : bool) (r : N) : res (option (N * N) * N) :=
  if zero then
    let* s := rl_select_zero_iter m v r in
    let* (_, x) := zi_next m v s in Ok (x, zi_size_hint v s)
  else
    let* s := rl_select_iter m v r in
    let* (_, x) := oi_next m v s in Ok (x, oi_size_hint v s).

Definition q_pred (m : mode) (v : rlvec) (x : N) : res (option (N * N)) := oi_first m v (rl_predecessor m v x).
Definition q_succ (m : mode) (v : rlvec) (x : N) : res (option (N * N)) := oi_first m v (rl_successor m v x).

Fixpoint consume {St A} (next : St -> res (St * option A)) (k : nat) (s : St) : res St :=
  match k with
  | O => Ok s
  | S k' => let* (s', _) := next s in consume next k' s'
  end.

(* the walks are short by construction of the cases (the harness only walks iterators of at most 4096 items) *)
Definition small (k : N) : nat := N.to_nat (N.min k 100000).

(* k x next(), nth(n) (the std default: advance_by(n) stopping at the first None, then next()), next(), len() *)
Definition after {St A} (next : St -> res (St * option A)) (hint : St -> N) (s0 : res St) (k n : N)
  : res (option A * option A * N) :=
  let* s := s0 in
  let* s1 := consume next (small k) s in
  let* (s2, a1) := std_nth next (S (small (hint s1))) s1 n in
  let* (s3, a2) := next s2 in
  Ok (a1, a2, hint s3).

Definition q_nth (m : mode) (v : rlvec) (zero : bool) (k n : N) : res (option (N * N) * option (N * N) * N) :=
  if zero then after (zi_next m v) (zi_size_hint v) (rl_zero_iter m v) k n
  else after (oi_next m v) (oi_size_hint v) (rl_one_iter v) k n.

Definition q_bit_nth (m : mode) (v : rlvec) (k n : N) : res (option bool * option bool * N) :=
  after (bi_next m v) (bi_size_hint v) (rl_iter v) k n.
