(* Rebuilding a WaveletMatrix / WMCore by Model/WM.v inside the correspondence checks (C09, C10, C06, C14).
   Kept in a file of its own because it reuses the offset-packing shortcut of Check/C04.v, whose constructor
   names clash with those of the other checks; refer to the functions below by qualified names. *)
From Coq Require Import NArith List Bool.
Require Import SDS.Model.Mach SDS.Model.Bits SDS.Model.Raw SDS.Model.IntVec SDS.Model.BitVec SDS.Model.WM.
Require SDS.Check.C04.
Import ListNotations.
Open Scope N_scope.

(* the `first` IntVector. Alphabets below Check/C04.v's BIG_ALPHABET: the model's start_offsets (collect with
   width 64, pack). Above: the model's offsets (first_offsets) bit-packed directly into the IntVector that pack()
   produces (width = bit_len of the largest offset), as in Check/C04.v: the model's element-by-element writer is
   quadratic. *)
Definition build_first (m : mode) (V : list N) : res intvec :=
  let mx := list_max V in
  if mx <? C04.BIG_ALPHABET then start_offsets m V (lenN V) mx
  else
    let* offs := first_offsets m V (lenN V) mx in
    let w := bit_len (list_max offs) in
    match C04.intvec_of_elems (C04.packed_elems w offs) with
    | Some f => Ok f
    | None => Panic PDoc
    end.

(* WaveletMatrix::from(vals) around an already built core *)
Definition matrix_of (m : mode) (V : list N) (core : wmcore) : res wmatrix :=
  let* f := build_first m V in Ok (mkwm (lenN V) core f).

(* WMCore::from(vals), and WaveletMatrix::from(vals) when asked for *)
Definition build (sp : selpath) (m : mode) (has_wm : bool) (V : list N) : res (wmcore * option wmatrix) :=
  let* core := wm_core_from sp m V in
  if has_wm then let* w := matrix_of m V core in Ok (core, Some w)
  else Ok (core, None).

Definition build_wm (sp : selpath) (m : mode) (V : list N) : res wmatrix :=
  let* core := wm_core_from sp m V in matrix_of m V core.
