(* Shared by the correspondence checks of the serialization properties (C06, C14, C19):
   recipes (the generated DATA a value is built from, never its serialized form), construction of the model
   value from a recipe, equality of model values, outcome codes of load/serialize/skip_option. *)
From Coq Require Import NArith List Bool.
Require Import SDS.Model.Mach SDS.Model.Bits SDS.Model.Raw SDS.Model.IntVec SDS.Model.BitVec SDS.Model.Ser.
Require Import SDS.Spec.Stream SDS.Check.Common.
Require SDS.Model.RL.      (* qualified *)
Require SDS.Spec.SeqSpec SDS.Model.Hist.   (* qualified: operation histories *)
Import ListNotations.
Open Scope N_scope.

Inductive recipe :=
| RN (x : N)
| RP (a b : N)
| RLN (l : list N)
| RLP (l : list (N * N))
| RBy (l : list N)                          (* bytes (Vec<u8> or the UTF-8 bytes of a String) *)
| ROpt (o : option recipe)
| RRaw (len : N) (words : list N)
| RIv (len width : N) (words : list N)      (* items packed by the harness on its own *)
| RRank (len : N) (words : list N)          (* RankSupport::new of that bitvector *)
| RSel (compl : bool) (len : N) (words : list N)
| RBV (len : N) (words : list N) (subset : N)
| RRL (len : N) (runs : list (N * N))
(* a value REACHED by a history of safe calls from RawVector::new() / IntVector::new(w0) (replayed by Model/Hist.v) *)
| RRawH (ops : list SDS.Spec.SeqSpec.rop)
| RIvH (w0 : N) (ops : list SDS.Spec.SeqSpec.iop).     (* RLBuilder: try_set(start, length).unwrap() per run, set_len(len), RLVector::from *)

(* the history operations and the huge arguments under the short names the case files use (as in Check/C08.v) *)
Definition MX : N := 18446744073709551615.
Definition MX1 : N := 18446744073709551614.
Definition H63 : N := 9223372036854775808.
Definition HWithLen := SDS.Spec.SeqSpec.RWithLen.
Definition HResize := SDS.Spec.SeqSpec.RResize.
Definition HClear := SDS.Spec.SeqSpec.RClear.
Definition HReserve := SDS.Spec.SeqSpec.RReserve.
Definition HCompl := SDS.Spec.SeqSpec.RComplement.
Definition HPushBit := SDS.Spec.SeqSpec.RPushBit.
Definition HPopBit := SDS.Spec.SeqSpec.RPopBit.
Definition HSetBit := SDS.Spec.SeqSpec.RSetBit.
Definition HBit := SDS.Spec.SeqSpec.RBit.
Definition HCount := SDS.Spec.SeqSpec.RCountOnes.
Definition JWithLen := SDS.Spec.SeqSpec.IWithLen.
Definition JFrom := SDS.Spec.SeqSpec.IFrom.
Definition JGet := SDS.Spec.SeqSpec.IGet.
Definition JSet := SDS.Spec.SeqSpec.ISet.
Definition JPush := SDS.Spec.SeqSpec.IPush.
Definition JPop := SDS.Spec.SeqSpec.IPop.
Definition JResize := SDS.Spec.SeqSpec.IResize.
Definition JClear := SDS.Spec.SeqSpec.IClear.
Definition JReserve := SDS.Spec.SeqSpec.IReserve.
Definition JPack := SDS.Spec.SeqSpec.IPack.
Definition JExtend := SDS.Spec.SeqSpec.IExtend.
Definition JCount := SDS.Spec.SeqSpec.ICountOnes.

Definition sp_of (path : N) : selpath := if path =? 0 then Pdep else Portable.
Definition mode_of (dbg : bool) : mode := if dbg then Debug else Release.

Definition ok_opt {A} (r : res A) : option A := match r with Ok a => Some a | _ => None end.

Fixpoint build (sp : selpath) (m : mode) (t : ty) (r : recipe) : option (interp t) :=
  match t return option (interp t) with
  | TU64 | TUsize => match r with RN x => Some x | _ => None end
  | TPair => match r with RP a b => Some (a, b) | _ => None end
  | TVecU64 => match r with RLN l => Some l | _ => None end
  | TVecPair => match r with RLP l => Some l | _ => None end
  | TBytes | TString => match r with RBy l => Some l | _ => None end
  | TOpt t' => match r with
               | ROpt None => Some None
               | ROpt (Some r') => match build sp m t' r' with Some x => Some (Some x) | None => None end
               | _ => None
               end
  | TRaw => match r with
            | RRaw len words => Some (mkraw len words)
            | RRawH ops => match SDS.Model.Hist.rrun raw_new ops with Ok (x, _) => Some x | _ => None end
            | _ => None
            end
  | TIntVec => match r with
               | RIv len width words => Some (mkiv len width (mkraw (len * width) words))
               | RIvH w0 ops => match iv_new w0 with
                                | Some v0 => match SDS.Model.Hist.irun v0 ops with Ok (x, _) => Some x | _ => None end
                                | None => None
                                end
               | _ => None
               end
  | TRank => match r with RRank len words => ok_opt (rank_new (bv_from_raw (mkraw len words))) | _ => None end
  | TSelect => match r with
               | RSel compl len words =>
                   ok_opt (select_new sp m (if compl then Complement else Identity) (bv_from_raw (mkraw len words)))
               | _ => None
               end
  | TBitVec => match r with
               | RBV len words subset =>
                   match bv_enable_all sp m (bv_from_raw (mkraw len words)) with
                   | Ok b => Some (bv_restrict subset b)
                   | _ => None
                   end
               | _ => None
               end
  | TRL => match r with
           | RRL len runs =>
               match RL.rl_build m (map (fun p => RL.BTrySet (fst p) (snd p)) runs ++ [RL.BSetLen len]) with
               | Ok (v, oks) => if forallb (fun x => x) oks then Some v else None
               | _ => None
               end
           | _ => None
           end
  end.

Definition rs_eqb (a b : rank_support) : bool := nnlist_eqb (rs_samples a) (rs_samples b).
Definition ss_eqb (a b : select_support) : bool :=
  iv_eqb (ss_samples a) (ss_samples b) && iv_eqb (ss_long a) (ss_long b) && iv_eqb (ss_short a) (ss_short b).
Definition bv_eqb (a b : bitvec) : bool :=
  (bv_ones a =? bv_ones b) && raw_eqb (bv_data a) (bv_data b) && opt_eqb rs_eqb (bv_rank a) (bv_rank b)
  && opt_eqb ss_eqb (bv_select a) (bv_select b) && opt_eqb ss_eqb (bv_select_zero a) (bv_select_zero b).

Definition si_eqb (a b : RL.sindex) : bool :=
  (RL.si_num_values a =? RL.si_num_values b) && (RL.si_divisor a =? RL.si_divisor b)
  && iv_eqb (RL.si_samples a) (RL.si_samples b).
(* all seven fields: the three rebuilt sample indexes included *)
Definition rl_eqb (a b : RL.rlvec) : bool :=
  (RL.rl_len a =? RL.rl_len b) && (RL.rl_ones a =? RL.rl_ones b)
  && si_eqb (RL.rl_rank_index a) (RL.rl_rank_index b) && si_eqb (RL.rl_select_index a) (RL.rl_select_index b)
  && si_eqb (RL.rl_select_zero_index a) (RL.rl_select_zero_index b)
  && iv_eqb (RL.rl_samples a) (RL.rl_samples b) && iv_eqb (RL.rl_data a) (RL.rl_data b).

Fixpoint val_eqb (t : ty) : interp t -> interp t -> bool :=
  match t return interp t -> interp t -> bool with
  | TU64 | TUsize => N.eqb
  | TPair => nn_eqb
  | TVecU64 => nlist_eqb
  | TVecPair => nnlist_eqb
  | TBytes | TString => nlist_eqb
  | TOpt t' => opt_eqb (val_eqb t')
  | TRaw => raw_eqb
  | TIntVec => iv_eqb
  | TRank => rs_eqb
  | TSelect => ss_eqb
  | TBitVec => bv_eqb
  | TRL => rl_eqb
  end.

(* the stream the implementation wrote: whole elements, then (never, if it is right) stray bytes *)
Definition stream (elems tail : list N) : list byte := flat_map le64 elems ++ tail.

(* outcome codes: 0 Ok, 1 UnexpectedEof, 2 InvalidData, 3 any other error, 4 WriteZero, 10 + class for a panic *)
Definition ek_code (e : ekind) : N :=
  match e with UnexpectedEof => 1 | InvalidData => 2 | OtherErr => 3 | WriteZero => 4 end.
Definition io_code {A} (r : io A) : N :=
  match r with IoOk _ => 0 | IoErr e => ek_code e | IoPanic k => 10 + pk_code k end.
Definition code_is_err (c : N) : bool := (1 <=? c) && (c <=? 4).

(* run-length decoding of outcome lists *)
Fixpoint rle_expand (l : list (N * N)) : list N :=
  match l with [] => [] | (c, n) :: t => repeatN c (N.to_nat n) ++ rle_expand t end.

(* positions to evaluate in the model: all of them for short streams, a sample plus both ends for long ones *)
Definition sampled (limit stride total k : N) : bool :=
  (total <=? limit) || (k mod stride =? 0) || (k <? 24) || (total <? k + 24).

(* forall k < |obs|: f k agrees with obs[k] (where sampled) *)
Fixpoint agree_from (f : N -> N) (keep : N -> bool) (k : N) (obs : list N) : bool :=
  match obs with
  | [] => true
  | o :: t => (if keep k then f k =? o else true) && agree_from f keep (k + 1) t
  end.
