(* Correspondence check for C13: what the real crate's mapped views did on real mapped files, against
   Model/Mapped.v (same file, same offset, the build's overflow mode) and, independently, against a naive
   decoding of the element list ("what loading from this offset would give"). The spec side uses neither
   the model nor gen/. *)
From Coq Require Import NArith List Bool.
Require Import SDS.Model.Mach SDS.Spec.BitSeq SDS.Spec.Utf8 SDS.Check.Common.
Require SDS.Spec.AddrSpace SDS.gen.MmapCfg SDS.Model.Mmap.   (* qualified: MemoryMap::new on a file of any size in bytes *)
Require Export SDS.Model.Mapped.   (* the case files name the view types *)
Import ListNotations.
Open Scope N_scope.

(* content read through a view by the harness *)
Inductive ocontent :=
| OVec (items : list N)
| OPairs (items : list (N * N))
| OBytes (bs : list N)
| OStr (bs : list N)
(* len(), every word(i), count_ones(), bit(i) for i < min(len, 64 * words), sampled int(bit_offset, width) = value *)
| ORaw (len : N) (words : list N) (ones : N) (bits : list bool) (ints : list (N * N * N))
(* len(), width(), get(i) for every i < len (None: len/width do not describe the words, items not read) *)
| OInt (len width : N) (items : option (list N))
| OOpt (o : option ocontent)
| OSkip.   (* the view's declared extent is not backed by the file: content not touched *)

Inductive outcome :=
| OOk (map_offset map_len : ires N) (c : ocontent)
| OErr (kind : N)      (* 1 = UnexpectedEof, 2 = InvalidData, 0 = any other ErrorKind *)
| OPanic (k : N).

(* one view request: type, offset, comparison with Serialize::load made in Rust
   (0 = not compared, 1 = same content / both refused, 2 = differs), what happened *)
Definition vobs : Type := (vtype * N * N * outcome)%type.

Inductive case :=
(* MemoryMap::new on a file holding these elements: refused? *)
| CMap (file : list N) (refused : bool)
(* MemoryMap::new on a file of nbytes bytes (a structure cut inside an element): refused or not *)
| CMapBytes (dbg : bool) (nbytes : N) (refused : bool)
(* views requested on the mapped file *)
| CViews (dbg : bool) (file : list N) (views : list vobs).

Definition mode_of (dbg : bool) : mode := if dbg then Debug else Release.

(* ------------------------------------------------------------------ model side *)

Definition ek_code (k : ekind) : N := match k with UnexpectedEof => 1 | InvalidData => 2 end.

Definition res_is {A} (eqb : A -> A -> bool) (r : res A) (x : A) : bool :=
  match r with Ok y => eqb y x | _ => false end.

Fixpoint upto (n : nat) : list N := match n with O => [] | S k => upto k ++ [N.of_nat k] end.

Definition all_ok {A} (l : list (res A)) : option (list A) :=
  fold_right (fun r acc => match r, acc with Ok a, Some t => Some (a :: t) | _, _ => None end) (Some []) l.

Definition raw_agree (r : rmapper) (len : N) (words : list N) (ones : N) (bits : list bool) (ints : list (N * N * N)) : bool :=
  (rm_len r =? len)
  && res_is nlist_eqb (ms_items1 (rm_data r)) words
  && (ms_len (rm_data r) =? lenN words)
  && opt_eqb nlist_eqb (all_ok (map (rm_word r) (upto (length words)))) (Some words)
  && res_is N.eqb (rm_count_ones r) ones
  && opt_eqb blist_eqb (all_ok (map (rm_bit r) (upto (length bits)))) (Some bits)
  && (lenN bits =? N.min len (64 * lenN words))
  && forallb (fun t => match t with (bo, w, v) => res_is N.eqb (rm_int r bo w) v end) ints.

(* the model says the view's declared extent is not backed by the file *)
Fixpoint unbacked (v : view) : bool :=
  match v with
  | VwVec s => is_oob (ms_items1 s)
  | VwPairs s => is_oob (ms_items2 s)
  | VwBytes b | VwStr b => is_oob (mb_bytes b)
  | VwRaw r => is_oob (ms_items1 (rm_data r))
  | VwInt i => is_oob (ms_items1 (rm_data (im_data i)))
  | VwOpt o => match mo_data o with Some v' => unbacked v' | None => false end
  end.

Fixpoint content_agree (m : mode) (v : view) (c : ocontent) : bool :=
  match v, c with
  (* content not read by the harness: the model must say the extent is not backed by the file *)
  | _, OSkip => unbacked v
  | VwVec s, OVec items => res_is nlist_eqb (ms_items1 s) items && (ms_len s =? lenN items)
  | VwPairs s, OPairs items => res_is nnlist_eqb (ms_items2 s) items && (ms_len s =? lenN items)
  | VwBytes b, OBytes bs => res_is nlist_eqb (mb_bytes b) bs && (mb_len b =? lenN bs)
  | VwStr b, OStr bs => res_is nlist_eqb (mb_bytes b) bs && (mb_len b =? lenN bs)
  | VwRaw r, ORaw len words ones bits ints => raw_agree r len words ones bits ints
  | VwInt i, OInt len width items =>
      (im_len i =? len) && (im_width i =? width) &&
      match items with
      | Some l => opt_eqb nlist_eqb (all_ok (map (im_get m i) (upto (length l)))) (Some l) && (lenN l =? len)
      | None => true
      end
  | VwOpt o, OOpt oc =>
      match mo_data o, oc with
      | None, None => true
      | Some v', Some c' => content_agree m v' c'
      | _, _ => false
      end
  | _, _ => false
  end.

Definition model_ok (m : mode) (file : list N) (o : vobs) : bool :=
  match o with
  | (ty, off, _, out) =>
      match view_new m ty file off, out with
      | VOk v, OOk mo ml c =>
          res_agree N.eqb (view_map_offset m v) mo && res_agree N.eqb (view_map_len m v) ml && content_agree m v c
      | VErr k, OErr c => ek_code k =? c
      | VPanic k, OPanic c => pk_code k =? c
      | _, _ => false
      end
  end.

(* ------------------------------------------------------------------ spec side: decode the elements directly *)

Definition sp_get (l : list N) (i : N) : option N :=
  if i <? N.of_nat (length l) then nth_error l (N.to_nat i) else None.
(* elements [pos, pos + n) of the file, when they exist *)
Definition sp_take (l : list N) (pos n : N) : option (list N) :=
  if pos + n <=? N.of_nat (length l) then Some (firstn (N.to_nat n) (skipn (N.to_nat pos) l)) else None.

Definition sp_bytes_of (w : N) : list N := map (fun k => (w / 2 ^ (8 * N.of_nat k)) mod 256) (seq 0 8).
Fixpoint sp_pairs (l : list N) : list (N * N) := match l with a :: b :: t => (a, b) :: sp_pairs t | _ => [] end.

Inductive scontent :=
| SVec (xs : list N) | SPairs (ps : list (N * N)) | SBytes (bs : list N) | SStr (bs : list N)
| SRaw (len : N) (words : list N)
| SInt (len width rawlen : N) (words : list N)
| SOpt (o : option scontent).

Inductive sres :=
| SOk (size : N) (c : scontent)   (* the structure decodes; it occupies [size] elements *)
| SEof                            (* starts outside the file or runs past its end *)
| SInvalid                        (* decodes but fails the sanity check (UTF-8) *)
| SFree.                          (* MappedOption whose size element is 2^64 - 1: map_len() = size + 1 is undefined *)

Definition sp_slice (elems : N) (file : list N) (off : N) : option (option (N * list N)) :=
  (* Some None = eof, Some (Some (n, elements)); whatever the declared length, exact arithmetic *)
  match sp_get file off with
  | None => Some None
  | Some n =>
      match sp_take file (off + 1) (n * elems) with
      | Some l => Some (Some (n, l))
      | None => Some None
      end
  end.

Definition sp_bytes (file : list N) (off : N) : option (option (N * list N)) :=
  match sp_get file off with
  | None => Some None
  | Some n =>
      match sp_take file (off + 1) ((n + 7) / 8) with
      | Some l => Some (Some ((n + 7) / 8, firstn (N.to_nat n) (flat_map sp_bytes_of l)))
      | None => Some None
      end
  end.

Definition sp_raw (file : list N) (off : N) : sres :=
  match sp_get file off with
  | None => SEof
  | Some len =>
      match sp_slice 1 file (off + 1) with
      | None => SFree
      | Some None => SEof
      | Some (Some (n, ws)) => SOk (2 + n) (SRaw len ws)
      end
  end.

Fixpoint spec_decode (t : vtype) (file : list N) (off : N) : sres :=
  match t with
  | TyVec => match sp_slice 1 file off with
             | None => SFree | Some None => SEof
             | Some (Some (n, l)) => SOk (1 + n) (SVec l) end
  | TyPairs => match sp_slice 2 file off with
               | None => SFree | Some None => SEof
               | Some (Some (n, l)) => SOk (1 + 2 * n) (SPairs (sp_pairs l)) end
  | TyBytes => match sp_bytes file off with
               | None => SFree | Some None => SEof
               | Some (Some (w, bs)) => SOk (1 + w) (SBytes bs) end
  | TyStr => match sp_bytes file off with
             | None => SFree | Some None => SEof
             | Some (Some (w, bs)) => if sp_utf8 bs then SOk (1 + w) (SStr bs) else SInvalid end
  | TyRaw => sp_raw file off
  | TyInt =>
      match sp_get file off, sp_get file (off + 1) with
      | Some len, Some width =>
          (* a width no IntVector has is refused before the raw vector is looked at (repair ed19660) *)
          if (width =? 0) || (64 <? width) then SInvalid else
          match sp_raw file (off + 2) with
          | SOk sz (SRaw rl ws) => SOk (2 + sz) (SInt len width rl ws)
          | SOk _ _ => SFree
          | r => r
          end
      | _, _ => SEof
      end
  | TyOpt t' =>
      match sp_get file off with
      | None => SEof
      | Some s =>
          if s =? 0 then SOk 1 (SOpt None)
          else if 2 ^ 64 - 1 <=? s then SFree
          else match spec_decode t' file (off + 1) with
               | SOk _ c => SOk (s + 1) (SOpt (Some c))   (* the size element is what load/skip trust *)
               | r => r
               end
      end
  end.

(* the w bits starting at bit bo of the words *)
Definition sp_read (ws : list N) (bo w : N) : N :=
  bits_to_N (firstn (N.to_nat w) (skipn (N.to_nat bo) (bits_of_words ws))).

Fixpoint scontent_ok (s : scontent) (c : ocontent) : bool :=
  match s, c with
  | SVec xs, OVec ys => nlist_eqb xs ys
  | SPairs xs, OPairs ys => nnlist_eqb xs ys
  | SBytes xs, OBytes ys => nlist_eqb xs ys
  | SStr xs, OStr ys => nlist_eqb xs ys
  | SRaw len ws, ORaw len' ws' ones bits ints =>
      (len =? len') && nlist_eqb ws ws'
      && (ones =? count (bits_of_words ws))
      && blist_eqb bits (firstn (N.to_nat (N.min len (64 * N.of_nat (length ws)))) (bits_of_words ws))
      && forallb (fun t => match t with (bo, w, v) =>
                    (* only reads inside the words are defined *)
                    if (1 <=? w) && (w <=? 64) && (bo + w <=? 64 * N.of_nat (length ws)) then v =? sp_read ws bo w
                    else w =? 0 end) ints
  | SInt len width rl ws, OInt len' width' items =>
      (len =? len') && (width =? width') &&
      match items with
      | Some l =>
          (* the harness reads items only when the header describes the words *)
          (1 <=? width) && (width <=? 64) && (len * width <=? 64 * N.of_nat (length ws))
          && (N.of_nat (length l) =? len)
          && nlist_eqb l (map (fun i => sp_read ws (i * width) width) (upto (length l)))
      | None => true
      end
  | SOpt None, OOpt None => true
  | SOpt (Some s'), OOpt (Some c') => scontent_ok s' c'
  | _, _ => false
  end.

Definition spec_ok (file : list N) (o : vobs) : bool :=
  match o with
  | (ty, off, loadcmp, out) =>
      negb (loadcmp =? 2) &&
      match spec_decode ty file off, out with
      | SOk size s, OOk (IOk mo) (IOk ml) c => (mo =? off) && (ml =? size) && scontent_ok s c
      | SEof, OErr k => k =? 1
      | SInvalid, OErr k => k =? 2
      | SFree, OPanic _ => false
      | SFree, _ => true
      | _, _ => false
      end
  end.

Definition check (c : case) : N :=
  match c with
  | CMap file refused =>
      code (Bool.eqb (match mm_new file with None => true | Some _ => false end) refused)
           (Bool.eqb (match file with [] => true | _ => false end) refused)
  | CMapBytes dbg nbytes refused =>
      let m_ref := match SDS.Model.Mmap.map_new SDS.gen.MmapCfg.cur_cmp (mode_of dbg) SDS.Model.Mmap.ReadOnly (Some nbytes) [] with
                   | Ok (_, SDS.Model.Mmap.Mapped _) => false
                   | _ => true
                   end in
      code (Bool.eqb m_ref refused) (Bool.eqb ((nbytes =? 0) || negb (nbytes mod 8 =? 0)) refused)
  | CViews dbg file views =>
      code (forallb (model_ok (mode_of dbg) file) views) (forallb (spec_ok file) views)
  end.

(* per-view codes, for replays *)
Definition explain (c : case) : list (N * N) :=
  match c with
  | CMap _ _ => []
  | CMapBytes _ _ _ => []
  | CViews dbg file views =>
      map (fun o => (snd (fst (fst o)), code (model_ok (mode_of dbg) file o) (spec_ok file o))) views
  end.
