(* Correspondence check for C16: call histories on the real RLBuilder / SparseBuilder, with the outcome and
   the observables recorded after every call and the converted vector at the end, replayed through
   Model/Builders.v (code bit 1) and independently through Spec/BuilderSpec.v (code bit 2). *)
From Coq Require Import NArith List Bool.
Require Import SDS.Model.Mach SDS.Model.Builders SDS.Check.Common.
Require Export SDS.Spec.BuilderSpec.   (* the case files name the call constructors TrySet / SetLen / NewS / ... *)
Import ListNotations.
Open Scope N_scope.

(* one observed call: outcome (IOk 0 = returned normally / Ok, IOk 1 = Err, IPanic class),
   then the getters, then (RL only) the runs of RLVector::from(builder.clone()) *)
Definition rl_seen : Type := ires N * ires (N * N * N * bool) * ires (list (N * N)).
Definition sp_seen : Type := ires N * ires sp_obs_t.

Inductive case :=
(* RLBuilder::new(), the calls, and RLVector::from at the end: (run_iter, len, count_ones) *)
| CRL (dbg : bool) (ops : list rlop) (trace : list rl_seen) (final : ires (list (N * N) * N * N))
(* SparseBuilder::new / multiset ([made] = the constructor returned a builder), the calls, and
   SparseVector::try_from at the end: None = Err, Some (len, count_ones, one_iter positions) *)
| CSP (dbg : bool) (c : sctor) (made : bool) (ops : list sop) (trace : list sp_seen)
      (final : ires (option (N * N * list N))).

Definition mode_of (dbg : bool) : mode := if dbg then Debug else Release.

Definition quad_eqb (a b : N * N * N * bool) : bool :=
  match a, b with (a1, a2, a3, a4), (b1, b2, b3, b4) => (a1 =? b1) && (a2 =? b2) && (a3 =? b3) && Bool.eqb a4 b4 end.
Definition obs7_eqb (a b : sp_obs_t) : bool :=
  match a, b with
  | (a1, a2, a3, a4, a5, a6, a7), (b1, b2, b3, b4, b5, b6, b7) =>
    (a1 =? b1) && (a2 =? b2) && (a3 =? b3) && (a4 =? b4) && Bool.eqb a5 b5 && Bool.eqb a6 b6 && Bool.eqb a7 b7
  end.
Definition fin_rl_eqb (a b : list (N * N) * N * N) : bool :=
  match a, b with (r1, n1, o1), (r2, n2, o2) => nnlist_eqb r1 r2 && (n1 =? n2) && (o1 =? o2) end.
Definition fin_sp_eqb (a b : option (N * N * list N)) : bool :=
  opt_eqb (fun x y => match x, y with (n1, o1, p1), (n2, o2, p2) => (n1 =? n2) && (o1 =? o2) && nlist_eqb p1 p2 end) a b.

Definition is_iok {A} (eqb : A -> A -> bool) (x : A) (i : ires A) : bool :=
  match i with IOk y => eqb x y | IPanic _ => false end.

Fixpoint all2 {A B} (f : A -> B -> bool) (l1 : list A) (l2 : list B) : bool :=
  match l1, l2 with
  | [], [] => true
  | x :: t, y :: u => f x y && all2 f t u
  | _, _ => false
  end.

Definition out_code (o : outcome) : N := match o with Accepted => 0 | Rejected => 1 end.

(* ---- model side *)

Definition rl_model_entry (e : outcome * rl_obs_t) (s : rl_seen) : bool :=
  match e, s with
  | (o, (n, ones, zeros, emp, runs)), (so, sg, sr) =>
    is_iok N.eqb (out_code o) so && is_iok quad_eqb (n, ones, zeros, emp) sg && is_iok nnlist_eqb runs sr
  end.

Definition rl_model_ok (dbg : bool) (ops : list rlop) (trace : list rl_seen) (final : ires (list (N * N) * N * N)) : bool :=
  let m := mode_of dbg in
  match rl_trace m rl_init ops with
  | Ok tr => all2 rl_model_entry tr trace
  | _ => false
  end &&
  res_agree fin_rl_eqb (let* b := rl_run m rl_init ops in rl_finish m b) final.

Definition sp_model_entry (e : res outcome * sp_obs_t) (s : sp_seen) : bool :=
  res_agree N.eqb (rmap out_code (fst e)) (fst s) && is_iok obs7_eqb (snd e) (snd s).

Definition sp_model_ok (dbg : bool) (c : sctor) (made : bool) (ops : list sop) (trace : list sp_seen)
           (final : ires (option (N * N * list N))) : bool :=
  let m := mode_of dbg in
  match sb_make c with
  | None => negb made
  | Some b0 =>
    made && all2 sp_model_entry (sb_trace m b0 ops) trace &&
    is_iok fin_sp_eqb (sb_finish (sb_run m b0 ops)) final
  end.

(* ---- specification side (uses nothing of Model/ but the result types of the harness) *)

Definition sout_agree (s : sout) (i : ires N) : bool :=
  match s, i with
  | SAccepted, IOk c => c =? 0
  | SRejected, IOk c => c =? 1
  | SPanicked, IPanic c => negb (c =? 9)
  | _, _ => false
  end.

Definition rl_spec_entry (e : sout * rl_obs_t) (s : rl_seen) : bool :=
  match e, s with
  | (o, (n, ones, zeros, emp, runs)), (so, sg, sr) =>
    sout_agree o so && is_iok quad_eqb (n, ones, zeros, emp) sg && is_iok nnlist_eqb runs sr
  end.

Definition rl_spec_ok (ops : list rlop) (trace : list rl_seen) (final : ires (list (N * N) * N * N)) : bool :=
  all2 rl_spec_entry (rl_spec_trace rl_spec_init ops) trace &&
  is_iok fin_rl_eqb (rl_spec_final (fold_left rl_spec_step ops rl_spec_init)) final.

Definition sp_spec_entry (e : sout * sp_obs_t) (s : sp_seen) : bool :=
  sout_agree (fst e) (fst s) && is_iok obs7_eqb (snd e) (snd s).

Definition sp_spec_ok (c : sctor) (made : bool) (ops : list sop) (trace : list sp_seen)
           (final : ires (option (N * N * list N))) : bool :=
  match sp_params c with
  | None => negb made
  | Some P =>
    made && all2 sp_spec_entry (sp_trace P [] ops) trace &&
    is_iok fin_sp_eqb (sp_finish P (sp_run P [] ops)) final
  end.

Definition check (c : case) : N :=
  match c with
  | CRL dbg ops trace final => code (rl_model_ok dbg ops trace final) (rl_spec_ok ops trace final)
  | CSP dbg ct made ops trace final =>
    code (sp_model_ok dbg ct made ops trace final) (sp_spec_ok ct made ops trace final)
  end.

(* replay aid: what model and specification expect for a case *)
Definition explain (c : case) :=
  match c with
  | CRL dbg ops _ _ =>
    (rl_trace (mode_of dbg) rl_init ops, rl_spec_trace rl_spec_init ops,
     @nil (res outcome * sp_obs_t), @nil (sout * sp_obs_t))
  | CSP dbg ct _ ops _ _ =>
    (Ok [], [],
     match sb_make ct with Some b0 => sb_trace (mode_of dbg) b0 ops | None => [] end,
     match sp_params ct with Some P => sp_trace P [] ops | None => [] end)
  end.
