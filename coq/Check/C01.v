(* Correspondence check for C01: plain bitvector queries and serialized support structures against
   Model/BitVec.v, and the answers against the naive list specification. *)
From Coq Require Import NArith List Bool.
Require Import SDS.Model.Mach SDS.Model.Bits SDS.Model.Raw SDS.Model.IntVec SDS.Model.BitVec SDS.Model.SerBV.
Require Import SDS.Spec.BitSeq SDS.Check.Common.
Import ListNotations.
Open Scope N_scope.

Inductive query :=
| QGet (i : N) (out : bool)
| QRank (i out : N)
| QRank0 (i out : N)
| QSel (r : N) (out : option N)
| QSel0 (r : N) (out : option N)
| QPred (v : N) (out : option (N * N))
| QSucc (v : N) (out : option (N * N)).

Inductive case :=
(* path: 0 = BMI2 build, 1 = portable; dbg: overflow checks on; (len, words): the bit sequence;
   sup: which supports were enabled (1 rank + 2 select + 4 select_zero); ser: serialized elements; routes: the three construction routes gave
   equal vectors with identical bytes; len/ones/zeros as reported *)
| CBV (path : N) (dbg : bool) (sup : N) (len : N) (words : list N) (ser : list N) (routes : bool)
      (r_len r_ones r_zeros : N) (qs : list query)
(* the implementation panicked while building or querying this bit sequence (class k) *)
| CCrash (len : N) (words : list N) (k : N).

Definition sp_of (path : N) : selpath := if path =? 0 then Pdep else Portable.
Definition mode_of (dbg : bool) : mode := if dbg then Debug else Release.

Definition first_of (sp : selpath) (m : mode) (b : bitvec) (it : res one_iter) : res (option (N * N)) :=
  let* i := it in let* (_, r) := oi_next_f Identity b i in Ok r.

Definition model_query (sp : selpath) (m : mode) (b : bitvec) (q : query) : bool :=
  match q with
  | QGet i out => match bv_get b i with Ok v => Bool.eqb v out | _ => false end
  | QRank i out => match bv_rank_q b i with Ok v => v =? out | _ => false end
  | QRank0 i out => match bv_rank_zero m b i with Ok v => v =? out | _ => false end
  | QSel r out => match bv_select_t sp m Identity b r with Ok v => onat_eqb v out | _ => false end
  | QSel0 r out => match bv_select_t sp m Complement b r with Ok v => onat_eqb v out | _ => false end
  | QPred v out => match first_of sp m b (bv_predecessor sp m b v) with Ok r => onn_eqb r out | _ => false end
  | QSucc v out => match first_of sp m b (bv_successor sp m b v) with Ok r => onn_eqb r out | _ => false end
  end.

(* spec answers from precomputed position lists *)
Fixpoint count_below (l : list N) (i : N) : N :=
  match l with [] => 0 | p :: t => if p <? i then 1 + count_below t i else 0 end.

Definition spec_query (B : list bool) (os zs : list N) (q : query) : bool :=
  match q with
  | QGet i out => opt_eqb Bool.eqb (getb B i) (Some out)
  | QRank i out => count_below os i =? out
  | QRank0 i out => (i - count_below os i =? out)
  | QSel r out => onat_eqb (nth_opt os r) out
  | QSel0 r out => onat_eqb (nth_opt zs r) out
  | QPred v out => onn_eqb (hd_error (pred_suffix_aux (index_from os 0) v [])) out
  | QSucc v out => onn_eqb (hd_error (drop_below (index_from os 0) v)) out
  end.

Definition enable_mask (sp : selpath) (m : mode) (sup : N) (b : bitvec) : res bitvec :=
  let* b1 := if N.testbit sup 0 then bv_enable_rank b else Ok b in
  let* b2 := if N.testbit sup 1 then bv_enable_select_t sp m Identity b1 else Ok b1 in
  if N.testbit sup 2 then bv_enable_select_t sp m Complement b2 else Ok b2.

Definition check (c : case) : N :=
  match c with
  | CBV path dbg sup len words ser routes r_len r_ones r_zeros qs =>
      let sp := sp_of path in let m := mode_of dbg in
      let m_ok :=
        match enable_mask sp m sup (bv_from_raw (mkraw len words)) with
        | Ok b => nlist_eqb (bv_serialize b) ser && (bv_len b =? r_len) && (bv_count_ones b =? r_ones)
                  && (bv_count_zeros b =? r_zeros) && forallb (model_query sp m b) qs
        | _ => false
        end in
      let B := bits_of len words in
      let os := if N.testbit sup 0 || N.testbit sup 1 then ones B else [] in
      let zs := if N.testbit sup 2 then zeros B else [] in
      let s_ok := routes && (lenB B =? r_len) && (count B =? r_ones) && (lenB B - count B =? r_zeros)
                  && forallb (spec_query B os zs) qs in
      code m_ok s_ok
  | CCrash _ _ _ => 3
  end.

(* what the model computes for a case (for replays) *)
Definition explain (c : case) :=
  match c with
  | CBV path dbg sup len words ser routes r_len r_ones r_zeros qs =>
      let sp := sp_of path in let m := mode_of dbg in
      match enable_mask sp m sup (bv_from_raw (mkraw len words)) with
      | Ok b => (nlist_eqb (bv_serialize b) ser, map (model_query sp m b) qs,
                 let B := bits_of len words in map (spec_query B (ones B) (zeros B)) qs)
      | _ => (false, [], [])
      end
  | CCrash _ _ _ => (false, [], [])
  end.
