(* C04 -- wavelet matrix. Placeholder while the proofs are being developed: one real theorem. *)
From Coq Require Import NArith List Bool.
Require Import SDS.Model.Mach SDS.Model.WM.
Import ListNotations.
Open Scope N_scope.

(* value_iter starts at rank 0 and reports its value *)
Theorem C04_value_of : forall v, wm_value_of (wm_value_iter v) = v /\ vi_rank (wm_value_iter v) = 0.
Proof. intros v. split; reflexivity. Qed.
Print Assumptions C04_value_of.
