(* C04 -- the wavelet matrix reproduces the vector and answers rank/select-type queries exactly; its
   core maps a position to the position of its item in the stable sort by reversed bits, and back.
   Only property theorems here: statement, [exact lemma], Print Assumptions.

   Reading guide.
   * V : list N is the source vector (items below 2^64, i.e. any of u8/u16/u32/u64/usize).
   * Spec/Seq.v holds the reference answers: rank_v / select_v / inverse_select_v / contains_v /
     value_iter_v / select_iter_v / pred_v / succ_v over occurrence positions; [reordered V] = (position,
     value) pairs stably sorted by the reversed 64-bit representation [revkey]; map_down_v / map_up_v /
     map_down_with_v read positions off that list; width_v = minimal number of bits.
   * The embedded structures enter through their interfaces: every level bitvector [b] answers get / rank /
     select / select_zero exactly for its ideal bit column ([bv_queries_ok], Proofs/BVCommon.v; established
     by the C01 theorems for vectors built with bv_from_bits + bv_enable_all), and the offset IntVector
     returns what was stored in it ([first_ok]; the IntVector push/pack/get refinement of C05).
     [wm_columns V] are the bit columns of the successive stable partitions; [first_offsets] is the
     model of WaveletMatrix::start_offsets up to (not including) the IntVector.
   * Arguments (index, rank, value) are arbitrary 64-bit numbers; both overflow modes [m] and both
     bits::select paths [sp] are quantified.
   * list_max V + 1 < 2^64: the offset table has max+1 entries; a table of 2^64 entries cannot be allocated. *)
From Coq Require Import NArith List Bool Permutation Sorted.
Require Import SDS.Model.Mach SDS.Model.Bits SDS.Model.IntVec SDS.Model.BitVec SDS.Model.WM.
Require Import SDS.Spec.BitSeq SDS.Spec.Seq.
Require Import SDS.Proofs.BVCommon SDS.Proofs.WMSeq SDS.Proofs.WMOffsets SDS.Proofs.WMProof.
Import ListNotations.
Open Scope N_scope.

(* ---- the core mapping (WMCore): len, width, map_down, map_down_with, map_down_with_two_positions,
   map_up_with, and the round trip: mapping up inverts mapping down *)
Theorem C04_core_mapping : forall sp m V levels,
  Forall (fun x => x < 2 ^ 64) V -> lenN V < 2 ^ 64 ->
  Forall2 (bv_queries_ok sp m) levels (wm_columns V) ->
  let core := mkcore levels in
  wc_len core = Ok (lenS V) /\ wc_width core = width_v V /\
  (forall i, i < 2 ^ 64 -> wc_map_down m core i = Ok (map_down_v V i)) /\
  (forall i v, i < 2 ^ 64 -> wc_map_down_with m core i v = Ok (map_down_with_v V i (v mod 2 ^ width_v V))) /\
  (forall i1 i2 v, i1 < 2 ^ 64 -> i2 < 2 ^ 64 ->
     wc_map_down_with_two m core i1 i2 v =
     Ok (map_down_with_v V i1 (v mod 2 ^ width_v V), map_down_with_v V i2 (v mod 2 ^ width_v V))) /\
  (forall j v, j < 2 ^ 64 -> wc_map_up_with sp m core j v = Ok (map_up_v V j (v mod 2 ^ width_v V))) /\
  (forall i x, nth_opt V i = Some x ->
     exists j, j < lenS V /\ wc_map_down m core i = Ok (Some (j, x)) /\
               wc_map_down_with m core i x = Ok j /\ wc_map_up_with sp m core j x = Ok (Some i)).
Proof. exact core_mapping. Qed.
Print Assumptions C04_core_mapping.

(* the reference object of the core mapping really is the stable sort by reversed bits: a permutation of
   the (position, value) pairs, ordered by reversed 64-bit key, equal keys by original position *)
Theorem C04_reordered_is_stable_sort : forall V,
  Permutation (reordered V) (index_from V 0) /\
  StronglySorted (fun a b => revkey (snd a) < revkey (snd b) \/ (revkey (snd a) = revkey (snd b) /\ fst a < fst b))
                 (reordered V).
Proof. exact reordered_is_stable_sort. Qed.
Print Assumptions C04_reordered_is_stable_sort.

(* the position of item i in that order is: items with a smaller key + earlier occurrences of the same value *)
Theorem C04_map_down_position : forall V i x,
  Forall (fun x => x < 2 ^ 64) V -> lenN V < 2 ^ 64 ->
  nth_opt V i = Some x -> map_down_v V i = Some (less_v V x + rank_v V i x, x).
Proof. intros V i x HV Hn. exact (map_down_v_pos V HV Hn i x). Qed.
Print Assumptions C04_map_down_position.

(* ---- the matrix: length, minimal width, get, rank, select, inverse_select, contains, value_iter /
   select_iter (all items), predecessor / successor (all items), iteration *)
Theorem C04_wm_exact : forall sp m V levels first F,
  Forall (fun x => x < 2 ^ 64) V -> lenN V < 2 ^ 64 -> list_max V + 1 < 2 ^ 64 ->
  Forall2 (bv_queries_ok sp m) levels (wm_columns V) ->
  first_offsets m V (lenN V) (list_max V) = Ok F -> first_ok first F ->
  let wm := mkwm (lenN V) (mkcore levels) first in
  wm_len wm = lenS V /\ wm_width wm = width_v V /\ wm_width wm = bit_len (list_max V) /\
  (forall i, i < 2 ^ 64 -> wm_get m wm i = match get_v V i with Some x => Ok x | None => Panic PUnwrap end) /\
  (forall i v, i < 2 ^ 64 -> wm_rank m wm i v = Ok (rank_v V i v)) /\
  (forall r v, r < 2 ^ 64 -> wm_select sp m wm r v = Ok (select_v V r v)) /\
  (forall i, i < 2 ^ 64 -> wm_inverse_select m wm i = Ok (inverse_select_v V i)) /\
  (forall v, wm_contains wm v = Ok (contains_v V v)) /\
  (forall v, vi_items sp m wm (wm_value_iter v) = Ok (value_iter_v V v) /\ wm_value_of (wm_value_iter v) = v) /\
  (forall r v, r < 2 ^ 64 -> vi_items sp m wm (wm_select_iter r v) = Ok (select_iter_v V r v)) /\
  (forall i v, i < 2 ^ 64 -> (let* it := wm_predecessor m wm i v in vi_items sp m wm it) = Ok (pred_v V i v)) /\
  (forall i v, i < 2 ^ 64 -> (let* it := wm_successor m wm i v in vi_items sp m wm it) = Ok (succ_v V i v)) /\
  wm_into_iter m wm = Ok V.
Proof. exact wm_exact. Qed.
Print Assumptions C04_wm_exact.

(* values that do not occur -- absent inside the alphabet, or outside it -- have no occurrences *)
Theorem C04_absent_values : forall V v,
  ~ In v V ->
  contains_v V v = false /\ (forall i, rank_v V i v = 0) /\ (forall r, select_v V r v = None) /\
  value_iter_v V v = [] /\ (forall r, select_iter_v V r v = []) /\ (forall i, pred_v V i v = []) /\ (forall i, succ_v V i v = []).
Proof. exact absent_values. Qed.
Print Assumptions C04_absent_values.

(* ---- the offset table computed by start_offsets (counts, sort by reversed bits, prefix sums, sort back):
   entry v = number of items that sort before v if v occurs, and the length otherwise *)
Theorem C04_start_offsets : forall m V,
  Forall (fun x => x < 2 ^ 64) V -> list_max V + 1 < 2 ^ 64 ->
  exists F, first_offsets m V (lenN V) (list_max V) = Ok F /\ lenN F = list_max V + 1 /\
    forall v, v <= list_max V -> nthN F v = Some (if contains_v V v then less_v V v else lenN V).
Proof. exact first_offsets_ok. Qed.
Print Assumptions C04_start_offsets.

(* ---- construction: whenever From<Vec<T>> returns, its result meets the hypotheses of C04_wm_exact and
   C04_core_mapping, given the interface theorems of the embedded BitVector (C01) and IntVector (C05) *)
Theorem C04_from_vec : forall sp m V wm,
  Forall (fun x => x < 2 ^ 64) V -> lenN V < 2 ^ 64 -> list_max V + 1 < 2 ^ 64 ->
  (forall col r b, lenB col = lenN V -> bv_from_bits col = Ok r -> bv_enable_all sp m r = Ok b -> bv_queries_ok sp m b col) ->
  (forall F iv first, Forall (fun x => x <= lenN V) F -> lenN F = list_max V + 1 ->
     iv_from 64 F = Ok iv -> iv_pack iv = Ok first -> first_ok first F) ->
  wm_from sp m V = Ok wm ->
  exists levels first F,
    wm = mkwm (lenN V) (mkcore levels) first /\
    Forall2 (bv_queries_ok sp m) levels (wm_columns V) /\
    first_offsets m V (lenN V) (list_max V) = Ok F /\ first_ok first F.
Proof. exact wm_from_establishes. Qed.
Print Assumptions C04_from_vec.

(* the same, including that construction returns: with the existence form of the two interfaces *)
Theorem C04_from_vec_total : forall sp m V,
  Forall (fun x => x < 2 ^ 64) V -> lenN V < 2 ^ 64 -> list_max V + 1 < 2 ^ 64 ->
  (forall col, lenB col = lenN V ->
     exists r b, bv_from_bits col = Ok r /\ bv_enable_all sp m r = Ok b /\ bv_queries_ok sp m b col) ->
  (forall F, Forall (fun x => x <= lenN V) F -> lenN F = list_max V + 1 ->
     exists iv first, iv_from 64 F = Ok iv /\ iv_pack iv = Ok first /\ first_ok first F) ->
  exists levels first F,
    wm_from sp m V = Ok (mkwm (lenN V) (mkcore levels) first) /\
    Forall2 (bv_queries_ok sp m) levels (wm_columns V) /\
    first_offsets m V (lenN V) (list_max V) = Ok F /\ first_ok first F.
Proof. exact wm_from_total. Qed.
Print Assumptions C04_from_vec_total.

(* ---- non-vacuity: the vector of the crate's documentation, built by the model (every level gets its
   rank and both select supports), answers as the statements say; its ideal columns and offsets *)
Definition ex_V : list N := [1; 0; 3; 1; 1; 2; 4; 5; 1; 2; 1; 7; 0; 1].
Definition on_ex {A} (f : wmatrix -> res A) : res A := let* w := wm_from Pdep Debug ex_V in f w.
Example C04_example :
  on_ex (fun w => Ok (wm_len w, wm_width w, lenN (wc_levels (wm_data w)))) = Ok (14, 3, 3) /\
  wm_columns ex_V = [map (fun v => N.testbit v 2) ex_V;
                     map (fun v => N.testbit v 1) [1; 0; 3; 1; 1; 2; 1; 2; 1; 0; 1; 4; 5; 7];
                     map (fun v => N.testbit v 0) [1; 0; 1; 1; 1; 1; 0; 1; 4; 5; 3; 2; 2; 7]] /\
  first_offsets Debug ex_V 14 7 = Ok [0; 5; 3; 12; 2; 11; 14; 13] /\
  on_ex (fun w => wm_rank Debug w 10 2) = Ok (rank_v ex_V 10 2) /\ rank_v ex_V 10 2 = 2 /\
  on_ex (fun w => wm_select Pdep Debug w 2 1) = Ok (Some 4) /\
  on_ex (fun w => wm_select Pdep Debug w 1 7) = Ok None /\
  on_ex (fun w => wm_select Pdep Debug w (2 ^ 64 - 1) 1) = Ok None /\
  on_ex (fun w => wm_inverse_select Debug w 7) = Ok (Some (0, 5)) /\
  on_ex (fun w => wc_map_down Debug (wm_data w) 7) = Ok (map_down_v ex_V 7) /\ map_down_v ex_V 7 = Some (11, 5) /\
  on_ex (fun w => wc_map_up_with Pdep Debug (wm_data w) 11 5) = Ok (Some 7) /\
  on_ex (fun w => let* it := wm_predecessor Debug w (2 ^ 64 - 1) 2 in vi_items Pdep Debug w it) = Ok [(1, 9)] /\
  on_ex (fun w => wm_into_iter Debug w) = Ok ex_V.
Proof. vm_compute. repeat split; reflexivity. Qed.
