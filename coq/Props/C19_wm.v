(* C19 for the wavelet matrix -- it loads and works from files in which the embedded bitvectors carry no support
   structures. Only property theorems here: statement, [exact lemma], Print Assumptions, a non-vacuity Example.
   C19_levels_rebuild (Props/C19.v) states this for abstract level records; here it is tied to what the model's
   From<Vec<T>> builds: for EVERY vector V, the built core / matrix, and EVERY list ws of level records that have
   the bits of the built levels and ANY subset of their supports - in particular none ([map bv_strip]: what a
   writer that cannot build supports, e.g. another implementation of the format, produces) - the file written
   with ws loads, on every select path and in every mode, as the natively built structure itself, with all
   supports; hence it answers every query exactly (C04). *)
From Coq Require Import NArith List Bool.
Require Import SDS.Model.Mach SDS.Model.Bits SDS.Model.Raw SDS.Model.IntVec SDS.Model.BitVec SDS.Model.Ser.
Require Import SDS.Model.WM SDS.Model.SerComposite SDS.Model.SerWM.
Require Import SDS.gen.Consts SDS.Spec.Stream SDS.Proofs.BVFull.
Require Import SDS.Proofs.SerProof SDS.Proofs.SerSupports SDS.Proofs.SerWM.
Import ListNotations.
Open Scope list_scope.
Open Scope N_scope.

Theorem C19_wmcore_native : forall (sp : selpath) (m : mode) (V : list N),
  Forall (fun x => x < 2 ^ 64) V -> lenN V + 4096 < 2 ^ 64 ->
  exists levels, wm_core_from sp m V = Ok (mkcore levels) /\
  forall sp' m' ws rest, Forall2 sub_of ws levels ->
    init_support sp' m' ws = Ok levels /\
    wmcore_dec sp' m' (wmcore_enc m' (mkcore ws) ++ rest) = IoOk (mkcore levels, rest).
Proof.
  intros sp m V HV Hn. destruct (wmcore_built sp m V HV Hn) as (levels & Hc & _ & _ & _ & _ & _ & Hsub).
  exists levels. split; [exact Hc|exact Hsub].
Qed.
Print Assumptions C19_wmcore_native.

Theorem C19_wm_native : forall (sp : selpath) (m : mode) (V : list N),
  Forall (fun x => x < 2 ^ 64) V -> lenN V + 4096 < 2 ^ 64 -> list_max V + 1 < 2 ^ 58 ->
  exists levels first, wm_from sp m V = Ok (mkwm (lenN V) (mkcore levels) first) /\
  Forall2 sub_of (map bv_strip levels) levels /\
  forall sp' m' ws rest, Forall2 sub_of ws levels ->
    wm_dec sp' m' (wm_enc m' (mkwm (lenN V) (mkcore ws) first) ++ rest) =
    IoOk (mkwm (lenN V) (mkcore levels) first, rest).
Proof.
  intros sp m V HV Hn Hmax. destruct (wm_built sp m V HV Hn Hmax) as (levels & first & Hw & _ & _ & _ & _ & Hsub).
  exists levels, first. split; [exact Hw|]. split; [|exact Hsub].
  clear. induction levels as [|b t IH]; cbn [map]; constructor; [apply SerComposite.strip_sub_of|exact IH].
Qed.
Print Assumptions C19_wm_native.

(* non-vacuity: the documentation's vector written without any support structure (28 elements instead of 121)
   loads, on the other select path and in the other mode, as the native matrix *)
Example ex_wm_stripped :
  match wm_from Pdep Debug [1; 0; 3; 1; 1; 2; 4; 5; 1; 2; 1; 7; 0; 1] with
  | Ok w =>
      let stripped := mkwm (wm_len w) (mkcore (map bv_strip (wc_levels (wm_data w)))) (wm_first w) in
      lenN (wm_enc Release stripped) = 8 * 28 /\ lenN (wm_enc Release w) = 8 * 121 /\
      wm_dec Portable Release (wm_enc Release stripped ++ [5]) = IoOk (w, [5])
  | _ => False
  end.
Proof. vm_compute. repeat split; reflexivity. Qed.
