(* C19 for the sparse vector as the builder makes it: the statement Props/C19.v left open
   (C19_sparse_native_statement), with the side conditions the models live under made explicit.
   Only property theorems here. Reading guide: Props/C19.v (sub_of, sparse_dec / sparse_enc), Props/C02.v (builders). *)
From Coq Require Import NArith List Bool.
Require Import SDS.Model.Mach SDS.Model.Bits SDS.Model.Raw SDS.Model.IntVec SDS.Model.BitVec SDS.Model.Ser.
Require Import SDS.Model.Sparse SDS.Model.SerComposite SDS.Model.SerSparse.
Require Import SDS.gen.Consts SDS.Spec.Stream SDS.Spec.BitSeq SDS.Spec.ValSeq.
Require Import SDS.Proofs.SerSupports SDS.Proofs.SparseProof SDS.Proofs.SparseBuild SDS.Proofs.SerSparse.
Import ListNotations.
Open Scope N_scope.

(* Every sparse vector that SparseBuilder::new + try_set + try_from build (any universe below 2^64, any strictly
   increasing position list in it, any low width 1..63, either select path, either mode) passes the loader's two
   sanity checks - ones = low.len() and high.len() = low.len() + get_buckets(len, low.width()) are the builder's
   invariant - and comes back as THE SAME record (both select supports of the high part rebuilt to exactly the ones
   it holds) from a file in which its high part was written with ANY subset wh of those supports - in particular
   none: what a writer that cannot build supports produces -, on whichever select path and in whichever mode the
   loading binary runs; the bytes after it are left unread.
   [m + buckets + 4096 < 2^64] and [m * w + 63 < 2^64]: the bit counts of high (with the margin SelectSupport's
   superblock arithmetic needs) and of low are addressable. *)
Theorem C19_sparse_native : forall sp m w' n ps,
  n < 2 ^ 64 -> 1 <= w' <= 63 -> increasing ps = true -> all_below n ps = true ->
  let w := eff_width w' n (lenN ps) in
  lenN ps + buckets_of n w + select_SUPERBLOCK_SIZE < 2 ^ 64 -> lenN ps * w + 63 < 2 ^ 64 ->
  exists sv, sv_build_set sp m w' n ps = Ok (inl sv) /\
    forall wh, sub_of wh (sv_high sv) ->
    forall sp' m' rest,
      sparse_dec sp' m' (sparse_enc m' (mksv (sv_len sv) wh (sv_low sv)) ++ rest) = IoOk (sv, rest).
Proof.
  intros sp m w' n ps Hn Hw Hi Hb w Hfit Hbits.
  destruct (sparse_set_wf sp m w' n ps Hn Hw Hi Hb Hfit Hbits) as (sv & E & _ & D). exists sv. split; [exact E|exact D].
Qed.
Print Assumptions C19_sparse_native.

(* the same for multisets (SparseBuilder::multiset, non-decreasing values) *)
Theorem C19_sparse_native_multiset : forall sp m w' n vs,
  n < 2 ^ 64 -> 1 <= w' <= 63 -> nondecreasing vs = true -> all_below n vs = true ->
  let w := eff_width w' n (lenN vs) in
  lenN vs + buckets_of n w + select_SUPERBLOCK_SIZE < 2 ^ 64 -> lenN vs * w + 63 < 2 ^ 64 ->
  exists sv, sv_build_multiset sp m w' n vs = Ok (inl sv) /\
    forall wh, sub_of wh (sv_high sv) ->
    forall sp' m' rest,
      sparse_dec sp' m' (sparse_enc m' (mksv (sv_len sv) wh (sv_low sv)) ++ rest) = IoOk (sv, rest).
Proof.
  intros sp m w' n vs Hn Hw Hi Hb w Hfit Hbits.
  destruct (sparse_multiset_wf sp m w' n vs Hn Hw Hi Hb Hfit Hbits) as (sv & E & _ & D). exists sv. split; [exact E|exact D].
Qed.
Print Assumptions C19_sparse_native_multiset.

(* non-vacuity: {1, 6, 13} in a universe of 16 with low width 2, built by the model's builder on the PDEP path with
   overflow checks, written WITHOUT any support on its high part, loaded by a portable release binary *)
Example C19_sparse_native_example :
  match sv_build_set Pdep Debug 2 16 [1; 6; 13] with
  | Ok (inl sv) =>
      bv_supports (sv_high sv) = 6 /\
      sparse_dec Portable Release
        (sparse_enc Release (mksv (sv_len sv) (bv_restrict 0 (sv_high sv)) (sv_low sv)) ++ le64 99) = IoOk (sv, le64 99)
  | _ => False
  end.
Proof. vm_compute. split; reflexivity. Qed.
