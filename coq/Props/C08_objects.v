(* C08, part "objects" -- the safe entry points of the plain bitvector's helper objects, which a caller can reach
   directly with ANY arguments and with a parent bitvector DIFFERENT from the one a support was built for:

     Transformation::{bit, word} of Identity and Complement       (src/bit_vector.rs)
     RankSupport::rank(&self, parent, index)                      (src/bit_vector/rank_support.rs)
     SelectSupport::<T>::select(&self, parent, rank)              (src/bit_vector/select_support.rs)

   Model: Model/BitVecObj.v ([t_bit], [t_word], [rank_checked], [select_checked]); proofs: Proofs/NoOobObjects.v.
   A bounds-checked `v[i]` that misses is [Panic PIndex], IntVector::get's `assert!` is [Panic PAssert], the
   addition of values read from a support that does not belong to the parent is [uadd m] ([Panic POverflow] with
   overflow checks on, wrapping otherwise); an unchecked access that misses would be [OOB site]; the loop of select
   carries fuel and would end in [Panic PFuel] if it ran out. Each theorem lists the outcomes that remain:
   a value or one of the three defined panics - so neither OOB nor exhausted fuel.

   Only property theorems here: statement, [exact lemma], Print Assumptions, non-vacuity Examples.
   [bv_repr b B] (Proofs/BVCommon.v): b stores the bit sequence B.  [t_bits t B]: B or its complement.
   [ss_valid t B s] (Proofs/SelectProof.v): the three arrays of s describe the set bits of t(B) - what
   SelectSupport::new builds (C01_select_new). *)
From Coq Require Import NArith List Bool.
Require Import SDS.Model.Mach SDS.Model.Bits SDS.Model.Raw SDS.Model.IntVec SDS.Model.BitVec SDS.Model.BitVecObj.
Require Import SDS.Spec.BitSeq SDS.Proofs.BitsProof SDS.Proofs.BVCommon SDS.Proofs.RankProof SDS.Proofs.OneIterProof
               SDS.Proofs.SelectProof SDS.Proofs.NoOobObjects.
Import ListNotations.
Open Scope N_scope.

(* ================================================================ Transformation::bit *)

(* every bitvector, both transformations, EVERY index: inside the sequence the bit of the (complemented) sequence;
   in the unused part of the last word the padding bit (false, complemented: true) - a read inside the buffer;
   from the first bit behind the last word on: the index panic *)
Theorem C08_obj_bit : forall t b B i, bv_repr b B ->
  (i < lenB B -> exists x, t_bit t b i = Ok x /\ getb (t_bits t B) i = Some x) /\
  (lenB B <= i -> i < 64 * ((lenB B + 63) / 64) ->
     t_bit t b i = Ok (match t with Identity => false | Complement => true end)) /\
  (64 * ((lenB B + 63) / 64) <= i -> t_bit t b i = Panic PIndex).
Proof. exact t_bit_spec. Qed.
Print Assumptions C08_obj_bit.

(* ================================================================ Transformation::word *)

(* every bitvector, both transformations, EVERY index: word k of the (complemented) sequence with the positions
   at and beyond the length clear (the complement is masked to the length), exactly for k below the number of
   words; from there on the index panic. In particular never OOB: the unchecked branch of Complement::word is
   only taken for k < len / 64. *)
Theorem C08_obj_word : forall t b B k, bv_repr b B ->
  (k < (lenB B + 63) / 64 ->
     exists w, t_word t b k = Ok w /\ w < 2 ^ 64 /\
               (forall j, j < 64 -> N.testbit w j = bitB (t_bits t B) (64 * k + j))) /\
  ((lenB B + 63) / 64 <= k -> t_word t b k = Panic PIndex).
Proof. exact t_word_full. Qed.
Print Assumptions C08_obj_word.

(* the theorem is about that branch: with the test narrowed to `index >= last_index && offset > 0` ([t_word_mut])
   the word behind a 64-bit vector is read through word_unchecked, where the code as it is panics *)
Theorem C08_obj_word_narrowed_refuted :
  exists b B, bv_repr b B /\ bv_len b = 64 /\
    t_word_mut Complement b 1 = OOB SITE_RAW_WORD /\ t_word Complement b 1 = Panic PIndex.
Proof. exact t_word_mut_refuted. Qed.
Print Assumptions C08_obj_word_narrowed_refuted.

(* ================================================================ RankSupport::rank *)

(* EVERY support value (any sample list: built for this parent, for another one, or arbitrary), EVERY parent
   value (not even the representation invariant is needed), EVERY index, both modes *)
Theorem C08_obj_rank : forall m rs b i,
  (exists v, rank_checked m rs b i = Ok v) \/ rank_checked m rs b i = Panic PIndex \/
  rank_checked m rs b i = Panic PAssert \/ rank_checked m rs b i = Panic POverflow.
Proof. exact rank_checked_class. Qed.
Print Assumptions C08_obj_rank.

(* an index whose block the support does not have or whose word the parent does not have: the index panic *)
Theorem C08_obj_rank_beyond : forall m rs b i,
  lenN (rs_samples rs) <= i / 512 \/ lenN (rdata (bv_data b)) <= i / 64 -> rank_checked m rs b i = Panic PIndex.
Proof. exact rank_checked_beyond. Qed.
Print Assumptions C08_obj_rank_beyond.

(* the support RankSupport::new builds for this parent, an index below the length: the number of ones before it *)
Theorem C08_obj_rank_exact : forall m b B rs i,
  bv_repr b B -> rank_new b = Ok rs -> i < bv_len b -> rank_checked m rs b i = Ok (rank1 B i).
Proof. exact rank_checked_exact. Qed.
Print Assumptions C08_obj_rank_exact.

(* ================================================================ SelectSupport::select *)

(* EVERY support whose three integer vectors have a width of at most 64 (every constructor of IntVector enforces
   1..64; lengths and contents arbitrary), EVERY parent b storing some sequence, EVERY rank, both transformations,
   both modes, both implementations of bits::select: a value or a defined panic; the scan loop ends within the
   number of words of the parent (no exhausted fuel) *)
Theorem C08_obj_select : forall sp m t s b B r, bv_repr b B ->
  iwidth (ss_samples s) <= 64 /\ iwidth (ss_long s) <= 64 /\ iwidth (ss_short s) <= 64 ->
  (exists v, select_checked sp m t s b r = Ok v) \/ select_checked sp m t s b r = Panic PIndex \/
  select_checked sp m t s b r = Panic PAssert \/ select_checked sp m t s b r = Panic POverflow.
Proof. exact select_checked_class. Qed.
Print Assumptions C08_obj_select.

(* in particular a support built by SelectSupport::new from ANY OTHER bitvector a (other length, other content,
   other transformation t0, other path / mode), queried with any parent and any rank *)
Theorem C08_obj_select_foreign : forall sp0 m0 t0 a A sp m t s b B r,
  bv_repr a A -> select_new sp0 m0 t0 a = Ok s -> bv_repr b B ->
  (exists v, select_checked sp m t s b r = Ok v) \/ select_checked sp m t s b r = Panic PIndex \/
  select_checked sp m t s b r = Panic PAssert \/ select_checked sp m t s b r = Panic POverflow.
Proof. exact select_checked_any_builder. Qed.
Print Assumptions C08_obj_select_foreign.

(* the matching parent, a rank below the number of ones of t(B): the position of that one *)
Theorem C08_obj_select_exact : forall sp m t s b B r, bv_repr b B -> ss_valid t B s ->
  r < count (t_bits t B) ->
  exists p, select_checked sp m t s b r = Ok p /\ nth_opt (ones (t_bits t B)) r = Some p.
Proof. exact select_checked_exact. Qed.
Print Assumptions C08_obj_select_exact.

(* the same query through the narrowed Complement::word: 128 bits, every third one set (85 zeros), the select-zero
   support of that very vector, rank 85 (the first invalid one): the scan reads behind the buffer, where the code
   as it is ends in the index panic of the checked last word *)
Theorem C08_obj_select_narrowed_refuted :
  exists b B s, bv_repr b B /\ bv_count_zeros b = 85 /\ select_new Pdep Release Complement b = Ok s /\
    (forall sp m, select_checked_mut sp m Complement s b 85 = OOB SITE_RAW_WORD) /\
    (forall sp m, select_checked sp m Complement s b 85 = Panic PIndex).
Proof. exact select_mut_refuted. Qed.
Print Assumptions C08_obj_select_narrowed_refuted.

(* ================================================================ non-vacuity *)

(* 130 bits (three words, the last with two used bits), every third bit set and bit 128 *)
Definition c08o_raw : raw := mkraw 130 [10540996613548315209; 5270498306774157604; 1].
Definition c08o_bv : bitvec := bv_from_raw c08o_raw.
(* a shorter vector the foreign supports are built from: 70 bits, all set *)
Definition c08o_other : bitvec := bv_from_raw (mkraw 70 [18446744073709551615; 63]).

Example C08_obj_example_hyps :
  bv_repr c08o_bv (bits_of 130 (rdata c08o_raw)) /\ bv_repr c08o_other (bits_of 70 [18446744073709551615; 63]).
Proof. split; apply bv_from_raw_repr, raw_wfb_ok; vm_compute; reflexivity. Qed.

(* bit / word at the edges: last bit, padding, first word behind; the complement's last word is masked to 2 bits *)
Example C08_obj_example_word :
  t_bit Complement c08o_bv 129 = Ok true /\ t_bit Identity c08o_bv 130 = Ok false /\
  t_bit Complement c08o_bv 191 = Ok true /\ t_bit Complement c08o_bv 192 = Panic PIndex /\
  t_word Identity c08o_bv 2 = Ok 1 /\ t_word Complement c08o_bv 2 = Ok 2 /\
  t_word Complement c08o_bv 1 = Ok 13176245766935394011 /\
  t_word Complement c08o_bv 3 = Panic PIndex /\ t_word Identity c08o_bv (2 ^ 64 - 1) = Panic PIndex.
Proof. vm_compute. repeat split. Qed.

(* rank and select with the matching support, and with the support of the other vector on this parent *)
Example C08_obj_example_queries :
  match rank_new c08o_bv, rank_new c08o_other,
        select_new Pdep Release Complement c08o_bv, select_new Portable Debug Identity c08o_other with
  | Ok rs, Ok rs', Ok sz, Ok s' =>
      rank_checked Debug rs c08o_bv 129 = Ok 44 /\ rank_checked Debug rs c08o_bv 190 = Ok 44 /\
      rank_checked Release rs c08o_bv 192 = Panic PIndex /\ rank_checked Debug rs c08o_bv 512 = Panic PIndex /\
      rank_checked Debug rs' c08o_bv 129 = Ok 71 /\
      select_checked Pdep Debug Complement sz c08o_bv 84 = Ok 127 /\
      select_checked Portable Release Complement sz c08o_bv 85 = Ok 129 /\
      select_checked Pdep Debug Complement sz c08o_bv 86 = Panic PIndex /\
      select_checked Pdep Debug Complement sz c08o_bv 4096 = Panic PAssert /\
      select_checked Pdep Release Identity s' c08o_bv 43 = Ok 128 /\
      select_checked Pdep Release Identity s' c08o_bv 44 = Panic PIndex /\
      select_checked Portable Debug Complement s' c08o_other 3 = Panic PIndex
  | _, _, _, _ => False
  end.
Proof. vm_compute. repeat split. Qed.
