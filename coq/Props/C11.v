(* C11 -- conversions between the bitvector types preserve the bits and are canonical.
   Only property theorems here: statement, [exact lemma], Print Assumptions, examples.

   src/support.rs: every `From<$source> for $target` is `$target::copy_bit_vec(&source)`; every copy_bit_vec
   reads source.len() (count_ones()) and the items of source.one_iter() and replays them into the target's
   builder. Models: Model/BitVec.v (bv_copy, bv_from_bits, bv_from_raw), Model/Sparse.v (sv_copy,
   sv_build_set), Model/RL.v (rl_copy_bit_vec, rl_build), and over the abstract builder state machines of
   Model/Builders.v: Model/Convert.v (rl_copy_abs, sp_copy_abs, chains).
   B ranges over ALL bit sequences whose length fits a usize; ones B = increasing positions of its set bits. *)
From Coq Require Import NArith List Bool Lia.
Require Import SDS.Model.Mach SDS.Model.Raw SDS.Model.IntVec SDS.Model.BitVec SDS.Model.SerBV.
Require Import SDS.Model.Builders SDS.Model.Convert SDS.Model.ConvertC.
Require SDS.Model.Sparse SDS.Model.RL.
Require Import SDS.Spec.BitSeq SDS.Spec.BuilderSpec.
Require Import SDS.Proofs.BVCommon SDS.Proofs.ConvertProof.
Require SDS.Proofs.ConvertSparse SDS.Proofs.ConvertRL SDS.Proofs.ConvertSource SDS.Proofs.ConvertChainC.
Import ListNotations.
Open Scope N_scope.

(* ================================================================== positions are preserved, target by target *)

(* what a conversion reads from a BitVector source (with or without support structures) that stores B *)
Theorem C11_source_bitvector : forall b B, bv_repr b B ->
  bv_len b = lenB B /\ bv_count_ones b = count B /\ bv_one_positions b = Ok (ones B).
Proof. exact bv_source_content. Qed.
Print Assumptions C11_source_bitvector.

(* BitVector::copy_bit_vec on (len, one_iter) of any source that stores B: succeeds, stores B, no supports *)
Theorem C11_positions_preserved_bitvector : forall B : list bool, lenB B < 2 ^ 64 ->
  exists b, bv_copy (lenB B) (ones B) = Ok b /\ bv_repr b B /\
            bv_rank b = None /\ bv_select b = None /\ bv_select_zero b = None.
Proof. exact bv_copy_repr. Qed.
Print Assumptions C11_positions_preserved_bitvector.

(* RLVector::copy_bit_vec (abstract builder, both build modes): the runs are separated (maximal), non-empty,
   within the length, cover exactly the set bits of B; len = |B|; count_ones = count B *)
Theorem C11_positions_preserved_rl : forall (m : mode) (B : list bool), lenB B <= MAXW ->
  exists rs, rl_copy_abs m (ones B) (lenB B) = Ok (rs, lenB B, count B) /\
    chain (fun r q => fst r + snd r < fst q) rs /\
    Forall (fun r => 0 < snd r /\ fst r + snd r <= lenB B) rs /\
    (forall p, in_runs rs p = bitB B p) /\ run_sum rs = count B.
Proof. exact rl_copy_abs_repr. Qed.
Print Assumptions C11_positions_preserved_rl.

(* ... and that run list is the list of maximal runs computed directly from B *)
Theorem C11_positions_preserved_rl_runs : forall (m : mode) (B : list bool), lenB B <= MAXW ->
  rl_copy_abs m (ones B) (lenB B) = Ok (runs_of_bits B, lenB B, count B).
Proof. exact rl_copy_abs_runs. Qed.
Print Assumptions C11_positions_preserved_rl_runs.

(* SparseVector::copy_bit_vec (abstract builder, both build modes): SparseBuilder::new(|B|, count B) accepts
   ones B position by position through the unchecked call, the builder is then full and converts to the vector
   with length |B| and exactly the positions ones B; the checked set() calls and extend() reach the same
   builder state *)
Theorem C11_positions_preserved_sparse : forall (m : mode) (B : list bool), lenB B <= MAXW ->
  sp_copy_abs m (ones B) (lenB B) (count B) = Ok (lenB B, count B, ones B) /\
  exists b0, sb_make (NewS (lenB B) (count B)) = Some b0 /\
    fst (sb_set_all_unchecked m b0 (ones B)) = sb_run m b0 (map SetS (ones B)) /\
    fst (sb_set_all_unchecked m b0 (ones B)) = sb_run m b0 [ExtendS (ones B)] /\
    sb_finish (sb_run m b0 (map SetS (ones B))) = Some (lenB B, count B, ones B).
Proof. exact sp_copy_abs_repr. Qed.
Print Assumptions C11_positions_preserved_sparse.

(* ================================================================== canonical form, target by target *)

(* BitVector: a vector is determined by the bits it stores and its supports; consequently copy_bit_vec, the
   bool-iterator route and From<RawVector> give the same structure and the same serialization *)
Theorem C11_canonical_bitvector : forall b1 b2 B, bv_repr b1 B -> bv_repr b2 B ->
  bv_rank b1 = bv_rank b2 -> bv_select b1 = bv_select b2 -> bv_select_zero b1 = bv_select_zero b2 ->
  b1 = b2.
Proof. exact bv_repr_canonical. Qed.
Print Assumptions C11_canonical_bitvector.

Theorem C11_bitvector_routes : forall (B : list bool) (r : raw),
  lenB B < 2 ^ 64 -> raw_wf r -> bits_of (rlen r) (rdata r) = B ->
  exists b, bv_copy (lenB B) (ones B) = Ok b /\ bv_from_bits B = Ok b /\ bv_from_raw r = b /\
            bv_repr b B /\ bv_serialize (bv_from_raw r) = bv_serialize b.
Proof. exact bv_routes_equal. Qed.
Print Assumptions C11_bitvector_routes.

(* a list of separated non-empty runs is determined by the set of positions it covers *)
Theorem C11_runs_canonical : forall rs1 rs2 : list (N * N),
  chain gap rs1 -> Forall (fun r => 0 < snd r) rs1 ->
  chain gap rs2 -> Forall (fun r => 0 < snd r) rs2 ->
  (forall p, in_runs rs1 p = in_runs rs2 p) -> rs1 = rs2.
Proof. exact runs_canonical. Qed.
Print Assumptions C11_runs_canonical.

(* RLBuilder (abstract, both build modes), `rl_builder_decomposition`: two histories of try_set / set_len calls
   with arbitrary usize arguments (accepted and refused calls, zero-length runs, set_len anywhere) whose ACCEPTED
   runs cover the same positions and that end at the same length reach states that convert to the same
   (runs, len, count_ones). Bit at a time, by maximal runs, by arbitrary splits of runs into adjacent pieces,
   with a final or with intermediate set_len calls are all instances. *)
Theorem C11_rl_builder_decomposition : forall (m : mode) (ops1 ops2 : list rlop),
  Forall rlop_wf ops1 -> Forall rlop_wf ops2 ->
  (forall p, in_runs (rl_accepted rl_spec_init ops1) p = in_runs (rl_accepted rl_spec_init ops2) p) ->
  snd (fold_left rl_spec_step ops1 rl_spec_init) = snd (fold_left rl_spec_step ops2 rl_spec_init) ->
  exists b1 b2 r,
    rl_run m rl_init ops1 = Ok b1 /\ rl_run m rl_init ops2 = Ok b2 /\
    rl_finish m b1 = Ok r /\ rl_finish m b2 = Ok r /\
    blen b1 = blen b2 /\ bones b1 = bones b2.
Proof. exact rl_builder_decomposition. Qed.
Print Assumptions C11_rl_builder_decomposition.

(* the same for histories in which every call is accepted, in syntactic form: runs start at or after the current
   length (so a set_len never exceeds the start of the next run) and end within a usize; [pieces] are the
   non-empty runs in call order, [pres_len] the final length. Every such presentation of B converts to the
   maximal runs of B. *)
Theorem C11_rl_presentation_canonical : forall (m : mode) (B : list bool) (ops : list rlop),
  pres_ok 0 ops ->
  (forall p, in_runs (pieces ops) p = bitB B p) ->
  pres_len 0 ops = lenB B ->
  exists b, rl_run m rl_init ops = Ok b /\ rl_finish m b = Ok (runs_of_bits B, lenB B, count B) /\
            blen b = lenB B /\ bones b = count B.
Proof. exact rl_presentation_canonical. Qed.
Print Assumptions C11_rl_presentation_canonical.

(* the builder's own route, one try_set per maximal run and a final set_len, is one of them *)
Theorem C11_rl_by_maximal_runs : forall (m : mode) (B : list bool), lenB B <= MAXW ->
  exists b, rl_run m rl_init (ops_runs B) = Ok b /\ rl_finish m b = Ok (runs_of_bits B, lenB B, count B).
Proof. exact rl_by_maximal_runs. Qed.
Print Assumptions C11_rl_by_maximal_runs.

(* what the two theorems above exclude: with the set_len of before the repair of finding F5 two presentations
   of the same 15 bits (set_len(10); try_set(10, 5) against try_set(10, 5)) convert to different vectors *)
Theorem C11_rl_decomposition_old_refuted :
  exists ops1 ops2, Forall rlop_wf ops1 /\ Forall rlop_wf ops2 /\
    (forall p, in_runs (rl_accepted rl_spec_init ops1) p = in_runs (rl_accepted rl_spec_init ops2) p) /\
    snd (fold_left rl_spec_step ops1 rl_spec_init) = snd (fold_left rl_spec_step ops2 rl_spec_init) /\
    forall m, exists b1 b2, rl_run_with rl_set_len_old m rl_init ops1 = Ok b1 /\
                            rl_run_with rl_set_len_old m rl_init ops2 = Ok b2 /\
                            rl_finish m b1 <> rl_finish m b2.
Proof. exact rl_decomposition_old_refuted. Qed.
Print Assumptions C11_rl_decomposition_old_refuted.

(* Lifting to the concrete encoding of Model/RL.v (samples, code units, the three sample indexes): the block
   encoding written by flush is a function of the flushed run list only, so two histories that present the
   same bit set and end at the same length build the SAME RLVector, or fail in the same way (no bound on the number of blocks is assumed). *)
Definition C11_rl_encoding_statement : Prop :=
  forall (m : mode) (ops1 ops2 : list rlop),
  Forall rlop_wf ops1 -> Forall rlop_wf ops2 ->
  (forall p, in_runs (rl_accepted rl_spec_init ops1) p = in_runs (rl_accepted rl_spec_init ops2) p) ->
  snd (fold_left rl_spec_step ops1 rl_spec_init) = snd (fold_left rl_spec_step ops2 rl_spec_init) ->
  rmap fst (RL.rl_build m (map ConvertRL.cop ops1)) = rmap fst (RL.rl_build m (map ConvertRL.cop ops2)).

Theorem C11_rl_encoding : C11_rl_encoding_statement.
Proof. exact ConvertRL.rl_encoding_canonical. Qed.
Print Assumptions C11_rl_encoding.

(* concrete RLVector::copy_bit_vec (set_bit_unchecked per position, set_len, from) builds exactly the vector
   that ANY presentation of B through try_set / set_len builds, or fails in the same way *)
Theorem C11_canonical_rl : forall (m : mode) (B : list bool) (ops : list rlop),
  Forall rlop_wf ops ->
  (forall p, in_runs (rl_accepted rl_spec_init ops) p = bitB B p) ->
  snd (fold_left rl_spec_step ops rl_spec_init) = lenB B ->
  rmap fst (RL.rl_build m (map ConvertRL.cop ops)) = RL.rl_copy_bit_vec m (ones B) (lenB B).
Proof. exact ConvertRL.rl_copy_bit_vec_canonical. Qed.
Print Assumptions C11_canonical_rl.

(* concrete SparseVector (every select path, build mode and low width w): copy_bit_vec computes exactly what the
   builder's own checked route new + try_set + try_from computes: the same structure or the same failure. The
   structure is a function of (|B|, ones B, w) and nothing else. *)
Theorem C11_canonical_sparse : forall (sp : selpath) (m : mode) (w : N) (B : list bool),
  lenB B < 2 ^ 64 ->
  Sparse.sv_copy sp m w (lenB B) (ones B) = Sparse.unwrap_sum (Sparse.sv_build_set sp m w (lenB B) (ones B)).
Proof. exact ConvertSparse.sv_copy_is_build_bits. Qed.
Print Assumptions C11_canonical_sparse.

(* ================================================================== chains *)

(* x stores B: a BitVector with any supports; the abstract sparse / run-length vectors that store B *)
Definition C11_represents (x : vec) (B : list bool) : Prop :=
  match x with
  | VB b => bv_repr b B
  | VS v => v = (lenB B, count B, ones B)
  | VR v => v = (runs_of_bits B, lenB B, count B)
  end.

(* any chain of conversions, of any length, from a source of any of the three types that stores B can be carried
   out in both build modes, and every result stores B again and hands (|B|, count B, ones B) to the next step *)
Theorem C11_chain : forall (m : mode) (B : list bool) (ts : list vtype) (x : vec),
  lenB B < 2 ^ 64 -> C11_represents x B ->
  (exists y, chain_conv m ts x y) /\
  (forall y, chain_conv m ts x y -> C11_represents y B /\ reads y (lenB B) (count B) (ones B)).
Proof. exact chain_preserves. Qed.
Print Assumptions C11_chain.

(* the result depends only on B and the last target type: it is what the target's copy_bit_vec builds from
   (|B|, count B, ones B), whatever the source type, its supports, and the intermediate types *)
Theorem C11_chain_canonical : forall (m : mode) (B : list bool) (ts : list vtype) (t : vtype) (x y : vec),
  lenB B < 2 ^ 64 -> C11_represents x B -> chain_conv m (ts ++ [t]) x y ->
  copy_to m t (lenB B) (count B) (ones B) = Ok y /\ type_of y = t.
Proof. exact chain_canonical. Qed.
Print Assumptions C11_chain_canonical.

Theorem C11_chain_route_independent :
  forall (m : mode) (B : list bool) (ts1 ts2 : list vtype) (t : vtype) (x1 x2 y1 y2 : vec),
  lenB B < 2 ^ 64 -> C11_represents x1 B -> C11_represents x2 B ->
  chain_conv m (ts1 ++ [t]) x1 y1 -> chain_conv m (ts2 ++ [t]) x2 y2 -> y1 = y2.
Proof. exact chain_route_independent. Qed.
Print Assumptions C11_chain_route_independent.

(* ================================================================== chains over the concrete models *)

(* Source side of the concrete RLVector (from C03: rl_exact, rl_iterators, through C11_canonical_rl): the vector
   that copy_bit_vec builds from (|B|, ones B) exists - no failure of any kind in either build mode -, has
   len = |B|, count_ones = count B, and its one_iter(), asked for one item more than there are, yields exactly
   the ranked positions of ones B. [lenN (runs_of_bits B) < 2^56] is C03's bound on the number of runs. *)
Theorem C11_source_rl : forall (m : mode) (B : list bool),
  lenB B < 2 ^ 64 -> lenN (runs_of_bits B) < 2 ^ 56 ->
  exists v, RL.rl_copy_bit_vec m (ones B) (lenB B) = Ok v /\
    RL.rl_len v = lenB B /\ RL.rl_ones v = count B /\
    (let* s := RL.rl_one_iter v in RL.oi_take (S (length (ones B))) m v s) = Ok (index_from (ones B) 0).
Proof. exact ConvertSource.rl_source_content. Qed.
Print Assumptions C11_source_rl.

(* x is the concrete structure of its type for B: a BitVector (any supports) storing B; the SparseVector /
   RLVector that copy_bit_vec builds from (|B|, ones B) - by C11_canonical_sparse / C11_canonical_rl also what
   the type's own builder builds *)
Definition C11_crepr (sp : selpath) (m : mode) (w : N) (x : cvec) (B : list bool) : Prop :=
  match x with
  | CB b => bv_repr b B
  | CS sv => Sparse.sv_copy sp m w (lenB B) (ones B) = Ok sv
  | CR v => RL.rl_copy_bit_vec m (ones B) (lenB B) = Ok v
  end.

(* The sparse premise (PROVED from C02 in Props/C11_sparse.v: C11_sparse_side_holds): for the low width w
   at hand the sparse vector of B can be built, and its len / count_ones / one_iter are those of B *)
Definition C11_sparse_side (sp : selpath) (m : mode) (w : N) (B : list bool) : Prop :=
  exists sv, Sparse.sv_copy sp m w (lenB B) (ones B) = Ok sv /\ creads m (CS sv) (lenB B) (count B) (ones B).
(* asked only where a sparse vector occurs *)
Definition C11_needs (sp : selpath) (m : mode) (w : N) (B : list bool) (t : vtype) : Prop :=
  match t with TSparse => C11_sparse_side sp m w B | _ => True end.

(* Any chain over the concrete models, from a concrete source of any type: it can be carried out (both build
   modes), every result is the concrete structure of its type for B and hands (|B|, count B, ones B) to the next
   step, and the final result is what the last target's copy_bit_vec builds from (|B|, count B, ones B).
   The sparse premise is asked of the source and of the targets of type SparseVector only. *)
Theorem C11_chain_concrete : forall (sp : selpath) (m : mode) (w : N) (B : list bool) (ts : list vtype) (x : cvec),
  lenB B < 2 ^ 64 -> lenN (runs_of_bits B) < 2 ^ 56 ->
  C11_needs sp m w B (ctype_of x) -> Forall (C11_needs sp m w B) ts -> C11_crepr sp m w x B ->
  (exists y, cchain sp m w ts x y) /\
  (forall y, cchain sp m w ts x y ->
     C11_crepr sp m w y B /\ creads m y (lenB B) (count B) (ones B) /\
     match rev ts with
     | [] => y = x
     | t :: _ => ccopy_to sp m w t (lenB B) (count B) (ones B) = Ok y /\ ctype_of y = t
     end).
Proof. exact ConvertChainC.cchain_preserves. Qed.
Print Assumptions C11_chain_concrete.

(* UNCONDITIONAL: chains among BitVector and RLVector (source and every target), of any length *)
Theorem C11_chain_concrete_bv_rl : forall (sp : selpath) (m : mode) (w : N) (B : list bool) (ts : list vtype) (x : cvec),
  lenB B < 2 ^ 64 -> lenN (runs_of_bits B) < 2 ^ 56 ->
  ctype_of x <> TSparse -> Forall (fun t => t <> TSparse) ts -> C11_crepr sp m w x B ->
  (exists y, cchain sp m w ts x y) /\
  (forall y, cchain sp m w ts x y ->
     C11_crepr sp m w y B /\ creads m y (lenB B) (count B) (ones B) /\
     match rev ts with
     | [] => y = x
     | t :: _ => ccopy_to sp m w t (lenB B) (count B) (ones B) = Ok y /\ ctype_of y = t
     end).
Proof. exact ConvertChainC.cchain_bv_rl. Qed.
Print Assumptions C11_chain_concrete_bv_rl.

(* UNCONDITIONAL: such a chain followed by a final conversion INTO a SparseVector: whatever that conversion
   returns is the sparse vector that copy_bit_vec builds from (|B|, ones B), i.e. (C11_canonical_sparse) the one
   SparseBuilder::new + try_set + try_from builds *)
Theorem C11_chain_concrete_into_sparse :
  forall (sp : selpath) (m : mode) (w : N) (B : list bool) (ts : list vtype) (x y : cvec),
  lenB B < 2 ^ 64 -> lenN (runs_of_bits B) < 2 ^ 56 ->
  ctype_of x <> TSparse -> Forall (fun t => t <> TSparse) ts -> C11_crepr sp m w x B ->
  cchain sp m w (ts ++ [TSparse]) x y ->
  exists sv, y = CS sv /\ Sparse.sv_copy sp m w (lenB B) (ones B) = Ok sv.
Proof. exact ConvertChainC.cchain_into_sparse. Qed.
Print Assumptions C11_chain_concrete_into_sparse.

(* The full statement: every chain over the concrete models, SparseVector sources included, for every
   admissible low width whose high part fits a usize. It needs exactly [C11_sparse_side_statement]
   (property C02: the sparse vector of B can be built and its one_iter yields ones B); C11_chain_concrete_partial
   derives the full statement from it. BOTH ARE NOW PROVED in Props/C11_sparse.v (C11_sparse_side_holds,
   C11_chain_concrete_full). *)
Definition C11_sparse_side_statement : Prop :=
  forall (sp : selpath) (m : mode) (w : N) (B : list bool),
  lenB B < 2 ^ 64 -> 1 <= w <= 63 -> count B + (lenB B + 2 ^ w - 1) / 2 ^ w < 2 ^ 64 ->
  C11_sparse_side sp m w B.

Definition C11_chain_concrete_statement : Prop :=
  forall (sp : selpath) (m : mode) (w : N) (B : list bool) (ts : list vtype) (x : cvec),
  lenB B < 2 ^ 64 -> lenN (runs_of_bits B) < 2 ^ 56 ->
  1 <= w <= 63 -> count B + (lenB B + 2 ^ w - 1) / 2 ^ w < 2 ^ 64 ->
  C11_crepr sp m w x B ->
  (exists y, cchain sp m w ts x y) /\
  (forall y, cchain sp m w ts x y ->
     C11_crepr sp m w y B /\ creads m y (lenB B) (count B) (ones B) /\
     match rev ts with
     | [] => y = x
     | t :: _ => ccopy_to sp m w t (lenB B) (count B) (ones B) = Ok y /\ ctype_of y = t
     end).

Theorem C11_chain_concrete_partial : C11_sparse_side_statement -> C11_chain_concrete_statement.
Proof.
  intros HS sp m w B ts x Hlen Hruns Hw Hfit Hrep.
  assert (Hn : forall t, ConvertChainC.needs sp m w B t).
  { intros t. destruct t; cbn; [exact I|exact (HS sp m w B Hlen Hw Hfit)|exact I]. }
  apply ConvertChainC.cchain_preserves; try assumption; [apply Hn|].
  apply Forall_forall. intros t _. apply Hn.
Qed.
Print Assumptions C11_chain_concrete_partial.

(* ================================================================== examples (non-vacuity) *)

Definition c11_B : list bool := [false; true; true; false; true; false; false; true; true; true; false].

(* the three abstract copies of an 11-bit sequence, and one chain *)
Example C11_example_copies :
  ones c11_B = [1; 2; 4; 7; 8; 9] /\ runs_of_bits c11_B = [(1, 2); (4, 1); (7, 3)] /\
  rl_copy_abs Debug (ones c11_B) 11 = Ok ([(1, 2); (4, 1); (7, 3)], 11, 6) /\
  sp_copy_abs Release (ones c11_B) 11 6 = Ok (11, 6, [1; 2; 4; 7; 8; 9]) /\
  rmap bv_serialize (bv_copy 11 (ones c11_B)) = Ok [6; 11; 1; 918; 0; 0; 0] /\
  rmap bv_serialize (bv_from_bits c11_B) = Ok [6; 11; 1; 918; 0; 0; 0] /\
  (let* b := bv_copy 11 (ones c11_B) in bv_one_positions b) = Ok [1; 2; 4; 7; 8; 9].
Proof. vm_compute. repeat split; reflexivity. Qed.

(* a presentation with split runs, a zero-length run, set_len before a run that starts exactly there (finding F5),
   set_len in two steps, a set_len that cannot grow the vector: accepted call by call, and the concrete vector is
   the one copy_bit_vec builds *)
Definition c11_ops : list rlop :=
  [SetLen 1; TrySet 1 1; TrySet 2 1; TrySet 3 0; SetLen 3; SetLen 4; TrySet 4 1; SetLen 2; SetLen 6; SetLen 7;
   TrySet 7 2; TrySet 9 1; SetLen 11].

Example C11_example_presentation :
  pres_ok 0 c11_ops /\ pieces c11_ops = [(1, 1); (2, 1); (4, 1); (7, 2); (9, 1)] /\ pres_len 0 c11_ops = 11 /\
  (let* b := rl_run Debug rl_init c11_ops in rl_finish Debug b) = Ok ([(1, 2); (4, 1); (7, 3)], 11, 6) /\
  rmap (fun x => RL.rl_serialize (fst x)) (RL.rl_build Debug (map ConvertRL.cop c11_ops)) =
    rmap RL.rl_serialize (RL.rl_copy_bit_vec Debug (ones c11_B) 11) /\
  is_ok (RL.rl_copy_bit_vec Debug (ones c11_B) 11) = true.
Proof.
  split; [cbv - [N.le]; repeat split; lia|]. vm_compute. repeat split; reflexivity.
Qed.
