(* C11 -- conversions preserve the bits and are canonical (theorems under construction) *)
From Coq Require Import NArith List Bool Lia.
Require Import SDS.Model.Mach SDS.Model.Builders SDS.Spec.BuilderSpec SDS.Proofs.BuildersProof.
Import ListNotations.
Open Scope N_scope.

Theorem C11_placeholder : forall m b, RLInv b -> rl_finish m b = Ok (rl_spec_final (rl_abs b)).
Proof. exact rl_finish_ok. Qed.
Print Assumptions C11_placeholder.
