(* C01 -- the plain bitvector answers every query exactly.
   Only property theorems here: statement, [exact lemma], Print Assumptions, one non-vacuity Example.
   [bv_repr b B] (Proofs/BVCommon.v): the model bitvector b stores the bit sequence B (exact word count, 64-bit
   words, unused bits clear, ones = count B). The rank support a query uses is either absent before
   enable_rank or the one the builder RankSupport::new produces (a loaded foreign support is C19's subject);
   [rank_ok b B] (Proofs/RankProof.v) abbreviates  exists rs, bv_rank b = Some rs /\ rank_new b = Ok rs. *)
From Coq Require Import NArith List Bool.
Require Import SDS.Model.Mach SDS.Model.Bits SDS.Model.Raw SDS.Model.IntVec SDS.Model.BitVec SDS.gen.Consts.
Require Import SDS.Spec.BitSeq SDS.Proofs.BitsProof SDS.Proofs.BVCommon SDS.Proofs.RankProof.
Require Import SDS.Proofs.OneIterProof SDS.Proofs.SelectProof SDS.Proofs.RawProof SDS.Proofs.BVFull.
Import ListNotations.
Open Scope N_scope.

(* ---- rank side ---- *)

(* enable_rank never fails (no panic, no out-of-bounds read, no fuel), leaves the data and the select supports
   alone, and afterwards rank(i) is the number of ones among the first i bits for EVERY i: indices at or beyond
   the end are clamped to count_ones; there is no regime hypothesis (partial last word / block included) *)
Theorem C01_rank : forall b B,
  bv_repr b B ->
  (bv_rank b <> None -> exists rs, bv_rank b = Some rs /\ rank_new b = Ok rs) ->
  exists b', bv_enable_rank b = Ok b' /\ bv_repr b' B /\
    (exists rs, bv_rank b' = Some rs /\ rank_new b' = Ok rs) /\
    bv_data b' = bv_data b /\ bv_select b' = bv_select b /\ bv_select_zero b' = bv_select_zero b /\
    forall i, bv_rank_q b' i = Ok (rank1 B i).
Proof. exact bv_rank_correct. Qed.
Print Assumptions C01_rank.

(* the builder yields one sample per 512-bit block; a query with a valid index never reads outside the
   sample array, the word array or the mask table *)
Theorem C01_rank_build : forall b B, bv_repr b B ->
  exists rs, rank_new b = Ok rs /\ rs_blocks rs = (bv_len b + 511) / 512 /\
    forall i, i < bv_len b -> rank_unchecked rs b i = Ok (rank1 B i).
Proof.
  intros b B H. destruct (rank_new_ok b B H) as (rs & Hn & Hb). exists rs.
  split; [exact Hn|]. split; [exact Hb|]. intros i Hi. exact (rank_unchecked_correct b B rs i H Hn Hi).
Qed.
Print Assumptions C01_rank_build.

(* rank_zero(i) = i - rank(i), without overflow in the checked and the unchecked build, and for i <= len that
   is the number of unset bits among the first i *)
Theorem C01_rank_zero : forall m b B,
  bv_repr b B -> (exists rs, bv_rank b = Some rs /\ rank_new b = Ok rs) ->
  forall i, i <= bv_len b ->
    bv_rank_zero m b i = Ok (i - rank1 B i) /\ i - rank1 B i = rank1 (map negb B) i.
Proof. exact bv_rank_zero_correct. Qed.
Print Assumptions C01_rank_zero.

(* get(i) = B[i] for every valid index *)
Theorem C01_get : forall b B i, bv_repr b B -> i < bv_len b ->
  exists x, bv_get b i = Ok x /\ getb B i = Some x.
Proof. exact bv_get_correct. Qed.
Print Assumptions C01_get.

(* len, count_ones, count_zeros *)
Theorem C01_counts : forall b B, bv_repr b B ->
  bv_len b = lenB B /\ bv_count_ones b = count B /\ bv_count_zeros b = lenB B - count B.
Proof. exact bv_counts_correct. Qed.
Print Assumptions C01_counts.

(* From<RawVector> produces a representation of the bits it was given (so the hypothesis above is inhabited
   by every well-formed raw vector) *)
Theorem C01_from_raw : forall r,
  lenN (rdata r) = (rlen r + 63) / 64 -> wf (rdata r) ->
  (forall p, rlen r <= p -> bit (rdata r) p = false) -> rlen r < 2 ^ 64 ->
  bv_repr (bv_from_raw r) (bits_of (rlen r) (rdata r)).
Proof. intros r H1 H2 H3 H4. apply bv_from_raw_repr. repeat split; assumption. Qed.
Print Assumptions C01_from_raw.

(* ---- non-vacuity: 700 bits = one full 512-bit block + a partial block whose last word has 60 used bits ---- *)

Definition c01_ex_raw : raw := mkraw 700
  [0xFFFFFFFFFFFFFFFF; 0; 0xAAAAAAAAAAAAAAAA; 0x8000000000000001;
   0x0123456789ABCDEF; 0xF0F0F0F0F0F0F0F0; 0x00000000FFFFFFFF; 0x8000000000000000;
   0xDEADBEEFCAFEF00D; 0x5555555555555555; 0x0FFFFFFFFFFFFFFF].
Definition c01_ex_bv : bitvec := bv_from_raw c01_ex_raw.
Definition c01_ex_B : list bool := bits_of 700 (rdata c01_ex_raw).

Example C01_example_repr : bv_repr c01_ex_bv c01_ex_B /\ bv_rank c01_ex_bv = None.
Proof.
  split; [|reflexivity]. apply (bv_from_raw_repr c01_ex_raw), raw_wfb_ok. vm_compute. reflexivity.
Qed.

(* the model's answers on it, computed: two blocks; queries in word 0 of block 1 (the rotated field 7), in the
   partial last word, at len and far beyond *)
Example C01_example_rank :
  match bv_enable_rank c01_ex_bv with
  | Ok b' =>
      option_map rs_blocks (bv_rank b') = Some 2 /\
      bv_rank_q b' 511 = Ok 194 /\ bv_rank_q b' 512 = Ok 195 /\ bv_rank_q b' 600 = Ok 249 /\
      bv_rank_q b' 699 = Ok 328 /\ bv_rank_q b' 700 = Ok 329 /\ bv_rank_q b' (2 ^ 64 - 1) = Ok 329 /\
      rank1 c01_ex_B 600 = 249 /\
      bv_rank_zero Debug b' 600 = Ok 351 /\ bv_get b' 699 = Ok true /\ bv_count_ones b' = 329
  | _ => False
  end.
Proof. vm_compute. repeat split. Qed.

(* ---- select side below ---- *)

(* the generated constants the select proofs are about *)
Theorem C01_select_consts :
  select_SUPERBLOCK_SIZE = 4096 /\ select_SUPERBLOCK_MASK = N.ones 12 /\
  select_BLOCKS_IN_SUPERBLOCK = 64 /\ select_BLOCK_SIZE = 64 /\ select_BLOCK_MASK = N.ones 6 /\
  select_SUPERBLOCK_SIZE = select_BLOCKS_IN_SUPERBLOCK * select_BLOCK_SIZE.
Proof. exact select_consts_ok. Qed.
Print Assumptions C01_select_consts.

(* A. Transformation::word_unchecked: word k of the (identity or complemented) sequence, the partial
   last word masked; an index past the last word leaves the buffer *)
Theorem C01_word_view : forall t b B k, bv_repr b B ->
  (k < (lenB B + 63) / 64 ->
     exists w, t_word_unchecked t b k = Ok w /\ w < 2 ^ 64 /\
               (forall j, j < 64 -> N.testbit w j = bitB (t_bits t B) (64 * k + j)) /\
               wbits w = map (fun j => bitB (t_bits t B) (64 * k + N.of_nat j)) (seq 0 64)) /\
  ((lenB B + 63) / 64 <= k -> t_word_unchecked t b k = OOB SITE_RAW_WORD).
Proof.
  intros t b B k Hrep. split.
  - intros Hk. destruct (t_word_view t b B k Hrep Hk) as (w & E & Hseg).
    exists w. split; [exact E|]. split; [exact (proj1 Hseg)|]. split; [|exact (wseg_full_wbits _ _ _ Hseg)].
    intros j Hj. rewrite (proj2 Hseg j Hj).
    destruct (N.leb_spec 0 j) as [_|F]; [|exfalso; revert F; apply N.nlt_0_r].
    apply N.ltb_lt in Hj. rewrite Hj. reflexivity.
  - exact (t_word_oob t b B k Hrep).
Qed.
Print Assumptions C01_word_view.

(* C. SelectSupport::new succeeds for every vector, both transformations, both select paths, both
   modes; the result describes the set bits ([ss_valid]) and has ceil(ones/4096) superblocks *)
Theorem C01_select_new : forall sp m t b B, bv_repr b B ->
  exists s, select_new sp m t b = Ok s /\ ss_valid t B s /\
            ss_superblocks s = (count (t_bits t B) + 4095) / 4096.
Proof. exact select_new_spec. Qed.
Print Assumptions C01_select_new.

(* select_unchecked on a valid support: the position of the one of rank r, for every r below the count.
   No assumption on which superblocks are long and which are short. *)
Theorem C01_select_unchecked : forall sp m t s b B r, bv_repr b B -> ss_valid t B s ->
  r < count (t_bits t B) ->
  exists p, select_unchecked sp m t s b r = Ok p /\ nth_opt (ones (t_bits t B)) r = Some p.
Proof. exact select_unchecked_spec. Qed.
Print Assumptions C01_select_unchecked.

(* enable_select / enable_select_zero *)
Theorem C01_enable_select : forall sp m t b B, bv_repr b B ->
  exists b', bv_enable_select_t sp m t b = Ok b' /\ bv_repr b' B /\ bv_same b b' /\
    bv_rank b' = bv_rank b /\
    match t with Identity => bv_select_zero b' = bv_select_zero b | Complement => bv_select b' = bv_select b end /\
    (t_support t b = None -> select_ok sp m t b' B) /\
    (forall s0, t_support t b = Some s0 -> b' = b).
Proof. exact bv_enable_select_t_spec. Qed.
Print Assumptions C01_enable_select.

(* enable_select then enable_select_zero on a vector without select supports: both supports valid,
   data, count and rank support untouched *)
Theorem C01_enable_both_select : forall sp m b1 B, bv_repr b1 B -> bv_select b1 = None -> bv_select_zero b1 = None ->
  exists b2 b3, bv_enable_select_t sp m Identity b1 = Ok b2 /\ bv_enable_select_t sp m Complement b2 = Ok b3 /\
    bv_repr b3 B /\ bv_same b1 b3 /\ bv_rank b3 = bv_rank b1 /\
    select_ok sp m Identity b3 B /\ select_ok sp m Complement b3 B.
Proof. exact bv_enable_both_select. Qed.
Print Assumptions C01_enable_both_select.

(* select(r) = select1 B r for EVERY r (None from count_ones on), whichever select path / mode built
   the support (sp0, m0) and whichever answers the query (sp, m) *)
Theorem C01_select : forall sp0 m0 sp m b B r, bv_repr b B ->
  (r < count B -> select_ok sp0 m0 Identity b B) ->
  bv_select_t sp m Identity b r = Ok (select1 B r).
Proof. intros sp0 m0 sp m b B r. exact (bv_select_t_spec sp0 m0 sp m Identity b B r). Qed.
Print Assumptions C01_select.

Theorem C01_select_zero : forall sp0 m0 sp m b B r, bv_repr b B ->
  (r < count (map negb B) -> select_ok sp0 m0 Complement b B) ->
  bv_select_t sp m Complement b r = Ok (select0 B r).
Proof. intros sp0 m0 sp m b B r. exact (bv_select_t_spec sp0 m0 sp m Complement b B r). Qed.
Print Assumptions C01_select_zero.

(* select_iter / select_zero_iter: the iterator stands at rank r *)
Theorem C01_select_iter : forall sp0 m0 sp m t b B r, bv_repr b B ->
  (r < count (t_bits t B) -> select_ok sp0 m0 t b B) ->
  exists it, bv_select_iter_t sp m t b r = Ok it /\ oi_inv t B it /\
             oi_mid t B it = skipN (index_from (ones (t_bits t B)) 0) r.
Proof. exact bv_select_iter_t_spec. Qed.
Print Assumptions C01_select_iter.

(* B. one_iter() / zero_iter() start with all ranked positions, the empty iterator with none *)
Theorem C01_one_iter_start : forall t b B, bv_repr b B ->
  (oi_inv t B (oi_start t b) /\ oi_mid t B (oi_start t b) = index_from (ones (t_bits t B)) 0) /\
  (oi_inv t B (oi_empty t b) /\ oi_mid t B (oi_empty t b) = []).
Proof. intros t b B H. split; [exact (oi_start_inv t b B H)|exact (oi_empty_inv t b B H)]. Qed.
Print Assumptions C01_one_iter_start.

(* B. every call on an iterator satisfying the invariant behaves as the same call on the deque
   [oi_mid] of unvisited (rank, position) pairs, keeps the invariant, and is Ok (never out of fuel,
   never outside the words, no overflow) - next, nth n for EVERY n, next_back, len *)
Theorem C01_one_iter : forall sp m t b B it, bv_repr b B -> oi_inv t B it ->
  (exists it', oi_next_f t b it = Ok (it', hd_error (oi_mid t B it)) /\
               oi_inv t B it' /\ oi_mid t B it' = tl (oi_mid t B it)) /\
  (forall n, exists it', oi_nth sp m t b it n = Ok (it', nth_opt (oi_mid t B it) n) /\
               oi_inv t B it' /\ oi_mid t B it' = skipN (oi_mid t B it) (n + 1)) /\
  ((oi_mid t B it = [] /\ oi_next_back m t b it = Ok (it, None)) \/
   (exists it' x, oi_next_back m t b it = Ok (it', Some x) /\ oi_inv t B it' /\
                  oi_mid t B it = oi_mid t B it' ++ [x])) /\
  oi_len it = lenN (oi_mid t B it).
Proof.
  intros sp m t b B it Hrep Hinv. split; [exact (oi_next_spec t b B it Hrep Hinv)|].
  split; [intros n; exact (oi_nth_spec sp m t b B it n Hrep Hinv)|].
  split; [exact (oi_next_back_spec m t b B it Hrep Hinv)|exact (oi_len_spec t B it Hinv)].
Qed.
Print Assumptions C01_one_iter.

(* the invariant, in the words of the comments of the source *)
Theorem C01_one_iter_invariant : forall t B it, oi_inv t B it -> fst (oi_next it) < fst (oi_limit it) ->
  (exists p, nth_opt (ones (t_bits t B)) (fst (oi_next it)) = Some p /\ snd (oi_next it) <= p /\
             forall x, snd (oi_next it) <= x < p -> bitB (t_bits t B) x = false) /\
  (exists q, nth_opt (ones (t_bits t B)) (fst (oi_limit it) - 1) = Some q /\ q < snd (oi_limit it) /\
             forall x, q < x < snd (oi_limit it) -> bitB (t_bits t B) x = false) /\
  snd (oi_limit it) <= lenB (t_bits t B).
Proof. exact oi_inv_source_comments. Qed.
Print Assumptions C01_one_iter_invariant.

(* collecting a fresh iterator yields exactly the ranked positions *)
Theorem C01_one_iter_collect : forall t b B fuel, bv_repr b B ->
  (length (index_from (ones (t_bits t B)) 0) < fuel)%nat ->
  oi_collect t b fuel (oi_start t b) = Ok (index_from (ones (t_bits t B)) 0).
Proof. exact oi_collect_all. Qed.
Print Assumptions C01_one_iter_collect.

(* predecessor / successor for EVERY v < 2^64 (v >= len and v = 2^64 - 1 included): the remaining
   items of the returned iterator are pred_suffix / succ_suffix, so the first item is pred1 / succ1.
   The rank half of the property enters as the premise on bv_rank_q. *)
Theorem C01_pred_succ : forall sp0 m0 sp m b B v, bv_repr b B -> select_ok sp0 m0 Identity b B ->
  (forall i, i < 2 ^ 64 -> bv_rank_q b i = Ok (rank1 B i)) -> v < 2 ^ 64 ->
  (exists it, bv_predecessor sp m b v = Ok it /\ oi_inv Identity B it /\ oi_mid Identity B it = pred_suffix B v) /\
  (exists it, bv_successor sp m b v = Ok it /\ oi_inv Identity B it /\ oi_mid Identity B it = succ_suffix B v) /\
  (exists it it', bv_predecessor sp m b v = Ok it /\ oi_next_f Identity b it = Ok (it', pred1 B v)) /\
  (exists it it', bv_successor sp m b v = Ok it /\ oi_next_f Identity b it = Ok (it', succ1 B v)).
Proof.
  intros sp0 m0 sp m b B v H1 H2 H3 H4.
  split; [exact (bv_predecessor_spec sp0 m0 sp m b B v H1 H2 H3 H4)|].
  split; [exact (bv_successor_spec sp0 m0 sp m b B v H1 H2 H3 H4)|].
  split; [exact (bv_predecessor_first sp0 m0 sp m b B v H1 H2 H3 H4)|exact (bv_successor_first sp0 m0 sp m b B v H1 H2 H3 H4)].
Qed.
Print Assumptions C01_pred_succ.

(* ---- non-vacuity: a concrete 64-bit vector ---- *)

Definition c01_w : N := 9223372036854776865.   (* bits 0, 5, 10, 63 *)
Definition c01_b0 : bitvec := bv_from_raw (mkraw 64 [c01_w]).
Definition c01_B : list bool := bits_of 64 [c01_w].

Lemma c01_b0_repr : bv_repr c01_b0 c01_B.
Proof.
  unfold bv_repr, raw_wf, c01_b0, bv_from_raw. cbn [bv_data bv_ones bv_len rlen rdata].
  split; [|split; [reflexivity|vm_compute; reflexivity]].
  split; [reflexivity|]. split; [repeat constructor|]. split; [|reflexivity].
  intros p Hp. unfold bit, getw.
  assert (E : nthN [c01_w] (p / 64) = None).
  { apply nthN_None_ge. change (lenN [c01_w]) with 1. apply N.div_le_lower_bound; [discriminate|exact Hp]. }
  rewrite E. apply N.bits_0.
Qed.

Example C01_select_example :
  exists b, bv_enable_select_t Pdep Debug Identity c01_b0 = Ok b /\
            bv_repr b c01_B /\ select_ok Pdep Debug Identity b c01_B /\
            bv_select_t Portable Release Identity b 2 = Ok (Some 10) /\
            bv_select_t Pdep Debug Identity b 4 = Ok None /\
            select1 c01_B 3 = Some 63.
Proof.
  destruct (C01_enable_select Pdep Debug Identity c01_b0 c01_B c01_b0_repr)
    as (b & E & Hrep & _ & _ & _ & Hok & _).
  exists b. split; [exact E|]. split; [exact Hrep|]. split; [exact (Hok eq_refl)|].
  split; [|split].
  - rewrite (C01_select Pdep Debug Portable Release b c01_B 2 Hrep (fun _ => Hok eq_refl)). vm_compute. reflexivity.
  - rewrite (C01_select Pdep Debug Pdep Debug b c01_B 4 Hrep (fun _ => Hok eq_refl)). vm_compute. reflexivity.
  - vm_compute. reflexivity.
Qed.

(* ================================================================ the capstone ================================ *)
(* [raw_inv r] (Proofs/RawProof.v): exactly the words needed, 64-bit words, no bit set at or beyond the length;
   [abs_raw r] = the first [rlen r] bits of the words. [supports_ok sp m b B] (Proofs/BVFull.v): every support
   that b carries is the one its builder produces on b (rank_ok / select_ok). *)

(* the invariant of the raw-vector proofs (C05) is the one the bitvector proofs assume, plus the length bound *)
Theorem C01_raw_invariants : forall r,
  (raw_wf r <-> raw_inv r /\ rlen r < 2 ^ 64) /\ abs_raw r = bits_of (rlen r) (rdata r).
Proof. intros r. split; [exact (raw_wf_iff r)|exact (abs_raw_bits_of r)]. Qed.
Print Assumptions C01_raw_invariants.

(* build_route_irrelevant: FromIterator<bool>, copy_bit_vec (zeros, then set_bit at the positions of the ones -
   in increasing order as the code does, or in ANY order with repetitions) and From<RawVector> of any valid raw
   vector holding B all yield ONE record b; it stores B, caches count B and carries no support *)
Theorem C01_routes_agree : forall B : list bool, lenB B < 2 ^ 64 ->
  exists b, bv_from_bits B = Ok b /\
    bv_copy (lenB B) (ones B) = Ok b /\
    (forall ps, (forall p, In p ps <-> bitB B p = true) -> bv_copy (lenB B) ps = Ok b) /\
    (forall r, raw_inv r -> abs_raw r = B -> bv_from_raw r = b) /\
    bv_repr b B /\ bv_rank b = None /\ bv_select b = None /\ bv_select_zero b = None /\
    bv_ones b = count B /\ bv_len b = lenB B.
Proof. exact build_route_irrelevant. Qed.
Print Assumptions C01_routes_agree.

(* enable_rank; enable_select; enable_select_zero on a support-free representation never fails and establishes
   the two interfaces the embedding structures assume, for EVERY query select path / mode (sp', m'), not only
   the (sp, m) the supports were built with *)
Theorem C01_enable_all_interfaces : forall sp m b B,
  bv_repr b B -> bv_rank b = None -> bv_select b = None -> bv_select_zero b = None ->
  exists b', bv_enable_all sp m b = Ok b' /\ bv_repr b' B /\ rank_ok b' B /\
    select_ok sp m Identity b' B /\ select_ok sp m Complement b' B /\
    (forall sp' m', bv_queries_ok sp' m' b' B) /\ (forall sp' m', bv_select_ok sp' m' b' B).
Proof. exact bv_enable_all_ok_any. Qed.
Print Assumptions C01_enable_all_interfaces.

(* the same when b already carries any subset of supports, each being what its builder produces (on whatever
   select path / mode sp0, m0): the result is moreover the record obtained from the support-free vector *)
Theorem C01_enable_all_any_supports : forall sp0 m0 sp m b B, bv_repr b B -> supports_ok sp0 m0 b B ->
  exists b', bv_enable_all sp m b = Ok b' /\ b' = bv_full sp m (bv_strip b) /\ bv_same b b' /\
    bv_repr b' B /\ rank_ok b' B /\ select_ok sp m Identity b' B /\ select_ok sp m Complement b' B /\
    (forall sp' m', bv_queries_ok sp' m' b' B) /\ (forall sp' m', bv_select_ok sp' m' b' B).
Proof. exact bv_enable_all_gen_any. Qed.
Print Assumptions C01_enable_all_any_supports.

(* the Elias-Fano high part enables only select and select_zero *)
Theorem C01_enable_selects_interface : forall sp m b B,
  bv_repr b B -> bv_select b = None -> bv_select_zero b = None ->
  exists b1 b', bv_enable_select_t sp m Identity b = Ok b1 /\ bv_enable_select_t sp m Complement b1 = Ok b' /\
    bv_repr b' B /\ bv_same b b' /\ bv_rank b' = bv_rank b /\
    select_ok sp m Identity b' B /\ select_ok sp m Complement b' B /\
    (forall sp' m', bv_select_ok sp' m' b' B).
Proof. exact bv_enable_selects_ok. Qed.
Print Assumptions C01_enable_selects_interface.

(* THE PROPERTY. For every bit sequence B shorter than 2^64, built by any of the three public routes, with
   all supports enabled on either select path and in either arithmetic mode (sp, m), every query - issued on
   either select path and in either mode (sp', m') - returns exactly the answer of the list specification,
   for EVERY argument. No hypothesis on length, density or clustering: dense / sparse blocks, long / short
   superblocks and the partial last word / block are case splits inside the proofs.
   rank_zero: the value i - rank(i) is returned for every i (no underflow in either mode); it is the number
   of unset bits before i whenever i <= len. *)
Theorem C01_plain_exact : forall sp m sp' m' (B : list bool), lenB B < 2 ^ 64 ->
  forall b0, (bv_from_bits B = Ok b0 \/
              (exists r, raw_inv r /\ abs_raw r = B /\ b0 = bv_from_raw r) \/
              bv_copy (lenB B) (ones B) = Ok b0) ->
  exists b, bv_enable_all sp m b0 = Ok b /\
    bv_len b = lenB B /\ bv_count_ones b = count B /\ bv_count_zeros b = lenB B - count B /\
    (forall i, i < lenB B -> exists x, bv_get b i = Ok x /\ getb B i = Some x) /\
    (forall i, bv_rank_q b i = Ok (rank1 B i)) /\
    (forall i, bv_rank_zero m' b i = Ok (i - rank1 B i) /\
               (i <= lenB B -> i - rank1 B i = rank1 (map negb B) i)) /\
    (forall r, bv_select_t sp' m' Identity b r = Ok (select1 B r)) /\
    (forall r, bv_select_t sp' m' Complement b r = Ok (select0 B r)) /\
    (forall v, v < 2 ^ 64 -> exists it it',
       bv_successor sp' m' b v = Ok it /\ oi_next_f Identity b it = Ok (it', succ1 B v)) /\
    (forall v, v < 2 ^ 64 -> exists it it',
       bv_predecessor sp' m' b v = Ok it /\ oi_next_f Identity b it = Ok (it', pred1 B v)).
Proof. exact bv_plain_exact. Qed.
Print Assumptions C01_plain_exact.

(* ---- non-vacuity: 130 bits (two full words and a 2-bit partial word): every third bit, and bit 128 ---- *)

Definition c01_B130 : list bool := map (fun i => Nat.eqb (Nat.modulo i 3) 0 || Nat.eqb i 128) (seq 0 130).

Example C01_plain_example :
  exists b0 b, bv_from_bits c01_B130 = Ok b0 /\ bv_enable_all Pdep Debug b0 = Ok b /\
    bv_len b = 130 /\ bv_count_ones b = 45 /\
    bv_rank_q b 100 = Ok 34 /\
    bv_select_t Portable Release Complement b 5 = Ok (Some 8) /\
    bv_select_t Portable Release Identity b 45 = Ok None /\
    (exists it it', bv_successor Portable Release b 127 = Ok it /\
                    oi_next_f Identity b it = Ok (it', Some (43, 128))).
Proof.
  assert (HL : lenB c01_B130 < 2 ^ 64) by (vm_compute; reflexivity).
  assert (exists b0, bv_from_bits c01_B130 = Ok b0) as (b0 & E0) by (vm_compute; eexists; reflexivity).
  destruct (C01_plain_exact Pdep Debug Portable Release c01_B130 HL b0 (or_introl E0))
    as (b & Eb & Hlen & Hc1 & _ & _ & Hrk & _ & Hs1 & Hs0 & Hsucc & _).
  exists b0, b. split; [exact E0|]. split; [exact Eb|].
  split; [rewrite Hlen; vm_compute; reflexivity|]. split; [rewrite Hc1; vm_compute; reflexivity|].
  split; [rewrite Hrk; vm_compute; reflexivity|]. split; [rewrite Hs0; vm_compute; reflexivity|].
  split; [rewrite Hs1; vm_compute; reflexivity|].
  assert (H127 : 127 < 2 ^ 64) by (vm_compute; reflexivity).
  destruct (Hsucc 127 H127) as (it & it' & E1 & E2). exists it, it'. split; [exact E1|].
  rewrite E2. vm_compute. reflexivity.
Qed.
