(* C01 -- the plain bitvector answers every query exactly.
   Only property theorems here: statement, [exact lemma], Print Assumptions, one non-vacuity Example.
   [bv_repr b B] (Proofs/BVCommon.v): the model bitvector b stores the bit sequence B (exact word count, 64-bit
   words, unused bits clear, ones = count B). The rank support a query uses is either absent before
   enable_rank or the one the builder RankSupport::new produces (a loaded foreign support is C19's subject);
   [rank_ok b B] (Proofs/RankProof.v) abbreviates  exists rs, bv_rank b = Some rs /\ rank_new b = Ok rs. *)
From Coq Require Import NArith List Bool.
Require Import SDS.Model.Mach SDS.Model.Bits SDS.Model.Raw SDS.Model.IntVec SDS.Model.BitVec.
Require Import SDS.Spec.BitSeq SDS.Proofs.BitsProof SDS.Proofs.BVCommon SDS.Proofs.RankProof.
Import ListNotations.
Open Scope N_scope.

(* ---- rank side ---- *)

(* enable_rank never fails (no panic, no out-of-bounds read, no fuel), leaves the data and the select supports
   alone, and afterwards rank(i) is the number of ones among the first i bits for EVERY i: indices at or beyond
   the end are clamped to count_ones; there is no regime hypothesis (partial last word / block included) *)
Theorem C01_rank : forall b B,
  bv_repr b B ->
  (bv_rank b <> None -> exists rs, bv_rank b = Some rs /\ rank_new b = Ok rs) ->
  exists b', bv_enable_rank b = Ok b' /\ bv_repr b' B /\
    (exists rs, bv_rank b' = Some rs /\ rank_new b' = Ok rs) /\
    bv_data b' = bv_data b /\ bv_select b' = bv_select b /\ bv_select_zero b' = bv_select_zero b /\
    forall i, bv_rank_q b' i = Ok (rank1 B i).
Proof. exact bv_rank_correct. Qed.
Print Assumptions C01_rank.

(* the builder yields one sample per 512-bit block; a query with a valid index never reads outside the
   sample array, the word array or the mask table *)
Theorem C01_rank_build : forall b B, bv_repr b B ->
  exists rs, rank_new b = Ok rs /\ rs_blocks rs = (bv_len b + 511) / 512 /\
    forall i, i < bv_len b -> rank_unchecked rs b i = Ok (rank1 B i).
Proof.
  intros b B H. destruct (rank_new_ok b B H) as (rs & Hn & Hb). exists rs.
  split; [exact Hn|]. split; [exact Hb|]. intros i Hi. exact (rank_unchecked_correct b B rs i H Hn Hi).
Qed.
Print Assumptions C01_rank_build.

(* rank_zero(i) = i - rank(i), without overflow in the checked and the unchecked build, and for i <= len that
   is the number of unset bits among the first i *)
Theorem C01_rank_zero : forall m b B,
  bv_repr b B -> (exists rs, bv_rank b = Some rs /\ rank_new b = Ok rs) ->
  forall i, i <= bv_len b ->
    bv_rank_zero m b i = Ok (i - rank1 B i) /\ i - rank1 B i = rank1 (map negb B) i.
Proof. exact bv_rank_zero_correct. Qed.
Print Assumptions C01_rank_zero.

(* get(i) = B[i] for every valid index *)
Theorem C01_get : forall b B i, bv_repr b B -> i < bv_len b ->
  exists x, bv_get b i = Ok x /\ getb B i = Some x.
Proof. exact bv_get_correct. Qed.
Print Assumptions C01_get.

(* len, count_ones, count_zeros *)
Theorem C01_counts : forall b B, bv_repr b B ->
  bv_len b = lenB B /\ bv_count_ones b = count B /\ bv_count_zeros b = lenB B - count B.
Proof. exact bv_counts_correct. Qed.
Print Assumptions C01_counts.

(* From<RawVector> produces a representation of the bits it was given (so the hypothesis above is inhabited
   by every well-formed raw vector) *)
Theorem C01_from_raw : forall r,
  lenN (rdata r) = (rlen r + 63) / 64 -> wf (rdata r) ->
  (forall p, rlen r <= p -> bit (rdata r) p = false) -> rlen r < 2 ^ 64 ->
  bv_repr (bv_from_raw r) (bits_of (rlen r) (rdata r)).
Proof. intros r H1 H2 H3 H4. apply bv_from_raw_repr. repeat split; assumption. Qed.
Print Assumptions C01_from_raw.

(* ---- non-vacuity: 700 bits = one full 512-bit block + a partial block whose last word has 60 used bits ---- *)

Definition c01_ex_raw : raw := mkraw 700
  [0xFFFFFFFFFFFFFFFF; 0; 0xAAAAAAAAAAAAAAAA; 0x8000000000000001;
   0x0123456789ABCDEF; 0xF0F0F0F0F0F0F0F0; 0x00000000FFFFFFFF; 0x8000000000000000;
   0xDEADBEEFCAFEF00D; 0x5555555555555555; 0x0FFFFFFFFFFFFFFF].
Definition c01_ex_bv : bitvec := bv_from_raw c01_ex_raw.
Definition c01_ex_B : list bool := bits_of 700 (rdata c01_ex_raw).

Example C01_example_repr : bv_repr c01_ex_bv c01_ex_B /\ bv_rank c01_ex_bv = None.
Proof.
  split; [|reflexivity]. apply (bv_from_raw_repr c01_ex_raw), raw_wfb_ok. vm_compute. reflexivity.
Qed.

(* the model's answers on it, computed: two blocks; queries in word 0 of block 1 (the rotated field 7), in the
   partial last word, at len and far beyond *)
Example C01_example_rank :
  match bv_enable_rank c01_ex_bv with
  | Ok b' =>
      option_map rs_blocks (bv_rank b') = Some 2 /\
      bv_rank_q b' 511 = Ok 194 /\ bv_rank_q b' 512 = Ok 195 /\ bv_rank_q b' 600 = Ok 249 /\
      bv_rank_q b' 699 = Ok 328 /\ bv_rank_q b' 700 = Ok 329 /\ bv_rank_q b' (2 ^ 64 - 1) = Ok 329 /\
      rank1 c01_ex_B 600 = 249 /\
      bv_rank_zero Debug b' 600 = Ok 351 /\ bv_get b' 699 = Ok true /\ bv_count_ones b' = 329
  | _ => False
  end.
Proof. vm_compute. repeat split. Qed.

(* ---- select side below ---- *)
