(* C15, the one-pass builder of the correspondence check on the multiset routes (see Props/C02_fast.v for the
   reading guide; the check itself is shared, Check/C02.v).

   C15_fast_builder_exact        for every mode, oracle width 1..63, universe n < 2^64 and non-decreasing list V below
                                 n (exactly the inputs the multiset builder accepts; duplicates and overfull vectors
                                 included), [fast_builder] with increment 0 returns the builder the model reaches by
                                 SparseBuilder::multiset(n, |V|) followed by try_set for every element (all fields but
                                 b_next, which TryFrom does not read).
   C15_fast_multiset_route_exact / C15_fast_try_from_iter_route_exact
                                 the two multiset routes of [model_build_checked] (1 = multiset builder,
                                 3 = try_from_iter, where the universe is last + 1): whenever the flag is true, the
                                 vector component is exactly sv_build_multiset / sv_try_from_iter of the model.
   Proofs: Proofs/SparseFastProof.v. *)
From Coq Require Import NArith List Bool.
Require Import SDS.Model.Mach SDS.Model.Bits SDS.Model.Raw SDS.Model.IntVec SDS.Model.BitVec SDS.Model.Sparse.
Require Import SDS.Spec.ValSeq SDS.Proofs.SparseProof SDS.Proofs.SparseBuild.
Require Import SDS.Check.SparseFast SDS.Proofs.SparseFastProof.
Import ListNotations.
Open Scope N_scope.

Theorem C15_fast_builder_exact : forall md w n V,
  n < 2 ^ 64 -> 1 <= w <= 63 -> nondecreasing V = true -> all_below n V = true ->
  lenN V + buckets_of n (eff_width w n (lenN V)) < 2 ^ 64 ->
  exists b,
    (* the model: SparseBuilder::multiset, then try_set for every element *)
    (let* b0 := sb_multiset md w n (lenN V) in sb_try_set_all md b0 V) = Ok (inl b) /\
    (* it is full *)
    b_len b = ilen (b_low b) /\
    (* the one-pass evaluation *)
    fast_builder md w n 0 V = Ok (mkb (b_universe b) (b_low b) (b_high b) (b_len b) 0 (b_inc b)).
Proof. exact fast_builder_multiset_exact. Qed.
Print Assumptions C15_fast_builder_exact.

Theorem C15_fast_multiset_route_exact : forall sp md w n vals,
  snd (model_build_checked sp md 1 w n vals) = true ->
  fst (model_build_checked sp md 1 w n vals) = sv_build_multiset sp md w n vals.
Proof. exact (fun sp md => fast_checked_exact sp md 1). Qed.
Print Assumptions C15_fast_multiset_route_exact.

Theorem C15_fast_try_from_iter_route_exact : forall sp md w n vals,
  snd (model_build_checked sp md 3 w n vals) = true ->
  fst (model_build_checked sp md 3 w n vals) = sv_try_from_iter sp md w vals.
Proof. exact (fun sp md => fast_checked_exact sp md 3). Qed.
Print Assumptions C15_fast_try_from_iter_route_exact.

(* non-vacuity 1: an overfull multiset - 300 values 0, 0, 0, 1, 1, 1, ... (every value three times) below 100; more
   values than the universe, so get_params uses width 1 whatever the oracle says (high: 350 bits = 6 words, low:
   300 bits = 5 words); the replayed builder is Ok and full, and the
   one-pass builder is that builder *)
Fixpoint triples (start : N) (k : nat) : list N :=
  match k with O => [] | S k' => start :: start :: start :: triples (start + 1) k' end.
Definition C15_fast_V : list N := triples 0 100.
Example C15_fast_example :
  nondecreasing C15_fast_V = true /\ all_below 100 C15_fast_V = true /\
  match (let* b0 := sb_multiset Release 2 100 (lenN C15_fast_V) in sb_try_set_all Release b0 C15_fast_V),
        fast_builder Release 2 100 0 C15_fast_V with
  | Ok (inl b), Ok fb =>
      fb = mkb (b_universe b) (b_low b) (b_high b) (b_len b) 0 (b_inc b) /\
      b_len b = 300 /\ lenN (rdata (b_high b)) = 6 /\ lenN (rdata (idata (b_low b))) = 5 /\ iwidth (b_low b) = 1 /\
      b_next b = 99
  | _, _ => False
  end.
Proof. vm_compute. repeat split; reflexivity. Qed.

(* non-vacuity 2: the one-pass route is taken with its flag true on 21000 values through try_from_iter
   (7000 distinct values, each three times; universe 7000) *)
Definition C15_fast_W : list N := triples 0 (N.to_nat 7000).
Example C15_fast_example_large :
  FAST_FROM <= lenN C15_fast_W /\ fast_params 3 0 C15_fast_W = Some (0, 7000) /\
  snd (model_build_checked Portable Debug 3 1 0 C15_fast_W) = true.
Proof. vm_compute. repeat split; try reflexivity. discriminate. Qed.
