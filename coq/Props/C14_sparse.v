(* C14 for the sparse vector: SparseVector::load on EVERY strict prefix of the serialization of a built vector is an
   I/O error - not a structure, not a panic (the enabling of the select supports and the sanity checks are never
   reached: the three fields are read first). Only property theorems here. Reading guide: Props/C06_sparse.v. *)
From Coq Require Import NArith List Bool.
Require Import SDS.Model.Mach SDS.Model.Bits SDS.Model.Raw SDS.Model.IntVec SDS.Model.BitVec SDS.Model.Ser.
Require Import SDS.Model.Sparse SDS.Model.SerComposite SDS.Model.SerSparse.
Require Import SDS.gen.Consts SDS.Spec.Stream SDS.Spec.BitSeq SDS.Spec.ValSeq.
Require Import SDS.Proofs.SerProof SDS.Proofs.SerTypes SDS.Proofs.SerMain.
Require Import SDS.Proofs.SparseProof SDS.Proofs.SparseBuild SDS.Proofs.SerSparse.
Import ListNotations.
Open Scope N_scope.

Theorem C14_truncation_sparse : forall sp md w' n P,
  n < 2 ^ 64 -> 1 <= w' <= 63 -> increasing P = true -> all_below n P = true ->
  let w := eff_width w' n (lenN P) in
  lenN P + buckets_of n w + select_SUPERBLOCK_SIZE < 2 ^ 64 -> lenN P * w + 63 < 2 ^ 64 ->
  exists sv, sv_build_set sp md w' n P = Ok (inl sv) /\
    forall sp' m' k, (k < length (c_enc (sparse_codec sp' m') sv))%nat ->
      exists e, c_dec (sparse_codec sp' m') (firstn k (c_enc (sparse_codec sp' m') sv)) = IoErr e.
Proof.
  intros sp md w' n P Hn Hw Hi Hb w Hfit Hbits.
  destruct (sparse_set_wf sp md w' n P Hn Hw Hi Hb Hfit Hbits) as (sv & E & Wf & _). exists sv. split; [exact E|].
  intros sp' m'. exact (ok_truncation _ sv (sparse_codec_ok sp' m') (Wf sp' m')).
Qed.
Print Assumptions C14_truncation_sparse.

Theorem C14_truncation_sparse_multiset : forall sp md w' n Vs,
  n < 2 ^ 64 -> 1 <= w' <= 63 -> nondecreasing Vs = true -> all_below n Vs = true ->
  let w := eff_width w' n (lenN Vs) in
  lenN Vs + buckets_of n w + select_SUPERBLOCK_SIZE < 2 ^ 64 -> lenN Vs * w + 63 < 2 ^ 64 ->
  exists sv, sv_build_multiset sp md w' n Vs = Ok (inl sv) /\
    forall sp' m' k, (k < length (c_enc (sparse_codec sp' m') sv))%nat ->
      exists e, c_dec (sparse_codec sp' m') (firstn k (c_enc (sparse_codec sp' m') sv)) = IoErr e.
Proof.
  intros sp md w' n Vs Hn Hw Hi Hb w Hfit Hbits.
  destruct (sparse_multiset_wf sp md w' n Vs Hn Hw Hi Hb Hfit Hbits) as (sv & E & Wf & _). exists sv. split; [exact E|].
  intros sp' m'. exact (ok_truncation _ sv (sparse_codec_ok sp' m') (Wf sp' m')).
Qed.
Print Assumptions C14_truncation_sparse_multiset.

Theorem C14_truncation_sparse_wf : forall sp m v, c_wf (sparse_codec sp m) v -> truncation_safe (sparse_codec sp m) v.
Proof. intros sp m v H. exact (ok_truncation _ v (sparse_codec_ok sp m) H). Qed.
Print Assumptions C14_truncation_sparse_wf.

(* non-vacuity: every one of the 271 strict prefixes of the documentation example's 272 bytes, computed *)
Example ex_sparse_truncations :
  match sv_build_set Pdep Debug 5 137 [1; 33; 95; 123] with
  | Ok (inl sv) =>
      let bytes := c_enc (sparse_codec Pdep Debug) sv in
      forallb (fun k => match c_dec (sparse_codec Pdep Debug) (firstn k bytes) with IoErr _ => true | _ => false end)
              (seq 0 (length bytes)) = true /\ (0 < length bytes)%nat
  | _ => False
  end.
Proof. vm_compute. split; [reflexivity|]. repeat constructor. Qed.
