(* C06 for WMCore and WaveletMatrix -- serialization round trip is the identity and sizes are exact.
   Only property theorems here: statement, [exact lemma], Print Assumptions, a non-vacuity Example.

   [wmcore_codec sp m] / [wm_codec sp m] (Model/SerWM.v) are the two `impl Serialize` blocks:
     c_enc  = wmcore_enc / wm_enc (Model/SerComposite.v): width, then the levels back to back; len, the core, first;
     c_dec  = wmcore_dec / wm_dec, the faithful loaders: the width is checked to be 1..64 before anything is sized
              by it, the levels are read one by one and must have one common length, init_support REBUILDS / completes
              the rank and select supports of every level with the loading binary's bits::select [sp]; the matrix
              loader checks data.len() against len and then reads first;
     c_size = size_in_elements.
   For EVERY vector V (items below 2^64) the core / matrix that the model's From<Vec<T>> builds (any build path
   sp, mode m) is loaded back - by a loader on ANY path sp' and mode m' - as the SAME record: every level with all
   three supports, the offsets vector; so it answers every query as the original (C04). Exactly the serialization
   is consumed, and size_in_bytes = 8 * size_in_elements bytes were written.
   Size bounds, all genuinely needed: |V| + 4096 < 2^64 (BitVector::load computes div_round_up(len, 4096) in usize
   arithmetic); for the matrix also max V + 1 < 2^58 (the offsets vector holds max+1 fields of up to 64 bits and
   RawVector::load computes bits_to_words(len * width) in usize arithmetic). *)
From Coq Require Import String NArith List Bool.
Require Import SDS.Model.Mach SDS.Model.Bits SDS.Model.Raw SDS.Model.IntVec SDS.Model.BitVec SDS.Model.Ser SDS.Model.SerBV.
Require Import SDS.Model.WM SDS.Model.SerComposite SDS.Model.SerWM.
Require Import SDS.gen.Consts SDS.gen.Layout SDS.Spec.Stream.
Require Import SDS.Proofs.SerProof SDS.Proofs.SerTypes SDS.Proofs.SerSupports SDS.Proofs.SerMain SDS.Proofs.SerWM.
Import ListNotations.
Open Scope list_scope.
Open Scope N_scope.

(* the codecs are correct: round trip with exact consumption, exact size, prefix safety for every well-formed
   value; so the generic theorems (C06_roundtrip_option, C06_concat, C14_truncation_concat, C19_skip_option ...)
   apply to WMCore and WaveletMatrix as to every other type *)
Theorem C06_codec_wm : forall sp m, codec_ok (wmcore_codec sp m) /\ codec_ok (wm_codec sp m).
Proof. exact (fun sp m => conj (wmcore_codec_ok sp m) (wm_codec_ok sp m)). Qed.
Print Assumptions C06_codec_wm.

Theorem C06_roundtrip_wmcore : forall (sp : selpath) (m : mode) (V : list N),
  Forall (fun x => x < 2 ^ 64) V -> lenN V + 4096 < 2 ^ 64 ->
  exists core, wm_core_from sp m V = Ok core /\
  forall sp' m',
    c_wf (wmcore_codec sp' m') core /\
    (forall rest, c_dec (wmcore_codec sp' m') (c_enc (wmcore_codec sp' m') core ++ rest) = IoOk (core, rest)) /\
    lenN (c_enc (wmcore_codec sp' m') core) = 8 * c_size (wmcore_codec sp' m') core.
Proof.
  intros sp m V HV Hn. destruct (wmcore_built sp m V HV Hn) as (levels & Hc & _ & _ & _ & _ & Hwf & _).
  exists (mkcore levels). split; [exact Hc|]. intros sp' m'. split; [exact (Hwf sp' m')|].
  exact (ok_roundtrip _ _ (wmcore_codec_ok sp' m') (Hwf sp' m')).
Qed.
Print Assumptions C06_roundtrip_wmcore.

Theorem C06_roundtrip_wm : forall (sp : selpath) (m : mode) (V : list N),
  Forall (fun x => x < 2 ^ 64) V -> lenN V + 4096 < 2 ^ 64 -> list_max V + 1 < 2 ^ 58 ->
  exists wm, wm_from sp m V = Ok wm /\ wm_core_from sp m V = Ok (wm_data wm) /\
  forall sp' m',
    c_wf (wm_codec sp' m') wm /\
    (forall rest, c_dec (wm_codec sp' m') (c_enc (wm_codec sp' m') wm ++ rest) = IoOk (wm, rest)) /\
    lenN (c_enc (wm_codec sp' m') wm) = 8 * c_size (wm_codec sp' m') wm.
Proof.
  intros sp m V HV Hn Hmax. destruct (wm_built sp m V HV Hn Hmax) as (levels & first & Hw & Hc & _ & _ & Hwf & _).
  exists (mkwm (lenN V) (mkcore levels) first). split; [exact Hw|]. split; [exact Hc|]. intros sp' m'.
  split; [exact (Hwf sp' m')|]. exact (ok_roundtrip _ _ (wm_codec_ok sp' m') (Hwf sp' m')).
Qed.
Print Assumptions C06_roundtrip_wm.

(* ... and for any value of the two types that is well-formed: 1 <= width <= 64, every level a well-formed plain
   bitvector, one common length, init_support leaves the levels as they are (i.e. they carry exactly the
   supports the loader builds); for the matrix also len < 2^64 = data.len() and a well-formed first *)
Theorem C06_roundtrip_wm_wf : forall sp m,
  (forall c, 1 <= wc_width c <= bits_WORD_BITS /\ Forall bv_ok (wc_levels c) /\
             (exists len, Forall (fun b => bv_len b = len) (wc_levels c)) /\
             init_support sp m (wc_levels c) = Ok (wc_levels c) -> roundtrip (wmcore_codec sp m) c) /\
  (forall w, wm_len w < 2 ^ 64 /\ wmcore_ok sp m (wm_data w) /\ wc_len (wm_data w) = Ok (wm_len w) /\ iv_ok (wm_first w) ->
             roundtrip (wm_codec sp m) w).
Proof.
  intros sp m. split; [intros c H; exact (ok_roundtrip _ c (wmcore_codec_ok sp m) H)|
                       intros w H; exact (ok_roundtrip _ w (wm_codec_ok sp m) H)].
Qed.
Print Assumptions C06_roundtrip_wm_wf.

(* size_in_elements: 1 (the width) + the levels; 1 (len) + the core + first (4 + its words); the bytes written
   are the little-endian image of the element lists wc_serialize / wm_serialize of Model/WM.v (what C04's
   correspondence compares with the crate) *)
Theorem C06_size_wm : forall sp m,
  (forall c, c_size (wmcore_codec sp m) c =
             1 + fold_right (fun b acc => c_size (bv_codec m) b + acc) 0 (wc_levels c)) /\
  (forall w, c_size (wm_codec sp m) w =
             1 + c_size (wmcore_codec sp m) (wm_data w) + (4 + lenN (rdata (idata (wm_first w))))) /\
  (forall c, Forall bv_ok (wc_levels c) -> c_enc (wmcore_codec sp m) c = flat_map le64 (wc_serialize c)) /\
  (forall w, Forall bv_ok (wc_levels (wm_data w)) -> c_enc (wm_codec sp m) w = flat_map le64 (wm_serialize w)).
Proof.
  intros sp m. split; [reflexivity|]. split; [intros w; cbn [c_size wm_codec wmcore_codec]; unfold wm_size; rewrite (iv_size m); reflexivity|].
  split; [intros c H; exact (wmcore_enc_elems m c H)|intros w H; exact (wm_enc_elems m w H)].
Qed.
Print Assumptions C06_size_wm.

(* the same for the built structures, with the element count of the serialization *)
Theorem C06_size_wm_built : forall (sp : selpath) (m : mode) (V : list N),
  Forall (fun x => x < 2 ^ 64) V -> lenN V + 4096 < 2 ^ 64 -> list_max V + 1 < 2 ^ 58 ->
  exists wm, wm_from sp m V = Ok wm /\
  forall sp' m',
    c_enc (wm_codec sp' m') wm = flat_map le64 (wm_serialize wm) /\
    c_enc (wmcore_codec sp' m') (wm_data wm) = flat_map le64 (wc_serialize (wm_data wm)) /\
    c_size (wm_codec sp' m') wm = lenN (wm_serialize wm) /\
    c_size (wmcore_codec sp' m') (wm_data wm) = lenN (wc_serialize (wm_data wm)).
Proof.
  intros sp m V HV Hn Hmax. destruct (wm_built sp m V HV Hn Hmax) as (levels & first & Hw & Hc & Hok & _ & Hwf & _).
  exists (mkwm (lenN V) (mkcore levels) first). split; [exact Hw|]. intros sp' m'.
  pose proof (wm_enc_elems m' (mkwm (lenN V) (mkcore levels) first) Hok) as E1.
  pose proof (wmcore_enc_elems m' (mkcore levels) Hok) as E2.
  split; [exact E1|]. split; [exact E2|].
  pose proof (ok_size _ (wm_codec_ok sp' m') _ (Hwf sp' m')) as S1. cbn [c_enc wm_codec] in S1. rewrite E1, elems_len in S1.
  destruct (Hwf sp' m') as (_ & Hcwf & _).
  pose proof (ok_size _ (wmcore_codec_ok sp' m') _ Hcwf) as S2. cbn [c_enc wmcore_codec wm_data] in S2. rewrite E2, elems_len in S2.
  split; [apply (N.mul_cancel_l _ _ 8); [discriminate|symmetry; exact S1]|apply (N.mul_cancel_l _ _ 8); [discriminate|symmetry; exact S2]].
Qed.
Print Assumptions C06_size_wm_built.

(* the tie to the source: the call lists gen.py reads out of the two `impl Serialize` blocks (regenerated on each
   run) are the ones the codecs were written against; serialize / load (/ size_in_elements) visit the same fields
   in the same order. WMCore has no `width` field (it is levels.len(); size_in_elements counts it as the literal
   1), so its consistency statement covers serialize and load *)
Theorem C06_layout_wm :
  mklayout layout_WMCore_serialize_header layout_WMCore_serialize_body layout_WMCore_load
           layout_WMCore_load_checks layout_WMCore_size_in_elements = expected_WMCore /\
  mklayout layout_WaveletMatrix_serialize_header layout_WaveletMatrix_serialize_body layout_WaveletMatrix_load
           layout_WaveletMatrix_load_checks layout_WaveletMatrix_size_in_elements = expected_WaveletMatrix /\
  fields_consistent expected_WaveletMatrix ["len"; "data"; "first"]%string /\
  flatten (l_header expected_WMCore) (l_body expected_WMCore) = ["width"; "bv"]%string /\
  map field_of_load (l_load expected_WMCore) = ["width"; "bv"]%string.
Proof. exact (conj layout_WMCore_ok (conj layout_WaveletMatrix_ok (conj fields_WaveletMatrix fields_WMCore))). Qed.
Print Assumptions C06_layout_wm.

(* non-vacuity: the vector of the crate's documentation; the matrix loaded from its own bytes followed by other
   data, by a loader on the other select path and in the other mode; one byte short is an error *)
Example ex_wm_roundtrip :
  match wm_from Pdep Debug [1; 0; 3; 1; 1; 2; 4; 5; 1; 2; 1; 7; 0; 1] with
  | Ok w =>
      wm_width w = 3 /\ c_size (wm_codec Pdep Debug) w = 121 /\ lenN (c_enc (wm_codec Pdep Debug) w) = 8 * 121 /\
      c_dec (wm_codec Portable Release) (c_enc (wm_codec Pdep Debug) w ++ [7; 7]) = IoOk (w, [7; 7]) /\
      c_dec (wmcore_codec Portable Release) (c_enc (wmcore_codec Pdep Debug) (wm_data w) ++ [9]) = IoOk (wm_data w, [9]) /\
      c_dec (wm_codec Pdep Debug) (firstn (8 * 121 - 1) (c_enc (wm_codec Pdep Debug) w)) = IoErr UnexpectedEof
  | _ => False
  end.
Proof. vm_compute. repeat split; reflexivity. Qed.
