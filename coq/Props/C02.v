(* C02 -- the Elias-Fano sparse vector answers every query exactly (set semantics).
   Only property theorems here: statement, [exact lemma], Print Assumptions. *)
From Coq Require Import NArith List Bool.
Require Import SDS.Model.Mach SDS.Model.Bits SDS.Model.Raw SDS.Model.IntVec SDS.Model.BitVec SDS.Model.Sparse.
Require Import SDS.Spec.BitSeq SDS.Spec.ValSeq SDS.Proofs.BVCommon SDS.Proofs.SparseProof.
Import ListNotations.
Open Scope N_scope.

(* the number of buckets is ceil(n / 2^w) for every admissible low width *)
Theorem C02_buckets : forall universe w,
  1 <= w <= 63 -> get_buckets universe w = Ok ((universe + 2 ^ w - 1) / 2 ^ w).
Proof. exact get_buckets_spec. Qed.
Print Assumptions C02_buckets.
