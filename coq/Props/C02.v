(* C02 -- the Elias-Fano sparse vector answers every query exactly (set semantics).
   Only property theorems here: statement, [exact lemma], Print Assumptions.

   Reading guide.
   * [sv_build_set sp md w' n P] is the model of SparseBuilder::new(n, |P|), try_set for every element of P,
     SparseVector::try_from. [w'] stands for the result of the f64 expression in get_params (an oracle: every
     value 1..63 is covered); [eff_width w' n m] is the width get_params then uses (w' if 0 < m <= n, else 1).
   * The embedded plain bitvector enters through one contract (Proofs/SparseBuild.v):
     [high_contract sp md]: BitVector::from(raw) followed by enable_select and enable_select_zero succeeds and
     the result answers get / select / select_zero as the bit list stored in raw (this is C01).
     The embedded IntVector needs no assumption: with_len / set / get are proved to behave as a sequence of
     w-bit values in Proofs/SparseLow.v ([C02_low_part] below).
   * [m + buckets < 2^64]: the high part is addressable (SparseBuilder computes ones + buckets in usize). *)
From Coq Require Import NArith List Bool.
Require Import SDS.Model.Mach SDS.Model.Bits SDS.Model.Raw SDS.Model.IntVec SDS.Model.BitVec SDS.Model.Sparse.
Require Import SDS.Spec.BitSeq SDS.Spec.ValSeq SDS.Proofs.BVCommon SDS.Proofs.SparseSeq SDS.Proofs.SparseProof.
Require Import SDS.Proofs.SparseBuild SDS.Proofs.SparseLow SDS.Proofs.SparseZero SDS.Proofs.SparseMain.
Import ListNotations.
Open Scope N_scope.

(* the number of buckets is ceil(n / 2^w) for every admissible low width; width 64 (never chosen) gives one bucket,
   anything wider is rejected by the bounds-checked mask table *)
Theorem C02_buckets : forall universe w,
  1 <= w <= 63 -> get_buckets universe w = Ok ((universe + 2 ^ w - 1) / 2 ^ w).
Proof. exact get_buckets_spec. Qed.
Print Assumptions C02_buckets.
Theorem C02_buckets_64 : forall universe,
  universe < 2 ^ 64 -> get_buckets universe 64 = Ok (if universe =? 0 then 0 else 1).
Proof. exact get_buckets_64. Qed.
Print Assumptions C02_buckets_64.

(* the low part: IntVector::with_len(len, w, 0), set and get as a sequence of w-bit values *)
Theorem C02_low_part : exists R : intvec -> N -> list N -> Prop,
  (forall len w, 1 <= w <= 64 ->
     exists v, iv_with_len len w 0 = Some (Ok v) /\ R v w (repeatN 0 (N.to_nat len))) /\
  (forall v w L i x, R v w L -> i < lenN L -> x < 2 ^ w ->
     exists v', iv_set v i x = Ok v' /\ R v' w (setN L i x)) /\
  (forall v w L, R v w L ->
     ilen v = lenN L /\ iwidth v = w /\ forall i, i < lenN L -> iv_get v i = Ok (nthd L i)).
Proof. exact low_contract_holds. Qed.
Print Assumptions C02_low_part.

(* Main theorem. For every universe size, every strictly increasing position list below it, every width the rule
   can produce, both select implementations and both overflow modes: the builder accepts the list; the high
   part H is the unary bucket code with exactly ceil(n / 2^w) unset bits (the i-th set bit of H is at
   (P[i] >> w) + i, the k-th unset bit at k + |{p : p >> w <= k}|); and every query returns the defined answer:
   get below n; rank, rank_zero, select, select_zero, predecessor, successor for EVERY argument. *)
Theorem C02_sparse_exact : forall sp md w' n P,
  high_contract sp md ->
  n < 2 ^ 64 -> 1 <= w' <= 63 -> increasing P = true -> all_below n P = true ->
  lenN P + buckets_of n (eff_width w' n (lenN P)) < 2 ^ 64 ->
  exists sv H,
    sv_build_set sp md w' n P = Ok (inl sv) /\
    (let w := eff_width w' n (lenN P) in
     bv_select_ok sp md (sv_high sv) H /\
     lenB H = lenN P + (n + 2 ^ w - 1) / 2 ^ w /\
     (forall i, i < lenN P -> select1 H i = Some (nthd P i / 2 ^ w + i)) /\
     (forall b, b < (n + 2 ^ w - 1) / 2 ^ w -> select0 H b = Some (b + vs_rank P ((b + 1) * 2 ^ w)))) /\
    (sv_len sv = n /\ sv_count_ones sv = lenN P /\ sv_count_zeros sv = n - lenN P /\
     (forall i, i < n -> sv_get sp md sv i = Ok (vs_get P i)) /\
     (forall i, sv_rank sp md sv i = Ok (vs_rank P i)) /\
     (forall r, sv_select sp md sv r = Ok (vs_select P r)) /\
     (forall v, it_first md sv (sv_predecessor sp md sv v) = Ok (hd_error (vs_pred P v))) /\
     (forall v, it_first md sv (sv_successor sp md sv v) = Ok (hd_error (vs_succ P v))) /\
     sv_is_multiset md sv = Ok (has_dup P)) /\
    ((forall i, sv_rank_zero sp md sv i = Ok (i - vs_rank P i)) /\
     (forall r, sv_select_zero sp md sv r = Ok (vs_select_zero P n r)) /\
     (forall k, (let* z := sv_zero_iter md sv in zi_take md sv k z) = Ok (vs_zeros_from P n 0 k)) /\
     (forall r k, (let* z := sv_select_zero_iter sp md sv r in zi_take md sv k z) = Ok (vs_zeros_from P n r k)) /\
     (forall r, n - lenN P <= r -> sv_select_zero sp md sv r = Ok None) /\
     (forall r, r < n - lenN P -> exists z, sv_select_zero sp md sv r = Ok (Some z) /\
        z < n /\ vs_get P z = false /\ vs_rank P z + r = z)) /\
    (* the bit iterator iter(), one_iter and the iterators returned by select_iter / predecessor / successor, driven by ANY sequence of
       next() (false) and next_back() (true) calls, behave as a double-ended iterator over the reference list *)
    ((forall pat, (let* s := sv_iter_new md sv in sbi_drive md sv pat s) = Ok (deque_run (vs_bits P n) pat)) /\
     (forall pat, it_drive md sv pat (sv_one_iter sv) = Ok (deque_run (vs_ranked P) pat)) /\
     (forall r pat, (let* it := sv_select_iter sp md sv r in it_drive md sv pat it) = Ok (deque_run (skipN (vs_ranked P) r) pat)) /\
     (forall v pat, (let* it := sv_predecessor sp md sv v in it_drive md sv pat it) = Ok (deque_run (vs_pred P v) pat)) /\
     (forall v pat, (let* it := sv_successor sp md sv v in it_drive md sv pat it) = Ok (deque_run (vs_succ P v) pat))).
Proof. exact sparse_set_exact. Qed.
Print Assumptions C02_sparse_exact.

(* The same answers for ANY vector that represents (n, P) with width w through a bit list H: the statement the
   builder theorem is composed with, usable for loaded vectors as well. [sv_ok] (Proofs/SparseProof.v) says:
   n < 2^64, 1 <= w <= 63, P sorted and below n, sv.len = n, H is the unary bucket code of P,
   bv_select_ok for sv.high and H, low_ok for sv.low and the low parts of P. *)
Theorem C02_queries_of_representation : forall sp md sv n w P H,
  sv_ok sp md sv n w P H -> sorted_lt P ->
  present_queries_ok sp md sv n P /\ zero_queries_ok sp md sv n P /\ iter_queries_ok sp md sv n P.
Proof. intros sp md sv n w P H Hok Hs. split; [exact (sv_ok_present _ _ _ _ _ _ _ Hok)|split; [exact (sv_ok_zero _ _ _ _ _ _ _ Hok Hs)|exact (sv_ok_iters _ _ _ _ _ _ _ Hok)]]. Qed.
Print Assumptions C02_queries_of_representation.

(* non-vacuity: the documentation example of SparseVector evaluated in the model (width 5 is what the crate chooses) *)
Example C02_doc_example :
  match sv_build_set Pdep Debug 5 137 [1; 33; 95; 123] with
  | Ok (inl sv) =>
      sv_rank Pdep Debug sv 33 = Ok 1 /\ sv_rank Pdep Debug sv 34 = Ok 2 /\ sv_rank_zero Pdep Debug sv 65 = Ok 63 /\
      sv_select Pdep Debug sv 1 = Ok (Some 33) /\ sv_select_zero Pdep Debug sv 35 = Ok (Some 37) /\
      it_first Debug sv (sv_predecessor Pdep Debug sv 2) = Ok (Some (0, 1)) /\
      it_first Debug sv (sv_successor Pdep Debug sv 124) = Ok None /\
      sv_get Pdep Debug sv 33 = Ok true /\ sv_count_zeros sv = 133
  | _ => False
  end.
Proof. vm_compute. repeat split. Qed.
