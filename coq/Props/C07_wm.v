(* C07 for WMCore and WaveletMatrix -- the files the crate writes follow the published serialization format.
   Only property theorems here: statement, [exact lemma], Print Assumptions, a non-vacuity Example.
   The document is formalised in Spec/Format.v from SERIALIZATION.md alone (section "Wavelet matrices"):
     p_wmcore / doc_valid_wmcore / doc_content_wmcore : width (1..64), then `width` bitvectors of one common length
        (each a Bitvector: count of set bits = the count in the data, raw bitvector with zero unused bits, three
        optional support structures passed through as vectors of elements); content = (width, items) where item i
        is read off by the document's level mapping: "If bv[level][i] == 0, position i maps to rank_zero(i) on the
        next level, otherwise to count_zeros() + rank(i)", summing the values 1 << (width - 1 - level) of set bits;
     p_wm / doc_valid_wm / doc_content_wm : len, the core (its length = len), first: an IntVector that holds, for
        every value of the alphabet 0..=max, "the position of the first occurrence of each value in the
        reordered vector", len if absent, and "must be bit-packed to minimize its width".
   For EVERY vector V the bytes that the MODEL of the crate's serializers writes for the core / matrix built by
   From<Vec<T>> are the 8-byte little-endian elements of wc_serialize / wm_serialize, that element list passes every
   MUST of the document's reader, and the reader's content is (width, V) with the minimal width - so the
   document's level mapping recovers V from the levels the crate wrote, and `first` is the documented table,
   minimally packed. Bounds as in C06_roundtrip_wm (elements must be 64-bit numbers). *)
From Coq Require Import NArith List Bool.
Require Import SDS.Model.Mach SDS.Model.Bits SDS.Model.IntVec SDS.Model.BitVec SDS.Model.Ser SDS.Model.SerBV.
Require Import SDS.Model.WM SDS.Model.SerComposite SDS.Model.SerWM.
Require Import SDS.Spec.BitSeq SDS.Spec.Seq.
Require SDS.Spec.Format SDS.Proofs.FormatWMModel.
Import ListNotations.
Open Scope N_scope.
Module F := SDS.Spec.Format.

Theorem C07_writes_conform_wmcore : forall (sp : selpath) (m : mode) (V : list N),
  Forall (fun x => x < 2 ^ 64) V -> lenN V + 4096 < 2 ^ 64 ->
  exists core, wm_core_from sp m V = Ok core /\ wc_width core = width_v V /\
    F.elems_of_bytes (c_enc (wmcore_codec sp m) core) = Some (wc_serialize core) /\
    F.doc_valid_wmcore (wc_serialize core) = true /\ F.doc_content_wmcore (wc_serialize core) = Some (wc_width core, V).
Proof. exact FormatWMModel.wmcore_conform. Qed.
Print Assumptions C07_writes_conform_wmcore.

Theorem C07_writes_conform_wm : forall (sp : selpath) (m : mode) (V : list N),
  Forall (fun x => x < 2 ^ 64) V -> lenN V + 4096 < 2 ^ 64 -> list_max V + 1 < 2 ^ 58 ->
  exists w, wm_from sp m V = Ok w /\ wm_width w = width_v V /\
    F.elems_of_bytes (c_enc (wm_codec sp m) w) = Some (wm_serialize w) /\
    F.doc_valid_wm (wm_serialize w) = true /\ F.doc_content_wm (wm_serialize w) = Some (wm_width w, V).
Proof. exact FormatWMModel.wm_conform. Qed.
Print Assumptions C07_writes_conform_wm.

(* the bridge behind them, on its own: the document's walk from position i of level 0 over the ideal level columns
   of V ends at item V[i] and at its position in the reordered vector, which is (items sorting before it) +
   (earlier occurrences); the document's first[] computed from those walks is the table of C04_start_offsets *)
Theorem C07_wm_walk : forall (V : list N),
  Forall (fun x => x < 2 ^ 64) V -> lenN V < 2 ^ 64 ->
  (forall i x, nth_opt V i = Some x ->
     F.wm_walk (wm_columns V) (bit_len (list_max V)) i = (x, less_v V x + rank_v V i x)) /\
  F.core_items (bit_len (list_max V)) (wm_columns V) = V /\
  (forall v, F.first_pos (map (F.wm_walk (wm_columns V) (bit_len (list_max V))) (F.nrange (length V) 0)) (lenN V) v =
             if contains_v V v then less_v V v else lenN V).
Proof.
  intros V HV Hn. split; [exact (FormatWMModel.walk_ok V HV Hn)|].
  split; [exact (FormatWMModel.core_items_ok V HV Hn)|exact (FormatWMModel.first_pos_ok V HV Hn)].
Qed.
Print Assumptions C07_wm_walk.

(* non-vacuity: the documentation's vector; its file is valid, decodes to the vector, and damaged files are not:
   a set unused bit in a level, a `first` entry off by one, `first` packed with a wider width than necessary *)
Example C07_wm_model_instance :
  match wm_from Pdep Debug [1; 0; 3; 1; 1; 2; 4; 5; 1; 2; 1; 7; 0; 1] with
  | Ok w =>
      let f := wm_serialize w in
      F.doc_valid_wm f = true /\ F.doc_content_wm f = Some (3, [1; 0; 3; 1; 1; 2; 4; 5; 1; 2; 1; 7; 0; 1]) /\
      F.doc_valid_wmcore (wc_serialize (wm_data w)) = true /\
      lenN f = 121 /\ skipn 116 f = [8; 4; 32; 1; 3736257360] /\
      F.doc_valid_wm (firstn 120 f ++ [3736257361]) = false /\
      F.doc_valid_wm (firstn 116 f ++ [8; 5; 40; 1; 462080576672]) = false
  | _ => False
  end.
Proof. vm_compute. repeat split; reflexivity. Qed.
