(* C09 for the sparse vector, and the agreement of the three bitvector types.
   Only property theorems here: statement, [exact lemma], Print Assumptions, non-vacuity Examples.

   Reading guide (see also Props/C02.v).
   * [sv_build_set sp md w' n P] / [sv_build_multiset sp md w' n Vs]: the model of SparseBuilder::new / ::multiset,
     try_set per value, SparseVector::try_from; [w'] stands for the result of the f64 width rule (every value 1..63
     is covered), [sp] ranges over the PDEP and the portable in-word select, [md] over the builds with overflow
     checks on (Debug) and off (Release). [lenN Vs + buckets < 2^64]: the high part is addressable.
   * The arguments i, r, x below range over ALL of N, in particular over every value below 2^64
     (len, len+1, 2len, 2^63, 2^64-2, 2^64-1): a result [Ok _] means no panic, no out-of-bounds access, no
     exhausted fuel.
   * [vs_rank], [vs_select], [vs_select_zero], [vs_pred], [vs_succ]: the naive value-list specification
     (Spec/ValSeq.v); [it_empty sv] / [zi_empty sv]: the iterators OneIter::empty_iter / ZeroIter::empty_iter.
   * the iterator step functions [sp_oi_step], [sp_bi_step], [sp_zi_step] (Model/SparseIters.v): next / next_back /
     size_hint are the crate's, nth / nth_back the std defaults over them; [dq_run] is the deque specification of C10
     and [lenA (fst (dq_run l cs))] the number of items left after the call history cs. *)
From Coq Require Import NArith List Bool.
Require Import SDS.Model.Mach SDS.Model.Bits SDS.Model.Raw SDS.Model.IntVec SDS.Model.BitVec SDS.Model.Convert.
Require Import SDS.Spec.BitSeq SDS.Spec.ValSeq SDS.Spec.Deque SDS.Spec.BuilderSpec.
Require Import SDS.Model.Sparse SDS.Model.SparseIters.
Require SDS.Model.RL.
Require Import SDS.Proofs.BVCommon SDS.Proofs.SparseSeq SDS.Proofs.SparseProof SDS.Proofs.SparseBuild.
Require Import SDS.Proofs.SparseDeque SDS.Proofs.SparseTotal SDS.Proofs.TypesAgree.
Import ListNotations.
Open Scope N_scope.

(* ---- the wrappers decide on len / count_ones / count_zeros alone: the same answers for ANY vector value,
   whatever its high and low parts hold (they are not consulted) ---- *)
Theorem C09_sparse_wrappers_beyond : forall (sp : selpath) (md : mode) (sv : sparse),
  (forall i, sv_len sv <= i -> sv_rank sp md sv i = Ok (sv_count_ones sv)) /\
  (forall r, sv_count_ones sv <= r -> sv_select sp md sv r = Ok None /\ sv_select_iter sp md sv r = Ok (it_empty sv)) /\
  (forall r, sv_count_zeros sv <= r ->
     sv_select_zero sp md sv r = Ok None /\ sv_select_zero_iter sp md sv r = Ok (zi_empty sv)) /\
  (forall x, sv_len sv <= x -> sv_successor sp md sv x = Ok (it_empty sv)) /\
  (forall x, sv_len sv <= x -> sv_predecessor sp md sv x = sv_predecessor sp md sv (sv_len sv - 1)) /\
  it_next_f md sv (it_empty sv) = Ok (it_empty sv, None) /\ it_next_back md sv (it_empty sv) = Ok (it_empty sv, None) /\
  it_len md (it_empty sv) = Ok 0 /\
  zi_next_f md sv (zi_empty sv) = Ok (zi_empty sv, None) /\ zi_len md (zi_empty sv) = Ok 0.
Proof. exact sp_wrappers_beyond. Qed.
Print Assumptions C09_sparse_wrappers_beyond.

(* ---- sets: the sparse reading of C09_bitvector_type_total_statement (Props/C09.v), over position lists instead of
   bit lists (a universe of 2^64-1 positions cannot be a bit list). For every universe n < 2^64 and every strictly
   increasing position list P below it the built vector answers
     - rank / rank_zero / select / select_zero / predecessor().next() / successor().next() with the value of the
       value-list specification for EVERY argument;
     - rank(i) = count_ones for i >= len (rank_zero(i) = i - count_ones: unspecified by the API, never a panic);
     - select(r) = None for r >= count_ones, and select_iter(r) is the empty iterator;
     - select_zero(r) = None for r >= count_zeros, and select_zero_iter(r) is the empty iterator;
     - successor(v) is the empty iterator for v >= len;
     - predecessor(v) = predecessor(len - 1) for v >= len > 0 (the same iterator state, not only the same first item);
     - the empty iterators return None from both ends, stay unchanged, and report length 0;
   and the specification agrees in each of these cases, so the answers are the documented ones. ---- *)
Theorem C09_sparse_total : forall (sp : selpath) (md : mode) (w' n : N) (P : list N),
  n < 2 ^ 64 -> 1 <= w' <= 63 -> increasing P = true -> all_below n P = true ->
  lenN P + buckets_of n (eff_width w' n (lenN P)) < 2 ^ 64 ->
  exists sv, sv_build_set sp md w' n P = Ok (inl sv) /\
    (sv_len sv = n /\ sv_count_ones sv = lenN P /\ sv_count_zeros sv = n - lenN P /\
     (forall i, sv_rank sp md sv i = Ok (vs_rank P i)) /\
     (forall r, sv_select sp md sv r = Ok (vs_select P r)) /\
     (forall x, it_first md sv (sv_predecessor sp md sv x) = Ok (hd_error (vs_pred P x)) /\
                it_first md sv (sv_successor sp md sv x) = Ok (hd_error (vs_succ P x))) /\
     (forall i, n <= i -> sv_rank sp md sv i = Ok (sv_count_ones sv) /\ vs_rank P i = lenN P) /\
     (forall r, sv_count_ones sv <= r ->
        sv_select sp md sv r = Ok None /\ vs_select P r = None /\ sv_select_iter sp md sv r = Ok (it_empty sv)) /\
     (forall r, sv_count_zeros sv <= r ->
        sv_select_zero sp md sv r = Ok None /\ sv_select_zero_iter sp md sv r = Ok (zi_empty sv)) /\
     (forall x, n <= x -> sv_successor sp md sv x = Ok (it_empty sv) /\ vs_succ P x = []) /\
     (forall x, n <= x -> 0 < n ->
        sv_predecessor sp md sv x = sv_predecessor sp md sv (n - 1) /\ vs_pred P x = vs_pred P (n - 1)) /\
     it_next_f md sv (it_empty sv) = Ok (it_empty sv, None) /\ it_next_back md sv (it_empty sv) = Ok (it_empty sv, None) /\
     it_len md (it_empty sv) = Ok 0 /\
     zi_next_f md sv (zi_empty sv) = Ok (zi_empty sv, None) /\ zi_len md (zi_empty sv) = Ok 0) /\
    ((forall i, sv_rank_zero sp md sv i = Ok (i - vs_rank P i)) /\
     (forall r, sv_select_zero sp md sv r = Ok (vs_select_zero P n r)) /\
     (forall i, n <= i -> sv_rank_zero sp md sv i = Ok (i - sv_count_ones sv)) /\
     (forall r, sv_count_zeros sv <= r -> vs_select_zero P n r = None)).
Proof.
  intros sp md w' n P Hn Hw Hi Hb Hfit.
  destruct (sparse_set_total sp md w' n P Hn Hw Hi Hb Hfit) as (sv & E & Hp & Hz & _).
  exists sv. exact (conj E (conj Hp Hz)).
Qed.
Print Assumptions C09_sparse_total.

(* ---- multisets (non-decreasing value lists, duplicates allowed, also more values than the universe has
   positions): the same for the queries about present values; count_zeros saturates at 0, and select_zero /
   select_zero_iter beyond it are None / the empty iterator (rank_zero and select_zero below the count are documented
   as unsupported for multisets and are not part of the statement) ---- *)
Theorem C09_sparse_multiset_total : forall (sp : selpath) (md : mode) (w' n : N) (Vs : list N),
  n < 2 ^ 64 -> 1 <= w' <= 63 -> nondecreasing Vs = true -> all_below n Vs = true ->
  lenN Vs + buckets_of n (eff_width w' n (lenN Vs)) < 2 ^ 64 ->
  exists sv, sv_build_multiset sp md w' n Vs = Ok (inl sv) /\
    sv_len sv = n /\ sv_count_ones sv = lenN Vs /\ sv_count_zeros sv = n - lenN Vs /\
    (forall i, sv_rank sp md sv i = Ok (vs_rank Vs i)) /\
    (forall r, sv_select sp md sv r = Ok (vs_select Vs r)) /\
    (forall x, it_first md sv (sv_predecessor sp md sv x) = Ok (hd_error (vs_pred Vs x)) /\
               it_first md sv (sv_successor sp md sv x) = Ok (hd_error (vs_succ Vs x))) /\
    (forall i, n <= i -> sv_rank sp md sv i = Ok (sv_count_ones sv) /\ vs_rank Vs i = lenN Vs) /\
    (forall r, sv_count_ones sv <= r ->
       sv_select sp md sv r = Ok None /\ vs_select Vs r = None /\ sv_select_iter sp md sv r = Ok (it_empty sv)) /\
    (forall r, sv_count_zeros sv <= r ->
       sv_select_zero sp md sv r = Ok None /\ sv_select_zero_iter sp md sv r = Ok (zi_empty sv)) /\
    (forall x, n <= x -> sv_successor sp md sv x = Ok (it_empty sv) /\ vs_succ Vs x = []) /\
    (forall x, n <= x -> 0 < n ->
       sv_predecessor sp md sv x = sv_predecessor sp md sv (n - 1) /\ vs_pred Vs x = vs_pred Vs (n - 1)) /\
    it_next_f md sv (it_empty sv) = Ok (it_empty sv, None) /\ it_next_back md sv (it_empty sv) = Ok (it_empty sv, None) /\
    it_len md (it_empty sv) = Ok 0 /\
    zi_next_f md sv (zi_empty sv) = Ok (zi_empty sv, None) /\ zi_len md (zi_empty sv) = Ok 0.
Proof.
  intros sp md w' n Vs Hn Hw Hi Hb Hfit.
  destruct (sparse_multiset_total sp md w' n Vs Hn Hw Hi Hb Hfit) as (sv & E & Hp & _).
  exists sv. exact (conj E Hp).
Qed.
Print Assumptions C09_sparse_multiset_total.

(* ---- Iterator::nth / DoubleEndedIterator::nth_back (the std defaults over the crate's next / next_back) on
   one_iter() / iter() / zero_iter() after ANY history cs of next / next_back / nth / nth_back / len calls (ZeroIter:
   of the forward calls): with k at least the number of items left (in particular every k >= count, up to 2^64-1
   and beyond), nth(k) = None, the following next() = None and len() = 0; the same from the back - the
   q_one_nth / q_zero_nth clauses of C09_bitvector_type_total_statement, for every history instead of "k x next".
   [vs_ranked P] = the (index, value) pairs, [vs_bits P n] = the membership bits, [vs_zeros_all P n 0] = the unset
   positions with their ranks (Proofs/SparseDeque.v) are the complete reference sequences. ---- *)
Theorem C09_sparse_nth_beyond : forall (sp : selpath) (md : mode) (w' n : N) (P : list N),
  n < 2 ^ 64 -> 1 <= w' <= 63 -> increasing P = true -> all_below n P = true ->
  lenN P + buckets_of n (eff_width w' n (lenN P)) < 2 ^ 64 ->
  exists sv, sv_build_set sp md w' n P = Ok (inl sv) /\
    (forall cs k, lenA (fst (dq_run (vs_ranked P) cs)) <= k ->
       exists s s' s'', Ok (sv_one_iter sv) = Ok s /\
         it_run (sp_oi_step md sv) s (cs ++ [Nth k; Next; Len]) =
           Ok (s', snd (dq_run (vs_ranked P) cs) ++ [Item None; Item None; Count 0]) /\
         it_run (sp_oi_step md sv) s (cs ++ [NthBack k; NextBack; Len]) =
           Ok (s'', snd (dq_run (vs_ranked P) cs) ++ [Item None; Item None; Count 0])) /\
    (forall cs k, lenA (fst (dq_run (vs_bits P n) cs)) <= k ->
       exists s s' s'', sv_iter_new md sv = Ok s /\
         it_run (sp_bi_step md sv) s (cs ++ [Nth k; Next; Len]) =
           Ok (s', snd (dq_run (vs_bits P n) cs) ++ [Item None; Item None; Count 0]) /\
         it_run (sp_bi_step md sv) s (cs ++ [NthBack k; NextBack; Len]) =
           Ok (s'', snd (dq_run (vs_bits P n) cs) ++ [Item None; Item None; Count 0])) /\
    (forall cs k, Forall call_fwd cs -> lenA (fst (dq_run (vs_zeros_all P n 0) cs)) <= k ->
       exists s s', sv_zero_iter md sv = Ok s /\
         it_run (sp_zi_step md sv) s (cs ++ [Nth k; Next; Len]) =
           Ok (s', snd (dq_run (vs_zeros_all P n 0) cs) ++ [Item None; Item None; Count 0])).
Proof.
  intros sp md w' n P Hn Hw Hi Hb Hfit.
  destruct (sparse_set_total sp md w' n P Hn Hw Hi Hb Hfit) as (sv & E & _ & _ & H1 & H2 & H3).
  exists sv. exact (conj E (conj H1 (conj H2 H3))).
Qed.
Print Assumptions C09_sparse_nth_beyond.

Theorem C09_sparse_multiset_nth_beyond : forall (sp : selpath) (md : mode) (w' n : N) (Vs : list N),
  n < 2 ^ 64 -> 1 <= w' <= 63 -> nondecreasing Vs = true -> all_below n Vs = true ->
  lenN Vs + buckets_of n (eff_width w' n (lenN Vs)) < 2 ^ 64 ->
  exists sv, sv_build_multiset sp md w' n Vs = Ok (inl sv) /\
    (forall cs k, lenA (fst (dq_run (vs_ranked Vs) cs)) <= k ->
       exists s s' s'', Ok (sv_one_iter sv) = Ok s /\
         it_run (sp_oi_step md sv) s (cs ++ [Nth k; Next; Len]) =
           Ok (s', snd (dq_run (vs_ranked Vs) cs) ++ [Item None; Item None; Count 0]) /\
         it_run (sp_oi_step md sv) s (cs ++ [NthBack k; NextBack; Len]) =
           Ok (s'', snd (dq_run (vs_ranked Vs) cs) ++ [Item None; Item None; Count 0])) /\
    (forall cs k, lenA (fst (dq_run (vs_bits Vs n) cs)) <= k ->
       exists s s' s'', sv_iter_new md sv = Ok s /\
         it_run (sp_bi_step md sv) s (cs ++ [Nth k; Next; Len]) =
           Ok (s', snd (dq_run (vs_bits Vs n) cs) ++ [Item None; Item None; Count 0]) /\
         it_run (sp_bi_step md sv) s (cs ++ [NthBack k; NextBack; Len]) =
           Ok (s'', snd (dq_run (vs_bits Vs n) cs) ++ [Item None; Item None; Count 0])).
Proof.
  intros sp md w' n Vs Hn Hw Hi Hb Hfit.
  destruct (sparse_multiset_total sp md w' n Vs Hn Hw Hi Hb Hfit) as (sv & E & _ & H1 & H2).
  exists sv. exact (conj E (conj H1 H2)).
Qed.
Print Assumptions C09_sparse_multiset_nth_beyond.

(* ---- THE THREE TYPES AGREE. For every bit sequence B shorter than 2^64: the BitVector built from the bits with all
   supports (C01), the SparseVector built from (|B|, the set positions of B) (C02) and the RLVector built from the
   maximal runs of B (C03) all exist, and every query on each of them returns the value of the ONE bit-list
   specification of Spec/BitSeq.v - len, count_ones, get below len, and rank, rank_zero, select, select_zero,
   predecessor().next(), successor().next() for EVERY argument below 2^64 (out-of-range and extreme ones included), in
   both overflow-check modes and on both select paths. Consequently any two of the types give equal answers to equal
   questions (the statement formerly kept as C09_types_agree_statement, with all three instances at once).
   Side conditions: the two address-space bounds of C02 (ones + buckets < 2^64) and C03 (runs < 2^56). ---- *)
Theorem C09_types_agree : forall (sp : selpath) (m : mode) (w' : N) (B : list bool),
  lenB B < 2 ^ 64 -> 1 <= w' <= 63 ->
  count B + (lenB B + 2 ^ w' - 1) / 2 ^ w' < 2 ^ 64 ->
  lenN (runs_of_bits B) < 2 ^ 56 ->
  exists b0 b sv v,
    bv_from_bits B = Ok b0 /\ bv_enable_all sp m b0 = Ok b /\
    sv_build_set sp m w' (lenB B) (ones B) = Ok (inl sv) /\
    RL.rl_build m (map (fun r => RL.BTrySet (fst r) (snd r)) (runs_of_bits B) ++ [RL.BSetLen (lenB B)])
      = Ok (v, map (fun _ => true) (runs_of_bits B) ++ [true]) /\
    (bv_len b = lenB B /\ sv_len sv = lenB B /\ RL.rl_len v = lenB B) /\
    (bv_count_ones b = count B /\ sv_count_ones sv = count B /\ RL.rl_ones v = count B) /\
    (forall i, i < lenB B ->
       bv_get b i = Ok (bitB B i) /\ sv_get sp m sv i = Ok (bitB B i) /\ RL.rl_get m v i = Ok (bitB B i)) /\
    (forall i, i < 2 ^ 64 ->
       bv_rank_q b i = Ok (rank1 B i) /\ sv_rank sp m sv i = Ok (rank1 B i) /\ RL.rl_rank m v i = Ok (rank1 B i)) /\
    (forall i, i < 2 ^ 64 ->
       bv_rank_zero m b i = Ok (i - rank1 B i) /\ sv_rank_zero sp m sv i = Ok (i - rank1 B i) /\
       RL.rl_rank_zero m v i = Ok (i - rank1 B i)) /\
    (forall r, r < 2 ^ 64 ->
       bv_select_t sp m Identity b r = Ok (select1 B r) /\ sv_select sp m sv r = Ok (select1 B r) /\
       RL.rl_select m v r = Ok (select1 B r)) /\
    (forall r, r < 2 ^ 64 ->
       bv_select_t sp m Complement b r = Ok (select0 B r) /\ sv_select_zero sp m sv r = Ok (select0 B r) /\
       RL.rl_select_zero m v r = Ok (select0 B r)) /\
    (forall x, x < 2 ^ 64 ->
       rmap snd (let* it := bv_predecessor sp m b x in oi_next_f Identity b it) = Ok (pred1 B x) /\
       it_first m sv (sv_predecessor sp m sv x) = Ok (pred1 B x) /\
       RL.oi_first m v (RL.rl_predecessor m v x) = Ok (pred1 B x)) /\
    (forall x, x < 2 ^ 64 ->
       rmap snd (let* it := bv_successor sp m b x in oi_next_f Identity b it) = Ok (succ1 B x) /\
       it_first m sv (sv_successor sp m sv x) = Ok (succ1 B x) /\
       RL.oi_first m v (RL.rl_successor m v x) = Ok (succ1 B x)).
Proof. exact types_agree. Qed.
Print Assumptions C09_types_agree.

(* ---- non-vacuity ---- *)

(* universe 2^64-1 with ones at 3, 4, 2^63, 2^64-3, 2^64-2 (width 61 is what the rule gives for 5 ones): the
   answers at the extremes, computed by the model *)
Example C09_sparse_example :
  match sv_build_set Portable Release 61 (2 ^ 64 - 1) [3; 4; 2 ^ 63; 2 ^ 64 - 3; 2 ^ 64 - 2] with
  | Ok (inl sv) =>
      sv_len sv = 2 ^ 64 - 1 /\ sv_count_ones sv = 5 /\
      sv_rank Portable Release sv (2 ^ 64 - 1) = Ok 5 /\ sv_rank Portable Release sv (2 ^ 64) = Ok 5 /\
      sv_select Portable Release sv 5 = Ok None /\
      sv_select_zero Portable Release sv (2 ^ 64 - 6) = Ok None /\
      sv_select_zero Portable Release sv (2 ^ 64 - 7) = Ok (Some (2 ^ 64 - 4)) /\
      it_first Release sv (sv_predecessor Portable Release sv (2 ^ 64 - 1)) = Ok (Some (4, 2 ^ 64 - 2)) /\
      it_first Release sv (sv_successor Portable Release sv (2 ^ 64 - 1)) = Ok None /\
      rmap snd (it_run (sp_oi_step Release sv) (sv_one_iter sv) [Next; NthBack (2 ^ 64 - 1); NextBack; Len])
        = Ok [Item (Some (0, 3)); Item None; Item None; Count 0]
  | _ => False
  end.
Proof. vm_compute. repeat split; reflexivity. Qed.

(* the hypotheses of C09_types_agree are satisfiable: the 11-bit sequence 01101001110 *)
Example C09_types_agree_example :
  let B := [false; true; true; false; true; false; false; true; true; true; false] in
  lenB B < 2 ^ 64 /\ count B + (lenB B + 2 ^ 1 - 1) / 2 ^ 1 < 2 ^ 64 /\ lenN (runs_of_bits B) < 2 ^ 56 /\
  select0 B 4 = Some 10 /\ pred1 B 6 = Some (2, 4) /\ rank1 B (2 ^ 64 - 1) = 6.
Proof. vm_compute. repeat split; reflexivity. Qed.
