(* C15 -- sparse vectors built as multisets answer present-value queries naturally.
   Only property theorems here. See Props/C02.v for the reading guide (contracts, oracle width). *)
From Coq Require Import NArith List Bool.
Require Import SDS.Model.Mach SDS.Model.Bits SDS.Model.Raw SDS.Model.IntVec SDS.Model.BitVec SDS.Model.Sparse.
Require Import SDS.Spec.BitSeq SDS.Spec.ValSeq SDS.Proofs.BVCommon SDS.Proofs.SparseSeq SDS.Proofs.SparseProof.
Require Import SDS.Proofs.SparseBuild SDS.Proofs.SparseMain.
Import ListNotations.
Open Scope N_scope.

(* For every universe, every non-decreasing value list below it (duplicates allowed, any length, also longer than
   the universe), every width: SparseBuilder::multiset + try_set + try_from succeeds and
   count_ones = number of values, count_zeros saturates (N subtraction), select(i) = i-th value,
   rank(i) = number of values below i for EVERY i, get(i) = whether i occurs (i < n),
   successor = the FIRST pair (index, value) with value >= v, predecessor = the LAST pair with value <= v. *)
Theorem C15_multiset : forall sp md w' n Vs,
  high_contract sp md ->
  n < 2 ^ 64 -> 1 <= w' <= 63 -> nondecreasing Vs = true -> all_below n Vs = true ->
  lenN Vs + buckets_of n (eff_width w' n (lenN Vs)) < 2 ^ 64 ->
  exists sv H,
    sv_build_multiset sp md w' n Vs = Ok (inl sv) /\
    (let w := eff_width w' n (lenN Vs) in
     bv_select_ok sp md (sv_high sv) H /\
     lenB H = lenN Vs + (n + 2 ^ w - 1) / 2 ^ w /\
     (forall i, i < lenN Vs -> select1 H i = Some (nthd Vs i / 2 ^ w + i)) /\
     (forall b, b < (n + 2 ^ w - 1) / 2 ^ w -> select0 H b = Some (b + vs_rank Vs ((b + 1) * 2 ^ w)))) /\
    (sv_len sv = n /\ sv_count_ones sv = lenN Vs /\ sv_count_zeros sv = n - lenN Vs /\
     (forall i, i < n -> sv_get sp md sv i = Ok (vs_get Vs i)) /\
     (forall i, sv_rank sp md sv i = Ok (vs_rank Vs i)) /\
     (forall r, sv_select sp md sv r = Ok (vs_select Vs r)) /\
     (forall v, it_first md sv (sv_predecessor sp md sv v) = Ok (hd_error (vs_pred Vs v))) /\
     (forall v, it_first md sv (sv_successor sp md sv v) = Ok (hd_error (vs_succ Vs v))) /\
     sv_is_multiset md sv = Ok (has_dup Vs)) /\
    (* the bit iterator lists the membership bits of the positions (duplicates skipped from both ends), the set-bit
       iterators list the values with their indices; in both directions and any interleaving *)
    ((forall pat, (let* s := sv_iter_new md sv in sbi_drive md sv pat s) = Ok (deque_run (vs_bits Vs n) pat)) /\
     (forall pat, it_drive md sv pat (sv_one_iter sv) = Ok (deque_run (vs_ranked Vs) pat)) /\
     (forall r pat, (let* it := sv_select_iter sp md sv r in it_drive md sv pat it) = Ok (deque_run (skipN (vs_ranked Vs) r) pat)) /\
     (forall v pat, (let* it := sv_predecessor sp md sv v in it_drive md sv pat it) = Ok (deque_run (vs_pred Vs v) pat)) /\
     (forall v pat, (let* it := sv_successor sp md sv v in it_drive md sv pat it) = Ok (deque_run (vs_succ Vs v) pat))).
Proof. exact sparse_multiset_exact. Qed.
Print Assumptions C15_multiset.

(* try_from_iter accepts every non-decreasing sequence (whose last value + 1 fits in usize), sizes the universe
   to last + 1 (0 for the empty sequence) and the result answers as above *)
Theorem C15_try_from_iter_accepts : forall sp md w' Vs,
  high_contract sp md ->
  1 <= w' <= 63 -> nondecreasing Vs = true ->
  (forall v, last_opt Vs = Some v -> v + 1 < 2 ^ 64) ->
  let n := match last_opt Vs with Some v => v + 1 | None => 0 end in
  lenN Vs + buckets_of n (eff_width w' n (lenN Vs)) < 2 ^ 64 ->
  exists sv, sv_try_from_iter sp md w' Vs = Ok (inl sv) /\
    (sv_len sv = n /\ sv_count_ones sv = lenN Vs /\ sv_count_zeros sv = n - lenN Vs /\
     (forall i, i < n -> sv_get sp md sv i = Ok (vs_get Vs i)) /\
     (forall i, sv_rank sp md sv i = Ok (vs_rank Vs i)) /\
     (forall r, sv_select sp md sv r = Ok (vs_select Vs r)) /\
     (forall v, it_first md sv (sv_predecessor sp md sv v) = Ok (hd_error (vs_pred Vs v))) /\
     (forall v, it_first md sv (sv_successor sp md sv v) = Ok (hd_error (vs_succ Vs v))) /\
     sv_is_multiset md sv = Ok (has_dup Vs)) /\
    ((forall pat, (let* s := sv_iter_new md sv in sbi_drive md sv pat s) = Ok (deque_run (vs_bits Vs n) pat)) /\
     (forall pat, it_drive md sv pat (sv_one_iter sv) = Ok (deque_run (vs_ranked Vs) pat)) /\
     (forall r pat, (let* it := sv_select_iter sp md sv r in it_drive md sv pat it) = Ok (deque_run (skipN (vs_ranked Vs) r) pat)) /\
     (forall v pat, (let* it := sv_predecessor sp md sv v in it_drive md sv pat it) = Ok (deque_run (vs_pred Vs v) pat)) /\
     (forall v pat, (let* it := sv_successor sp md sv v in it_drive md sv pat it) = Ok (deque_run (vs_succ Vs v) pat))).
Proof. exact sparse_try_from_iter_accepts. Qed.
Print Assumptions C15_try_from_iter_accepts.

(* ... and rejects every other sequence with an Err (inr = the error result, never a panic): a value below its
   predecessor or above the last value is reported by try_set. No assumption about the embedded bitvector is
   needed here: the rejection happens before the high part is frozen. *)
Theorem C15_try_from_iter_rejects : forall sp md w' Vs,
  1 <= w' <= 63 -> nondecreasing Vs = false ->
  (forall v, last_opt Vs = Some v -> v + 1 < 2 ^ 64) ->
  let n := match last_opt Vs with Some v => v + 1 | None => 0 end in
  lenN Vs + buckets_of n (eff_width w' n (lenN Vs)) < 2 ^ 64 ->
  exists e, sv_try_from_iter sp md w' Vs = Ok (inr e).
Proof. exact sparse_try_from_iter_rejects. Qed.
Print Assumptions C15_try_from_iter_rejects.

Example C15_reject_example : sv_try_from_iter Pdep Debug 1 [3; 4; 2; 7] = Ok (inr ERR_ORDER).
Proof. vm_compute. reflexivity. Qed.

(* non-vacuity: the documentation example of try_from_iter (width 1 is what the crate chooses) *)
Example C15_doc_example :
  match sv_try_from_iter Pdep Debug 1 [3; 4; 4; 7; 11; 19] with
  | Ok (inl sv) =>
      sv_len sv = 20 /\ sv_count_ones sv = 6 /\ sv_is_multiset Debug sv = Ok true /\
      sv_select Pdep Debug sv 2 = Ok (Some 4) /\ sv_rank Pdep Debug sv 5 = Ok 3 /\
      it_first Debug sv (sv_successor Pdep Debug sv 4) = Ok (Some (1, 4)) /\
      it_first Debug sv (sv_predecessor Pdep Debug sv 4) = Ok (Some (2, 4))
  | _ => False
  end.
Proof. vm_compute. repeat split. Qed.
