(* C04, closed -- the theorems of Props/C04.v without their two interface premises.
   Props/C04.v proves exactness of the wavelet matrix for any level bitvectors that answer the queries of
   their ideal columns ([bv_queries_ok]) and any offsets IntVector that returns what was stored ([first_ok]).
   Here both are established for what the model's From<Vec<T>> actually builds:
     levels  = bv_from_bits column + enable_rank / enable_select / enable_select_zero   (Proofs/BVFull.v, C01)
     first   = collect into a 64-bit IntVector + pack                                  (Proofs/IntVecProof.v, C05)
   so the statements below have no hypothesis besides the size bounds:
     items below 2^64, |V| < 2^64 (a Vec cannot be longer), list_max V + 1 < 2^64 (the offset table has max+1
     entries; only needed for the matrix, not for the core).
   [sp m] are the select path / overflow mode of the build, [sp' m'] those of the queries: every combination. *)
From Coq Require Import NArith List Bool.
Require Import SDS.Model.Mach SDS.Model.Bits SDS.Model.IntVec SDS.Model.BitVec SDS.Model.WM.
Require Import SDS.Spec.BitSeq SDS.Spec.Seq.
Require Import SDS.Proofs.BVCommon SDS.Proofs.WMProof SDS.Proofs.WMClosed.
Import ListNotations.
Open Scope N_scope.

(* WMCore::from(V) returns a core whose mapping functions are exact *)
Theorem C04_core_mapping_closed : forall sp m V,
  Forall (fun x => x < 2 ^ 64) V -> lenN V < 2 ^ 64 ->
  exists core, wm_core_from sp m V = Ok core /\
  forall sp' m',
  wc_len core = Ok (lenS V) /\ wc_width core = width_v V /\
  (forall i, i < 2 ^ 64 -> wc_map_down m' core i = Ok (map_down_v V i)) /\
  (forall i v, i < 2 ^ 64 -> wc_map_down_with m' core i v = Ok (map_down_with_v V i (v mod 2 ^ width_v V))) /\
  (forall i1 i2 v, i1 < 2 ^ 64 -> i2 < 2 ^ 64 ->
     wc_map_down_with_two m' core i1 i2 v =
     Ok (map_down_with_v V i1 (v mod 2 ^ width_v V), map_down_with_v V i2 (v mod 2 ^ width_v V))) /\
  (forall j v, j < 2 ^ 64 -> wc_map_up_with sp' m' core j v = Ok (map_up_v V j (v mod 2 ^ width_v V))) /\
  (forall i x, nth_opt V i = Some x ->
     exists j, j < lenS V /\ wc_map_down m' core i = Ok (Some (j, x)) /\
               wc_map_down_with m' core i x = Ok j /\ wc_map_up_with sp' m' core j x = Ok (Some i)).
Proof. exact core_mapping_closed. Qed.
Print Assumptions C04_core_mapping_closed.

(* WaveletMatrix::from(V) returns a matrix (whose data is the core above) that answers every query exactly *)
Theorem C04_wm_exact_closed : forall sp m V,
  Forall (fun x => x < 2 ^ 64) V -> lenN V < 2 ^ 64 -> list_max V + 1 < 2 ^ 64 ->
  exists wm, wm_from sp m V = Ok wm /\ wm_core_from sp m V = Ok (wm_data wm) /\
  forall sp' m',
  wm_len wm = lenS V /\ wm_width wm = width_v V /\ wm_width wm = bit_len (list_max V) /\
  (forall i, i < 2 ^ 64 -> wm_get m' wm i = match get_v V i with Some x => Ok x | None => Panic PUnwrap end) /\
  (forall i v, i < 2 ^ 64 -> wm_rank m' wm i v = Ok (rank_v V i v)) /\
  (forall r v, r < 2 ^ 64 -> wm_select sp' m' wm r v = Ok (select_v V r v)) /\
  (forall i, i < 2 ^ 64 -> wm_inverse_select m' wm i = Ok (inverse_select_v V i)) /\
  (forall v, wm_contains wm v = Ok (contains_v V v)) /\
  (forall v, vi_items sp' m' wm (wm_value_iter v) = Ok (value_iter_v V v) /\ wm_value_of (wm_value_iter v) = v) /\
  (forall r v, r < 2 ^ 64 -> vi_items sp' m' wm (wm_select_iter r v) = Ok (select_iter_v V r v)) /\
  (forall i v, i < 2 ^ 64 -> (let* it := wm_predecessor m' wm i v in vi_items sp' m' wm it) = Ok (pred_v V i v)) /\
  (forall i v, i < 2 ^ 64 -> (let* it := wm_successor m' wm i v in vi_items sp' m' wm it) = Ok (succ_v V i v)) /\
  wm_into_iter m' wm = Ok V.
Proof. exact wm_exact_closed. Qed.
Print Assumptions C04_wm_exact_closed.

(* construction returns and its result meets the hypotheses of C04_wm_exact / C04_core_mapping: the shape
   of the record, the level interface for every query mode, the offsets (the same in both modes) *)
Theorem C04_from_vec_closed : forall sp m V,
  Forall (fun x => x < 2 ^ 64) V -> lenN V < 2 ^ 64 -> list_max V + 1 < 2 ^ 64 ->
  exists levels first F,
    wm_from sp m V = Ok (mkwm (lenN V) (mkcore levels) first) /\
    wm_core_from sp m V = Ok (mkcore levels) /\
    (forall sp' m', Forall2 (bv_queries_ok sp' m') levels (wm_columns V)) /\
    (forall m', first_offsets m' V (lenN V) (list_max V) = Ok F) /\ first_ok first F.
Proof. exact wm_from_vec_closed. Qed.
Print Assumptions C04_from_vec_closed.

(* the two interfaces themselves, as used above: a level from its column; the offsets vector from the offsets *)
Theorem C04_level_interface : forall sp m (col : list bool), lenB col < 2 ^ 64 ->
  exists r b, bv_from_bits col = Ok r /\ bv_enable_all sp m r = Ok b /\
    (forall sp' m', bv_queries_ok sp' m' b col).
Proof. exact level_built. Qed.
Print Assumptions C04_level_interface.

Theorem C04_first_interface : forall F : list N, Forall (fun x => x < 2 ^ 64) F ->
  exists iv first, iv_from 64 F = Ok iv /\ iv_pack iv = Ok first /\
    ilen first = lenN F /\ (forall v x, nthN F v = Some x -> iv_get first v = Ok x).
Proof.
  intros F HF. destruct (first_built F HF) as (iv & first & E1 & E2 & (H1 & H2) & _).
  exists iv, first. auto.
Qed.
Print Assumptions C04_first_interface.

(* non-vacuity: the example vector of Props/C04.v meets the bounds *)
Example C04_closed_example :
  Forall (fun x => x < 2 ^ 64) [1; 0; 3; 1; 1; 2; 4; 5; 1; 2; 1; 7; 0; 1] /\
  lenN [1; 0; 3; 1; 1; 2; 4; 5; 1; 2; 1; 7; 0; 1] < 2 ^ 64 /\
  list_max [1; 0; 3; 1; 1; 2; 4; 5; 1; 2; 1; 7; 0; 1] + 1 < 2 ^ 64.
Proof. split; [repeat constructor|split; reflexivity]. Qed.
