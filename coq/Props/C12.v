(* C12 -- buffered file writers produce exactly the in-memory serialization.
   Only property theorems here: statement, [exact lemma], Print Assumptions.

   Vocabulary (Model/Writer.v): a writer state has  wlen  (len()),  wbuf_len  (flush threshold),  wbuf  (the buffer),
   wpos  (Some position = open file handle, None = closed) and  wdisk  (the elements of the file). The same
   list of pushes [ops] (PBit b | PInt value width) is applied to the writer (w_run) and to a RawVector in memory
   (mem_run, i.e. raw_push_bit / raw_push_int of Model/Raw.v). raw_serialize r = [len; #words] ++ words,
   iv_serialize v = [len; width] ++ raw_serialize data. *)
From Coq Require Import NArith List Bool.
Require Import SDS.Model.Mach SDS.Model.Bits SDS.Model.Raw SDS.Model.IntVec SDS.Model.Writer.
Require Import SDS.Proofs.WriterProof.
Import ListNotations.
Open Scope N_scope.

(* RawVectorWriter::with_buf_len, both build modes, EVERY requested buffer size for which the creation returns
   (0, non-multiples of 64, sizes below one item, ...), every parent header h0 (written as a placeholder at
   creation) and h1 (written at close) of the same length, every mix of bit pushes and integer pushes of
   widths 0..64 with arbitrary values: the pushes and the close succeed, the file is h1 followed by the
   serialization of the vector built in memory by the same pushes, the file is closed, len() = pushed bits. *)
Theorem C12_writer_exact : forall m h0 h1 buf_len w0 ops,
  w_with_buf_len m h0 buf_len = Ok w0 -> length h1 = length h0 ->
  (forall v width, In (PInt v width) ops -> width <= 64) ->
  exists r w1 w2,
    mem_run raw_new ops = Ok r /\ w_run w0 ops = Ok w1 /\ w_close_with_header w1 h1 = Ok w2 /\
    wdisk w2 = h1 ++ raw_serialize r /\ w_is_open w2 = false /\
    wlen w1 = ops_bits ops /\ wlen w2 = ops_bits ops /\ rlen r = ops_bits ops.
Proof. intros m h0 h1 buf_len w0 ops Hc Hh Hok. exact (w12_writer_exact_raw m h0 h1 buf_len w0 ops Hc Hh (w12_ops_ok_of_in ops Hok)). Qed.
Print Assumptions C12_writer_exact.

(* the plain close() of a stand-alone RawVectorWriter (empty parent header): the file IS raw_serialize r *)
Theorem C12_writer_exact_close : forall m buf_len w0 ops,
  w_with_buf_len m [] buf_len = Ok w0 ->
  (forall v width, In (PInt v width) ops -> width <= 64) ->
  exists r w1 w2,
    mem_run raw_new ops = Ok r /\ w_run w0 ops = Ok w1 /\ w_close w1 = Ok w2 /\
    wdisk w2 = raw_serialize r /\ w_is_open w2 = false /\
    wlen w1 = ops_bits ops /\ wlen w2 = ops_bits ops /\ rlen r = ops_bits ops.
Proof. intros m buf_len w0 ops Hc Hok. exact (w12_writer_exact_raw m [] [] buf_len w0 ops Hc eq_refl (w12_ops_ok_of_in ops Hok)). Qed.
Print Assumptions C12_writer_exact_close.

(* RawVectorWriter::new (DEFAULT_BUFFER_SIZE taken from the source) *)
Theorem C12_writer_exact_default : forall h0 h1 ops,
  length h1 = length h0 ->
  (forall v width, In (PInt v width) ops -> width <= 64) ->
  exists r w1 w2,
    mem_run raw_new ops = Ok r /\ w_run (w_new h0) ops = Ok w1 /\ w_close_with_header w1 h1 = Ok w2 /\
    wdisk w2 = h1 ++ raw_serialize r /\ w_is_open w2 = false /\
    wlen w1 = ops_bits ops /\ wlen w2 = ops_bits ops /\ rlen r = ops_bits ops.
Proof. intros h0 h1 ops Hh Hok. exact (w12_writer_exact_raw_new h0 h1 ops Hh (w12_ops_ok_of_in ops Hok)). Qed.
Print Assumptions C12_writer_exact_default.

(* IntVectorWriter::with_buf_len, both build modes: every width 1..64 (other widths are rejected: no writer),
   every buffer size in items for which the creation returns, every list of values (push one by one = extend):
   the file after close() is iv_serialize of the IntVector built by the same pushes; len() = number of items *)
Theorem C12_writer_exact_int : forall m width buf_len iw0 xs,
  iw_with_buf_len m width buf_len = Some (Ok iw0) ->
  exists v0 v iw1 iw2,
    iv_new width = Some v0 /\ iv_push_all v0 xs = Ok v /\
    iw_extend iw0 xs = Ok iw1 /\ iw_close iw1 = Ok iw2 /\
    wdisk (iww iw2) = iv_serialize v /\ w_is_open (iww iw2) = false /\
    iwlen iw1 = lenN xs /\ iwlen iw2 = lenN xs /\ ilen v = lenN xs /\
    wlen (iww iw2) = lenN xs * width.
Proof. exact w12_writer_exact_int. Qed.
Print Assumptions C12_writer_exact_int.

(* IntVectorWriter::new *)
Theorem C12_writer_exact_int_default : forall width iw0 xs,
  iw_new width = Some iw0 ->
  exists v0 v iw1 iw2,
    iv_new width = Some v0 /\ iv_push_all v0 xs = Ok v /\
    iw_extend iw0 xs = Ok iw1 /\ iw_close iw1 = Ok iw2 /\
    wdisk (iww iw2) = iv_serialize v /\ w_is_open (iww iw2) = false /\
    iwlen iw1 = lenN xs /\ iwlen iw2 = lenN xs /\ ilen v = lenN xs /\
    wlen (iww iw2) = lenN xs * width.
Proof. exact w12_writer_exact_int_new. Qed.
Print Assumptions C12_writer_exact_int_default.

(* the hypotheses "creation returns" are not vacuous: with overflow checks on, creation returns whenever the
   rounding of the requested size does not overflow; with overflow checks off it always returns (the rounding may
   wrap; the theorems above still apply to the writer it returns). Memory for the buffer is outside the model. *)
Theorem C12_creation_returns :
  (forall m h0 buf_len, buf_len + 127 < 2 ^ 64 -> exists w0, w_with_buf_len m h0 buf_len = Ok w0) /\
  (forall h0 buf_len, exists w0, w_with_buf_len Release h0 buf_len = Ok w0) /\
  (forall m width buf_len, 1 <= width <= 64 -> buf_len * width + 127 < 2 ^ 64 ->
     exists iw0, iw_with_buf_len m width buf_len = Some (Ok iw0)).
Proof. exact (conj w12_with_buf_len_ok (conj w12_with_buf_len_release w12_iw_with_buf_len_ok)). Qed.
Print Assumptions C12_creation_returns.

(* len() counts what was pushed, after every sequence of pushes (not only at close) *)
Theorem C12_len_counts :
  (forall m h0 buf_len w0 ops,
     w_with_buf_len m h0 buf_len = Ok w0 -> (forall v width, In (PInt v width) ops -> width <= 64) ->
     exists w1, w_run w0 ops = Ok w1 /\ wlen w1 = ops_bits ops) /\
  (forall m width buf_len iw0 xs,
     iw_with_buf_len m width buf_len = Some (Ok iw0) ->
     exists iw1, iw_extend iw0 xs = Ok iw1 /\ iwlen iw1 = lenN xs).
Proof. exact (conj w12_len_counts_raw w12_len_counts_int). Qed.
Print Assumptions C12_len_counts.

(* a second close (with whatever header) changes nothing: not the file, not any field, for EVERY writer state *)
Theorem C12_close_idempotent :
  (forall w h h' w', w_close_with_header w h = Ok w' -> w_close_with_header w' h' = Ok w') /\
  (forall iw iw', iw_close iw = Ok iw' -> iw_close iw' = Ok iw').
Proof. exact (conj w12_close_idempotent w12_iw_close_idempotent). Qed.
Print Assumptions C12_close_idempotent.

(* Drop: dropping an open writer is close(), so by C12_writer_exact it leaves the same complete file; dropping a
   closed one does nothing. For IntVectorWriter the drop is its close() FOLLOWED by the Drop of the inner
   RawVectorWriter (whose close has an empty parent header and would damage the file if it wrote): it is a no-op. *)
Theorem C12_drop_same_file :
  (forall w, w_drop w = w_close w) /\
  (forall w, w_is_open w = false -> w_drop w = Ok w) /\
  (forall iw, iw_drop iw = iw_close iw).
Proof. exact (conj (fun w => eq_refl) (conj w12_drop_closed w12_iw_drop_is_close)). Qed.
Print Assumptions C12_drop_same_file.

(* spelled out: after any pushes, dropping the still open writer leaves the complete file *)
Theorem C12_drop_exact :
  (forall m buf_len w0 ops,
     w_with_buf_len m [] buf_len = Ok w0 -> (forall v width, In (PInt v width) ops -> width <= 64) ->
     exists r w1 w2, mem_run raw_new ops = Ok r /\ w_run w0 ops = Ok w1 /\ w_drop w1 = Ok w2 /\
       wdisk w2 = raw_serialize r /\ w_is_open w2 = false) /\
  (forall m width buf_len iw0 xs,
     iw_with_buf_len m width buf_len = Some (Ok iw0) ->
     exists v0 v iw1 iw2, iv_new width = Some v0 /\ iv_push_all v0 xs = Ok v /\
       iw_extend iw0 xs = Ok iw1 /\ iw_drop iw1 = Ok iw2 /\
       wdisk (iww iw2) = iv_serialize v /\ w_is_open (iww iw2) = false).
Proof. exact (conj w12_drop_exact_raw w12_drop_exact_int). Qed.
Print Assumptions C12_drop_exact.

(* pushes into a closed writer never reach the file (flush is a no-op without a handle); len() still counts them *)
Theorem C12_closed_push_keeps_file : forall w o w',
  w_is_open w = false -> w_step w o = Ok w' ->
  wdisk w' = wdisk w /\ w_is_open w' = false /\ wlen w' = wlen w + op_bits o.
Proof. exact w12_closed_push. Qed.
Print Assumptions C12_closed_push_keeps_file.

(* non-vacuity: a width-13 writer with a one-item buffer request (rounded up to 64 bits: items straddle every
   flush), eleven items; and a raw writer with buffer request 0 and a mix of bit / 0..64-bit pushes *)
Example C12_example_int :
  (match iw_with_buf_len Debug 13 1 with
   | Some (Ok iw0) =>
       let* iw1 := iw_extend iw0 [1; 8191; 4660; 0; 77; 8190; 5; 6; 7; 4095; 1234] in
       let* iw2 := iw_drop iw1 in
       Ok (wdisk (iww iw2), wbuf_len (iww iw2), iwlen iw2)
   | _ => Panic PFuel
   end) = Ok ([11; 13; 143; 3; 346777484101935105; 18437744571841609724; 4937], 64, 11).
Proof. vm_compute. reflexivity. Qed.

Example C12_example_raw :
  (let ops := [PBit true; PInt 5 3; PInt 0 0; PInt 18446744073709551615 64; PBit false; PBit true;
               PInt 123456789 40; PInt 1 1; PInt 99 64; PBit true] in
   let* w0 := w_with_buf_len Release [] 0 in
   let* w1 := w_run w0 ops in
   let* w2 := w_close w1 in
   let* w3 := w_close w2 in
   let* r := mem_run raw_new ops in
   Ok (wdisk w3, wlen w3, raw_serialize r)) =
  Ok ([176; 3; 18446744073709551611; 14003387992589679; 140737488355328], 176,
      [176; 3; 18446744073709551611; 14003387992589679; 140737488355328]).
Proof. vm_compute. reflexivity. Qed.
