(* C14 for WMCore and WaveletMatrix -- truncated input is always reported, never accepted.
   Only property theorems here: statement, [exact lemma], Print Assumptions, a non-vacuity Example.
   For EVERY vector V the serialization of the core / matrix that the model's From<Vec<T>> builds (build path sp,
   mode m) is such that load - WMCore::load / WaveletMatrix::load of Model/SerComposite.v, on ANY path sp' and
   in ANY mode m' - on EVERY strict prefix is an I/O error: neither a structure nor a panic. The cut may fall
   inside the width / len element, inside any level (its count, its raw data, any of its three optional
   supports), between two levels, or inside the offsets vector. Bounds as in C06_roundtrip_wm. *)
From Coq Require Import NArith List Bool.
Require Import SDS.Model.Mach SDS.Model.Bits SDS.Model.Raw SDS.Model.IntVec SDS.Model.BitVec SDS.Model.Ser.
Require Import SDS.Model.WM SDS.Model.SerComposite SDS.Model.SerWM.
Require Import SDS.gen.Consts SDS.Spec.Stream.
Require Import SDS.Proofs.SerProof SDS.Proofs.SerTypes SDS.Proofs.SerSupports SDS.Proofs.SerMain SDS.Proofs.SerWM.
Import ListNotations.
Open Scope list_scope.
Open Scope N_scope.

Theorem C14_truncation_wmcore : forall (sp : selpath) (m : mode) (V : list N),
  Forall (fun x => x < 2 ^ 64) V -> lenN V + 4096 < 2 ^ 64 ->
  exists core, wm_core_from sp m V = Ok core /\
  forall sp' m' k, (k < length (c_enc (wmcore_codec sp' m') core))%nat ->
    exists e, c_dec (wmcore_codec sp' m') (firstn k (c_enc (wmcore_codec sp' m') core)) = IoErr e.
Proof.
  intros sp m V HV Hn. destruct (wmcore_built sp m V HV Hn) as (levels & Hc & _ & _ & _ & _ & Hwf & _).
  exists (mkcore levels). split; [exact Hc|]. intros sp' m'.
  exact (ok_truncation _ _ (wmcore_codec_ok sp' m') (Hwf sp' m')).
Qed.
Print Assumptions C14_truncation_wmcore.

Theorem C14_truncation_wm : forall (sp : selpath) (m : mode) (V : list N),
  Forall (fun x => x < 2 ^ 64) V -> lenN V + 4096 < 2 ^ 64 -> list_max V + 1 < 2 ^ 58 ->
  exists wm, wm_from sp m V = Ok wm /\
  forall sp' m' k, (k < length (c_enc (wm_codec sp' m') wm))%nat ->
    exists e, c_dec (wm_codec sp' m') (firstn k (c_enc (wm_codec sp' m') wm)) = IoErr e.
Proof.
  intros sp m V HV Hn Hmax. destruct (wm_built sp m V HV Hn Hmax) as (levels & first & Hw & _ & _ & _ & Hwf & _).
  exists (mkwm (lenN V) (mkcore levels) first). split; [exact Hw|]. intros sp' m'.
  exact (ok_truncation _ _ (wm_codec_ok sp' m') (Hwf sp' m')).
Qed.
Print Assumptions C14_truncation_wm.

(* ... and for any well-formed value of the two types (C06_roundtrip_wm_wf spells the predicates out) *)
Theorem C14_truncation_wm_wf : forall sp m,
  (forall c, c_wf (wmcore_codec sp m) c -> truncation_safe (wmcore_codec sp m) c) /\
  (forall w, c_wf (wm_codec sp m) w -> truncation_safe (wm_codec sp m) w).
Proof.
  intros sp m. split; [intros c H; exact (ok_truncation _ c (wmcore_codec_ok sp m) H)|
                       intros w H; exact (ok_truncation _ w (wm_codec_ok sp m) H)].
Qed.
Print Assumptions C14_truncation_wm_wf.

(* non-vacuity: a two-level matrix; load at every one of the 664 cuts of its 83 elements is an error, and the whole
   serialization loads *)
Example ex_wm_truncation :
  match wm_from Pdep Debug [2; 0; 3; 1; 2] with
  | Ok w =>
      let bytes := c_enc (wm_codec Pdep Debug) w in
      length bytes = (8 * 83)%nat /\
      forallb (fun k => match c_dec (wm_codec Pdep Debug) (firstn k bytes) with IoErr _ => true | _ => false end)
              (seq 0 (length bytes)) = true /\
      c_dec (wm_codec Pdep Debug) bytes = IoOk (w, [])
  | _ => False
  end.
Proof. vm_compute. repeat split; reflexivity. Qed.
