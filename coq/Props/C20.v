(* C20 -- temporary file names are unique within a process under concurrent use.
   Only property theorems here: statement, [exact lemma], Print Assumptions.
   Every statement is about the definitions GENERATED from serialize.rs::temp_file_name
   (gen/TempName.v: temp_counter_ops, temp_count_from, temp_counter_init, temp_name_format); the proofs
   go through only while these are the single fetch_add(1) and the format "{}_{}_{}" of (part, pid, count).

   Not exhibited by the model (trusted): that fetch_add IS one indivisible read-modify-write for any
   Ordering (language/hardware contract), and that `Display for usize/u32` is the plain decimal rendering. *)
From Coq Require Import String Ascii NArith List Bool Permutation.
Require Import SDS.gen.TempName SDS.Spec.Sched SDS.Model.TempFile.
Require Import SDS.Proofs.SchedProof SDS.Proofs.TempFileProof.
Import ListNotations.
Open Scope N_scope.

(* For every number of threads and every schedule (any finite list of thread ids, one atomic operation per
   entry) the generated program runs; the shared counter equals its initial value plus the number of completed
   calls (as a wrapping usize); the counts returned over all threads are exactly the first [completed] values of
   the counter, each once; and with at most 2^64 completed calls they are pairwise distinct. *)
(* the counter is a full machine word: the wrap-around bound 2^64 of the theorems below is the one of the
   type declared in the source (a narrower atomic type would reissue counts after 2^bits calls) *)
Theorem C20_counter_width : temp_counter_bits = 64.
Proof. reflexivity. Qed.
Print Assumptions C20_counter_width.

(* nothing but temp_file_name touches the counter (generated from the whole crate on every check): the theorems
   below are about calls that all run the one generated program on it *)
Theorem C20_counter_private : temp_counter_foreign_uses = 0.
Proof. reflexivity. Qed.
Print Assumptions C20_counter_private.

Theorem C20_unique : forall (nthreads : nat) (sched : list nat),
  exists st, run temp_counter_ops temp_count_from temp_counter_init nthreads sched = Some st /\
    counter st = nth_count temp_counter_init (completed st) /\
    Permutation (all_counts st) (map (nth_count temp_counter_init) (seq 0 (completed st))) /\
    (N.of_nat (completed st) <= 2 ^ 64 -> NoDup (all_counts st)).
Proof. intros nthreads sched. exact (rmw_unique temp_counter_init nthreads sched eq_refl). Qed.
Print Assumptions C20_unique.

(* in the generated program a scheduler step is a whole call: a schedule shorter than 2^64 steps
   completes fewer than 2^64 calls, so the bound of C20_unique holds for it *)
Theorem C20_unique_sched : forall (nthreads : nat) (sched : list nat) st,
  N.of_nat (List.length sched) < 2 ^ 64 ->
  run temp_counter_ops temp_count_from temp_counter_init nthreads sched = Some st ->
  NoDup (all_counts st).
Proof. intros nthreads sched st Hlen Hrun. exact (rmw_unique_sched temp_counter_init nthreads sched st eq_refl Hlen Hrun). Qed.
Print Assumptions C20_unique_sched.

(* the name built from the generated format pieces always exists, and two calls that obtain the same path
   read the same count -- whatever their name parts, process ids and temporary directories (the text after
   the last '_' is the decimal count, and decimal rendering is injective) *)
Theorem C20_paths_distinct : forall dir1 dir2 part1 part2 pid1 pid2 c1 c2,
  (exists s, temp_path dir1 part1 pid1 c1 = Some s) /\
  (c1 <> c2 -> temp_path dir1 part1 pid1 c1 <> temp_path dir2 part2 pid2 c2).
Proof.
  intros dir1 dir2 part1 part2 pid1 pid2 c1 c2. split; [apply temp_path_total|].
  intros Hne He. destruct (temp_path_total dir1 part1 pid1 c1) as [s Hs].
  apply Hne. eapply temp_path_count_inj; [exact Hs|]. rewrite <- He. exact Hs.
Qed.
Print Assumptions C20_paths_distinct.

(* the same for the bare file names (fixed pid, arbitrary parts) *)
Theorem C20_names_distinct : forall part1 part2 pid c1 c2,
  c1 <> c2 -> temp_name part1 pid c1 <> temp_name part2 pid c2.
Proof.
  intros part1 part2 pid c1 c2 Hne He.
  destruct (temp_name_prefix part1 pid c1 _ (temp_name_eq part1 pid c1)) as [r _].
  apply Hne. eapply temp_name_count_inj; [apply temp_name_eq|]. rewrite <- He. apply temp_name_eq.
Qed.
Print Assumptions C20_names_distinct.

(* decimal rendering of the counter is injective *)
Theorem C20_dec_injective : forall a b, dec a = dec b -> a = b.
Proof. exact dec_inj. Qed.
Print Assumptions C20_dec_injective.

(* every returned path contains the caller's name part; the file name starts with it *)
Theorem C20_contains_part : forall dir part pid c s,
  temp_path dir part pid c = Some s ->
  (exists pre post, s = pre ++ part ++ post) /\
  (exists nm rest, temp_name part pid c = Some nm /\ nm = part ++ rest).
Proof.
  intros dir part pid c s H. split; [eapply temp_path_contains; exact H|].
  eexists. destruct (temp_name_prefix part pid c _ (temp_name_eq part pid c)) as [rest Hr].
  exists rest. split; [apply temp_name_eq|exact Hr].
Qed.
Print Assumptions C20_contains_part.

(* the property end to end: however the threads are scheduled and whatever name part each call passes,
   the paths handed out in one process are pairwise distinct *)
Theorem C20_unique_paths : forall (nthreads : nat) (sched : list nat) dir pid (parts : list (list ascii)),
  exists st, run temp_counter_ops temp_count_from temp_counter_init nthreads sched = Some st /\
    (N.of_nat (completed st) <= 2 ^ 64 ->
     NoDup (map (fun pc => temp_path dir (fst pc) pid (snd pc)) (combine parts (all_counts st)))).
Proof.
  intros nthreads sched dir pid parts.
  destruct (rmw_unique temp_counter_init nthreads sched eq_refl) as [st [Hr [_ [_ Hnd]]]].
  exists st. split; [exact Hr|]. intro Hb. apply paths_nodup. apply Hnd. exact Hb.
Qed.
Print Assumptions C20_unique_paths.

(* what C20_unique excludes: were the counter read with a load and written back with a store
   (count taken from the load), two threads can receive the same count. The schedule [0;1;0;1] is the replay. *)
Theorem C20_load_store_refuted :
  exists sched st, run [Load; Store_plus 1] "load" 0 2 sched = Some st /\ ~ NoDup (all_counts st).
Proof. exact load_store_duplicate. Qed.
Print Assumptions C20_load_store_refuted.

(* non-vacuity: 3 threads, an interleaved schedule of 7 calls; the model hands out 0..6 *)
Example C20_example :
  option_map all_counts (run temp_counter_ops temp_count_from temp_counter_init 3 [0; 2; 1; 1; 0; 2; 2]%nat)
  = Some [4; 0; 3; 2; 6; 5; 1] /\
  option_map (map N_of_ascii) (temp_path (list_ascii_of_string "/tmp") (list_ascii_of_string "a_1") 77 10)
  = Some (map N_of_ascii (list_ascii_of_string "/tmp/a_1_77_10")).
Proof. split; vm_compute; reflexivity. Qed.
