(* C15, closed form -- the theorems of Props/C15.v WITHOUT the hypothesis [high_contract sp md], which
   Proofs/SparseHigh.v proves from the C01 proofs (see Props/C02_closed.v). The only remaining side condition is
   that the high part is addressable: |Vs| + ceil(n / 2^w) < 2^64. Reading guide: Props/C02.v, Props/C15.v. *)
From Coq Require Import NArith List Bool.
Require Import SDS.Model.Mach SDS.Model.Bits SDS.Model.Raw SDS.Model.IntVec SDS.Model.BitVec SDS.Model.Sparse.
Require Import SDS.Spec.BitSeq SDS.Spec.ValSeq SDS.Proofs.BVCommon SDS.Proofs.SparseSeq SDS.Proofs.SparseProof.
Require Import SDS.Proofs.SparseBuild SDS.Proofs.SparseMain SDS.Proofs.SparseHigh.
Import ListNotations.
Open Scope N_scope.

Theorem C15_multiset_closed : forall sp md w' n Vs,
  n < 2 ^ 64 -> 1 <= w' <= 63 -> nondecreasing Vs = true -> all_below n Vs = true ->
  lenN Vs + buckets_of n (eff_width w' n (lenN Vs)) < 2 ^ 64 ->
  exists sv H,
    sv_build_multiset sp md w' n Vs = Ok (inl sv) /\
    (let w := eff_width w' n (lenN Vs) in
     bv_select_ok sp md (sv_high sv) H /\
     lenB H = lenN Vs + (n + 2 ^ w - 1) / 2 ^ w /\
     (forall i, i < lenN Vs -> select1 H i = Some (nthd Vs i / 2 ^ w + i)) /\
     (forall b, b < (n + 2 ^ w - 1) / 2 ^ w -> select0 H b = Some (b + vs_rank Vs ((b + 1) * 2 ^ w)))) /\
    (sv_len sv = n /\ sv_count_ones sv = lenN Vs /\ sv_count_zeros sv = n - lenN Vs /\
     (forall i, i < n -> sv_get sp md sv i = Ok (vs_get Vs i)) /\
     (forall i, sv_rank sp md sv i = Ok (vs_rank Vs i)) /\
     (forall r, sv_select sp md sv r = Ok (vs_select Vs r)) /\
     (forall v, it_first md sv (sv_predecessor sp md sv v) = Ok (hd_error (vs_pred Vs v))) /\
     (forall v, it_first md sv (sv_successor sp md sv v) = Ok (hd_error (vs_succ Vs v))) /\
     sv_is_multiset md sv = Ok (has_dup Vs)) /\
    (* the bit iterator lists the membership bits of the positions (duplicates skipped from both ends), the set-bit
       iterators list the values with their indices; in both directions and any interleaving *)
    ((forall pat, (let* s := sv_iter_new md sv in sbi_drive md sv pat s) = Ok (deque_run (vs_bits Vs n) pat)) /\
     (forall pat, it_drive md sv pat (sv_one_iter sv) = Ok (deque_run (vs_ranked Vs) pat)) /\
     (forall r pat, (let* it := sv_select_iter sp md sv r in it_drive md sv pat it) = Ok (deque_run (skipN (vs_ranked Vs) r) pat)) /\
     (forall v pat, (let* it := sv_predecessor sp md sv v in it_drive md sv pat it) = Ok (deque_run (vs_pred Vs v) pat)) /\
     (forall v pat, (let* it := sv_successor sp md sv v in it_drive md sv pat it) = Ok (deque_run (vs_succ Vs v) pat))).
Proof. exact sparse_multiset_exact_closed. Qed.
Print Assumptions C15_multiset_closed.

Theorem C15_try_from_iter_accepts_closed : forall sp md w' Vs,
  1 <= w' <= 63 -> nondecreasing Vs = true ->
  (forall v, last_opt Vs = Some v -> v + 1 < 2 ^ 64) ->
  let n := match last_opt Vs with Some v => v + 1 | None => 0 end in
  lenN Vs + buckets_of n (eff_width w' n (lenN Vs)) < 2 ^ 64 ->
  exists sv, sv_try_from_iter sp md w' Vs = Ok (inl sv) /\
    (sv_len sv = n /\ sv_count_ones sv = lenN Vs /\ sv_count_zeros sv = n - lenN Vs /\
     (forall i, i < n -> sv_get sp md sv i = Ok (vs_get Vs i)) /\
     (forall i, sv_rank sp md sv i = Ok (vs_rank Vs i)) /\
     (forall r, sv_select sp md sv r = Ok (vs_select Vs r)) /\
     (forall v, it_first md sv (sv_predecessor sp md sv v) = Ok (hd_error (vs_pred Vs v))) /\
     (forall v, it_first md sv (sv_successor sp md sv v) = Ok (hd_error (vs_succ Vs v))) /\
     sv_is_multiset md sv = Ok (has_dup Vs)) /\
    ((forall pat, (let* s := sv_iter_new md sv in sbi_drive md sv pat s) = Ok (deque_run (vs_bits Vs n) pat)) /\
     (forall pat, it_drive md sv pat (sv_one_iter sv) = Ok (deque_run (vs_ranked Vs) pat)) /\
     (forall r pat, (let* it := sv_select_iter sp md sv r in it_drive md sv pat it) = Ok (deque_run (skipN (vs_ranked Vs) r) pat)) /\
     (forall v pat, (let* it := sv_predecessor sp md sv v in it_drive md sv pat it) = Ok (deque_run (vs_pred Vs v) pat)) /\
     (forall v pat, (let* it := sv_successor sp md sv v in it_drive md sv pat it) = Ok (deque_run (vs_succ Vs v) pat))).
Proof. exact sparse_try_from_iter_accepts_closed. Qed.
Print Assumptions C15_try_from_iter_accepts_closed.

(* non-vacuity: the documentation example of try_from_iter meets the hypotheses *)
Example C15_closed_example :
  exists sv, sv_try_from_iter Portable Release 1 [3; 4; 4; 7; 11; 19] = Ok (inl sv) /\
    sv_len sv = 20 /\ sv_count_ones sv = 6 /\ sv_select Portable Release sv 2 = Ok (Some 4).
Proof.
  assert (Hw : 1 <= 1 <= 63) by (split; discriminate).
  assert (Hlast : forall v, last_opt [3; 4; 4; 7; 11; 19] = Some v -> v + 1 < 2 ^ 64).
  { intros v Hv. vm_compute in Hv. injection Hv as <-. reflexivity. }
  destruct (C15_try_from_iter_accepts_closed Portable Release 1 [3; 4; 4; 7; 11; 19] Hw eq_refl Hlast)
    as (sv & Hb & Hq & _); [vm_compute; reflexivity|].
  destruct Hq as (Hl & Ho & _ & _ & _ & Hs & _).
  exists sv. split; [exact Hb|]. split; [rewrite Hl; reflexivity|]. split; [rewrite Ho; reflexivity|rewrite Hs; reflexivity].
Qed.
