(* C09 for WaveletMatrix and WMCore -- queries are total on out-of-range and extreme arguments.
   Only property theorems here: statement, [exact lemma], Print Assumptions, a non-vacuity Example.

   For EVERY vector V (items below 2^64, |V| < 2^64, max V + 1 < 2^64: the offset table has max+1 entries) the
   model's From<Vec<T>> (Model/WM.v; build select path sp and mode m) returns a matrix wm, and for EVERY query
   select path sp' and overflow mode m' and EVERY index / rank / value below 2^64 (so in particular len, len+1,
   2len, 2^63, 2^64-2, 2^64-1):
     - rank, contains, select, inverse_select, predecessor().next(), successor().next(), select_iter().next(),
       value_iter().next() and the core's map_down, map_down_with, map_down_with_two_positions, map_up_with return
       Ok with the answer of the list specification Spec/Seq.v: never a panic, never exhausted fuel;
     - rank(i >= len, v) = number of occurrences of v; inverse_select / map_down(i >= len) = None;
       successor(i >= len, v) is empty; map_down_with clamps the index to len; map_up_with(j >= len, v) = None;
     - predecessor(i >= len - 1, v) starts at the last occurrence, hence predecessor(i >= len, v) - in particular
       predecessor(usize::MAX, v): the addition i + 1 saturates - is the same iterator as predecessor(len - 1, v);
     - select(r >= occurrences, v) = None, select_iter(r, v) yields None and keeps yielding None; in
       particular select(usize::MAX, v) = None in both modes (start + rank is a checked addition);
     - a value that does not occur - absent inside the alphabet, above the maximum, or >= 2^width - is not
       contained, has rank 0, select None and empty iterators;
     - the core looks only at the low `width` bits of the value; map_up_with(j, v) = Some p only if j < len and
       V[p] is that masked value, and it is None (not an underflow panic: index - count_zeros is a checked
       subtraction) for every j when the masked value does not occur.
   [vi_first] = the first item of a ValueIter (Proofs/WMTotal.v); [count_v V v] = number of occurrences. *)
From Coq Require Import NArith List Bool.
Require Import SDS.Model.Mach SDS.Model.Bits SDS.Model.IntVec SDS.Model.BitVec SDS.Model.WM.
Require Import SDS.Spec.BitSeq SDS.Spec.Seq.
Require Import SDS.Proofs.WMTotal.
Import ListNotations.
Open Scope N_scope.

Theorem C09_wm_total : forall (sp : selpath) (m : mode) (V : list N),
  Forall (fun x => x < 2 ^ 64) V -> lenN V < 2 ^ 64 -> list_max V + 1 < 2 ^ 64 ->
  exists wm, wm_from sp m V = Ok wm /\ wm_core_from sp m V = Ok (wm_data wm) /\
    wm_len wm = lenS V /\ wm_width wm = width_v V /\ wc_len (wm_data wm) = Ok (lenS V) /\
  forall sp' m',
    (* every argument gets the specified answer: no panic, no exhausted fuel *)
    (forall i v, i < 2 ^ 64 -> v < 2 ^ 64 ->
       wm_rank m' wm i v = Ok (rank_v V i v) /\
       wm_contains wm v = Ok (contains_v V v) /\
       vi_first sp' m' wm (wm_predecessor m' wm i v) = Ok (hd_error (pred_v V i v)) /\
       vi_first sp' m' wm (wm_successor m' wm i v) = Ok (hd_error (succ_v V i v))) /\
    (forall r v, r < 2 ^ 64 -> v < 2 ^ 64 ->
       wm_select sp' m' wm r v = Ok (select_v V r v) /\
       vi_first sp' m' wm (Ok (wm_select_iter r v)) = Ok (hd_error (select_iter_v V r v)) /\
       vi_first sp' m' wm (Ok (wm_value_iter v)) = Ok (hd_error (value_iter_v V v))) /\
    (forall i, i < 2 ^ 64 ->
       wm_inverse_select m' wm i = Ok (inverse_select_v V i) /\ wc_map_down m' (wm_data wm) i = Ok (map_down_v V i)) /\
    (forall i j v, i < 2 ^ 64 -> j < 2 ^ 64 -> v < 2 ^ 64 ->
       wc_map_down_with m' (wm_data wm) i v = Ok (map_down_with_v V i (v mod 2 ^ width_v V)) /\
       wc_map_down_with_two m' (wm_data wm) i j v =
         Ok (map_down_with_v V i (v mod 2 ^ width_v V), map_down_with_v V j (v mod 2 ^ width_v V)) /\
       wc_map_up_with sp' m' (wm_data wm) j v = Ok (map_up_v V j (v mod 2 ^ width_v V))) /\
    (* beyond the end / the number of occurrences *)
    (forall i v, i < 2 ^ 64 -> lenS V <= i ->
       wm_rank m' wm i v = Ok (count_v V v) /\ rank_v V i v = count_v V v /\
       wm_inverse_select m' wm i = Ok None /\ wc_map_down m' (wm_data wm) i = Ok None /\
       vi_first sp' m' wm (wm_successor m' wm i v) = Ok None /\ succ_v V i v = [] /\
       wc_map_down_with m' (wm_data wm) i v = wc_map_down_with m' (wm_data wm) (lenS V) v /\
       wc_map_up_with sp' m' (wm_data wm) i v = Ok None) /\
    (forall i v, i < 2 ^ 64 -> lenS V <= i + 1 ->
       pred_v V i v = (if count_v V v =? 0 then [] else select_iter_v V (count_v V v - 1) v) /\
       (0 < lenS V -> wm_predecessor m' wm i v = wm_predecessor m' wm (lenS V - 1) v)) /\
    (forall r v, r < 2 ^ 64 -> count_v V v <= r ->
       wm_select sp' m' wm r v = Ok None /\ select_v V r v = None /\ select_iter_v V r v = [] /\
       exists it', vi_next sp' m' wm (wm_select_iter r v) = Ok (it', None) /\ vi_next sp' m' wm it' = Ok (it', None)) /\
    (forall v, count_v V v <= 2 ^ 64 - 1 /\ wm_select sp' m' wm (2 ^ 64 - 1) v = Ok None) /\
    (* values that do not occur: absent inside the alphabet, above the maximum, or wider than the matrix *)
    (forall i v, i < 2 ^ 64 -> ~ In v V ->
       wm_contains wm v = Ok false /\ wm_rank m' wm i v = Ok 0 /\ wm_select sp' m' wm i v = Ok None /\
       vi_first sp' m' wm (Ok (wm_value_iter v)) = Ok None /\ vi_first sp' m' wm (Ok (wm_select_iter i v)) = Ok None /\
       vi_first sp' m' wm (wm_predecessor m' wm i v) = Ok None /\ vi_first sp' m' wm (wm_successor m' wm i v) = Ok None) /\
    (forall v, 2 ^ width_v V <= v -> ~ In v V) /\
    (* the core maps up only to an occurrence of the (masked) value *)
    (forall j v p, j < 2 ^ 64 -> wc_map_up_with sp' m' (wm_data wm) j v = Ok (Some p) ->
       j < lenS V /\ nth_opt V p = Some (v mod 2 ^ width_v V)) /\
    (forall j v, j < 2 ^ 64 -> ~ In (v mod 2 ^ width_v V) V -> wc_map_up_with sp' m' (wm_data wm) j v = Ok None).
Proof. exact wm_total. Qed.
Print Assumptions C09_wm_total.

(* the specification side of the clauses above on its own: what "beyond" means for the list functions *)
Theorem C09_wm_spec_beyond : forall (V : list N) (v : N),
  count_v V v <= lenS V /\
  (forall i, rank_v V i v <= count_v V v) /\
  (forall i, lenS V <= i -> rank_v V i v = count_v V v /\ inverse_select_v V i = None /\ succ_v V i v = [] /\
                            map_down_v V i = None /\ map_up_v V i v = None) /\
  (forall i, lenS V <= i -> 0 < lenS V -> pred_v V i v = pred_v V (lenS V - 1) v) /\
  (forall r, count_v V v <= r -> select_v V r v = None /\ select_iter_v V r v = []) /\
  (forall r, r < count_v V v -> exists p, select_v V r v = Some p).
Proof.
  intros V v. split; [apply count_v_le|]. split; [intros i; apply rank_v_le_count|].
  split; [intros i Hi; split; [apply spec_rank_beyond; exact Hi|]; split; [apply spec_inverse_select_beyond; exact Hi|];
          split; [apply spec_succ_beyond; exact Hi|]; split; [apply spec_map_down_beyond; exact Hi|apply spec_map_up_beyond; exact Hi]|].
  split; [intros i H1 H2; apply spec_pred_clamp; assumption|].
  split; [intros r Hr; split; [apply spec_select_beyond; exact Hr|apply spec_select_iter_beyond; exact Hr]|].
  intros r Hr. apply spec_select_within. exact Hr.
Qed.
Print Assumptions C09_wm_spec_beyond.

(* non-vacuity: the vector of the crate's documentation (14 items, width 3, 1 occurs six times, 6 is absent inside
   the alphabet), debug mode. The two calls of finding F4 - select(usize::MAX, v) and WMCore::map_up_with(0, 1) -
   return None; predecessor(usize::MAX, 1) is the last occurrence of 1. *)
Definition c09_wm_V : list N := [1; 0; 3; 1; 1; 2; 4; 5; 1; 2; 1; 7; 0; 1].
Example C09_wm_example :
  (let* w := wm_from Pdep Debug c09_wm_V in
   let* a := wm_rank Debug w (2 ^ 64 - 1) 1 in
   let* b := wm_select Pdep Debug w (2 ^ 64 - 1) 1 in
   let* c := wc_map_up_with Pdep Debug (wm_data w) 0 1 in
   let* d := vi_first Pdep Debug w (wm_predecessor Debug w (2 ^ 64 - 1) 1) in
   let* e := vi_first Pdep Debug w (wm_successor Debug w 14 1) in
   let* f := wm_rank Debug w 14 6 in
   let* g := wm_select Pdep Debug w 0 (2 ^ 63) in
   let* h := wc_map_down_with Debug (wm_data w) (2 ^ 64 - 1) (8 + 1) in
   let* i := wm_inverse_select Debug w 14 in
   Ok (a, b, c, d, e, f, g, h, i))
  = Ok (6, None, None, Some (5, 13), None, 0, None, 11, None) /\
  count_v c09_wm_V 1 = 6 /\ map_down_with_v c09_wm_V (2 ^ 64 - 1) 1 = 11.
Proof. vm_compute. repeat split; reflexivity. Qed.
