(* C03 -- translator tie: the Gallina that tools/gen.py translates from the CURRENT Rust source on every check
   (gen/Funs2.v, the definitions named f2_...) IS the hand-written model function that the models of this property use.
   Source: src/rl_vector.rs (RLBuilder::code_len, RLVector::blocks, RLBuilder::blocks), src/rl_vector/index.rs (SampleIndex::parameters).
   A change to one of these functions in the crate changes gen/Funs2.v and breaks a theorem below (or the
   translator, which fails closed on constructs it does not support).
   Only property theorems here: statement, [exact lemma], Print Assumptions. *)
From Coq Require Import NArith List Bool.
Require Import SDS.Model.Mach SDS.Model.Bits SDS.Model.IntVec SDS.Model.RL SDS.gen.Consts SDS.gen.Funs SDS.gen.Funs2.
Require SDS.Proofs.GenTieRL.
Open Scope N_scope.

(* RLBuilder::code_len: every value, both build modes *)
Theorem C03_gen_rl_code_len : forall m v, f2_rl_code_len m v = rl_code_len m v.
Proof. exact GenTieRL.tie_rl_code_len. Qed.
Print Assumptions C03_gen_rl_code_len.

(* RLVector::blocks / RLBuilder::blocks as functions of the length of the field they read *)
Theorem C03_gen_rl_blocks : forall m v, f2_rl_blocks m (ilen (rl_samples v)) = Ok (rl_blocks v).
Proof. exact GenTieRL.tie_rl_blocks. Qed.
Print Assumptions C03_gen_rl_blocks.

Theorem C03_gen_rlb_blocks : forall m b, f2_rlb_blocks m (lenN (b_samples b)) = Ok (rlb_blocks b).
Proof. exact GenTieRL.tie_rlb_blocks. Qed.
Print Assumptions C03_gen_rlb_blocks.

(* SampleIndex::parameters: same result and same panics (division by zero, overflow) for all arguments *)
Theorem C03_gen_si_parameters : forall m values universe,
  f2_si_parameters m values universe = si_parameters m values universe.
Proof. exact GenTieRL.tie_si_parameters. Qed.
Print Assumptions C03_gen_si_parameters.
