(* C10 -- every iterator yields the reference sequence under any interleaving of calls.
   Only property theorems here: statement, [exact lemma], Print Assumptions.

   Layout: (1) the deque specification is a faithful specification (partition, exact Len, absorbing None);
   (2) the lifting theorem: one-call refinement => all-histories refinement;
   (3) instances proved completely: AccessIter over any vector whose get agrees with a list and over the
       IntVector model, IntoIter, bit_vector::Iter;
   (4) bit_vector::OneIter<T>: all histories (incl. the inherited nth_back) and all entry points from the
       one-step facts about oi_next_f / oi_nth / oi_next_back / oi_len (hypotheses; Proofs/C10Glue.v.integrate
       discharges them with Proofs/OneIterProof.v + SelectProof.v - it was checked against those files and yields the
       unconditional C10_one_iter / C10_one_iter_entries, but those files are not part of this worktree);
   (5) _statement definitions for the iterator types whose models are not available yet;
   (6) the run-length vector's four iterators, all histories, from every entry point (end of the file). *)
From Coq Require Import NArith List Bool.
Require Import SDS.Model.Mach SDS.Model.Bits SDS.Model.Raw SDS.Model.IntVec SDS.Model.BitVec SDS.Model.Iters.
Require Import SDS.Spec.BitSeq SDS.Spec.SeqSpec SDS.Spec.Deque SDS.Spec.IterRefs.
Require Import SDS.Proofs.IntVecProof SDS.Proofs.BVCommon SDS.Proofs.IterProof.
Require Import SDS.Proofs.OneIterProof SDS.Proofs.SelectProof SDS.Proofs.C10Glue.
Import ListNotations.
Open Scope N_scope.

(* ================================================================ 1. the specification itself *)

(* Any interleaving of next / next_back / nth / nth_back / len: the items consumed from the front (in call
   order: for each call the skipped ones, then the returned one), the remainder, and the items consumed
   from the back (reversed) are exactly the initial sequence: nothing lost, nothing handed out twice,
   nothing seen from both ends. *)
Theorem C10_deque_partition : forall (A : Type) (cs : list call) (l : list A),
  l = fst (dq_eats_run l cs) ++ fst (dq_run l cs) ++ rev (snd (dq_eats_run l cs)).
Proof. exact (fun A cs l => dq_run_partition cs l). Qed.
Print Assumptions C10_deque_partition.

(* what a call consumes: nth(k) with more than k items left skips the first k and hands out the next one;
   next / next_back consume exactly the item they hand out (or nothing) *)
Theorem C10_deque_consumed : forall (A : Type) (l : list A) (c : call),
  match c with
  | Next => fst (dq_eats l c) = yield_front c (snd (dq_step l c)) /\ snd (dq_eats l c) = []
  | NextBack => snd (dq_eats l c) = yield_back c (snd (dq_step l c)) /\ fst (dq_eats l c) = []
  | Nth k => k < lenA l ->
      fst (dq_eats l c) = firstn (N.to_nat k) l ++ yield_front c (snd (dq_step l c)) /\ snd (dq_eats l c) = []
  | NthBack k => k < lenA l ->
      snd (dq_eats l c) = firstn (N.to_nat k) (rev l) ++ yield_back c (snd (dq_step l c)) /\ fst (dq_eats l c) = []
  | Len => dq_eats l c = ([], [])
  end.
Proof. exact (fun A l c => dq_eats_yield l c). Qed.
Print Assumptions C10_deque_consumed.

(* without nth / nth_back: the items handed out by the front calls, the remainder, and the items handed
   out by the back calls in reverse tile the initial sequence *)
Theorem C10_deque_partition_single : forall (A : Type) (cs : list call), Forall call_single cs -> forall l : list A,
  l = yields yield_front cs (snd (dq_run l cs)) ++ fst (dq_run l cs) ++ rev (yields yield_back cs (snd (dq_run l cs))).
Proof. exact (fun A cs H l => dq_run_partition_single cs H l). Qed.
Print Assumptions C10_deque_partition_single.

(* Len after any history is the number of items left, and the number left after a call is determined *)
Theorem C10_deque_len : forall (A : Type) (cs : list call) (l : list A),
  snd (dq_run l (cs ++ [Len])) = snd (dq_run l cs) ++ [Count (lenA (fst (dq_run l cs)))].
Proof. exact (fun A cs l => dq_run_len_exact cs l). Qed.
Print Assumptions C10_deque_len.

Theorem C10_deque_remaining : forall (A : Type) (l : list A) (c : call),
  lenA (fst (dq_step l c)) =
  match c with Next | NextBack => lenA l - 1 | Nth k | NthBack k => lenA l - (k + 1) | Len => lenA l end.
Proof. exact (fun A l c => dq_step_length l c). Qed.
Print Assumptions C10_deque_remaining.

(* None is absorbing: a call that returns None leaves the iterator empty, and an empty iterator answers
   None (0 for Len) to every further call sequence *)
Theorem C10_deque_none_absorbing : forall (A : Type),
  (forall (l : list A) c, snd (dq_step l c) = Item None -> fst (dq_step l c) = []) /\
  (forall cs, dq_run (@nil A) cs = ([], map none_out cs)).
Proof. exact (fun A => conj (fun l c => dq_step_none_empties l c) (fun cs => dq_run_nil cs)). Qed.
Print Assumptions C10_deque_none_absorbing.

(* plain forward iteration yields the whole list in order *)
Theorem C10_deque_forward : forall (A : Type) (l : list A),
  dq_run l (nexts (length l)) = ([], map (fun x => Item (Some x)) l).
Proof. exact (fun A l => dq_run_nexts l). Qed.
Print Assumptions C10_deque_forward.

(* ================================================================ 2. lifting *)

(* For ANY concrete iterator (state, step, abstraction to the unvisited items, invariant, admissible calls):
   if each single call returns (Ok: no panic, no out-of-bounds access), gives the deque's output, moves the
   abstraction to the deque's remainder and keeps the invariant, then every finite call sequence does. *)
Theorem C10_lifting : forall (A St : Type) (step : St -> call -> res (St * out A))
    (abs : St -> list A) (inv : St -> Prop) (ok : call -> Prop),
  (forall s c, inv s -> ok c ->
     exists s', step s c = Ok (s', snd (dq_step (abs s) c)) /\ inv s' /\ abs s' = fst (dq_step (abs s) c)) ->
  forall cs s, inv s -> Forall ok cs ->
    exists s', it_run step s cs = Ok (s', snd (dq_run (abs s) cs)) /\ inv s' /\ abs s' = fst (dq_run (abs s) cs).
Proof. exact (fun A St step abs inv ok => lifting step abs inv ok). Qed.
Print Assumptions C10_lifting.

(* the same with a representation relation instead of (abs, inv) *)
Theorem C10_lifting_rel : forall (A St : Type) (step : St -> call -> res (St * out A))
    (rep : St -> list A -> Prop) (ok : call -> Prop),
  (forall s l c, rep s l -> ok c -> exists s', step s c = Ok (s', snd (dq_step l c)) /\ rep s' (fst (dq_step l c))) ->
  forall cs s l, rep s l -> Forall ok cs ->
    exists s', it_run step s cs = Ok (s', snd (dq_run l cs)) /\ rep s' (fst (dq_run l cs)).
Proof. exact (fun A St step rep ok => lifting_rel step rep ok). Qed.
Print Assumptions C10_lifting_rel.

(* the std default nth (resp. nth_back) over any next (resp. next_back) that pops the head *)
Theorem C10_std_nth : forall (St A : Type) (nx : St -> res (St * option A)) (rep : St -> list A -> Prop),
  (forall s l, rep s l -> exists s', nx s = Ok (s', hd_error l) /\ rep s' (tl l)) ->
  forall fuel s l n, rep s l -> (length l < fuel)%nat ->
    exists s', std_nth nx fuel s n = Ok (s', snd (dq_front l n)) /\ rep s' (fst (dq_front l n)).
Proof. exact (fun St A nx rep H fuel s l n => std_nth_ok nx rep H fuel s l n). Qed.
Print Assumptions C10_std_nth.

(* ================================================================ 3. AccessIter, IntoIter, bit_vector::Iter *)

(* AccessIter over ANY vector type (IntVector, IntVectorMapper, WaveletMatrix ...) whose get agrees with the
   item list L: from iter(), every call sequence - next, next_back, nth(k), nth_back(k) for EVERY k (so in
   particular every k < 2^64), len - returns, yields the deque's outputs over L, and leaves a cursor
   next <= limit <= len whose unvisited slice is the deque's remainder. *)
Theorem C10_access_iter_any : forall (A : Type) (get : N -> res A) (L : list A),
  (forall i, i < lenA L -> exists x, get i = Ok x /\ nth_error L (N.to_nat i) = Some x) ->
  forall cs, exists it',
    it_run (cur_step get) (cur_start (lenA L)) cs = Ok (it', snd (dq_run L cs)) /\
    cur_inv L it' /\ cur_abs L it' = fst (dq_run L cs).
Proof. exact (fun A get L H cs => cur_run_refines get L H cs). Qed.
Print Assumptions C10_access_iter_any.

(* ... and for the IntVector model: the items are those of the C05 abstraction *)
Theorem C10_access_iter : forall (v : intvec) (cs : list call), iv_inv v ->
  exists it', it_run (ai_step v) (ai_start v) cs = Ok (it', snd (dq_run (abs_iv v) cs)) /\
              cur_inv (abs_iv v) it' /\ cur_abs (abs_iv v) it' = fst (dq_run (abs_iv v) cs).
Proof. exact (fun v cs H => ai_run_refines v cs H). Qed.
Print Assumptions C10_access_iter.

(* one call from any reachable state (the step theorem behind it) *)
Theorem C10_access_iter_step : forall (v : intvec) (it : cursor) (c : call), iv_inv v -> cur_inv (abs_iv v) it ->
  exists it', ai_step v it c = Ok (it', snd (dq_step (cur_abs (abs_iv v) it) c)) /\ cur_inv (abs_iv v) it' /\
              cur_abs (abs_iv v) it' = fst (dq_step (cur_abs (abs_iv v) it) c).
Proof. exact (fun v it c Hv Hi => ai_step_refines v Hv it c Hi I). Qed.
Print Assumptions C10_access_iter_step.

(* IntoIter (owning; forward only; nth is the std default): next / nth(k) / len *)
Theorem C10_into_iter : forall (v : intvec) (cs : list call), iv_inv v -> Forall call_fwd cs ->
  exists i', it_run (ivinto_step v) 0 cs = Ok (i', snd (dq_run (abs_iv v) cs)) /\
             into_inv (abs_iv v) i' /\ into_abs (abs_iv v) i' = fst (dq_run (abs_iv v) cs).
Proof. exact (fun v cs H Hc => ivinto_run_refines v cs H Hc). Qed.
Print Assumptions C10_into_iter.

Theorem C10_into_iter_any : forall (A : Type) (get : N -> res A) (L : list A),
  (forall i, i < lenA L -> exists x, get i = Ok x /\ nth_error L (N.to_nat i) = Some x) ->
  forall cs, Forall call_fwd cs -> exists i',
    it_run (into_step get (lenA L)) 0 cs = Ok (i', snd (dq_run L cs)) /\
    into_inv L i' /\ into_abs L i' = fst (dq_run L cs).
Proof. exact (fun A get L H cs Hc => into_run_refines get L H cs Hc). Qed.
Print Assumptions C10_into_iter_any.

(* bit_vector::Iter over any represented bit sequence *)
Theorem C10_bit_iter : forall (b : bitvec) (B : list bool) (cs : list call), bv_repr b B ->
  exists it', it_run (bi_step b) (bi_start b) cs = Ok (it', snd (dq_run B cs)) /\
              bi_inv B it' /\ bi_abs B it' = fst (dq_run B cs).
Proof. exact (fun b B cs H => bi_run_refines b B cs H). Qed.
Print Assumptions C10_bit_iter.

(* ================================================================ 4. bit_vector::OneIter<T> *)

(* From the four one-step facts (record oi_steps_ok: next pops the head, next_back the last item, nth(n)
   skips n and pops - or empties -, size_hint is the number of unvisited items; each returning Ok):
   every finite interleaving of next / next_back / nth / nth_back / len with arguments below 2^64 - nth_back
   being the std default over next_back - refines the deque over the unvisited items. *)
Theorem C10_one_iter_from_steps : forall sp m t b (R : one_iter -> list (N * N) -> Prop),
  oi_steps_ok sp m t b R ->
  forall cs it mid, R it mid -> Forall call_fits cs ->
    exists it', it_run (oi_step sp m t b) it cs = Ok (it', snd (dq_run mid cs)) /\ R it' (fst (dq_run mid cs)).
Proof. exact (fun sp m t b R H cs it mid => oi_run_refines sp m t b R H cs it mid). Qed.
Print Assumptions C10_one_iter_from_steps.

(* ... and from every entry point (one_iter, zero_iter, select_iter r, select_zero_iter r, predecessor v,
   successor v), given that each returns a state related to the corresponding suffix of the ranked
   positions (oi_entries_ok): the outputs are the deque's over that suffix, whose ranks are consecutive
   (C10_suffix_ranks) *)
Theorem C10_one_iter_entries_from_steps : forall sp m b B R1 R0,
  oi_steps_ok sp m Identity b R1 -> oi_steps_ok sp m Complement b R0 -> oi_entries_ok sp m b B R1 R0 ->
  forall e tr it0 l cs, oi_entry sp m b e = Some (tr, it0) ->
    bitvec_ref B (ranked_ones B) e = Some l ->
    match e with ESelect x | ESelectZero x | EPred x | ESucc x => x < 2 ^ 64 | _ => True end ->
    Forall call_fits cs ->
    exists it it', it0 = Ok it /\ it_run (oi_step sp m tr b) it cs = Ok (it', snd (dq_run l cs)).
Proof. exact oi_entries_run_refine. Qed.
Print Assumptions C10_one_iter_entries_from_steps.

(* the k-th item of a ranked list starting at rank i has rank i + k; a select suffix starts at rank r *)
Theorem C10_suffix_ranks : forall (A : Type) (l : list A),
  (forall i k r x, nth_error (index_from l i) k = Some (r, x) -> r = i + N.of_nat k /\ nth_error l k = Some x) /\
  (forall i n, skipN (index_from l i) n = index_from (skipN l n) (i + N.min n (lenA l))).
Proof. exact (fun A l => conj (index_from_nth l) (skipN_index_from l)). Qed.
Print Assumptions C10_suffix_ranks.

(* ================================================================ 5. statements for the remaining iterator types *)

(* Shape shared by all of them: an iterator type is (start, step); for every valid input and every sequence
   of admissible calls the start returns a state and the run returns the deque's outputs over the reference
   sequence of Spec/IterRefs.v. To be proved by instantiating C10_lifting_rel with the model's step function
   once Model/Sparse.v, Model/RL.v, Model/WM.v exist. *)
Definition refines_deque {In St : Type} (valid : In -> Prop) (start : In -> res St)
    (step : In -> St -> call -> res (St * out (N * N))) (ok : call -> Prop) (ref : In -> option (list (N * N))) : Prop :=
  forall x cs, valid x -> Forall ok cs ->
    exists l s s', ref x = Some l /\ start x = Ok s /\ it_run (step x) s cs = Ok (s', snd (dq_run l cs)).

Definition fwd_fits (c : call) : Prop := call_fwd c /\ call_fits c.
Definition fwd_fits_nolen (c : call) : Prop := call_fwd c /\ call_fits c /\ c <> Len.
Definition entry_fits (e : entry) : Prop :=
  match e with
  | ESelect x | ESelectZero x | EPred x | ESucc x | EValue x => x < 2 ^ 64
  | EValueSelect a x | EValuePred a x | EValueSucc a x => a < 2 ^ 64 /\ x < 2 ^ 64
  | _ => True
  end.
Fixpoint nondecreasing (l : list N) : Prop :=
  match l with x :: (y :: _) as t => x <= y /\ nondecreasing t | _ => True end.
Definition sparse_valid (len : N) (vs : list N) : Prop :=
  len < 2 ^ 64 /\ nondecreasing vs /\ Forall (fun v => v < len) vs.

(* sparse vector (Iter; OneIter from one_iter / select_iter / predecessor / successor; ZeroIter from zero_iter /
   select_zero_iter), sets and multisets: PROVED, see C10_sparse_iter, C10_sparse_one_iter, C10_sparse_zero_iter in
   Props/C10_sparse.v (over Model/Sparse.v + Model/SparseIters.v, against the same reference ref_of (SSparse n vs) e) *)

(* run-length vector (RunIter; Iter / OneIter / ZeroIter from every entry point): PROVED, see C10_rl_run_iter and
   C10_rl_iters at the end of this file (over run lists: a universe of 2^64-1 positions is not a bit list) *)

(* wavelet matrix: ValueIter from value_iter x / select_iter r x / predecessor i x / successor i x
   (forward only, no size advertised); IntoIter (forward, exact). Its AccessIter is C10_access_iter_any. *)
(* both PROVED: C10_wm_value_iter, C10_wm_into_iter (and C10_wm_access_iter) in Props/C10_wm.v *)

(* ================================================================ non-vacuity *)

(* a 2-bit IntVector [1;3;0;2;3]: nth(1), next_back, nth_back(1), len, next, next, next *)
Example C10_access_iter_example :
  exists v, iv_from 2 [1; 3; 0; 2; 3] = Ok v /\
    it_run (ai_step v) (ai_start v) [Nth 1; NextBack; NthBack 1; Len; Next; Next; Next] =
      Ok (mkcur 2 2, [Item (Some 3); Item (Some 3); Item (Some 0); Count 0; Item None; Item None; Item None]) /\
    snd (dq_run [1; 3; 0; 2; 3] [Nth 1; NextBack; NthBack 1; Len; Next; Next; Next]) =
      [Item (Some 3); Item (Some 3); Item (Some 0); Count 0; Item None; Item None; Item None].
Proof. eexists. split; [vm_compute; reflexivity|]. split; vm_compute; reflexivity. Qed.

(* the word-scanning iterator on 70 bits with ones at 0, 3, 64, 69: the model's run is the deque's run over
   the ranked positions (an instance of the conclusion of C10_one_iter_from_steps, nth_back included) *)
Example C10_one_iter_example :
  let b := bv_from_raw (mkraw 70 [9; 33]) in
  let cs := [Len; NthBack 1; Next; Nth 5; Next; NextBack] in
  ranked_ones (bits_of 70 [9; 33]) = [(0, 0); (1, 3); (2, 64); (3, 69)] /\
  match it_run (oi_step Pdep Debug Identity b) (oi_start Identity b) cs with
  | Ok (_, os) => os = snd (dq_run (ranked_ones (bits_of 70 [9; 33])) cs)
  | _ => False
  end /\
  snd (dq_run [(0, 0); (1, 3); (2, 64); (3, 69)] cs) =
    [Count 4; Item (Some (2, 64)); Item (Some (0, 0)); Item None; Item None; Item None].
Proof. vm_compute. repeat split; reflexivity. Qed.

(* ---- the word-scanning set-bit iterator OneIter<T>, unconditionally (hypotheses of C10_one_iter_from_steps
   discharged with the one-step lemmas of Proofs/OneIterProof.v and Proofs/SelectProof.v) ---- *)

(* every interleaving of next / next_back / nth(k) / nth_back(k) / len, every k < 2^64, both transformations
   (ones and zeros), both in-word select paths and both arithmetic modes, from any state satisfying the
   iterator invariant: the outputs are those of the deque over the unvisited ranked positions *)
Theorem C10_one_iter : forall sp m t b B cs it, bv_repr b B -> oi_inv t B it -> Forall call_fits cs ->
  exists it', it_run (oi_step sp m t b) it cs = Ok (it', snd (dq_run (oi_mid t B it) cs)) /\
              oi_inv t B it' /\ oi_mid t B it' = fst (dq_run (oi_mid t B it) cs).
Proof. exact one_iter_all_histories. Qed.
Print Assumptions C10_one_iter.

(* the six entry points (one_iter, zero_iter, select_iter, select_zero_iter, predecessor, successor) start at the
   right suffix of the ranked positions and then behave as above *)
Theorem C10_one_iter_entries : forall sp0 m0 sp m b B, bv_repr b B ->
  select_ok sp0 m0 Identity b B -> select_ok sp0 m0 Complement b B ->
  (forall i, i < 2 ^ 64 -> bv_rank_q b i = Ok (rank1 B i)) ->
  forall e tr it0 l cs, oi_entry sp m b e = Some (tr, it0) ->
    bitvec_ref B (ranked_ones B) e = Some l ->
    match e with ESelect x | ESelectZero x | EPred x | ESucc x => x < 2 ^ 64 | _ => True end ->
    Forall call_fits cs ->
    exists it it', it0 = Ok it /\ it_run (oi_step sp m tr b) it cs = Ok (it', snd (dq_run l cs)).
Proof. exact one_iter_entries_all_histories. Qed.
Print Assumptions C10_one_iter_entries.

(* ================================================================ 6. the run-length vector *)

(* Names of Model/RL.v shadow those of Model/BitVec.v from here on (both call their records oneiter / mkoi ...);
   the step functions of the RL iterators are rl_ri_step / rl_bi_step / rl_oi_step / rl_zi_step (Model/RLIters.v):
   next is the crate's, nth the std default (advance_by + next) over it, Len the exact size_hint; RunIter
   advertises no size. *)
Require Import SDS.Model.RL SDS.Model.RLIters SDS.Spec.Runs SDS.Spec.RunsIter SDS.Proofs.RLDeque.

(* RunIter: for every list R of runs (sorted, non-overlapping, adjacency allowed), every length L with
   end(R) <= L <= 2^64-1, both overflow-check modes, and EVERY finite sequence of next / nth(k) calls (any k):
   construction and run_iter() return, every call returns Ok (no panic, no exhausted fuel), and the outputs are
   those of the deque over the MAXIMAL runs of R - in particular nth(k) skips k runs, and after the first None
   every further call answers None. *)
Theorem C10_rl_run_iter : forall (m : mode) (R : list (N * N)) (L : N) (cs : list call),
  runs_sorted 0 R -> runs_end R <= L -> L <= 2 ^ 64 - 1 -> lenN R < 2 ^ 56 ->
  Forall (fun c => call_fwd c /\ c <> Len) cs ->
  exists v it it',
    rl_build m (map (fun r => BTrySet (fst r) (snd r)) R ++ [BSetLen L]) = Ok (v, map (fun _ => true) R ++ [true]) /\
    rl_run_iter v = Ok it /\ it_run (rl_ri_step m v) it cs = Ok (it', snd (dq_run (maximal R) cs)).
Proof. exact rl_run_iter_deque. Qed.
Print Assumptions C10_rl_run_iter.

(* Iter, OneIter (one_iter, select_iter r, predecessor x, successor x), ZeroIter (zero_iter, select_zero_iter r), for
   every argument r, x (in particular every value below 2^64) and EVERY finite sequence of next / nth(k) / len calls:
   the entry point returns an iterator, every call returns Ok, and the outputs are those of the deque over the
   reference sequence [rl_ref (maximal R) L e] of Spec/RunsIter.v (all bits; the ranked set positions from rank
   0 / r / rank(x+1)-1 / rank(x) on; the ranked unset positions from rank 0 / r on). len is the exact number of
   items left after any history; an exhausted iterator stays exhausted. *)
Theorem C10_rl_iters : forall (m : mode) (R : list (N * N)) (L : N),
  runs_sorted 0 R -> runs_end R <= L -> L <= 2 ^ 64 - 1 -> lenN R < 2 ^ 56 ->
  exists v,
    rl_build m (map (fun r => BTrySet (fst r) (snd r)) R ++ [BSetLen L]) = Ok (v, map (fun _ => true) R ++ [true]) /\
    (forall cs, Forall call_fwd cs ->
       exists s s', rl_iter v = Ok s /\
         it_run (rl_bi_step m v) s cs = Ok (s', snd (dq_run (bits_all (maximal R) L 0) cs))) /\
    (forall e l cs, rl_ref (maximal R) L e = Some l -> Forall call_fwd cs ->
       match rl_oi_entry m v e with
       | Some start => exists s s', start = Ok s /\ it_run (rl_oi_step m v) s cs = Ok (s', snd (dq_run l cs))
       | None => True
       end) /\
    (forall e l cs, rl_ref (maximal R) L e = Some l -> Forall call_fwd cs ->
       match rl_zi_entry m v e with
       | Some start => exists s s', start = Ok s /\ it_run (rl_zi_step m v) s cs = Ok (s', snd (dq_run l cs))
       | None => True
       end).
Proof. exact rl_iters_deque. Qed.
Print Assumptions C10_rl_iters.

(* the reference sequences are the intended ones: exact lengths (count_ones - k, count_zeros - k, len - p), the
   k-th item is (k, select(k)) / (k, select_zero(k)), and the first item of the successor / predecessor reference is
   the specification's successor / predecessor *)
Theorem C10_rl_refs : forall (F : list (N * N)) (L : N), runs_maximal true 0 F -> runs_end F <= L ->
  (forall k, lenA (ones_all F k) = runs_ones F - k) /\
  (forall k, lenA (zeros_all F L k) = L - runs_ones F - k) /\
  (forall p, lenA (bits_all F L p) = L - p) /\
  (forall k, hd_error (ones_all F k) = match runs_select F k with Some p => Some (k, p) | None => None end) /\
  (forall k, hd_error (zeros_all F L k) = match runs_select_zero F L k with Some p => Some (k, p) | None => None end) /\
  (forall x, match rl_ref F L (ESucc x) with Some l => hd_error l = runs_succ F x | None => False end) /\
  (forall x, match rl_ref F L (EPred x) with Some l => hd_error l = runs_pred F x | None => False end).
Proof. exact rl_ref_facts. Qed.
Print Assumptions C10_rl_refs.

(* non-vacuity: runs 2..4 and 5..6 (adjacent: one maximal run 2..6) and 9 in a universe of 12 *)
Example C10_rl_example :
  (let* (v, _) := rl_build Debug [BTrySet 2 3; BTrySet 5 2; BTrySet 9 1; BSetLen 12] in
   let* it := rl_run_iter v in
   let* (_, a) := it_run (rl_ri_step Debug v) it [Nth 1; Next] in
   let* s := rl_predecessor Debug v 8 in
   let* (_, b) := it_run (rl_oi_step Debug v) s [Len; Nth 1; Len; Next; Len] in
   let* z := rl_select_zero_iter Debug v 3 in
   let* (_, c) := it_run (rl_zi_step Debug v) z [Len; Next; Nth 1; Nth 5; Len] in
   Ok (a, b, c))
  = Ok ([Item (Some (9, 1)); Item None],
        [Count 2; Item (Some (5, 9)); Count 0; Item None; Count 0],
        [Count 3; Item (Some (3, 8)); Item (Some (5, 11)); Item None; Count 0]) /\
  snd (dq_run (maximal [(2, 3); (5, 2); (9, 1)]) [Nth 1; Next]) = [Item (Some (9, 1)); Item None].
Proof. split; vm_compute; reflexivity. Qed.
