(* C03 -- the run-length vector built through RLBuilder answers every query exactly and reports the maximal runs.
   Only property theorems here: statement, [exact lemma], Print Assumptions. Statements written out in full over
   the model (Model/RL.v) and the run-list specification (Spec/Runs.v). *)
From Coq Require Import NArith List Bool.
Require Import SDS.Model.Mach SDS.Model.Bits SDS.Model.IntVec SDS.Model.RL SDS.gen.Consts SDS.gen.Funs.
Require Import SDS.Spec.Runs.
Require Import SDS.Proofs.RLIntVec SDS.Proofs.RLVarint SDS.Proofs.RLIndex SDS.Proofs.RLRep SDS.Proofs.RLIter SDS.Proofs.RLBounds
               SDS.Proofs.RLProof.
Import ListNotations.
Open Scope N_scope.

(* Main theorem. For every list R of runs of set bits (sorted, non-overlapping, adjacency allowed, lengths >= 1),
   every total length L with end(R) <= L <= 2^64-1, overflow checks on or off:
   the builder accepts every call, `RLVector::from` returns (no panic of any kind, no exhausted fuel), and
   len / count_ones / count_zeros / run_iter() with the running (offset, rank) / get / rank / rank_zero / select /
   select_zero / predecessor / successor equal the specification on the MAXIMAL runs of R for every argument.
   [lenN R < 2^56] bounds the number of runs by what an address space can hold (each run takes at least two
   4-bit code units of `data`); it is the only bound. *)
Theorem C03_rl_exact : forall (m : mode) (R : list (N * N)) (L : N),
  runs_sorted 0 R -> runs_end R <= L -> L <= 2 ^ 64 - 1 -> lenN R < 2 ^ 56 ->
  exists v,
    rl_build m (map (fun r => BTrySet (fst r) (snd r)) R ++ [BSetLen L]) = Ok (v, map (fun _ => true) R ++ [true]) /\
    rl_len v = L /\ rl_ones v = runs_ones (maximal R) /\ rl_count_zeros v = L - runs_ones (maximal R) /\
    rl_runs m v = Ok (runs_with_pos 0 (maximal R)) /\
    (forall i, i < L -> rl_get m v i = Ok (runs_get (maximal R) i)) /\
    (forall i, i < 2 ^ 64 -> rl_rank m v i = Ok (runs_rank (maximal R) i)) /\
    (forall i, i < 2 ^ 64 -> rl_rank_zero m v i = Ok (i - runs_rank (maximal R) i)) /\
    (forall r, r < 2 ^ 64 -> rl_select m v r = Ok (runs_select (maximal R) r)) /\
    (forall r, r < 2 ^ 64 -> rl_select_zero m v r = Ok (runs_select_zero (maximal R) L r)) /\
    (forall x, x < 2 ^ 64 -> oi_first m v (rl_predecessor m v x) = Ok (runs_pred (maximal R) x)) /\
    (forall x, x < 2 ^ 64 -> oi_first m v (rl_successor m v x) = Ok (runs_succ (maximal R) x)).
Proof. exact rl_exact. Qed.
Print Assumptions C03_rl_exact.

(* [maximal R] is what the name says: gaps of at least one unset bit between consecutive runs, same end,
   and exactly the bits of R *)
Theorem C03_maximal_runs : forall R : list (N * N),
  runs_sorted 0 R ->
  runs_maximal true 0 (maximal R) /\ runs_end (maximal R) = runs_end R /\
  forall i, runs_get (maximal R) i = runs_get R i.
Proof. exact maximal_spec. Qed.
Print Assumptions C03_maximal_runs.

(* the variable-length code: [rl_encode] appends the units [enc u] (1..22 of them, [rl_code_len] many), and
   [rl_decode] started at the first unit returns u and the offset just after the last unit, for every u < 2^64 *)
Theorem C03_varint_roundtrip : forall m v dv D u,
  iv_rep dv 4 D -> rl_data v = dv -> u < 2 ^ 64 ->
  (exists dv', rl_encode dv u = Ok dv' /\ iv_rep dv' 4 (D ++ enc u)) /\
  rl_code_len m u = Ok (lenN (enc u)) /\ 1 <= lenN (enc u) <= 22 /\
  forall pre post, D = pre ++ enc u ++ post ->
    rl_decode m v (lenN pre) = Ok (u, lenN pre + lenN (enc u)).
Proof.
  intros m v dv D u Hr Hd Hu. split; [apply rl_encode_spec; assumption|].
  split; [apply rl_code_len_spec; assumption|]. split; [apply enc_len|].
  intros pre post HD. subst dv. eapply rl_decode_spec; eauto.
Qed.
Print Assumptions C03_varint_roundtrip.

(* SampleIndex::parameters never overflows, for every universe up to 2^64-1 *)
Theorem C03_index_parameters : forall m values universe,
  1 <= values -> values + 8 < 2 ^ 64 -> 1 <= universe < 2 ^ 64 ->
  exists ns d, si_parameters m values universe = Ok (ns, d) /\
    1 <= d /\ 1 <= ns /\ (ns - 1) * d < universe /\ universe <= ns * d /\ ns <= values /\ d <= universe.
Proof. exact si_parameters_spec. Qed.
Print Assumptions C03_index_parameters.

(* SampleIndex::new accepts NON-DECREASING values starting with 0 (the relaxed assertion of the repair), and
   range(x) then returns start < end <= n with values[start] <= x and (end = n or x < values[end]) *)
Theorem C03_index_range : forall m V U x,
  V <> [] -> nthN V 0 = Some 0 -> nondec V -> 1 <= U < 2 ^ 64 -> lenN V + 8 < 2 ^ 64 -> x < U ->
  exists si s e y, si_new m V U = Ok si /\ si_range m si x = Ok (s, e) /\
    s < e /\ e <= lenN V /\ nthN V s = Some y /\ y <= x /\
    (e = lenN V \/ exists z, nthN V e = Some z /\ x < z).
Proof.
  intros m V U x Hne H0 Hnd HU HV Hx.
  destruct (si_new_spec m V U Hne H0 Hnd HU HV) as (si & Hn & Hok).
  destruct (si_range_full m si V U x Hok Hx ltac:(apply HU)) as (s & e & y & Hr & H1 & H2 & H3 & H4 & H5).
  exists si, s, e, y. split; [exact Hn|]. split; [exact Hr|]. split; [exact H1|]. split; [exact H2|].
  split; [exact H3|]. split; [exact H4|exact H5].
Qed.
Print Assumptions C03_index_range.

(* block_for terminates within its 64 iterations on every range of at most 2^63 blocks and, for a monotone key
   whose first value is <= x, returns the LAST index of the range with key <= x *)
Theorem C03_block_for : forall m x f g low high,
  (forall i, low <= i < high -> f i = Ok (g i)) -> low < high -> high - low <= 2 ^ 63 -> g low <= x ->
  (forall i j, low <= i -> i <= j -> j < high -> g i <= g j) ->
  exists i, rl_block_for 64 m low high x f = Ok i /\ low <= i < high /\ g i <= x /\
            forall j, i < j -> j < high -> x < g j.
Proof.
  intros m x f g low high Hf Hlt Hd Hg Hmono.
  apply (block_for_last 64 m x f g low high low high); try assumption.
  - apply N.le_refl.
  - apply N.le_refl.
  - left. reflexivity.
  - apply le_S. apply le_S. repeat constructor.
Qed.
Print Assumptions C03_block_for.

(* the block partition of the built vector: [rl_ok v BS L] says that data = the blocks BS of whole maximal runs,
   each at most 64 code units, zero padded except the last, samples = (ones, bits) before each block, and the
   three sample indexes are in place (Proofs/RLRep.v) *)
Theorem C03_block_partition : forall (m : mode) (R : list (N * N)) (L : N),
  runs_sorted 0 R -> runs_end R <= L -> L <= 2 ^ 64 - 1 -> lenN R < 2 ^ 56 ->
  exists v BS,
    rl_build m (map (fun r => BTrySet (fst r) (snd r)) R ++ [BSetLen L]) = Ok (v, map (fun _ => true) R ++ [true]) /\
    concat BS = maximal R /\ rl_ok v BS L.
Proof. exact rl_block_partition. Qed.
Print Assumptions C03_block_partition.

(* the bound behind the exact (unchecked) arithmetic of RunIter and the scan loops in the model: in every state
   the run iterator can reach (the position invariant [Abs]: it has yielded the runs dn and will yield todo),
   rank <= offset <= len < 2^64 and the next run lies between the offset and len *)
Theorem C03_runiter_bounds : forall v BS L it dn todo,
  rl_ok v BS L -> Abs BS it dn todo ->
  ri_rank it <= ri_off it /\ ri_off it <= L /\ L < 2 ^ 64 /\
  match todo with
  | [] => True
  | r :: _ => ri_off it <= fst r /\ 1 <= snd r /\ fst r + snd r <= L /\ ri_rank it + snd r <= fst r + snd r
  end.
Proof. exact runiter_bounds. Qed.
Print Assumptions C03_runiter_bounds.

(* the derived iterators: for every n, the first n items of select_iter(r) / select_zero_iter(r) / one_iter() /
   zero_iter() / iter() are the ranked set positions from rank r, the ranked unset positions, and the bits *)
Theorem C03_iterators : forall (m : mode) (R : list (N * N)) (L : N) (n : nat),
  runs_sorted 0 R -> runs_end R <= L -> L <= 2 ^ 64 - 1 -> lenN R < 2 ^ 56 ->
  exists v,
    rl_build m (map (fun r => BTrySet (fst r) (snd r)) R ++ [BSetLen L]) = Ok (v, map (fun _ => true) R ++ [true]) /\
    (forall r, r < 2 ^ 64 ->
       (let* s := rl_select_iter m v r in oi_take n m v s) = Ok (ones_from_rank n (maximal R) r)) /\
    (forall r, r < 2 ^ 64 ->
       (let* s := rl_select_zero_iter m v r in zi_take n m v s) = Ok (zeros_from_rank n (maximal R) L r)) /\
    (let* s := rl_one_iter v in oi_take n m v s) = Ok (ones_from_rank n (maximal R) 0) /\
    (let* s := rl_zero_iter m v in zi_take n m v s) = Ok (zeros_from_rank n (maximal R) L 0) /\
    (let* s := rl_iter v in bi_take n m v s) = Ok (bits_from n (maximal R) L 0).
Proof. intros m R L n. exact (rl_iterators m R L n). Qed.
Print Assumptions C03_iterators.

(* non-vacuity: the documentation example (an adjacent pair merges), and the two former defects as inputs *)
Example C03_example_doc :
  (let* (v, oks) := rl_build Debug [BTrySet 18 22; BTrySet 95 15; BTrySet 110 10; BTrySet 140 12; BSetLen 200] in
   let* runs := rl_runs Debug v in
   let* a := rl_select Debug v 24 in
   let* b := rl_select_zero Debug v 130 in
   let* c := oi_first Debug v (rl_predecessor Debug v 40) in
   Ok (oks, runs, a, b, c))
  = Ok ([true; true; true; true; true],
        [((18, 22), (40, 22)); ((95, 25), (120, 47)); ((140, 12), (152, 59))],
        Some 97, Some 189, Some (21, 39)).
Proof. vm_compute. reflexivity. Qed.

Example C03_example_former_defects :
  (let* (v, oks) := rl_build Debug [BTrySet 5 3; BSetLen (2 ^ 64 - 1)] in
   let* a := rl_select_zero Debug v (2 ^ 64 - 5) in Ok (oks, a))
  = Ok ([true; true], Some (2 ^ 64 - 2)) /\
  (let* (v, oks) := rl_build Debug [BTrySet 0 (2 ^ 63 + 1); BTrySet (2 ^ 63 + 1 + 2 ^ 60) (2 ^ 60 + 1)] in
   let* a := iv_get (rl_samples v) 2 in
   let* b := iv_get (rl_samples v) 3 in Ok (oks, rl_blocks v, a, b))
  = Ok ([true; true], 2, 2 ^ 63 + 1, 2 ^ 63 + 1).
Proof. split; vm_compute; reflexivity. Qed.
