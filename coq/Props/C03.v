(* C03 -- run-length vector: placeholder while the correspondence is brought up. *)
From Coq Require Import NArith List Bool.
Require Import SDS.Model.Mach SDS.Model.RL SDS.Spec.Runs.
Import ListNotations.
Open Scope N_scope.

Theorem C03_doc_example :
  (let* (v, oks) := rl_build Debug [BTrySet 18 22; BTrySet 95 15; BTrySet 110 10; BTrySet 140 12; BSetLen 200] in
   let* r := rl_runs Debug v in Ok (map fst r)) = Ok [(18, 22); (95, 25); (140, 12)].
Proof. vm_compute. reflexivity. Qed.
Print Assumptions C03_doc_example.
