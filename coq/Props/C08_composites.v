(* C08 for the composite structures: the Elias-Fano sparse vector (set and multiset) and the wavelet matrix with
   its core.  Only property theorems here: statement, [exact lemma], Print Assumptions, non-vacuity Examples.

   sparse_vector.rs, wavelet_matrix.rs and wm_core.rs contain no memory-unsafe operation of their own: the models
   (Model/Sparse.v, Model/WM.v) reach memory only through the plain BitVector's queries and iterators (whose
   unchecked accesses yield [OOB site] when they miss) and the asserting IntVector::get / set.  The exactness
   theorems of C02 / C15 / C04 state `= Ok (reference answer)` for every query, every iterator from every entry
   point driven by ANY sequence of next / next_back calls, and EVERY argument value, in both build modes and on
   both select paths.  A result that is [Ok _] is neither [OOB _] nor [Panic _]: the theorems below keep exactly
   that, and discharge the interface hypotheses C02 / C15 / C04 carry about the embedded structures with the
   now available theorems of C01 (Proofs/BVFull.v) and C05 (Proofs/IntVecProof.v), so that no hypothesis about
   the embedded BitVector / IntVector is left for structures BUILT through the safe API.  For any other value of
   the structure (e.g. one loaded from bytes) the statement is relative to the representation predicate
   ([sv_ok]; level bitvectors answering exactly + [first_ok]).
   Not covered: SparseVector::get(i) for i >= len (documented "may panic"; C02 says nothing about it). *)
From Coq Require Import NArith List Bool.
Require Import SDS.Model.Mach SDS.Model.Bits SDS.Model.Raw SDS.Model.IntVec SDS.Model.BitVec SDS.Model.Sparse.
Require Import SDS.Spec.BitSeq SDS.Spec.ValSeq SDS.Proofs.BVCommon SDS.Proofs.SparseSeq SDS.Proofs.SparseProof.
Require Import SDS.Proofs.SparseBuild SDS.Proofs.SparseMain SDS.Proofs.NoOobSparse.
Import ListNotations.
Open Scope N_scope.

(* the contract C02 / C15 carry about the high part holds: BitVector::from(raw) + enable_select +
   enable_select_zero return on every well-formed raw vector and answer get / select / select_zero exactly *)
Theorem C08_sparse_high_part : forall sp md, high_contract sp md.
Proof. exact high_contract_holds. Qed.
Print Assumptions C08_sparse_high_part.

(* SparseBuilder::new(n, |P|) + try_set for every position + SparseVector::try_from, for every universe size,
   every strictly increasing position list below it and every low width the parameter rule can produce: the vector
   is built, and every query for EVERY argument, every iterator (bits; set bits from one_iter / select_iter(r) /
   predecessor(v) / successor(v), every r and v, driven by any sequence pat of next (false) / next_back (true);
   unset bits from zero_iter / select_zero_iter(r), any number k of steps) returns [Ok _] - never [OOB], and not
   even a panic. *)
Theorem C08_no_oob_sparse : forall sp md w' n P,
  n < 2 ^ 64 -> 1 <= w' <= 63 -> increasing P = true -> all_below n P = true ->
  lenN P + buckets_of n (eff_width w' n (lenN P)) < 2 ^ 64 ->
  exists sv, sv_build_set sp md w' n P = Ok (inl sv) /\
    ((forall i, i < n -> exists x, sv_get sp md sv i = Ok x) /\
     (forall i, exists x, sv_rank sp md sv i = Ok x) /\
     (forall r, exists x, sv_select sp md sv r = Ok x) /\
     (exists x, sv_is_multiset md sv = Ok x) /\
     (forall pat, exists x, (let* s := sv_iter_new md sv in sbi_drive md sv pat s) = Ok x) /\
     (forall pat, exists x, it_drive md sv pat (sv_one_iter sv) = Ok x) /\
     (forall r pat, exists x, (let* it := sv_select_iter sp md sv r in it_drive md sv pat it) = Ok x) /\
     (forall v pat, exists x, (let* it := sv_predecessor sp md sv v in it_drive md sv pat it) = Ok x) /\
     (forall v pat, exists x, (let* it := sv_successor sp md sv v in it_drive md sv pat it) = Ok x)) /\
    ((forall i, exists x, sv_rank_zero sp md sv i = Ok x) /\
     (forall r, exists x, sv_select_zero sp md sv r = Ok x) /\
     (forall k, exists x, (let* z := sv_zero_iter md sv in zi_take md sv k z) = Ok x) /\
     (forall r k, exists x, (let* z := sv_select_zero_iter sp md sv r in zi_take md sv k z) = Ok x)).
Proof. exact sparse_set_returns. Qed.
Print Assumptions C08_no_oob_sparse.

(* the same for multisets (SparseBuilder::multiset; duplicates allowed, any length): the present-value queries and
   iterators *)
Theorem C08_no_oob_sparse_multiset : forall sp md w' n Vs,
  n < 2 ^ 64 -> 1 <= w' <= 63 -> nondecreasing Vs = true -> all_below n Vs = true ->
  lenN Vs + buckets_of n (eff_width w' n (lenN Vs)) < 2 ^ 64 ->
  exists sv, sv_build_multiset sp md w' n Vs = Ok (inl sv) /\
    (forall i, i < n -> exists x, sv_get sp md sv i = Ok x) /\
    (forall i, exists x, sv_rank sp md sv i = Ok x) /\
    (forall r, exists x, sv_select sp md sv r = Ok x) /\
    (exists x, sv_is_multiset md sv = Ok x) /\
    (forall pat, exists x, (let* s := sv_iter_new md sv in sbi_drive md sv pat s) = Ok x) /\
    (forall pat, exists x, it_drive md sv pat (sv_one_iter sv) = Ok x) /\
    (forall r pat, exists x, (let* it := sv_select_iter sp md sv r in it_drive md sv pat it) = Ok x) /\
    (forall v pat, exists x, (let* it := sv_predecessor sp md sv v in it_drive md sv pat it) = Ok x) /\
    (forall v pat, exists x, (let* it := sv_successor sp md sv v in it_drive md sv pat it) = Ok x).
Proof. exact sparse_multiset_returns. Qed.
Print Assumptions C08_no_oob_sparse_multiset.

(* ANY vector value that represents (n, P) with width w through a high bit list H ([sv_ok], Proofs/SparseProof.v:
   n < 2^64, 1 <= w <= 63, P sorted below n, H the unary bucket code, the high part answers get / select /
   select_zero as H, the low part returns the low bits) - e.g. a loaded vector: the same *)
Theorem C08_no_oob_sparse_representation : forall sp md sv n w P H,
  sv_ok sp md sv n w P H ->
  ((forall i, i < n -> exists x, sv_get sp md sv i = Ok x) /\
   (forall i, exists x, sv_rank sp md sv i = Ok x) /\
   (forall r, exists x, sv_select sp md sv r = Ok x) /\
   (exists x, sv_is_multiset md sv = Ok x) /\
   (forall pat, exists x, (let* s := sv_iter_new md sv in sbi_drive md sv pat s) = Ok x) /\
   (forall pat, exists x, it_drive md sv pat (sv_one_iter sv) = Ok x) /\
   (forall r pat, exists x, (let* it := sv_select_iter sp md sv r in it_drive md sv pat it) = Ok x) /\
   (forall v pat, exists x, (let* it := sv_predecessor sp md sv v in it_drive md sv pat it) = Ok x) /\
   (forall v pat, exists x, (let* it := sv_successor sp md sv v in it_drive md sv pat it) = Ok x)) /\
  (sorted_lt P ->
   (forall i, exists x, sv_rank_zero sp md sv i = Ok x) /\
   (forall r, exists x, sv_select_zero sp md sv r = Ok x) /\
   (forall k, exists x, (let* z := sv_zero_iter md sv in zi_take md sv k z) = Ok x) /\
   (forall r k, exists x, (let* z := sv_select_zero_iter sp md sv r in zi_take md sv k z) = Ok x)).
Proof. exact sparse_repr_returns. Qed.
Print Assumptions C08_no_oob_sparse_representation.

(* non-vacuity: the documentation example of SparseVector, asked far outside its universe *)
Example C08_sparse_example :
  match sv_build_set Pdep Release 5 137 [1; 33; 95; 123] with
  | Ok (inl sv) =>
      sv_rank Pdep Release sv (2 ^ 64 - 1) = Ok 4 /\ sv_select Pdep Release sv (2 ^ 63) = Ok None /\
      sv_select_zero Pdep Release sv (2 ^ 64 - 1) = Ok None /\
      (let* it := sv_predecessor Pdep Release sv (2 ^ 64 - 1) in it_drive Release sv [false; false; true] it)
        = Ok [Some (3, 123); None; None]
  | _ => False
  end.
Proof. vm_compute. repeat split. Qed.

(* ================================================================ the wavelet matrix *)

(* Names of Model/WM.v and Spec/Seq.v may shadow those used above from here on. *)
Require Import SDS.Model.WM SDS.Spec.Seq SDS.Proofs.WMSeq SDS.Proofs.WMOffsets SDS.Proofs.WMProof SDS.Proofs.NoOobWM.

(* the two interfaces C04 carries about the embedded structures hold: every level (BitVector::from(bits) with
   rank / select / select_zero enabled) answers exactly, the offset table (IntVector::from + pack) returns what
   was stored *)
Theorem C08_wm_interfaces : forall sp m,
  (forall col, lenB col < 2 ^ 64 ->
     exists r b, bv_from_bits col = Ok r /\ bv_enable_all sp m r = Ok b /\ bv_queries_ok sp m b col) /\
  (forall F bound, bound < 2 ^ 64 -> Forall (fun x => x <= bound) F ->
     exists iv first, iv_from 64 F = Ok iv /\ iv_pack iv = Ok first /\ first_ok first F).
Proof. intros sp m. split; [intros col; apply level_interface|intros F bound; apply first_interface]. Qed.
Print Assumptions C08_wm_interfaces.

(* WaveletMatrix::from(Vec<T>) for every vector of 64-bit items (fewer than 2^64 of them; largest item + 1
   representable: the offset table has max + 1 entries): the matrix is built, and every query with ANY 64-bit
   position / rank and ANY value returns [Ok _] - get beyond the length is the `unwrap` panic of the safe wrapper -
   every value / select / predecessor / successor iterator runs to its end, and every mapping of the core
   (WMCore: len, map_down, map_down_with, map_down_with_two_positions, map_up_with) returns.  Never [OOB]. *)
Theorem C08_no_oob_wm : forall sp m V,
  Forall (fun x => x < 2 ^ 64) V -> lenN V < 2 ^ 64 -> list_max V + 1 < 2 ^ 64 ->
  exists wm, wm_from sp m V = Ok wm /\
    ((forall i, i < 2 ^ 64 -> (exists x, wm_get m wm i = Ok x) \/ wm_get m wm i = Panic PUnwrap) /\
     (forall i v, i < 2 ^ 64 -> exists x, wm_rank m wm i v = Ok x) /\
     (forall r v, r < 2 ^ 64 -> exists x, wm_select sp m wm r v = Ok x) /\
     (forall i, i < 2 ^ 64 -> exists x, wm_inverse_select m wm i = Ok x) /\
     (forall v, exists x, wm_contains wm v = Ok x) /\
     (forall v, exists x, vi_items sp m wm (wm_value_iter v) = Ok x) /\
     (forall r v, r < 2 ^ 64 -> exists x, vi_items sp m wm (wm_select_iter r v) = Ok x) /\
     (forall i v, i < 2 ^ 64 -> exists x, (let* it := wm_predecessor m wm i v in vi_items sp m wm it) = Ok x) /\
     (forall i v, i < 2 ^ 64 -> exists x, (let* it := wm_successor m wm i v in vi_items sp m wm it) = Ok x) /\
     (exists x, wm_into_iter m wm = Ok x)) /\
    ((exists x, wc_len (wm_data wm) = Ok x) /\
     (forall i, i < 2 ^ 64 -> exists x, wc_map_down m (wm_data wm) i = Ok x) /\
     (forall i v, i < 2 ^ 64 -> exists x, wc_map_down_with m (wm_data wm) i v = Ok x) /\
     (forall i1 i2 v, i1 < 2 ^ 64 -> i2 < 2 ^ 64 -> exists x, wc_map_down_with_two m (wm_data wm) i1 i2 v = Ok x) /\
     (forall j v, j < 2 ^ 64 -> exists x, wc_map_up_with sp m (wm_data wm) j v = Ok x)).
Proof. exact wm_built_returns. Qed.
Print Assumptions C08_no_oob_wm.

(* ANY matrix value whose levels answer exactly for the bit columns of V and whose offset table returns the
   offsets of V (e.g. a loaded matrix): the same *)
Theorem C08_no_oob_wm_representation : forall sp m V levels first F,
  Forall (fun x => x < 2 ^ 64) V -> lenN V < 2 ^ 64 -> list_max V + 1 < 2 ^ 64 ->
  Forall2 (bv_queries_ok sp m) levels (wm_columns V) ->
  first_offsets m V (lenN V) (list_max V) = Ok F -> first_ok first F ->
  let wm := mkwm (lenN V) (mkcore levels) first in
  ((forall i, i < 2 ^ 64 -> (exists x, wm_get m wm i = Ok x) \/ wm_get m wm i = Panic PUnwrap) /\
   (forall i v, i < 2 ^ 64 -> exists x, wm_rank m wm i v = Ok x) /\
   (forall r v, r < 2 ^ 64 -> exists x, wm_select sp m wm r v = Ok x) /\
   (forall i, i < 2 ^ 64 -> exists x, wm_inverse_select m wm i = Ok x) /\
   (forall v, exists x, wm_contains wm v = Ok x) /\
   (forall v, exists x, vi_items sp m wm (wm_value_iter v) = Ok x) /\
   (forall r v, r < 2 ^ 64 -> exists x, vi_items sp m wm (wm_select_iter r v) = Ok x) /\
   (forall i v, i < 2 ^ 64 -> exists x, (let* it := wm_predecessor m wm i v in vi_items sp m wm it) = Ok x) /\
   (forall i v, i < 2 ^ 64 -> exists x, (let* it := wm_successor m wm i v in vi_items sp m wm it) = Ok x) /\
   (exists x, wm_into_iter m wm = Ok x)) /\
  ((exists x, wc_len (mkcore levels) = Ok x) /\
   (forall i, i < 2 ^ 64 -> exists x, wc_map_down m (mkcore levels) i = Ok x) /\
   (forall i v, i < 2 ^ 64 -> exists x, wc_map_down_with m (mkcore levels) i v = Ok x) /\
   (forall i1 i2 v, i1 < 2 ^ 64 -> i2 < 2 ^ 64 -> exists x, wc_map_down_with_two m (mkcore levels) i1 i2 v = Ok x) /\
   (forall j v, j < 2 ^ 64 -> exists x, wc_map_up_with sp m (mkcore levels) j v = Ok x)).
Proof. exact wm_repr_returns. Qed.
Print Assumptions C08_no_oob_wm_representation.

(* non-vacuity: the vector of the crate's documentation, asked with extreme positions, ranks and values *)
Example C08_wm_example :
  (let* w := wm_from Portable Release [1; 0; 3; 1; 1; 2; 4; 5; 1; 2; 1; 7; 0; 1] in
   let* a := wm_rank Release w (2 ^ 64 - 1) 1 in
   let* b := wm_select Portable Release w (2 ^ 64 - 1) (2 ^ 64 - 1) in
   let* c := wc_map_up_with Portable Release (wm_data w) (2 ^ 63) 9 in
   let* it := wm_predecessor Release w (2 ^ 64 - 1) 2 in
   let* d := vi_items Portable Release w it in
   Ok (a, b, c, d, wm_get Release w 14)) = Ok (6, None, None, [(1, 9)], Panic PUnwrap).
Proof. vm_compute. reflexivity. Qed.
