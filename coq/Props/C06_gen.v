(* C06 -- translator tie: the Gallina that tools/gen.py translates from the CURRENT Rust source on every check
   (gen/Funs2.v, the definitions named f2_...) IS the hand-written model function that the models of this property use.
   Source: src/raw_vector.rs (RawVector::size_by_params), src/int_vector.rs (IntVector::size_by_params), src/serialize.rs (absent_option_size). The models compute these sizes in exact N; the hypotheses are exactly the bounds under which the machine arithmetic does not overflow.
   A change to one of these functions in the crate changes gen/Funs2.v and breaks a theorem below (or the
   translator, which fails closed on constructs it does not support).
   Only property theorems here: statement, [exact lemma], Print Assumptions. *)
From Coq Require Import NArith List Bool.
Require Import SDS.Model.Mach SDS.Model.Bits SDS.Model.Raw SDS.Model.IntVec SDS.Model.Ser SDS.gen.Consts SDS.gen.Funs SDS.gen.Funs2.
Require SDS.Proofs.GenTieSer.
Open Scope N_scope.

Theorem C06_gen_raw_size_by_params : forall m capacity, capacity + 63 < 2 ^ 64 ->
  f2_raw_size_by_params m capacity = Ok (raw_size_by_params capacity).
Proof. exact GenTieSer.tie_raw_size_by_params. Qed.
Print Assumptions C06_gen_raw_size_by_params.

Theorem C06_gen_iv_size_by_params : forall m capacity width, capacity * width + 63 < 2 ^ 64 ->
  f2_iv_size_by_params m capacity width = Ok (iv_size_by_params capacity width).
Proof. exact GenTieSer.tie_iv_size_by_params. Qed.
Print Assumptions C06_gen_iv_size_by_params.

Theorem C06_gen_absent_option_size : forall m, f2_absent_option_size m = Ok absent_option_size.
Proof. exact GenTieSer.tie_absent_option_size. Qed.
Print Assumptions C06_gen_absent_option_size.
