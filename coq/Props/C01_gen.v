(* C01 -- translator tie: the Gallina that tools/gen.py translates from the CURRENT Rust source on every check
   (gen/Funs2.v, the definitions named f2_...) IS the hand-written model function that the models of this property use.
   Source: src/bit_vector/rank_support.rs (RankSupport::blocks), src/bit_vector/select_support.rs (superblocks, long_superblocks, short_superblocks), as functions of the lengths of the fields they read. The model computes the rounded-up divisions in exact N; the hypotheses are exactly the bounds under which the machine addition does not overflow.
   A change to one of these functions in the crate changes gen/Funs2.v and breaks a theorem below (or the
   translator, which fails closed on constructs it does not support).
   Only property theorems here: statement, [exact lemma], Print Assumptions. *)
From Coq Require Import NArith List Bool.
Require Import SDS.Model.Mach SDS.Model.Bits SDS.Model.IntVec SDS.Model.BitVec SDS.gen.Consts SDS.gen.Funs SDS.gen.Funs2.
Require SDS.Proofs.GenTieBV.
Open Scope N_scope.

Theorem C01_gen_rs_blocks : forall m rs, f2_rs_blocks m (lenN (rs_samples rs)) = Ok (rs_blocks rs).
Proof. exact GenTieBV.tie_rs_blocks. Qed.
Print Assumptions C01_gen_rs_blocks.

Theorem C01_gen_ss_superblocks : forall m s, f2_ss_superblocks m (ilen (ss_samples s)) = Ok (ss_superblocks s).
Proof. exact GenTieBV.tie_ss_superblocks. Qed.
Print Assumptions C01_gen_ss_superblocks.

Theorem C01_gen_ss_long_superblocks : forall m s, ilen (ss_long s) + select_SUPERBLOCK_SIZE < 2 ^ 64 ->
  f2_ss_long_superblocks m (ilen (ss_long s)) = Ok (ss_long_superblocks s).
Proof. exact GenTieBV.tie_ss_long_superblocks. Qed.
Print Assumptions C01_gen_ss_long_superblocks.

Theorem C01_gen_ss_short_superblocks : forall m s, ilen (ss_short s) + select_BLOCKS_IN_SUPERBLOCK < 2 ^ 64 ->
  f2_ss_short_superblocks m (ilen (ss_short s)) = Ok (ss_short_superblocks s).
Proof. exact GenTieBV.tie_ss_short_superblocks. Qed.
Print Assumptions C01_gen_ss_short_superblocks.
