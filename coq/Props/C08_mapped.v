(* C08 for memory-mapped views ("... outside the buffers the structure owns or MAPS").
   Only property theorems here: statement, [exact lemma], Print Assumptions, non-vacuity Examples.

   Vocabulary (Model/Mapped.v, Model/MappedGet.v, Proofs/MappedProof.v, Proofs/NoOobMapped.v):
     file              list N, one entry per 8-byte element of the mapped file; ANY content
     view_new m t      `<view of type t>::new(&map, offset)` in build mode m: VOk view | VErr kind | VPanic | VOOB;
                       t ranges over MappedSlice<u64 / usize> (TyVec), MappedSlice<(u64, u64)> (TyPairs),
                       MappedBytes, MappedStr, RawVectorMapper, IntVectorMapper and MappedOption of any of them,
                       to any depth.  A view is (file, offset, declared length): what `slice::from_raw_parts(ptr, len)`
                       builds without looking at the mapping.
     reading           every accessor of a view reads its borrowed range with [mem_read], which is
                       [OOB SITE_MAP_WORD] unless the file backs the whole range: never a default value.
     view_inside       the borrowed element range lies inside the file: offset + 1 + len * elements <= |file| for
                       slices and the word slices of the mappers, offset + 1 + ceil(len / 8) <= |file| for bytes and
                       strings, recursively for a present optional value
     view_safe m v     every accessor, for EVERY argument, is [Ok _] or [Panic _] ([is_oob r = false]); spelled out
                       per view type in C08_mapped_accessors below
     im_get_w m        IntVectorMapper::get as compiled: `index * width`, `offset + width` and the final shift are
                       the machine's (Debug: overflow panics, Release: wraps / masks the shift amount)

   The length, bit-length and width elements are read from the file and may be any 64-bit values; the theorem is
   about what the bounds checks of `new` make of them, in both build modes.  Before the repair 5f925c7 (finding
   F12) they did not hold them: C08_mapped_old_refuted.

   IntVectorMapper::new refuses a width element of 0 or above 64 (repair ed19660 of finding F14), so `get` is
   covered for EVERY accepted view and EVERY index: C08_no_oob_mapped_get.  Before the repair `new` did not look at
   the width element and the statement was false in release builds: C08_mapped_get_wide_old_refuted.
   Real pointers, alignment and the lifetime of the mapping are outside the model (index logic only). *)
From Coq Require Import NArith List Bool.
Require Import SDS.Model.Mach SDS.Model.Bits SDS.Model.Raw SDS.Model.IntVec SDS.Model.Mapped SDS.Model.MappedGet.
Require Import SDS.Proofs.BitsProof SDS.Proofs.MappedProof SDS.Proofs.NoOobProof SDS.Proofs.NoOobMapped.
Import ListNotations.
Open Scope N_scope.

(* EVERY file of fewer than 2^61 elements (a byte size that fits in 64 bits; arbitrary content, not only what
   the serializers write), EVERY offset below 2^64, every view type, both build modes: `new` neither panics nor
   reads outside the mapping; it is refused with Err, or it returns a view that lies inside the file, whose whole
   borrowed range reads back, and all of whose accessors stay inside the file for every argument. *)
Theorem C08_no_oob_mapped : forall m t file offset,
  lenN file < 2 ^ 61 -> offset < 2 ^ 64 ->
  match view_new m t file offset with
  | VOk v => view_inside file v /\ view_backed v /\ view_safe m v
  | VErr _ => True
  | VPanic _ => False
  | VOOB _ => False
  end.
Proof. exact no_oob_mapped. Qed.
Print Assumptions C08_no_oob_mapped.

(* [view_safe] written out: items / bytes as a whole and `view[i]` for every i; bit / word / count_ones of the raw
   mapper for every argument and `int` inside its documented precondition (where the compiled function is the one
   C13 reasons about); for the integer-vector mapper the same for its words, and `get(j)` for EVERY j whenever the
   width element is at most 64 (where it is C13's [im_get]); the value of a present option *)
Theorem C08_mapped_accessors : forall m,
  (forall s, view_safe m (VwVec s) <->
     is_oob (ms_items1 s) = false /\ forall i, is_oob (ms_get1 s i) = false) /\
  (forall s, view_safe m (VwPairs s) <->
     is_oob (ms_items2 s) = false /\ forall i, is_oob (ms_get2 s i) = false) /\
  (forall b, view_safe m (VwBytes b) <->
     is_oob (mb_bytes b) = false /\ forall i, is_oob (mb_get b i) = false) /\
  (forall b, view_safe m (VwStr b) <->
     is_oob (mb_bytes b) = false /\ forall i, is_oob (mb_get b i) = false) /\
  (forall r, view_safe m (VwRaw r) <->
     (forall bo, is_oob (rm_bit r bo) = false) /\ (forall i, is_oob (rm_word r i) = false) /\
     (forall bo w, w <= 64 -> is_oob (rm_int_w m r bo w) = false /\ rm_int_w m r bo w = rm_int r bo w) /\
     is_oob (rm_count_ones r) = false) /\
  (forall v, view_safe m (VwInt v) <->
     ((forall bo, is_oob (rm_bit (im_data v) bo) = false) /\ (forall i, is_oob (rm_word (im_data v) i) = false) /\
      (forall bo w, w <= 64 -> is_oob (rm_int_w m (im_data v) bo w) = false /\
                               rm_int_w m (im_data v) bo w = rm_int (im_data v) bo w) /\
      is_oob (rm_count_ones (im_data v)) = false) /\
     (im_width v <= 64 -> forall j, is_oob (im_get_w m v j) = false /\ im_get_w m v j = im_get m v j)) /\
  (forall v' off dl, view_safe m (VwOpt (mkmo (Some v') off dl)) <-> view_safe m v') /\
  (forall off dl, view_safe m (VwOpt (mkmo None off dl)) <-> True).
Proof.
  intros m.
  split; [intros s; apply iff_refl|]. split; [intros s; apply iff_refl|].
  split; [intros b; apply iff_refl|]. split; [intros b; apply iff_refl|].
  split; [intros r; apply iff_refl|]. split; [intros v; apply iff_refl|].
  split; [intros v' off dl; apply iff_refl|]. intros off dl; apply iff_refl.
Qed.
Print Assumptions C08_mapped_accessors.

(* the same read as a statement about results: every accessor call on a view `new` returned is a value or a
   panic.  Shown for the accessor with a caller-supplied argument of each kind. *)
Theorem C08_no_oob_mapped_calls : forall m file offset,
  lenN file < 2 ^ 61 -> offset < 2 ^ 64 ->
  (forall s i, view_new m TyVec file offset = VOk (VwVec s) ->
     (exists x, ms_get1 s i = Ok x) \/ (exists k, ms_get1 s i = Panic k)) /\
  (forall s i, view_new m TyPairs file offset = VOk (VwPairs s) ->
     (exists x, ms_get2 s i = Ok x) \/ (exists k, ms_get2 s i = Panic k)) /\
  (forall b i, view_new m TyBytes file offset = VOk (VwBytes b) ->
     (exists x, mb_get b i = Ok x) \/ (exists k, mb_get b i = Panic k)) /\
  (forall r bo, view_new m TyRaw file offset = VOk (VwRaw r) ->
     ((exists x, rm_bit r bo = Ok x) \/ (exists k, rm_bit r bo = Panic k)) /\
     ((exists x, rm_word r bo = Ok x) \/ (exists k, rm_word r bo = Panic k))) /\
  (forall v j, view_new m TyInt file offset = VOk (VwInt v) -> im_width v <= 64 ->
     (exists x, im_get_w m v j = Ok x) \/ (exists k, im_get_w m v j = Panic k)).
Proof.
  intros m file offset Hf Ho.
  split; [|split; [|split; [|split]]].
  - intros s i E. pose proof (no_oob_mapped m TyVec file offset Hf Ho) as H. rewrite E in H.
    destruct H as (_ & _ & _ & Hg). apply safe_cases, Hg.
  - intros s i E. pose proof (no_oob_mapped m TyPairs file offset Hf Ho) as H. rewrite E in H.
    destruct H as (_ & _ & _ & Hg). apply safe_cases, Hg.
  - intros b i E. pose proof (no_oob_mapped m TyBytes file offset Hf Ho) as H. rewrite E in H.
    destruct H as (_ & _ & _ & Hg). apply safe_cases, Hg.
  - intros r bo E. pose proof (no_oob_mapped m TyRaw file offset Hf Ho) as H. rewrite E in H.
    destruct H as (_ & _ & Hb & Hw & _). split; apply safe_cases; [apply Hb|apply Hw].
  - intros v j E Hw. pose proof (no_oob_mapped m TyInt file offset Hf Ho) as H. rewrite E in H.
    destruct H as (_ & _ & _ & Hg). apply safe_cases, (Hg Hw j).
Qed.
Print Assumptions C08_no_oob_mapped_calls.

(* The length checks of MappedSlice / MappedBytes / MappedStr before the repair 5f925c7
   (`offset + 1 + len * T::elements() > map.len()`, `offset + 1 + bytes_to_words(len) > map.len()`), finding F12:
   on the library-written file of Vec<u64> [3, 2, 2^64-3, 2^64-3] = elements [4; 3; 2; 2^64-3; 2^64-3],
   MappedSlice::<u64>::new(&map, 3) panics with overflow checks on; without them the sum wraps and `new` returns
   a view of 2^64-3 items over a 5-element map whose items are NOT in the file ([OOB]).  Same for the byte views
   on [2^64-1].  The repaired checks refuse both files in both build modes. *)
Theorem C08_mapped_old_refuted :
  ms_new_old Debug 1 f12_file 3 = VPanic POverflow /\
  ms_new_old Release 1 f12_file 3 = VOk (mkms f12_file 3 (2 ^ 64 - 3)) /\
  ms_items1 (mkms f12_file 3 (2 ^ 64 - 3)) = OOB SITE_MAP_WORD /\
  mb_new_old Debug [2 ^ 64 - 1] 0 = VPanic POverflow /\
  mb_new_old Release [2 ^ 64 - 1] 0 = VOk (mkmb [2 ^ 64 - 1] 0 (2 ^ 64 - 1)) /\
  (forall m, ms_new m 1 f12_file 3 = VErr UnexpectedEof) /\
  (forall m, mb_new m [2 ^ 64 - 1] 0 = VErr UnexpectedEof).
Proof. exact len_overflow_old_refuted. Qed.
Print Assumptions C08_mapped_old_refuted.

(* `get` of the integer-vector view: ANY file, ANY offset, every view type (the mapper itself or inside options),
   both modes: a view that `new` returned has a width element in 1..64, and get(j) for EVERY j is a value or a
   panic, never an out-of-bounds access - and it is the function C13 reasons about. *)
Theorem C08_no_oob_mapped_get : forall m t file offset,
  lenN file < 2 ^ 61 -> offset < 2 ^ 64 ->
  match view_new m t file offset with
  | VOk v => view_int_widths v /\ view_get_safe m v
  | VErr _ => True
  | VPanic _ => False
  | VOOB _ => False
  end.
Proof. exact no_oob_mapped_get. Qed.
Print Assumptions C08_no_oob_mapped_get.

(* the same for the mapper requested directly, with the predicates written out *)
Theorem C08_no_oob_mapped_get_direct : forall m file offset v j,
  lenN file < 2 ^ 61 -> offset < 2 ^ 64 ->
  view_new m TyInt file offset = VOk (VwInt v) ->
  1 <= im_width v <= 64 /\ is_oob (im_get_w m v j) = false /\ im_get_w m v j = im_get m v j /\
  ((exists x, im_get_w m v j = Ok x) \/ (exists k, im_get_w m v j = Panic k)).
Proof.
  intros m file offset v j Hf Ho E. pose proof (no_oob_mapped_get m TyInt file offset Hf Ho) as H.
  rewrite E in H. destruct H as (Hw & Hg). destruct (Hg j) as (Hs & He).
  split; [exact Hw|]. split; [exact Hs|]. split; [exact He|]. apply safe_cases, Hs.
Qed.
Print Assumptions C08_no_oob_mapped_get_direct.

(* a width element of 0 or above 64 is refused with InvalidData by every build, whatever else the file holds *)
Theorem C08_mapped_bad_width_refused : forall m file offset width,
  lenN file < 2 ^ 64 -> nthN file (offset + 1) = Some width -> width = 0 \/ 64 < width ->
  view_new m TyInt file offset = VErr InvalidData.
Proof.
  intros m file offset width Hf Hw Hb. cbn [view_new]. rewrite (im_new_badwidth m file offset width Hw Hf Hb). reflexivity.
Qed.
Print Assumptions C08_mapped_bad_width_refused.

(* Finding F14, `new` as it was before the repair ed19660 ([im_new_nowidth]: the width element is not looked at).
   The library-written file of Vec<u64> [2^64-1, 2^64-1, 0, 1, 5] = elements [5; 2^64-1; 2^64-1; 0; 1; 5]:
   IntVectorMapper::new(&map, 1) succeeded in both build modes with len = width = 2^64-1 over one data word,
   entirely inside the file; get(2^64-2) passes the assertion; without overflow checks `index * width` wraps to
   bit offset 2, `offset + width` wraps to 1 <= 64, and `low_set_unchecked(width)` reads entry 2^64-1 of the
   65-entry table LOW_SET.  With overflow checks the multiplication panics.  The repaired `new` refuses the view. *)
Theorem C08_mapped_get_wide_old_refuted :
  (forall m, im_new_nowidth m f14_file 1 = VOk f14_view) /\
  view_inside f14_file (VwInt f14_view) /\
  im_get_w Release f14_view (2 ^ 64 - 2) = OOB SITE_LOW_SET /\
  im_get_w Debug f14_view (2 ^ 64 - 2) = Panic POverflow /\
  (forall m, view_new m TyInt f14_file 1 = VErr InvalidData).
Proof. exact int_get_wide_old_refuted. Qed.
Print Assumptions C08_mapped_get_wide_old_refuted.

(* ---- non-vacuity: C13's example file (one padding element and eight structures); views that exist, are read
   through, and are asked for indexes far outside ---- *)

Definition c08m_file : list N :=
  [7] ++ flat_map enc
    [ TVec [5; 18446744073709551615]; TPairs [(1, 2)]; TBytes [1; 2; 3; 4; 5; 6; 7; 8; 255];
      TInt (mkiv 3 7 (mkraw 21 [2080895])) ].

Example C08_mapped_example :
  (exists s, view_new Release TyVec c08m_file 1 = VOk (VwVec s) /\ ms_get1 s 1 = Ok 18446744073709551615 /\
             ms_get1 s 2 = Panic PIndex /\ ms_get1 s (2 ^ 64 - 1) = Panic PIndex) /\
  (* the second item of the Vec<u64>, 2^64-1, read as a length: refused, in both modes *)
  (forall m, view_new m TyVec c08m_file 3 = VErr UnexpectedEof) /\
  (forall m, view_new m TyPairs c08m_file 3 = VErr UnexpectedEof) /\
  (forall m, view_new m TyBytes c08m_file 3 = VErr UnexpectedEof) /\
  (exists v, view_new Debug TyInt c08m_file 10 = VOk (VwInt v) /\ im_get_w Debug v 2 = Ok 127 /\
             im_get_w Debug v 3 = Panic PAssert /\ im_get_w Release v (2 ^ 64 - 1) = Panic PAssert).
Proof.
  split; [eexists; split; [reflexivity|split; [reflexivity|split; reflexivity]]|].
  split; [intros []; reflexivity|]. split; [intros []; reflexivity|]. split; [intros []; reflexivity|].
  eexists; split; [reflexivity|split; [reflexivity|split; reflexivity]].
Qed.
