(* C02, closed form -- the main theorem of Props/C02.v WITHOUT the hypothesis [high_contract sp md]:
   Proofs/SparseHigh.v proves that contract for every select path and overflow mode from the C01 proofs
   (Proofs/BVFull.v: From<RawVector> + enable_select + enable_select_zero on any well-formed raw vector of fewer
   than 2^64 bits succeeds and answers get / select / select_zero as the stored bit list). The only remaining side
   condition is that the high part is addressable: |P| + ceil(n / 2^w) < 2^64 (SparseBuilder computes it in usize).
   Reading guide: Props/C02.v. *)
From Coq Require Import NArith List Bool.
Require Import SDS.Model.Mach SDS.Model.Bits SDS.Model.Raw SDS.Model.IntVec SDS.Model.BitVec SDS.Model.Sparse.
Require Import SDS.Spec.BitSeq SDS.Spec.ValSeq SDS.Proofs.BVCommon SDS.Proofs.SparseSeq SDS.Proofs.SparseProof.
Require Import SDS.Proofs.SparseBuild SDS.Proofs.SparseLow SDS.Proofs.SparseZero SDS.Proofs.SparseMain SDS.Proofs.SparseHigh.
Import ListNotations.
Open Scope N_scope.

(* the contract itself, as a theorem: for every well-formed raw vector r (exact word count, 64-bit words, unused
   bits zero, length below 2^64) *)
Theorem C02_high_part : forall sp md r, raw_wf r ->
  exists b1 b, bv_enable_select_t sp md Identity (bv_from_raw r) = Ok b1 /\
               bv_enable_select_t sp md Complement b1 = Ok b /\
               bv_select_ok sp md b (bits_of (rlen r) (rdata r)).
Proof. exact high_contract_holds. Qed.
Print Assumptions C02_high_part.

Theorem C02_sparse_exact_closed : forall sp md w' n P,
  n < 2 ^ 64 -> 1 <= w' <= 63 -> increasing P = true -> all_below n P = true ->
  lenN P + buckets_of n (eff_width w' n (lenN P)) < 2 ^ 64 ->
  exists sv H,
    sv_build_set sp md w' n P = Ok (inl sv) /\
    (let w := eff_width w' n (lenN P) in
     bv_select_ok sp md (sv_high sv) H /\
     lenB H = lenN P + (n + 2 ^ w - 1) / 2 ^ w /\
     (forall i, i < lenN P -> select1 H i = Some (nthd P i / 2 ^ w + i)) /\
     (forall b, b < (n + 2 ^ w - 1) / 2 ^ w -> select0 H b = Some (b + vs_rank P ((b + 1) * 2 ^ w)))) /\
    (sv_len sv = n /\ sv_count_ones sv = lenN P /\ sv_count_zeros sv = n - lenN P /\
     (forall i, i < n -> sv_get sp md sv i = Ok (vs_get P i)) /\
     (forall i, sv_rank sp md sv i = Ok (vs_rank P i)) /\
     (forall r, sv_select sp md sv r = Ok (vs_select P r)) /\
     (forall v, it_first md sv (sv_predecessor sp md sv v) = Ok (hd_error (vs_pred P v))) /\
     (forall v, it_first md sv (sv_successor sp md sv v) = Ok (hd_error (vs_succ P v))) /\
     sv_is_multiset md sv = Ok (has_dup P)) /\
    ((forall i, sv_rank_zero sp md sv i = Ok (i - vs_rank P i)) /\
     (forall r, sv_select_zero sp md sv r = Ok (vs_select_zero P n r)) /\
     (forall k, (let* z := sv_zero_iter md sv in zi_take md sv k z) = Ok (vs_zeros_from P n 0 k)) /\
     (forall r k, (let* z := sv_select_zero_iter sp md sv r in zi_take md sv k z) = Ok (vs_zeros_from P n r k)) /\
     (forall r, n - lenN P <= r -> sv_select_zero sp md sv r = Ok None) /\
     (forall r, r < n - lenN P -> exists z, sv_select_zero sp md sv r = Ok (Some z) /\
        z < n /\ vs_get P z = false /\ vs_rank P z + r = z)) /\
    (* the bit iterator iter(), one_iter and the iterators returned by select_iter / predecessor / successor, driven by ANY sequence of
       next() (false) and next_back() (true) calls, behave as a double-ended iterator over the reference list *)
    ((forall pat, (let* s := sv_iter_new md sv in sbi_drive md sv pat s) = Ok (deque_run (vs_bits P n) pat)) /\
     (forall pat, it_drive md sv pat (sv_one_iter sv) = Ok (deque_run (vs_ranked P) pat)) /\
     (forall r pat, (let* it := sv_select_iter sp md sv r in it_drive md sv pat it) = Ok (deque_run (skipN (vs_ranked P) r) pat)) /\
     (forall v pat, (let* it := sv_predecessor sp md sv v in it_drive md sv pat it) = Ok (deque_run (vs_pred P v) pat)) /\
     (forall v pat, (let* it := sv_successor sp md sv v in it_drive md sv pat it) = Ok (deque_run (vs_succ P v) pat))).
Proof. exact sparse_set_exact_closed. Qed.
Print Assumptions C02_sparse_exact_closed.

(* non-vacuity: the hypotheses are satisfiable and the conclusion is what the model computes on the documentation example *)
Example C02_closed_example :
  exists sv H, sv_build_set Portable Release 5 137 [1; 33; 95; 123] = Ok (inl sv) /\
    bv_select_ok Portable Release (sv_high sv) H /\ lenB H = 4 + 5 /\
    sv_rank Portable Release sv 34 = Ok 2 /\ sv_select_zero Portable Release sv 35 = Ok (Some 37).
Proof.
  assert (Hn : 137 < 2 ^ 64) by reflexivity.
  assert (Hw : 1 <= 5 <= 63) by (split; discriminate).
  assert (Hfit : lenN [1; 33; 95; 123] + buckets_of 137 (eff_width 5 137 (lenN [1; 33; 95; 123])) < 2 ^ 64) by (vm_compute; reflexivity).
  destruct (C02_sparse_exact_closed Portable Release 5 137 [1; 33; 95; 123] Hn Hw eq_refl eq_refl Hfit)
    as (sv & H & Hb & Hhigh & Hq & Hz & _).
  destruct Hhigh as (Hh & Hl & _). destruct Hq as (_ & _ & _ & _ & Hr & _). destruct Hz as (_ & Hz & _).
  exists sv, H. split; [exact Hb|]. split; [exact Hh|]. split; [rewrite Hl; vm_compute; reflexivity|].
  split; [rewrite Hr; reflexivity|rewrite Hz; reflexivity].
Qed.
