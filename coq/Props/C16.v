(* C16 -- builders reject invalid steps without side effects and build what was accepted.
   Only property theorems here: statement, [exact lemma], Print Assumptions, examples.

   Models: Model/Builders.v (RLBuilder with the block encoding abstracted to the decoded run list,
   SparseBuilder with the Elias-Fano arrays abstracted to the list of written positions; every addition and
   subtraction of the Rust code kept, in both build modes). Specification: Spec/BuilderSpec.v
   (list of maximal runs + length; list of accepted positions + the acceptance rule). *)
From Coq Require Import NArith List Bool Lia.
Require Import SDS.Model.Mach SDS.Model.Builders SDS.Spec.BuilderSpec SDS.Proofs.BuildersProof.
Import ListNotations.
Open Scope N_scope.

(* ------------------------------------------------------------------ RLBuilder *)

(* Every history of try_set / set_len calls with arbitrary usize arguments, in both build modes:
   no call fails on arithmetic; the outcome of every call and len / count_ones / count_zeros / is_empty /
   the runs of the vector one would get by converting at that point are those of the specification after
   every call; the final conversion yields the maximal runs of the accepted calls, their total and the
   length; the run list is sorted, non-overlapping, non-adjacent, every run non-empty and within len;
   count_ones = sum of the run lengths <= len <= usize::MAX; and bit p is set in the result iff an accepted
   call covered it. *)
Theorem C16_rl_builder_history : forall (m : mode) (ops : list rlop),
  Forall rlop_wf ops ->
  exists b tr,
    rl_run m rl_init ops = Ok b /\
    rl_trace m rl_init ops = Ok tr /\
    map (fun x => (sout_of (fst x), snd x)) tr = rl_spec_trace rl_spec_init ops /\
    let st := fold_left rl_spec_step ops rl_spec_init in
    rl_finish m b = Ok (fst st, snd st, run_sum (fst st)) /\
    blen b = snd st /\ bones b = run_sum (fst st) /\
    chain (fun r q => fst r + snd r < fst q) (fst st) /\
    Forall (fun r => 0 < snd r /\ fst r + snd r <= snd st) (fst st) /\
    run_sum (fst st) <= snd st /\ snd st <= MAXW /\
    forall p, in_runs (fst st) p = in_runs (rl_accepted rl_spec_init ops) p.
Proof. exact rl_builder_history_full. Qed.
Print Assumptions C16_rl_builder_history.

(* In every reachable state: try_set(s, l) is refused exactly when s < len or s + l > usize::MAX, and then
   the whole builder state is unchanged; otherwise it is accepted, len becomes s + l (unchanged for l = 0,
   when nothing at all changes) and count_ones grows by l. set_len(n) never fails, sets len to
   max(len, n), keeps count_ones, and changes nothing at all when n <= len. *)
Theorem C16_rl_rejected_no_effect : forall (m : mode) (ops : list rlop) (s l : N),
  Forall rlop_wf ops -> s <= MAXW -> l <= MAXW ->
  exists b, rl_run m rl_init ops = Ok b /\
    ((s < blen b \/ MAXW < s + l) -> rl_step m b (TrySet s l) = Ok (b, Rejected)) /\
    (~ (s < blen b \/ MAXW < s + l) ->
       exists b', rl_step m b (TrySet s l) = Ok (b', Accepted) /\
                  blen b' = (if l =? 0 then blen b else s + l) /\ bones b' = bones b + l /\
                  (l = 0 -> b' = b)) /\
    forall n, n <= MAXW ->
       exists b', rl_step m b (SetLen n) = Ok (b', Accepted) /\ blen b' = N.max (blen b) n /\
                  bones b' = bones b /\ (n <= blen b -> b' = b).
Proof. exact rl_rejected_no_effect. Qed.
Print Assumptions C16_rl_rejected_no_effect.

(* What the theorems exclude: with the set_len of before the repair of finding F5 (the active run was not
   reset), the history set_len(10); try_set(10, 5) builds a vector that is not the specified one. *)
Theorem C16_rl_set_len_old_refuted :
  exists ops, Forall rlop_wf ops /\
    forall m, exists b, rl_run_with rl_set_len_old m rl_init ops = Ok b /\
      rl_finish m b <> Ok (rl_spec_final (fold_left rl_spec_step ops rl_spec_init)).
Proof. exact rl_set_len_old_refuted. Qed.
Print Assumptions C16_rl_set_len_old_refuted.

(* ------------------------------------------------------------------ SparseBuilder *)

(* Every constructor call with usize parameters and every history of try_set / set / extend calls with
   arbitrary arguments, in both build modes: new refuses exactly ones > universe; the whole builder state
   after the history is the one determined by the accepted positions of the specification; outcome (ok /
   err / the unwrap panic of set and extend) and len / capacity / universe / next_index / is_full / is_empty /
   is_multiset agree after every call; the accepted positions are strictly increasing (non-decreasing for
   a multiset), all below the universe, and at most capacity many. *)
Theorem C16_sparse_builder_history : forall (m : mode) (c : sctor) (ops : list sop),
  sctor_wf c ->
  match sp_params c with
  | None => sb_make c = None /\ exists u o, c = NewS u o /\ u < o
  | Some P =>
    let ps := sp_run P [] ops in
    sb_make c = Some (sb_of P []) /\
    sb_run m (sb_of P []) ops = sb_of P ps /\
    sb_trace m (sb_of P []) ops = map (fun x => (sout_res (fst x), snd x)) (sp_trace P [] ops) /\
    chain (fun a b => if p_multi P then a <= b else a < b) ps /\
    Forall (fun p => p < p_univ P) ps /\
    lenL ps <= p_cap P
  end.
Proof. exact sparse_builder_history_full. Qed.
Print Assumptions C16_sparse_builder_history.

(* In every reachable state: a position that the rule refuses (builder full, or below next_index, or at or
   beyond the universe) is answered by Err from try_set and by the unwrap panic from set, and the whole
   builder state is unchanged; an acceptable position is appended by both. extend applies exactly the
   longest acceptable prefix of its argument and panics iff an element is refused; the state is then the one
   after that prefix. *)
Theorem C16_sparse_rejected_no_effect : forall (m : mode) (c : sctor) (P : sparams) (ops : list sop),
  sctor_wf c -> sp_params c = Some P ->
  let b := sb_run m (sb_of P []) ops in
  let ps := sp_run P [] ops in
  b = sb_of P ps /\
  (forall i, sp_accepts P ps i = false ->
     sb_step m b (TrySetS i) = (b, Ok Rejected) /\ sb_step m b (SetS i) = (b, Panic PUnwrap)) /\
  (forall i, sp_accepts P ps i = true ->
     sb_step m b (TrySetS i) = (sb_of P (ps ++ [i]), Ok Accepted) /\
     sb_step m b (SetS i) = (sb_of P (ps ++ [i]), Ok Accepted)) /\
  (forall l, exists pre post, l = pre ++ post /\
     sb_step m b (ExtendS pre) = (sb_of P (ps ++ pre), Ok Accepted) /\
     ((post = [] /\ sb_step m b (ExtendS l) = (sb_of P (ps ++ pre), Ok Accepted)) \/
      (exists x post', post = x :: post' /\ sp_accepts P (ps ++ pre) x = false /\
         sb_step m b (ExtendS l) = (sb_of P (ps ++ pre), Panic PUnwrap)))).
Proof. exact sparse_rejected_no_effect. Qed.
Print Assumptions C16_sparse_rejected_no_effect.

(* The acceptance rule in plain arithmetic (so that the two theorems above can be read without it). *)
Theorem C16_sparse_accepts_meaning : forall (P : sparams) (ps : list N) (i : N),
  sp_accepts P ps i = true <->
  lenL ps < p_cap P /\ i < p_univ P /\
  match lastO ps with None => True | Some p => if p_multi P then p <= i else p < i end.
Proof. exact sparse_accepts_meaning. Qed.
Print Assumptions C16_sparse_accepts_meaning.

(* Conversion of the builder reached by any history: succeeds iff len = capacity, and then yields the
   vector of length universe whose set positions are exactly the accepted ones, in order. *)
Theorem C16_sparse_conversion : forall (m : mode) (c : sctor) (P : sparams) (ops : list sop),
  sctor_wf c -> sp_params c = Some P ->
  let b := sb_run m (sb_of P []) ops in
  let ps := sp_run P [] ops in
  slen b = lenL ps /\ scap b = p_cap P /\ suniv b = p_univ P /\ spos b = ps /\ slen b <= scap b /\
  (slen b = scap b -> sb_finish b = Some (p_univ P, lenL ps, ps)) /\
  (slen b <> scap b -> sb_finish b = None).
Proof. exact sparse_conversion. Qed.
Print Assumptions C16_sparse_conversion.

(* ------------------------------------------------------------------ examples (non-vacuity) *)

(* merge of adjacent runs, a refused earlier position, a set_len in the middle, a zero-length run, a run
   that would end beyond usize::MAX, a set_len that shrinks *)
Example C16_example_rl :
  let ops := [TrySet 2 3; TrySet 5 4; TrySet 4 1; SetLen 20; TrySet 20 5; TrySet 30 0;
              TrySet 18446744073709551613 5; SetLen 7; TrySet 40 2] in
  rl_trace Release rl_init ops =
    Ok [(Accepted, (5, 3, 2, false, [(2, 3)]));
        (Accepted, (9, 7, 2, false, [(2, 7)]));
        (Rejected, (9, 7, 2, false, [(2, 7)]));
        (Accepted, (20, 7, 13, false, [(2, 7)]));
        (Accepted, (25, 12, 13, false, [(2, 7); (20, 5)]));
        (Accepted, (25, 12, 13, false, [(2, 7); (20, 5)]));
        (Rejected, (25, 12, 13, false, [(2, 7); (20, 5)]));
        (Accepted, (25, 12, 13, false, [(2, 7); (20, 5)]));
        (Accepted, (42, 14, 28, false, [(2, 7); (20, 5); (40, 2)]))] /\
  (let* b := rl_run Debug rl_init ops in rl_finish Debug b) = Ok ([(2, 7); (20, 5); (40, 2)], 42, 14) /\
  fold_left rl_spec_step ops rl_spec_init = ([(2, 7); (20, 5); (40, 2)], 42).
Proof. vm_compute. repeat split; reflexivity. Qed.

(* the largest possible vector: a run that ends exactly at usize::MAX is accepted, one more bit is not *)
Example C16_example_rl_max :
  rl_trace Debug rl_init [TrySet 5 18446744073709551610; TrySet 18446744073709551615 1; SetLen 3] =
    Ok [(Accepted, (18446744073709551615, 18446744073709551610, 5, false, [(5, 18446744073709551610)]));
        (Rejected, (18446744073709551615, 18446744073709551610, 5, false, [(5, 18446744073709551610)]));
        (Accepted, (18446744073709551615, 18446744073709551610, 5, false, [(5, 18446744073709551610)]))].
Proof. vm_compute. reflexivity. Qed.

(* a multiset with duplicates, a refused smaller position, a position beyond the universe, an extend that
   panics at its third element after applying two, an overfull attempt, and the conversion *)
Example C16_example_multiset :
  let ops := [SetS 12; TrySetS 12; TrySetS 3; SetS 120; ExtendS [24; 24; 7; 30]; TrySetS 119; TrySetS 119; SetS 119] in
  let b0 := sb_of (120, 6, true) [] in
  sb_make (MultisetS 120 6) = Some b0 /\
  map fst (sb_trace Debug b0 ops) =
    [Ok Accepted; Ok Accepted; Ok Rejected; Panic PUnwrap; Panic PUnwrap; Ok Accepted; Ok Accepted; Panic PUnwrap] /\
  map snd (sb_trace Debug b0 ops) =
    [(1, 6, 120, 12, false, false, true); (2, 6, 120, 12, false, false, true);
     (2, 6, 120, 12, false, false, true); (2, 6, 120, 12, false, false, true);
     (4, 6, 120, 24, false, false, true); (5, 6, 120, 119, false, false, true);
     (6, 6, 120, 119, true, false, true); (6, 6, 120, 119, true, false, true)] /\
  sb_finish (sb_run Debug b0 ops) = Some (120, 6, [12; 12; 24; 24; 119; 119]).
Proof. vm_compute. repeat split; reflexivity. Qed.

(* set semantics: a duplicate is refused, the last position of the universe is accepted and moves next_index
   to the universe; a builder that is not full does not convert; new refuses ones > universe *)
Example C16_example_set :
  let b0 := sb_of (10, 3, false) [] in
  sb_make (NewS 10 3) = Some b0 /\ sb_make (NewS 3 4) = None /\
  sb_trace Release b0 [SetS 4; TrySetS 4; TrySetS 9; TrySetS 10] =
    [(Ok Accepted, (1, 3, 10, 5, false, false, false)); (Ok Rejected, (1, 3, 10, 5, false, false, false));
     (Ok Accepted, (2, 3, 10, 10, false, false, false)); (Ok Rejected, (2, 3, 10, 10, false, false, false))] /\
  sb_finish (sb_run Release b0 [SetS 4; TrySetS 4; TrySetS 9; TrySetS 10]) = None /\
  sb_finish (sb_run Release b0 [ExtendS [0; 4; 9]; SetS 9]) = Some (10, 3, [0; 4; 9]).
Proof. vm_compute. repeat split; reflexivity. Qed.
