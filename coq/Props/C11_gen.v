(* C11 -- translator tie: the Gallina that tools/gen.py translates from the CURRENT Rust source on every check
   (gen/Funs2.v, the definitions named f2_...) IS the hand-written model function that the models of this property use.
   Source: the two builder helpers every conversion goes through: src/rl_vector.rs (RLBuilder::code_len), src/sparse_vector.rs (SparseBuilder::get_buckets).
   A change to one of these functions in the crate changes gen/Funs2.v and breaks a theorem below (or the
   translator, which fails closed on constructs it does not support).
   Only property theorems here: statement, [exact lemma], Print Assumptions. *)
From Coq Require Import NArith List Bool.
Require Import SDS.Model.Mach SDS.Model.Bits SDS.Model.Sparse SDS.Model.RL SDS.gen.Consts SDS.gen.Funs SDS.gen.Funs2.
Require SDS.Proofs.GenTieRL SDS.Proofs.GenTieSparse.
Open Scope N_scope.

Theorem C11_gen_rl_code_len : forall m v, f2_rl_code_len m v = rl_code_len m v.
Proof. exact GenTieRL.tie_rl_code_len. Qed.
Print Assumptions C11_gen_rl_code_len.

Theorem C11_gen_get_buckets : forall m universe low_width, universe < 2 ^ 64 ->
  f2_get_buckets m universe low_width = Sparse.get_buckets universe low_width.
Proof. exact GenTieSparse.tie_get_buckets. Qed.
Print Assumptions C11_gen_get_buckets.
