(* C14, file part -- serialize::serialize_to on a file that cannot take the complete serialization, and
   serialize::load_from of what it leaves behind.
   serialize_to opens the file (created / truncated: empty) and runs T::serialize on it, passing every error
   through; T::serialize is a sequence of write_all calls chained with `?` (write_seq, Spec/Stream.v) whose
   concatenation is the encoding c_enc c x. A file that takes [room] more bytes and then fails every write is the
   sink [mksink [] room err] (RLIMIT_FSIZE / quota: err = EFBIG after the bytes that fit; /dev/full or a full
   device: room = 0, ENOSPC). Success when everything fits is C14_sink_fits of Props/C14.v; the theorem below is
   the failing side with the loader added: the error is returned, the file holds exactly the first [room] bytes,
   and load on that file is an I/O error - never a structure, never a panic. [truncation_safe c x] is proved for
   every documented type (Props/C14.v: C14_truncation_*, Props/C14_sparse.v, Props/C14_wm.v).
   Tied to the crate by the CFile cases of Check/C14.v (the real serialize_to / load_from under RLIMIT_FSIZE and
   on /dev/full). *)
From Coq Require Import NArith List Bool Lia.
Require Import SDS.Model.Mach SDS.Model.Ser SDS.Spec.Stream SDS.Proofs.SerProof SDS.Proofs.SerMain.
Import ListNotations.
Open Scope list_scope.
Open Scope N_scope.

Theorem C14_failed_write_leaves_unloadable_file :
  forall (A : Type) (c : codec A) (x : A) (chunks : list (list byte)) (room : N) (err : ekind),
  truncation_safe c x ->
  concat chunks = c_enc c x ->
  room < lenN (c_enc c x) ->
  exists w e,
    write_seq chunks (mksink [] room err) = (w, IoErr err)
    /\ sk_out w = firstn (N.to_nat room) (c_enc c x)
    /\ c_dec c (sk_out w) = IoErr e.
Proof.
  intros A c x chunks room err Hsafe Hcat Hlt.
  assert (Hk : (N.to_nat room < length (c_enc c x))%nat) by (unfold lenN in Hlt; lia).
  destruct (Hsafe (N.to_nat room) Hk) as [e He].
  exists (mksink (firstn (N.to_nat room) (c_enc c x)) 0 err), e.
  split; [|split; [reflexivity|exact He]].
  rewrite <- Hcat in Hlt |- *. now apply sink_budget.
Qed.
Print Assumptions C14_failed_write_leaves_unloadable_file.

(* non-vacuity: a Vec<u64> of two elements (24 bytes) into a file limited to 12 bytes *)
Example ex_file_limit_12 :
  write_seq [le64 2; le64 5 ++ le64 6] (mksink [] 12 OtherErr)
    = (mksink [2; 0; 0; 0; 0; 0; 0; 0; 5; 0; 0; 0] 0 OtherErr, IoErr OtherErr)
  /\ c_dec vec_u64_codec [2; 0; 0; 0; 0; 0; 0; 0; 5; 0; 0; 0] = IoErr UnexpectedEof.
Proof. split; vm_compute; reflexivity. Qed.
