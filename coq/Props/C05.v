(* C05 -- raw and integer vectors behave as plain sequences under any operation history.
   Only property theorems here: statement, [exact lemma], Print Assumptions. *)
From Coq Require Import NArith List Bool.
Require Import SDS.Model.Mach SDS.Model.Bits SDS.Model.Raw SDS.Model.IntVec SDS.Model.Hist.
Require Import SDS.Spec.BitSeq SDS.Spec.SeqSpec SDS.Proofs.BitsProof SDS.Proofs.RawProof.
Import ListNotations.
Open Scope N_scope.

(* ---- RawVector ---- *)

(* the empty vector is valid and holds nothing *)
Theorem C05_raw_init : raw_inv raw_new /\ abs_raw raw_new = [].
Proof. exact raw_new_ok. Qed.
Print Assumptions C05_raw_init.

(* one operation inside its documented precondition (positions inside the vector, widths <= 64, ANY value):
   the call returns, the invariant is kept, the content becomes what the list specification says and the value
   returned is the one the list specification returns *)
Theorem C05_raw_step_refinement : forall r o,
  raw_inv r -> rop_pre (abs_raw r) o ->
  exists r', rstep r o = Ok (r', snd (rspec_step (abs_raw r) o)) /\ raw_inv r' /\
             abs_raw r' = fst (rspec_step (abs_raw r) o).
Proof. exact rstep_refines. Qed.
Print Assumptions C05_raw_step_refinement.

(* every finite history: final content and every output agree with the list specification *)
Theorem C05_raw_history_refinement : forall ops r,
  raw_inv r -> rpre_all (abs_raw r) ops ->
  exists r', rrun r ops = Ok (r', snd (rspec_run (abs_raw r) ops)) /\ raw_inv r' /\
             abs_raw r' = fst (rspec_run (abs_raw r) ops).
Proof. exact rrun_refines. Qed.
Print Assumptions C05_raw_history_refinement.

(* canonical form: two valid vectors with the same content are the same state, however they were produced *)
Theorem C05_raw_canonical : forall r1 r2,
  raw_inv r1 -> raw_inv r2 -> abs_raw r1 = abs_raw r2 -> r1 = r2.
Proof. exact raw_canonical. Qed.
Print Assumptions C05_raw_canonical.

(* hence ==, the serialized elements and count_ones are functions of the content *)
Theorem C05_raw_observers : forall r1 r2,
  raw_inv r1 -> raw_inv r2 -> abs_raw r1 = abs_raw r2 ->
  raw_eqb r1 r2 = true /\ raw_serialize r1 = raw_serialize r2 /\ raw_count_ones r1 = raw_count_ones r2.
Proof. exact raw_observers_canonical. Qed.
Print Assumptions C05_raw_observers.

(* == is equality of states, so on valid vectors it is equality of contents *)
Theorem C05_raw_eqb : forall a b, raw_eqb a b = true <-> a = b.
Proof. exact raw_eqb_eq. Qed.
Print Assumptions C05_raw_eqb.

Theorem C05_count_ones : forall r, raw_inv r -> raw_count_ones r = count (abs_raw r).
Proof. exact raw_count_ones_spec. Qed.
Print Assumptions C05_count_ones.
