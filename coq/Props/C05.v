(* C05 -- raw and integer vectors behave as plain sequences under any operation history.
   Only property theorems here: statement, [exact lemma], Print Assumptions. *)
From Coq Require Import NArith List Bool.
Require Import SDS.Model.Mach SDS.Model.Bits SDS.Model.Raw SDS.Model.IntVec SDS.Model.Hist.
Require Import SDS.Spec.BitSeq SDS.Spec.SeqSpec SDS.Proofs.BitsProof SDS.Proofs.RawProof SDS.Proofs.IntVecProof.
Import ListNotations.
Open Scope N_scope.

(* ---- RawVector ---- *)

(* the empty vector is valid and holds nothing *)
Theorem C05_raw_init : raw_inv raw_new /\ abs_raw raw_new = [].
Proof. exact raw_new_ok. Qed.
Print Assumptions C05_raw_init.

(* one operation inside its documented precondition (positions inside the vector, widths <= 64, ANY value):
   the call returns, the invariant is kept, the content becomes what the list specification says and the value
   returned is the one the list specification returns *)
Theorem C05_raw_step_refinement : forall r o,
  raw_inv r -> rop_pre (abs_raw r) o ->
  exists r', rstep r o = Ok (r', snd (rspec_step (abs_raw r) o)) /\ raw_inv r' /\
             abs_raw r' = fst (rspec_step (abs_raw r) o).
Proof. exact rstep_refines. Qed.
Print Assumptions C05_raw_step_refinement.

(* every finite history: final content and every output agree with the list specification *)
Theorem C05_raw_history_refinement : forall ops r,
  raw_inv r -> rpre_all (abs_raw r) ops ->
  exists r', rrun r ops = Ok (r', snd (rspec_run (abs_raw r) ops)) /\ raw_inv r' /\
             abs_raw r' = fst (rspec_run (abs_raw r) ops).
Proof. exact rrun_refines. Qed.
Print Assumptions C05_raw_history_refinement.

(* canonical form: two valid vectors with the same content are the same state, however they were produced *)
Theorem C05_raw_canonical : forall r1 r2,
  raw_inv r1 -> raw_inv r2 -> abs_raw r1 = abs_raw r2 -> r1 = r2.
Proof. exact raw_canonical. Qed.
Print Assumptions C05_raw_canonical.

(* hence ==, the serialized elements and count_ones are functions of the content *)
Theorem C05_raw_observers : forall r1 r2,
  raw_inv r1 -> raw_inv r2 -> abs_raw r1 = abs_raw r2 ->
  raw_eqb r1 r2 = true /\ raw_serialize r1 = raw_serialize r2 /\ raw_count_ones r1 = raw_count_ones r2.
Proof. exact raw_observers_canonical. Qed.
Print Assumptions C05_raw_observers.

(* == is equality of states, so on valid vectors it is equality of contents *)
Theorem C05_raw_eqb : forall a b, raw_eqb a b = true <-> a = b.
Proof. exact raw_eqb_eq. Qed.
Print Assumptions C05_raw_eqb.

Theorem C05_count_ones : forall r, raw_inv r -> raw_count_ones r = count (abs_raw r).
Proof. exact raw_count_ones_spec. Qed.
Print Assumptions C05_count_ones.

(* the individual operations, spelled out (each is one case of the step theorem above) *)

(* what is stored for a value is its first w binary digits, i.e. the value truncated to the width *)
Theorem C05_truncation : forall v w, w <= 64 -> bits_val (vbits v w) = v mod 2 ^ w.
Proof. exact bits_val_vbits. Qed.
Print Assumptions C05_truncation.

Theorem C05_raw_push_int : forall r v w,
  raw_inv r -> w <= 64 ->
  exists r', raw_push_int r v w = Ok r' /\ raw_inv r' /\ abs_raw r' = abs_raw r ++ vbits v w.
Proof. exact raw_push_int_ok. Qed.
Print Assumptions C05_raw_push_int.

(* pop_int returns the last w bits as a number and removes them; None (and no change) when fewer are left *)
Theorem C05_raw_pop_int : forall r w,
  raw_inv r -> w <= 64 ->
  exists r', raw_pop_int r w =
               Ok (r', if w <=? lenL (abs_raw r)
                       then Some (bits_val (dropN (lenL (abs_raw r) - w) (abs_raw r))) else None) /\
             raw_inv r' /\
             abs_raw r' = if w <=? lenL (abs_raw r) then takeN (lenL (abs_raw r) - w) (abs_raw r) else abs_raw r.
Proof. exact raw_pop_int_ok. Qed.
Print Assumptions C05_raw_pop_int.

(* resize truncates, or pads with the fill value: never with stale bits *)
Theorem C05_raw_resize : forall r n value,
  raw_inv r ->
  exists r', raw_resize r n value = Ok r' /\ raw_inv r' /\
             abs_raw r' = takeN n (abs_raw r) ++ repN value (n - lenL (abs_raw r)).
Proof. exact raw_resize_ok. Qed.
Print Assumptions C05_raw_resize.

Theorem C05_raw_set_int : forall r off v w,
  raw_inv r -> w <= 64 -> off + w <= rlen r ->
  exists r', raw_set_int r off v w = Ok r' /\ raw_inv r' /\
             abs_raw r' = takeN off (abs_raw r) ++ vbits v w ++ dropN (off + w) (abs_raw r).
Proof. exact raw_set_int_ok. Qed.
Print Assumptions C05_raw_set_int.

Theorem C05_raw_int : forall r off w,
  raw_inv r -> w <= 64 -> off + w <= rlen r ->
  raw_int r off w = Ok (bits_val (takeN w (dropN off (abs_raw r)))).
Proof. exact raw_int_ok. Qed.
Print Assumptions C05_raw_int.

Theorem C05_raw_with_len : forall len value,
  exists r, raw_with_len len value = Ok r /\ raw_inv r /\ abs_raw r = repN value len.
Proof. exact raw_with_len_ok. Qed.
Print Assumptions C05_raw_with_len.

Theorem C05_raw_complement : forall r,
  raw_inv r -> exists r', raw_complement r = Ok r' /\ raw_inv r' /\ abs_raw r' = map negb (abs_raw r).
Proof. exact raw_complement_ok. Qed.
Print Assumptions C05_raw_complement.

(* ---- IntVector: the abstract state is (width, items) ---- *)

(* IntVector::new(w): accepted exactly for 1 <= w <= 64, and then valid and empty *)
Theorem C05_int_init : forall w,
  (1 <= w <= 64 -> exists v, iv_new w = Some v /\ iv_inv v /\ abs_is v = (w, [])) /\
  (~ (1 <= w <= 64) -> iv_new w = None).
Proof. intros w. split; [exact (iv_new_ok w)|exact (iv_new_rejects w)]. Qed.
Print Assumptions C05_int_init.

(* every stored item is below 2^width: what get/iter/pop return is the written value truncated to the width *)
Theorem C05_int_items_fit : forall v, iv_inv v -> Forall (fun x => x < 2 ^ iwidth v) (abs_iv v).
Proof. exact iv_items_fit. Qed.
Print Assumptions C05_int_items_fit.

Theorem C05_int_iter : forall v, iv_inv v -> iv_items v = Ok (abs_iv v).
Proof. exact iv_items_ok. Qed.
Print Assumptions C05_int_iter.

Theorem C05_int_step_refinement : forall v o,
  iv_inv v -> iop_pre (abs_is v) o ->
  exists v', istep v o = Ok (v', snd (ispec_step (abs_is v) o)) /\ iv_inv v' /\
             abs_is v' = fst (ispec_step (abs_is v) o).
Proof. exact istep_refines. Qed.
Print Assumptions C05_int_step_refinement.

Theorem C05_int_history_refinement : forall ops v,
  iv_inv v -> ipre_all (abs_is v) ops ->
  exists v', irun v ops = Ok (v', snd (ispec_run (abs_is v) ops)) /\ iv_inv v' /\
             abs_is v' = fst (ispec_run (abs_is v) ops).
Proof. exact irun_refines. Qed.
Print Assumptions C05_int_history_refinement.

(* get / set past the end are refused before anything is modified *)
Theorem C05_int_index_rejected : forall v i x,
  ilen v <= i -> iv_get v i = Panic PAssert /\ iv_set v i x = Panic PAssert.
Proof. intros v i x H. split; [exact (iv_get_rejects v i H)|exact (iv_set_rejects v i x H)]. Qed.
Print Assumptions C05_int_index_rejected.

Theorem C05_int_canonical : forall v1 v2,
  iv_inv v1 -> iv_inv v2 -> abs_is v1 = abs_is v2 -> v1 = v2.
Proof. exact iv_canonical. Qed.
Print Assumptions C05_int_canonical.

Theorem C05_int_observers : forall v1 v2,
  iv_inv v1 -> iv_inv v2 -> abs_is v1 = abs_is v2 ->
  iv_eqb v1 v2 = true /\ iv_serialize v1 = iv_serialize v2 /\
  raw_count_ones (idata v1) = raw_count_ones (idata v2).
Proof. exact iv_observers_canonical. Qed.
Print Assumptions C05_int_observers.

Theorem C05_int_eqb : forall a b, iv_eqb a b = true <-> a = b.
Proof. exact iv_eqb_eq. Qed.
Print Assumptions C05_int_eqb.

(* pack keeps the items; on a non-empty vector the new width is the number of binary digits of the largest item
   ([bit_len] of the code), which is the least width >= 1 that holds every item *)
Theorem C05_pack : forall v,
  iv_inv v ->
  exists v', iv_pack v = Ok v' /\ iv_inv v' /\ abs_iv v' = abs_iv v /\
             iwidth v' = if lenL (abs_iv v) =? 0 then iwidth v else digits (list_maxN (abs_iv v)).
Proof. exact iv_pack_ok. Qed.
Print Assumptions C05_pack.

Theorem C05_pack_width_least : forall xs w,
  xs <> [] -> 1 <= w -> Forall (fun x => x < 2 ^ w) xs -> digits (list_maxN xs) <= w.
Proof. exact pack_width_least. Qed.
Print Assumptions C05_pack_width_least.

Theorem C05_pack_width_is_bit_len : forall m, m < 2 ^ 64 -> bit_len m = digits m.
Proof. exact bit_len_spec. Qed.
Print Assumptions C05_pack_width_is_bit_len.

(* ---- non-vacuity: concrete histories meeting the hypotheses ---- *)

(* 13-bit fields pushed across the first word boundary with values wider than the field, a pop that leaves a
   partial word, resize down then up with fill 1, an overwrite straddling the boundary with a value wider than
   its field, a read across the boundary, a complement *)
Definition ex_raw_ops : list rop :=
  [RPushInt 8191 13; RPushInt 18446744073709551615 13; RPushInt 5 13; RPushInt 123456789 13;
   RPushInt 6844 13; RPopInt 13; RResize 40 false; RResize 70 true; RSetInt 60 677 7; RPopBit;
   RInt 58 11; RComplement; RCountOnes].

Example C05_example_raw_history :
  rpre_all (abs_raw raw_new) ex_raw_ops /\
  exists r, rrun raw_new ex_raw_ops = Ok (r, snd (rspec_run [] ex_raw_ops)) /\
            rlen r = 69 /\ rdata r = [11529215595421630464; 5] /\
            snd (rspec_run [] ex_raw_ops) =
              [ONone; ONone; ONone; ONone; ONone; OOptNat (Some 6844); ONone; ONone; ONone;
               OOptBool (Some true); ONat 1687; ONone; ONat 15].
Proof.
  split.
  - vm_compute. repeat split; try exact I; try reflexivity; intro H; discriminate H.
  - eexists. vm_compute. repeat split; reflexivity.
Qed.

(* width 13: items wider than the width, a straddling push, set, pop, resize with a wide fill value, a pack that
   narrows the vector to 12 bits, then an extend with an item wider than the new width *)
Definition ex_int_ops : list iop :=
  [IPush 8191; IPush 18446744073709551615; IPush 5; IPush 123456789; IPush 6844; IGet 4; ISet 4 70000;
   IPop; IResize 7 16389; IResize 6 0; IGet 5; ISet 0 100; ISet 1 200; IPack;
   IExtend [300; 4103]; IGet 7].

Example C05_example_int_history :
  ipre_all (13, []) ex_int_ops /\
  exists v, irun (mkiv 0 13 raw_new) ex_int_ops = Ok (v, snd (ispec_run (13, []) ex_int_ops)) /\
            abs_is v = (12, [100; 200; 5; 3349; 5; 5; 300; 7]) /\
            snd (ispec_run (13, []) ex_int_ops) =
              [ONone; ONone; ONone; ONone; ONone; ONat 6844; ONone; OOptNat (Some 4464); ONone; ONone;
               ONat 5; ONone; ONone; ONone; ONone; ONat 7].
Proof.
  split.
  - vm_compute. repeat split; try exact I; try reflexivity; intro H; discriminate H.
  - eexists. vm_compute. repeat split; reflexivity.
Qed.

(* pack on a concrete vector: 64-bit items whose largest has 11 binary digits *)
Example C05_example_pack :
  exists v v', iv_from 64 [3; 1027; 0; 512] = Ok v /\ iv_pack v = Ok v' /\
               iwidth v' = 11 /\ abs_iv v' = [3; 1027; 0; 512] /\ rlen (idata v') = 44.
Proof. do 2 eexists. vm_compute. repeat split; reflexivity. Qed.
