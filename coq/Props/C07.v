(* C07 -- files follow the published serialization format (SERIALIZATION.md) in both directions.
   Only property theorems here: statement, [exact lemma], Print Assumptions.
   The document is formalised in Spec/Format.v (reader doc_valid_T / doc_content_T, writer doc_encode_T). *)
From Coq Require Import NArith List Bool.
Require Import SDS.Spec.BitSeq SDS.Spec.Utf8 SDS.Spec.Format SDS.Proofs.FormatProof.
Import ListNotations.
Open Scope N_scope.

(* ---- (a) the formalised document is consistent: what its writer produces, for every admissible writer-side
        choice, its reader accepts and decodes to the same content ---- *)

Theorem C07_doc_roundtrip_vec : forall items,
  lenN items < 2 ^ 64 -> Forall (fun x => x < 2 ^ 64) items ->
  doc_valid_vec (doc_encode_vec items) = true /\ doc_content_vec (doc_encode_vec items) = Some items.
Proof. exact roundtrip_vec. Qed.
Print Assumptions C07_doc_roundtrip_vec.
