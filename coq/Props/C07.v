(* C07 -- files follow the published serialization format (SERIALIZATION.md) in both directions.
   Only property theorems here: statement, [exact lemma], Print Assumptions.
   The document is formalised in Spec/Format.v, written from the document alone:
     doc_valid_T / doc_content_T   its reader (every MUST checked, then the logical content)
     doc_encode_T                  its writer, the writer-side freedoms being arguments.
   (a) C07_doc_roundtrip_T: the formalised document is consistent and decodable for every admissible choice.
   (b) C07_writes_conform_T: what the MODEL of the crate's serializers writes is accepted by the document's reader
       and decodes to the content of the value (all documented types; composites in Props/C07_sparse.v, C07_wm.v).
   (c) C07_reads_conform_T (Props/C07_read.v): the READ direction - the bytes of doc_encode_T c x, for every content x
       and every admissible writer choice c (no support structures, any low width, any sufficient width), are loaded
       by the model of the crate's `load` into a value that answers every query exactly. The correspondence run of
       Check/C07.v + harness/src/c07.rs feeds such files to the real `load`. *)
From Coq Require Import NArith List Bool.
Require Import SDS.Model.Mach SDS.Model.Raw SDS.Model.IntVec SDS.Model.BitVec SDS.Model.Ser SDS.Model.SerBV.
Require Import SDS.Model.Sparse SDS.Model.RL SDS.Model.WM.
Require Import SDS.Spec.BitSeq SDS.Spec.Utf8 SDS.Spec.Runs.
Require Import SDS.Proofs.RawProof SDS.Proofs.IntVecProof.
Require SDS.Spec.Format SDS.Proofs.FormatProof SDS.Proofs.FormatRL SDS.Proofs.FormatWM SDS.Proofs.FormatConform
        SDS.Proofs.FormatRLModel.
Import ListNotations.
Open Scope N_scope.
Module F := SDS.Spec.Format.

(* ================================================================== (a) the document codec round-trips *)

Theorem C07_doc_roundtrip_vec : forall items,
  F.lenN items < 2 ^ 64 -> Forall (fun x => x < 2 ^ 64) items ->
  F.doc_valid_vec (F.doc_encode_vec items) = true /\ F.doc_content_vec (F.doc_encode_vec items) = Some items.
Proof. exact FormatProof.roundtrip_vec. Qed.
Print Assumptions C07_doc_roundtrip_vec.

Theorem C07_doc_roundtrip_pairs : forall items,
  F.lenN items < 2 ^ 64 -> Forall (fun p : N * N => fst p < 2 ^ 64 /\ snd p < 2 ^ 64) items ->
  F.doc_valid_pairs (F.doc_encode_pairs items) = true /\ F.doc_content_pairs (F.doc_encode_pairs items) = Some items.
Proof. exact FormatProof.roundtrip_pairs. Qed.
Print Assumptions C07_doc_roundtrip_pairs.

(* byte vectors: any length, i.e. every padding 0..7 *)
Theorem C07_doc_roundtrip_bytes : forall bs,
  F.lenN bs < 2 ^ 64 -> Forall (fun b => b < 256) bs ->
  F.doc_valid_bytes (F.doc_encode_bytes bs) = true /\ F.doc_content_bytes (F.doc_encode_bytes bs) = Some bs.
Proof. exact FormatProof.roundtrip_bytes. Qed.
Print Assumptions C07_doc_roundtrip_bytes.

Theorem C07_doc_roundtrip_string : forall bs,
  F.lenN bs < 2 ^ 64 -> Forall (fun b => b < 256) bs -> sp_utf8 bs = true ->
  F.doc_valid_string (F.doc_encode_string bs) = true /\ F.doc_content_string (F.doc_encode_string bs) = Some bs.
Proof. exact FormatProof.roundtrip_string. Qed.
Print Assumptions C07_doc_roundtrip_string.

(* optional structures around ANY type T whose reader reads back T's own encoding f *)
Theorem C07_doc_roundtrip_opt_absent : forall (A : Type) (p : F.parser A),
  F.doc_valid_opt p (F.doc_encode_opt None) = true /\ F.doc_content_opt p (F.doc_encode_opt None) = Some None.
Proof. exact @FormatProof.roundtrip_opt_none. Qed.
Theorem C07_doc_roundtrip_opt_present : forall (A : Type) (p : F.parser A) f a,
  f <> [] -> F.lenN f < 2 ^ 64 -> F.file_ok f = true -> (forall rest, p (f ++ rest) = Some (a, rest)) ->
  F.doc_valid_opt p (F.doc_encode_opt (Some f)) = true /\ F.doc_content_opt p (F.doc_encode_opt (Some f)) = Some (Some a).
Proof. exact @FormatProof.roundtrip_opt_some. Qed.
Print Assumptions C07_doc_roundtrip_opt_absent.
Print Assumptions C07_doc_roundtrip_opt_present.

Theorem C07_doc_roundtrip_raw : forall B,
  F.lenN B < 2 ^ 64 ->
  F.doc_valid_raw (F.doc_encode_raw B) = true /\ F.doc_content_raw (F.doc_encode_raw B) = Some B.
Proof. exact FormatProof.roundtrip_raw. Qed.
Print Assumptions C07_doc_roundtrip_raw.

(* integer vectors: every width 1..64, items that fit *)
Theorem C07_doc_roundtrip_int : forall w items,
  1 <= w <= 64 -> F.lenN items * w < 2 ^ 64 -> Forall (fun v => v < 2 ^ w) items ->
  F.doc_valid_int (F.doc_encode_int w items) = true /\ F.doc_content_int (F.doc_encode_int w items) = Some (w, items).
Proof. exact FormatProof.roundtrip_int. Qed.
Print Assumptions C07_doc_roundtrip_int.

(* bitvectors: with ANY element vectors as the three optional support structures (absent = []) *)
Theorem C07_doc_roundtrip_bv : forall r s1 s0 B,
  F.lenN B < 2 ^ 64 -> F.lenN r < 2 ^ 64 -> F.lenN s1 < 2 ^ 64 -> F.lenN s0 < 2 ^ 64 ->
  Forall (fun x => x < 2 ^ 64) r -> Forall (fun x => x < 2 ^ 64) s1 -> Forall (fun x => x < 2 ^ 64) s0 ->
  F.doc_valid_bv (F.doc_encode_bv (r, s1, s0) B) = true /\ F.doc_content_bv (F.doc_encode_bv (r, s1, s0) B) = Some B.
Proof. exact FormatProof.roundtrip_bv. Qed.
Print Assumptions C07_doc_roundtrip_bv.

(* sparse bitvectors: EVERY low width 1..64 (the crate's rule picks one of them), any sorted positions below n *)
Theorem C07_doc_roundtrip_sparse : forall w n items,
  1 <= w <= 64 -> n < 2 ^ 64 -> F.sorted_le items = true -> Forall (fun x => x < n) items ->
  F.lenN items + F.doc_buckets n w < 2 ^ 64 -> F.lenN items * w < 2 ^ 64 ->
  F.doc_valid_sparse (F.doc_encode_sparse w (n, items)) = true /\
  F.doc_content_sparse (F.doc_encode_sparse w (n, items)) = Some (n, items).
Proof. exact FormatProof.roundtrip_sparse. Qed.
Print Assumptions C07_doc_roundtrip_sparse.

(* run-length bitvectors: any maximal runs inside the length (fewer than 2^55 of them: the code units of more
   runs would need a raw bitvector longer than an element can say). No writer-side freedom exists: this is the
   greedy packing into 64-unit blocks, the padding rule, the final block, the samples and their minimal width *)
Theorem C07_doc_roundtrip_rl : forall len runs,
  runs_maximal true 0 runs -> runs_end runs <= len -> len < 2 ^ 64 -> F.lenN runs < 2 ^ 55 ->
  F.doc_valid_rl (F.doc_encode_rl (len, runs)) = true /\ F.doc_content_rl (F.doc_encode_rl (len, runs)) = Some (len, runs).
Proof. exact FormatRL.roundtrip_rl. Qed.
Print Assumptions C07_doc_roundtrip_rl.

(* wavelet matrix cores: any width 1..64 that holds the items (the crate's constructor picks the minimal one);
   the reader's level mapping (rank_zero / count_zeros + rank) inverts the writer's stable partition by bit *)
Theorem C07_doc_roundtrip_wmcore : forall width items,
  1 <= width <= 64 -> F.lenN items < 2 ^ 64 -> Forall (fun v => v < 2 ^ width) items ->
  F.doc_valid_wmcore (F.doc_encode_wmcore (width, items)) = true /\
  F.doc_content_wmcore (F.doc_encode_wmcore (width, items)) = Some (width, items).
Proof. exact FormatWM.roundtrip_wmcore. Qed.
Print Assumptions C07_doc_roundtrip_wmcore.

(* plain wavelet matrices: first[] as the first occurrence in the reordered vector (len if absent) over the alphabet
   0..=max, minimally packed; the alphabet must fit one integer vector (max + 1 < 2^58) *)
Theorem C07_doc_roundtrip_wm : forall width items,
  1 <= width <= 64 -> F.lenN items < 2 ^ 64 -> Forall (fun v => v < 2 ^ width) items ->
  F.alphabet_size items * 64 < 2 ^ 64 ->
  F.doc_valid_wm (F.doc_encode_wm (width, items)) = true /\
  F.doc_content_wm (F.doc_encode_wm (width, items)) = Some (width, items).
Proof. exact FormatWM.roundtrip_wm. Qed.
Print Assumptions C07_doc_roundtrip_wm.

(* ================================================================== (b) the model's files conform *)

(* "A file is an array of elements, which are unsigned 64-bit little-endian integers": the bytes the model writes,
   cut into 8-byte little-endian elements, are the element list; that list is valid and has the value's content *)

Theorem C07_writes_conform_vec : forall l, c_wf vec_u64_codec l ->
  F.elems_of_bytes (c_enc vec_u64_codec l) = Some (lenN l :: l) /\
  F.doc_valid_vec (lenN l :: l) = true /\ F.doc_content_vec (lenN l :: l) = Some l.
Proof. exact FormatConform.conform_vec. Qed.
Print Assumptions C07_writes_conform_vec.

Theorem C07_writes_conform_pairs : forall l, c_wf vec_pair_codec l ->
  F.elems_of_bytes (c_enc vec_pair_codec l) = Some (F.doc_encode_pairs l) /\
  F.doc_valid_pairs (F.doc_encode_pairs l) = true /\ F.doc_content_pairs (F.doc_encode_pairs l) = Some l.
Proof. exact FormatConform.conform_pairs. Qed.
Print Assumptions C07_writes_conform_pairs.

(* Vec<u8>: the padding the model writes is the document's 0..7 zero bytes *)
Theorem C07_writes_conform_bytes : forall m l, c_wf (bytes_codec m) l ->
  F.elems_of_bytes (c_enc (bytes_codec m) l) = Some (F.doc_encode_bytes l) /\
  F.doc_valid_bytes (F.doc_encode_bytes l) = true /\ F.doc_content_bytes (F.doc_encode_bytes l) = Some l.
Proof. exact FormatConform.conform_bytes. Qed.
Print Assumptions C07_writes_conform_bytes.

(* Option<V> around ANY type with an element-level serializer [ser] that the document's reader of V reads back;
   instance below: Option<IntVector> *)
Theorem C07_writes_conform_opt : forall (A B : Type) (c : codec A) (ser : A -> list N) (p : F.parser B) (content : A -> B) (o : option A),
  (forall x, c_enc c x = flat_map Stream.le64 (ser x)) ->
  (forall x, c_wf c x -> lenN (ser x) = c_size c x /\ F.file_ok (ser x) = true /\
                         (forall rest, p (ser x ++ rest) = Some (content x, rest))) ->
  c_wf (option_codec c) o ->
  F.elems_of_bytes (c_enc (option_codec c) o) = Some (F.doc_encode_opt (option_map ser o)) /\
  F.doc_valid_opt p (F.doc_encode_opt (option_map ser o)) = true /\
  F.doc_content_opt p (F.doc_encode_opt (option_map ser o)) = Some (option_map content o).
Proof. exact @FormatConform.conform_opt. Qed.
Print Assumptions C07_writes_conform_opt.

Theorem C07_writes_conform_opt_int : forall m (o : option intvec),
  c_wf (option_codec (iv_codec m)) o -> (forall v, o = Some v -> iv_inv v) ->
  F.elems_of_bytes (c_enc (option_codec (iv_codec m)) o) = Some (F.doc_encode_opt (option_map iv_serialize o)) /\
  F.doc_valid_opt F.p_int (F.doc_encode_opt (option_map iv_serialize o)) = true /\
  F.doc_content_opt F.p_int (F.doc_encode_opt (option_map iv_serialize o)) = Some (option_map abs_is o).
Proof. exact FormatConform.conform_opt_int. Qed.
Print Assumptions C07_writes_conform_opt_int.

(* RawVector: raw_inv (exact word count, unused bits zero: maintained by every operation, Proofs/RawProof.v) *)
Theorem C07_writes_conform_raw : forall m r, raw_ok r -> raw_inv r ->
  F.elems_of_bytes (c_enc (raw_codec m) r) = Some (raw_serialize r) /\
  F.doc_valid_raw (raw_serialize r) = true /\ F.doc_content_raw (raw_serialize r) = Some (abs_raw r).
Proof. exact FormatConform.conform_raw. Qed.
Print Assumptions C07_writes_conform_raw.

Theorem C07_writes_conform_int : forall m v, iv_ok v -> iv_inv v ->
  F.elems_of_bytes (c_enc (iv_codec m) v) = Some (iv_serialize v) /\
  F.doc_valid_int (iv_serialize v) = true /\ F.doc_content_int (iv_serialize v) = Some (iwidth v, abs_iv v).
Proof. exact FormatConform.conform_int. Qed.
Print Assumptions C07_writes_conform_int.

(* BitVector with ANY subset of its three support structures (bv_ok lets each be present or absent) *)
Theorem C07_writes_conform_bv : forall m b,
  bv_ok b -> raw_inv (bv_data b) -> bv_ones b = count (abs_raw (bv_data b)) ->
  F.elems_of_bytes (c_enc (bv_codec m) b) = Some (bv_serialize b) /\
  F.doc_valid_bv (bv_serialize b) = true /\ F.doc_content_bv (bv_serialize b) = Some (abs_raw (bv_data b)).
Proof. exact FormatConform.conform_bv. Qed.
Print Assumptions C07_writes_conform_bv.

(* RLVector (the model of C03): for every list R of runs of set bits (sorted, non-overlapping, adjacency allowed,
   fewer than 2^55 of them), every length L with end(R) <= L <= 2^64-1, both modes, the vector that RLBuilder +
   RLVector::from construct serializes to bytes that are the little-endian elements of [rl_serialize v], and that
   element list is a valid run-length document (every MUST of the section: code units, whole maximal runs per
   64-unit block, GREEDY filling - a block is closed only when the next run does not fit -, zero padding and none
   in the final block, one sample (ones, bits) per block with the documented meaning, minimal sample width, data
   width 4) whose content is (L, the maximal runs of R). *)
Theorem C07_writes_conform_rl : forall (m : mode) (R : list (N * N)) (L : N),
  runs_sorted 0 R -> runs_end R <= L -> L <= 2 ^ 64 - 1 -> lenN R < 2 ^ 55 ->
  exists v,
    rl_build m (map (fun r => BTrySet (fst r) (snd r)) R ++ [BSetLen L]) = Ok (v, map (fun _ => true) R ++ [true]) /\
    F.elems_of_bytes (c_enc (rl_codec m) v) = Some (rl_serialize v) /\
    F.doc_valid_rl (rl_serialize v) = true /\ F.doc_content_rl (rl_serialize v) = Some (L, maximal R).
Proof. exact FormatRLModel.rl_conform_bytes. Qed.
Print Assumptions C07_writes_conform_rl.

(* composite types, over the (early) models of their constructors: stated, not proved in this round *)
(* SparseVector: proved, see C07_writes_conform_sparse / C07_writes_conform_sparse_multiset in Props/C07_sparse.v *)
(* RLVector: proved, see C07_writes_conform_rl above *)
(* WMCore / WaveletMatrix: proved, see C07_writes_conform_wmcore / C07_writes_conform_wm in Props/C07_wm.v *)

(* the read direction over the models of the loaders (a file produced from the document alone loads and answers every
   query): proved for every documented type, see C07_reads_conform_* in Props/C07_read.v *)

(* ================================================================== non-vacuity / instances *)

(* a sparse vector whose universe is a multiple of the bucket size: exactly n / 2^w buckets *)
Example C07_sparse_instance :
  F.doc_encode_sparse 2 (16, [1; 5; 6; 15]) = [16; 4; 8; 1; 77; 0; 0; 0; 4; 2; 8; 1; 229] /\
  F.doc_content_sparse [16; 4; 8; 1; 77; 0; 0; 0; 4; 2; 8; 1; 229] = Some (16, [1; 5; 6; 15]) /\
  (* one more bucket than the document allows *)
  F.doc_valid_sparse [16; 4; 9; 1; 77; 0; 0; 0; 4; 2; 8; 1; 229] = false /\
  (* a set unused bit, a wrong word count, a width outside 1..64, non-zero padding, a wrong number of set bits *)
  F.doc_valid_raw [3; 1; 15] = false /\ F.doc_valid_raw [3; 2; 7; 0] = false /\
  F.doc_valid_int [2; 0; 0; 0] = false /\ F.doc_valid_bytes [3; 16777216] = false /\
  F.doc_valid_bv [2; 3; 1; 7; 0; 0; 0] = false.
Proof. vm_compute. repeat split. Qed.

(* instances with several blocks, padding, a full final block, missing values; the stated conformance of the early
   composite models holds on instances *)
Example C07_rl_instances :
  let many := map (fun i => (3 * i + 1, 2)) (F.nrange 100 0) in
  let long := [(0, 1); (5, 1000000); (2 ^ 40, 2 ^ 33); (2 ^ 50, 7)] in
  F.doc_content_rl (F.doc_encode_rl (1000, many)) = Some (1000, many) /\
  F.doc_valid_rl (F.doc_encode_rl (1000, many)) = true /\
  F.doc_content_rl (F.doc_encode_rl (2 ^ 60, long)) = Some (2 ^ 60, long) /\
  F.doc_content_rl (F.doc_encode_rl (0, [])) = Some (0, []) /\
  (* 32 one-unit runs fill a block exactly *)
  F.doc_content_rl (F.doc_encode_rl (200, map (fun i => (3 * i + 1, 2)) (F.nrange 32 0)))
    = Some (200, map (fun i => (3 * i + 1, 2)) (F.nrange 32 0)) /\
  (* padding in the final block is rejected: the file of runs [(1,2)] with a 0 unit appended *)
  F.doc_valid_rl [10; 2; 2; 1; 2; 1; 0; 2; 4; 8; 1; 17] = true /\
  F.doc_valid_rl [10; 2; 2; 1; 2; 1; 0; 3; 4; 12; 1; 17] = false.
Proof. vm_compute. repeat split. Qed.

Example C07_wm_instances :
  F.doc_content_wm (F.doc_encode_wm (3, [1; 5; 0; 7; 1; 3])) = Some (3, [1; 5; 0; 7; 1; 3]) /\
  F.doc_valid_wm (F.doc_encode_wm (3, [1; 5; 0; 7; 1; 3])) = true /\
  F.doc_content_wm (F.doc_encode_wm (5, [1; 5; 0; 7; 1; 3])) = Some (5, [1; 5; 0; 7; 1; 3]) /\
  F.doc_content_wm (F.doc_encode_wm (1, [])) = Some (1, []) /\
  F.doc_content_wmcore (F.doc_encode_wmcore (64, [2 ^ 63; 5; 0])) = Some (64, [2 ^ 63; 5; 0]).
Proof. vm_compute. repeat split. Qed.

Example C07_model_instances :
  (match sv_build_set Pdep Debug 2 16 [1; 5; 6; 15] with
   | Ok (inl sv) => F.doc_valid_sparse (sv_serialize sv) && F.is_some (F.doc_content_sparse (sv_serialize sv))
   | _ => false end) = true /\
  (match rl_build Debug [BTrySet 0 1; BTrySet 5 10; BTrySet 20 30; BSetLen 100] with
   | Ok (v, _) => F.doc_valid_rl (rl_serialize v) | _ => false end) = true /\
  (match wm_from Pdep Debug [1; 5; 0; 7; 1; 3] with
   | Ok w => F.doc_valid_wm (wm_serialize w) | _ => false end) = true.
Proof. vm_compute. repeat split. Qed.
