(* C10 for the sparse vector: its three iterator types are double-ended / forward deques over their reference
   sequences. Only property theorems here: statement, [exact lemma], Print Assumptions, non-vacuity Examples.

   Reading guide.
   * [sv_ok sp md sv n w Vs H] (Proofs/SparseProof.v; also used by C02_queries_of_representation): the vector sv
     represents the non-decreasing value list Vs in the universe [0, n) with low width w: n < 2^64, 1 <= w <= 63,
     sv.len = n, the bit list H is the unary bucket code of Vs, sv.high answers get / select / select_zero as H,
     sv.low holds the low parts. C10_sparse_built: SparseBuilder::new / ::multiset + try_set + try_from produce
     such a vector for every admissible input (sets and multisets, every width the f64 rule can give, both
     in-word select paths [sp], overflow checks on and off [md]), with no hypothesis left about the embedded
     bitvector.
   * the step functions [sp_oi_step], [sp_bi_step], [sp_zi_step] (Model/SparseIters.v): next / next_back / size_hint
     are the crate's code (Model/Sparse.v), nth / nth_back the std defaults (advance_by + next) over them; the
     entry points [sp_oi_entry] / [sp_zi_entry]: one_iter, select_iter r, predecessor x, successor x / zero_iter,
     select_zero_iter r.
   * [ref_of (SSparse n Vs) e] (Spec/IterRefs.v): the reference sequence of entry point e, computed naively from
     (n, Vs) - the membership bits; the (index, value) pairs from index 0 / r / the LAST value <= x / the FIRST
     value >= x on; the unset positions of the membership bits with their ranks, from rank 0 / r on. The same
     function is the specification side of the correspondence check.
   * [dq_run l cs] (Spec/Deque.v): the outputs of a double-ended queue holding l under the call sequence cs
     (Next, NextBack, Nth k, NthBack k, Len); [it_run step s cs]: the model's outputs, [Ok] = every call returned.
   The calls range over ALL finite sequences and all arguments k in N (so in particular k >= the number of items left
   and k = 2^64 - 1): no panic, no exhausted fuel, exact lengths, and an exhausted iterator stays exhausted. *)
From Coq Require Import NArith List Bool.
Require Import SDS.Model.Mach SDS.Model.Bits SDS.Model.Raw SDS.Model.IntVec SDS.Model.BitVec SDS.Model.Iters.
Require Import SDS.Spec.BitSeq SDS.Spec.ValSeq SDS.Spec.Deque SDS.Spec.IterRefs.
Require Import SDS.Model.Sparse SDS.Model.SparseIters.
Require Import SDS.Proofs.BVCommon SDS.Proofs.SparseSeq SDS.Proofs.SparseProof SDS.Proofs.SparseBuild.
Require Import SDS.Proofs.SparseDeque SDS.Proofs.SparseRefs.
Import ListNotations.
Open Scope N_scope.

(* the vectors the theorems below are about exist: what the two builders return *)
Theorem C10_sparse_built : forall (sp : selpath) (md : mode) (w' n : N) (Vs : list N),
  n < 2 ^ 64 -> 1 <= w' <= 63 -> all_below n Vs = true ->
  lenN Vs + buckets_of n (eff_width w' n (lenN Vs)) < 2 ^ 64 ->
  (increasing Vs = true ->
     exists sv H, sv_build_set sp md w' n Vs = Ok (inl sv) /\ sv_ok sp md sv n (eff_width w' n (lenN Vs)) Vs H) /\
  (nondecreasing Vs = true ->
     exists sv H, sv_build_multiset sp md w' n Vs = Ok (inl sv) /\ sv_ok sp md sv n (eff_width w' n (lenN Vs)) Vs H).
Proof. exact sparse_built_ok. Qed.
Print Assumptions C10_sparse_built.

(* sparse_vector::OneIter (double-ended, exact size) from one_iter() / select_iter(r) / predecessor(x) /
   successor(x), sets and multisets, EVERY r and x: the entry point returns an iterator and every finite
   interleaving of next / next_back / nth(k) / nth_back(k) / len on it yields the deque's outputs over the reference *)
Theorem C10_sparse_one_iter : forall sp md sv n w Vs H (e : entry) (l : list (N * N)) (cs : list call),
  sv_ok sp md sv n w Vs H -> ref_of (SSparse n Vs) e = Some l ->
  match sp_oi_entry sp md sv e with
  | Some start => exists s s', start = Ok s /\ it_run (sp_oi_step md sv) s cs = Ok (s', snd (dq_run l cs))
  | None => True
  end.
Proof. intros sp md sv n w Vs H e l cs Hok. exact (sparse_one_iter_deque sp md sv n w Vs H Hok e l cs). Qed.
Print Assumptions C10_sparse_one_iter.

(* sparse_vector::Iter (double-ended, exact size) from iter(), sets and multisets (duplicates are skipped from both
   ends): the membership bits of the universe; [ref_of (SSparse n Vs) EIter] is that list with each bit b as (0, b) *)
Theorem C10_sparse_iter : forall sp md sv n w Vs H (cs : list call),
  sv_ok sp md sv n w Vs H ->
  ref_of (SSparse n Vs) EIter = Some (map enc_bool (mem_bits n Vs)) /\
  exists s s', sv_iter_new md sv = Ok s /\ it_run (sp_bi_step md sv) s cs = Ok (s', snd (dq_run (mem_bits n Vs) cs)).
Proof. intros sp md sv n w Vs H cs Hok. exact (sparse_iter_deque sp md sv n w Vs H Hok cs). Qed.
Print Assumptions C10_sparse_iter.

(* sparse_vector::ZeroIter (forward only, exact size) from zero_iter() / select_zero_iter(r), sets (strictly
   increasing values; the API documents it as unsupported for multisets), EVERY r: every finite sequence of
   next / nth(k) / len yields the deque's outputs over the ranked unset positions *)
Theorem C10_sparse_zero_iter : forall sp md sv n w Vs H (e : entry) (l : list (N * N)) (cs : list call),
  sv_ok sp md sv n w Vs H -> increasing Vs = true -> all_below n Vs = true ->
  ref_of (SSparse n Vs) e = Some l -> Forall call_fwd cs ->
  match sp_zi_entry sp md sv e with
  | Some start => exists s s', start = Ok s /\ it_run (sp_zi_step md sv) s cs = Ok (s', snd (dq_run l cs))
  | None => True
  end.
Proof. intros sp md sv n w Vs H e l cs Hok. exact (sparse_zero_iter_deque sp md sv n w Vs H Hok e l cs). Qed.
Print Assumptions C10_sparse_zero_iter.

(* ---- non-vacuity: universe 12, values 2 3 3 6 9 (a multiset) and 2 3 6 9 (a set), width 1 ---- *)
Example C10_sparse_example :
  (let* sv := unwrap_sum (sv_build_multiset Pdep Debug 1 12 [2; 3; 3; 6; 9]) in
   let* it := sv_predecessor Pdep Debug sv 3 in
   let* (_, a) := it_run (sp_oi_step Debug sv) it [Len; NthBack 1; Next; Nth 5; Len] in
   let* s := sv_iter_new Debug sv in
   let* (_, b) := it_run (sp_bi_step Debug sv) s [Nth 2; NextBack; NthBack 1; Len; Nth (2 ^ 64 - 1); Len] in
   Ok (a, b))
  = Ok ([Count 3; Item (Some (3, 6)); Item (Some (2, 3)); Item None; Count 0],
        [Item (Some true); Item (Some false); Item (Some true); Count 6; Item None; Count 0]) /\
  (let* sv := unwrap_sum (sv_build_set Pdep Debug 1 12 [2; 3; 6; 9]) in
   let* z := sv_select_zero_iter Pdep Debug sv 3 in
   let* (_, c) := it_run (sp_zi_step Debug sv) z [Len; Next; Nth 1; Nth 5; Len] in Ok c)
  = Ok [Count 5; Item (Some (3, 5)); Item (Some (5, 8)); Item None; Count 0] /\
  ref_of (SSparse 12 [2; 3; 3; 6; 9]) (EPred 3) = Some [(2, 3); (3, 6); (4, 9)] /\
  snd (dq_run [(2, 3); (3, 6); (4, 9)] [Len; NthBack 1; Next; Nth 5; Len]) =
    [Count 3; Item (Some (3, 6)); Item (Some (2, 3)); Item None; Count 0] /\
  ref_of (SSparse 12 [2; 3; 6; 9]) (ESelectZero 3) = Some [(3, 5); (4, 7); (5, 8); (6, 10); (7, 11)].
Proof. vm_compute. repeat split; reflexivity. Qed.
