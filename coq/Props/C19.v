(* C19 -- support structures are optional, rebuildable and never change answers.
   Only property theorems here: statement, [exact lemma], Print Assumptions, non-vacuity examples.
   Vocabulary (Model/BitVec.v, Model/Ser.v): bv_enable_all builds rank, select and select_zero supports in turn;
   bv_restrict s bf keeps the supports named by the 3-bit set s (bit 0 rank, 1 select, 2 select_zero);
   bv_supports reads the supports_* flags back; bv_enable_op 0/1/2 is enable_rank / enable_select /
   enable_select_zero; ops_flags ops s is s with the bits of ops added. sp = which bits::select the build uses,
   m = build mode; theorems hold for all four combinations. *)
From Coq Require Import NArith List Bool.
Require Import SDS.Model.Mach SDS.Model.Bits SDS.Model.Raw SDS.Model.IntVec SDS.Model.BitVec SDS.Model.Ser.
Require Import SDS.gen.Consts SDS.Spec.Stream SDS.Proofs.SerProof SDS.Proofs.SerTypes SDS.Proofs.SerSupports SDS.Proofs.SerRank SDS.Proofs.SerMain.
Import ListNotations.
Open Scope list_scope.
Open Scope N_scope.

(* The full statement. b0: any bitvector without supports; bf: the same with all three built. *)
Definition C19_supports_statement : Prop :=
  forall sp m b0 bf, no_supports b0 -> raw_ok (bv_data b0) -> bv_ones b0 <= rlen (bv_data b0) ->
  rlen (bv_data b0) + select_SUPERBLOCK_SIZE < 2 ^ 64 ->
  bv_enable_all sp m b0 = Ok bf ->
  forall s, s < 8 ->
  (* written with exactly the supports in s, it loads as exactly that *)
  (forall rest, c_dec (bv_codec m) (c_enc (bv_codec m) (bv_restrict s bf) ++ rest) = IoOk (bv_restrict s bf, rest)) /\
  bv_supports (bv_restrict s bf) = s /\
  (* enabling, in any order and with any repeats: the flags accumulate, the bits never change, and once all
     three are present the value IS the fully enabled original (hence identical bytes and answers) *)
  (forall ops, Forall (fun op => op < 3) ops ->
     exists b', bv_enable_ops sp m ops (bv_restrict s bf) = Ok b' /\
                bv_supports b' = ops_flags ops s /\ same_core b' bf /\
                (ops_flags ops s = 7 -> b' = bf)).

(* Proved under ONE extra hypothesis, select_supports_ok bf: the two select supports built by SelectSupport::new
   pass the loader's checks (three well-formed integer vectors, superblocks = long + short, and the superblock
   count BitVector::load insists on). That is the superblock-count invariant of the select builder, which belongs
   to the C01 select proofs and is not re-proved here; the correspondence run exercises it on every generated
   vector (every load of a built vector succeeds). The rank half IS proved from the builder (rank_new_ok). *)
Check (eq_refl : select_supports_ok = fun bf =>
  match bv_select bf with None => True
  | Some v => ss_ok v /\ ss_superblocks v = ceil_div (bv_ones bf) select_SUPERBLOCK_SIZE end /\
  match bv_select_zero bf with None => True
  | Some v => ss_ok v /\ ss_superblocks v = ceil_div (rlen (bv_data bf) - bv_ones bf) select_SUPERBLOCK_SIZE end).

Theorem C19_supports_partial :
  forall sp m b0 bf, no_supports b0 -> raw_ok (bv_data b0) -> bv_ones b0 <= rlen (bv_data b0) ->
  rlen (bv_data b0) + select_SUPERBLOCK_SIZE < 2 ^ 64 ->
  bv_enable_all sp m b0 = Ok bf ->
  select_supports_ok bf ->
  forall s, s < 8 ->
  (forall rest, c_dec (bv_codec m) (c_enc (bv_codec m) (bv_restrict s bf) ++ rest) = IoOk (bv_restrict s bf, rest)) /\
  bv_supports (bv_restrict s bf) = s /\
  (forall ops, Forall (fun op => op < 3) ops ->
     exists b', bv_enable_ops sp m ops (bv_restrict s bf) = Ok b' /\
                bv_supports b' = ops_flags ops s /\ same_core b' bf /\
                (ops_flags ops s = 7 -> b' = bf)).
Proof.
  intros sp m b0 bf H0 Hraw Ho Hl E Hsel s Hs.
  pose proof (built_bv_ok sp m b0 bf H0 Hraw Ho Hl E Hsel) as W.
  split; [|split].
  - intros rest. exact (proj1 (supports_roundtrip sp m b0 bf s rest H0 E W Hs)).
  - exact (proj2 (supports_roundtrip sp m b0 bf s [] H0 E W Hs)).
  - intros ops Hops. exact (supports_rebuild sp m b0 bf s ops H0 E Hs Hops).
Qed.
(* the rank support the builder produces always passes the loader's checks *)
Theorem C19_rank_support_loadable :
  forall b rs, raw_ok (bv_data b) -> rlen (bv_data b) + 512 < 2 ^ 64 -> rank_new b = Ok rs ->
  rs_ok rs /\ rs_blocks rs = ceil_div (rlen (bv_data b)) rank_BLOCK_SIZE.
Proof. exact rank_new_ok. Qed.
Print Assumptions C19_rank_support_loadable.
Print Assumptions C19_supports_partial.

(* the rebuilding half needs no hypothesis at all *)
Theorem C19_rebuild :
  forall sp m b0 bf s ops, no_supports b0 -> bv_enable_all sp m b0 = Ok bf -> s < 8 -> Forall (fun op => op < 3) ops ->
  exists b', bv_enable_ops sp m ops (bv_restrict s bf) = Ok b' /\
             bv_supports b' = ops_flags ops s /\ same_core b' bf /\
             (ops_flags ops s = 7 -> b' = bf).
Proof. exact supports_rebuild. Qed.
Print Assumptions C19_rebuild.

(* serialize/load round trips interleaved with the enabling: any vector that has some of bf's supports *)
Theorem C19_roundtrip_interleaved :
  forall sp m b0 bf b rest, no_supports b0 -> bv_enable_all sp m b0 = Ok bf -> bv_ok bf -> sub_of b bf ->
  c_dec (bv_codec m) (c_enc (bv_codec m) b ++ rest) = IoOk (b, rest).
Proof. exact supports_roundtrip_sub. Qed.
Print Assumptions C19_roundtrip_interleaved.

(* enable_* of a support that is present changes nothing *)
Theorem C19_enable_idempotent :
  forall sp m op b, op < 3 -> N.testbit (bv_supports b) op = true -> bv_enable_op sp m op b = Ok b.
Proof. exact enable_op_idem. Qed.
(* any two enable_* calls commute *)
Theorem C19_enable_commute :
  forall sp m b0 bf b op1 op2, no_supports b0 -> bv_enable_all sp m b0 = Ok bf -> sub_of b bf -> op1 < 3 -> op2 < 3 ->
  exists b', bv_enable_ops sp m [op1; op2] b = Ok b' /\ bv_enable_ops sp m [op2; op1] b = Ok b'.
Proof. exact enable_commute. Qed.
(* each enable_* writes only its own field ... *)
Theorem C19_enable_writes_own_field :
  forall sp m op b b', op < 3 -> bv_enable_op sp m op b = Ok b' ->
  bv_ones b' = bv_ones b /\ bv_data b' = bv_data b /\
  (op <> 0 -> bv_rank b' = bv_rank b) /\ (op <> 1 -> bv_select b' = bv_select b) /\
  (op <> 2 -> bv_select_zero b' = bv_select_zero b).
Proof. exact enable_writes_own_field. Qed.
(* ... and what it builds is a function of the bits (data and their count) alone *)
Theorem C19_builders_read_bits_only :
  forall sp m b b', bv_ones b = bv_ones b' -> bv_data b = bv_data b' ->
  rank_new b = rank_new b' /\ (forall t, select_new sp m t b = select_new sp m t b').
Proof. exact builders_read_bits_only. Qed.
Print Assumptions C19_enable_idempotent.
Print Assumptions C19_enable_commute.
Print Assumptions C19_enable_writes_own_field.
Print Assumptions C19_builders_read_bits_only.

(* no state reachable by enabling / round trips changes the bits or any answer: a vector with some of bf's
   supports answers get always, and rank / select / select_zero whenever it has the support, exactly as bf does *)
Theorem C19_answers_neutral :
  forall sp m b bf, sub_of b bf ->
  bv_len b = bv_len bf /\ bv_count_ones b = bv_count_ones bf /\
  (forall i, bv_get b i = bv_get bf i) /\
  (bv_rank b <> None -> forall i, bv_rank_q b i = bv_rank_q bf i) /\
  (bv_select b <> None -> forall r, bv_select_t sp m Identity b r = bv_select_t sp m Identity bf r) /\
  (bv_select_zero b <> None -> forall r, bv_select_t sp m Complement b r = bv_select_t sp m Complement bf r).
Proof. exact answers_neutral. Qed.
Print Assumptions C19_answers_neutral.

(* skipping an optional structure moves the reader exactly past it, whatever it contains
   (any correct codec: also the composite structures once they are added) *)
Theorem C19_skip_option : forall A (c : codec A) m (o : option A) (rest : list byte),
  codec_ok c ->
  match o with None => True | Some x => c_wf c x /\ 0 < c_size c x < 2 ^ 61 end ->
  skip_option m (c_enc (option_codec c) o ++ rest) = IoOk (tt, rest).
Proof. exact @skip_option_app. Qed.
(* absent_option writes what an absent optional of any type is, and skipping it works *)
Theorem C19_absent_option : forall A (c : codec A) m rest,
  absent_option_enc = c_enc (option_codec c) None /\ lenN absent_option_enc = 8 * absent_option_size /\
  skip_option m (absent_option_enc ++ rest) = IoOk (tt, rest).
Proof.
  intros A c m rest. split; [reflexivity|]. split; [reflexivity|].
  exact (skip_option_app u64_codec m None rest u64_codec_ok I).
Qed.
Print Assumptions C19_skip_option.
Print Assumptions C19_absent_option.

(* NOT in this round (see "partial" in tools/props.d/C19.json): SparseVector / WMCore / WaveletMatrix decoded
   from files whose embedded bitvectors carry no supports. *)

(* ---------------------------------------------------------------- non-vacuity *)

Definition ex_words : list N := [6148914691236517205; 1; 0; 18446744073709551615; 12297829382473034410; 7; 0; 0; 255; 9223372036854775808; 1152921504606846975].
Definition ex_b0 : bitvec := bv_from_raw (mkraw 700 ex_words).
Definition ex_bf : bitvec := match bv_enable_all Pdep Debug ex_b0 with Ok b => b | _ => ex_b0 end.
Example ex_built : no_supports ex_b0 /\ bv_enable_all Pdep Debug ex_b0 = Ok ex_bf /\ bv_supports ex_bf = 7.
Proof. split; [repeat split|]. split; vm_compute; reflexivity. Qed.
Example ex_hyps : raw_ok (bv_data ex_b0) /\ bv_ones ex_b0 <= rlen (bv_data ex_b0) /\ select_supports_ok ex_bf.
Proof.
  split; [|split].
  - unfold raw_ok. cbn [ex_b0 bv_from_raw bv_data rlen rdata]. split; [vm_compute; reflexivity|].
    split; [vm_compute; reflexivity|]. unfold ex_words. repeat (constructor; [vm_compute; reflexivity|]). constructor.
  - vm_compute. intros X. discriminate X.
  - let v := eval vm_compute in ex_bf in change ex_bf with v.
    unfold select_supports_ok, ss_ok, iv_ok, raw_ok. cbn [bv_ones bv_data bv_rank bv_select bv_select_zero rlen rdata].
    repeat match goal with
           | |- _ /\ _ => split
           | |- Forall _ _ => constructor
           end; vm_compute; first [reflexivity | discriminate | (let X := fresh in intro X; discriminate X)].
Qed.
(* written with {rank, select_zero}; enabling select, then rank again, gives the fully enabled vector *)
Example ex_rebuild : bv_enable_ops Pdep Debug [1; 0] (bv_restrict 5 ex_bf) = Ok ex_bf.
Proof. vm_compute. reflexivity. Qed.
Example ex_skip : skip_option Debug (c_enc (option_codec (raw_codec Debug)) (Some (mkraw 70 [5; 3])) ++ le64 99) = IoOk (tt, le64 99).
Proof. vm_compute. reflexivity. Qed.
