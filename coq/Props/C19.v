(* C19 -- support structures are optional, rebuildable and never change answers.
   Only property theorems here: statement, [exact lemma], Print Assumptions, non-vacuity examples.
   Vocabulary (Model/BitVec.v, Model/Ser.v): bv_enable_all builds rank, select and select_zero supports in turn;
   bv_restrict s bf keeps the supports named by the 3-bit set s (bit 0 rank, 1 select, 2 select_zero);
   bv_supports reads the supports_* flags back; bv_enable_op 0/1/2 is enable_rank / enable_select /
   enable_select_zero; ops_flags ops s is s with the bits of ops added. sp = which bits::select the build uses,
   m = build mode; theorems hold for all four combinations. bv_repr b B (Proofs/BVCommon.v): the record b stores
   the bit sequence B; sub_of w bf: w has the bits of bf and some (possibly none) of its supports; bv_strip b: b
   without supports. *)
From Coq Require Import NArith List Bool.
Require Import SDS.Model.Mach SDS.Model.Bits SDS.Model.Raw SDS.Model.IntVec SDS.Model.BitVec SDS.Model.Ser.
Require Import SDS.Model.WM SDS.Model.Sparse SDS.Model.SerComposite.
Require Import SDS.gen.Consts SDS.Spec.Stream SDS.Spec.BitSeq SDS.Proofs.BVCommon SDS.Proofs.BVFull.
Require Import SDS.Proofs.SerProof SDS.Proofs.SerTypes SDS.Proofs.SerSupports SDS.Proofs.SerRank SDS.Proofs.SerMain.
Require Import SDS.Proofs.SerSelect SDS.Proofs.SerComposite.
Import ListNotations.
Open Scope list_scope.
Open Scope N_scope.

(* The plain bitvector, unconditionally. B: any bit sequence (shorter than 2^64 - 4096 bits: the loader's
   div_round_up must not overflow); b0: any record that represents B (bv_repr: the words, the zero padding and the
   cached count of ones are those of B -- what every constructor of the crate produces, BVFull.build_route_irrelevant)
   and carries no support. Then enabling everything succeeds, and for the result bf and every subset s:
   the restriction loads as exactly itself; the flags are exactly s; enabling in any order with any repeats
   accumulates the flags, never changes the bits, and once all three are present the value IS bf (hence identical
   bytes and answers). The select half rests on the builder's superblock-count invariant
   (SelectProof.select_new_counts -> SerSelect.select_new_loadable), the rank half on SerRank.rank_new_ok. *)
Theorem C19_supports :
  forall sp m (B : list bool) b0,
  lenB B + select_SUPERBLOCK_SIZE < 2 ^ 64 -> bv_repr b0 B -> no_supports b0 ->
  exists bf, bv_enable_all sp m b0 = Ok bf /\ bv_repr bf B /\
  forall s, s < 8 ->
  (* written with exactly the supports in s, it loads as exactly that *)
  (forall rest, c_dec (bv_codec m) (c_enc (bv_codec m) (bv_restrict s bf) ++ rest) = IoOk (bv_restrict s bf, rest)) /\
  bv_supports (bv_restrict s bf) = s /\
  (forall ops, Forall (fun op => op < 3) ops ->
     exists b', bv_enable_ops sp m ops (bv_restrict s bf) = Ok b' /\
                bv_supports b' = ops_flags ops s /\ same_core b' bf /\
                (ops_flags ops s = 7 -> b' = bf)).
Proof. exact supports_full. Qed.
Print Assumptions C19_supports.

(* what SelectSupport::new builds passes every check of SelectSupport::load (three loadable integer vectors,
   superblocks = long_superblocks + short_superblocks in the rounded-up arithmetic of the crate) and has the
   superblock count BitVector::load insists on; t = Identity (select) or Complement (select_zero) *)
Check (eq_refl : ss_ok = fun s =>
  iv_ok (ss_samples s) /\ iv_ok (ss_long s) /\ iv_ok (ss_short s) /\
  ilen (ss_long s) + select_SUPERBLOCK_SIZE < 2 ^ 64 /\ ilen (ss_short s) + select_BLOCKS_IN_SUPERBLOCK < 2 ^ 64 /\
  ss_superblocks s = ss_long_superblocks s + ss_short_superblocks s).
Theorem C19_select_support_loadable :
  forall sp m t b B s, bv_repr b B -> lenB B + 4096 < 2 ^ 64 -> select_new sp m t b = Ok s ->
  ss_ok s /\ ss_superblocks s = ceil_div (t_count_ones t b) select_SUPERBLOCK_SIZE.
Proof. exact select_new_loadable. Qed.
Print Assumptions C19_select_support_loadable.

(* the rank support the builder produces always passes the loader's checks *)
Theorem C19_rank_support_loadable :
  forall b rs, raw_ok (bv_data b) -> rlen (bv_data b) + 512 < 2 ^ 64 -> rank_new b = Ok rs ->
  rs_ok rs /\ rs_blocks rs = ceil_div (rlen (bv_data b)) rank_BLOCK_SIZE.
Proof. exact rank_new_ok. Qed.
Print Assumptions C19_rank_support_loadable.

(* the rebuilding half needs no hypothesis at all *)
Theorem C19_rebuild :
  forall sp m b0 bf s ops, no_supports b0 -> bv_enable_all sp m b0 = Ok bf -> s < 8 -> Forall (fun op => op < 3) ops ->
  exists b', bv_enable_ops sp m ops (bv_restrict s bf) = Ok b' /\
             bv_supports b' = ops_flags ops s /\ same_core b' bf /\
             (ops_flags ops s = 7 -> b' = bf).
Proof. exact supports_rebuild. Qed.
Print Assumptions C19_rebuild.

(* serialize/load round trips interleaved with the enabling: any vector that has some of bf's supports *)
Theorem C19_roundtrip_interleaved :
  forall sp m b0 bf b rest, no_supports b0 -> bv_enable_all sp m b0 = Ok bf -> bv_ok bf -> sub_of b bf ->
  c_dec (bv_codec m) (c_enc (bv_codec m) b ++ rest) = IoOk (b, rest).
Proof. exact supports_roundtrip_sub. Qed.
Print Assumptions C19_roundtrip_interleaved.

(* enable_* of a support that is present changes nothing *)
Theorem C19_enable_idempotent :
  forall sp m op b, op < 3 -> N.testbit (bv_supports b) op = true -> bv_enable_op sp m op b = Ok b.
Proof. exact enable_op_idem. Qed.
(* any two enable_* calls commute *)
Theorem C19_enable_commute :
  forall sp m b0 bf b op1 op2, no_supports b0 -> bv_enable_all sp m b0 = Ok bf -> sub_of b bf -> op1 < 3 -> op2 < 3 ->
  exists b', bv_enable_ops sp m [op1; op2] b = Ok b' /\ bv_enable_ops sp m [op2; op1] b = Ok b'.
Proof. exact enable_commute. Qed.
(* each enable_* writes only its own field ... *)
Theorem C19_enable_writes_own_field :
  forall sp m op b b', op < 3 -> bv_enable_op sp m op b = Ok b' ->
  bv_ones b' = bv_ones b /\ bv_data b' = bv_data b /\
  (op <> 0 -> bv_rank b' = bv_rank b) /\ (op <> 1 -> bv_select b' = bv_select b) /\
  (op <> 2 -> bv_select_zero b' = bv_select_zero b).
Proof. exact enable_writes_own_field. Qed.
(* ... and what it builds is a function of the bits (data and their count) alone *)
Theorem C19_builders_read_bits_only :
  forall sp m b b', bv_ones b = bv_ones b' -> bv_data b = bv_data b' ->
  rank_new b = rank_new b' /\ (forall t, select_new sp m t b = select_new sp m t b').
Proof. exact builders_read_bits_only. Qed.
Print Assumptions C19_enable_idempotent.
Print Assumptions C19_enable_commute.
Print Assumptions C19_enable_writes_own_field.
Print Assumptions C19_builders_read_bits_only.

(* no state reachable by enabling / round trips changes the bits or any answer: a vector with some of bf's
   supports answers get always, and rank / select / select_zero whenever it has the support, exactly as bf does *)
Theorem C19_answers_neutral :
  forall sp m b bf, sub_of b bf ->
  bv_len b = bv_len bf /\ bv_count_ones b = bv_count_ones bf /\
  (forall i, bv_get b i = bv_get bf i) /\
  (bv_rank b <> None -> forall i, bv_rank_q b i = bv_rank_q bf i) /\
  (bv_select b <> None -> forall r, bv_select_t sp m Identity b r = bv_select_t sp m Identity bf r) /\
  (bv_select_zero b <> None -> forall r, bv_select_t sp m Complement b r = bv_select_t sp m Complement bf r).
Proof. exact answers_neutral. Qed.
Print Assumptions C19_answers_neutral.

(* skipping an optional structure moves the reader exactly past it, whatever it contains
   (any correct codec: also the composite structures once they are added) *)
Theorem C19_skip_option : forall A (c : codec A) m (o : option A) (rest : list byte),
  codec_ok c ->
  match o with None => True | Some x => c_wf c x /\ 0 < c_size c x < 2 ^ 61 end ->
  skip_option m (c_enc (option_codec c) o ++ rest) = IoOk (tt, rest).
Proof. exact @skip_option_app. Qed.
(* absent_option writes what an absent optional of any type is, and skipping it works *)
Theorem C19_absent_option : forall A (c : codec A) m rest,
  absent_option_enc = c_enc (option_codec c) None /\ lenN absent_option_enc = 8 * absent_option_size /\
  skip_option m (absent_option_enc ++ rest) = IoOk (tt, rest).
Proof.
  intros A c m rest. split; [reflexivity|]. split; [reflexivity|].
  exact (skip_option_app u64_codec m None rest u64_codec_ok I).
Qed.
Print Assumptions C19_skip_option.
Print Assumptions C19_absent_option.

(* ---------------------------------------------------------------- composite structures *)

(* WMCore / WaveletMatrix. Bs: the level sequences; ls0: the levels before init_support (any records that
   represent them without supports); lsf: the levels of the natively built core, all three supports on each.
   Every list ws of records with the bits of the native levels and ANY subset of their supports -- in particular
   none, map bv_strip lsf: what a writer that cannot build supports produces -- is turned back into lsf by
   init_support on every select path and in every mode, and a core / a wavelet matrix written with ws loads as the
   native one (WMCore::load, WaveletMatrix::load of Model/SerComposite.v: width and length checks included). *)
Theorem C19_levels_rebuild :
  forall sp m (Bs : list (list bool)) (ls0 : list bitvec),
  Forall2 bv_repr ls0 Bs -> Forall no_supports ls0 ->
  Forall (fun B => lenB B + select_SUPERBLOCK_SIZE < 2 ^ 64) Bs ->
  exists lsf, init_support sp m ls0 = Ok lsf /\ Forall2 bv_repr lsf Bs /\
    Forall (fun b => bv_supports b = 7) lsf /\
    Forall2 sub_of (map bv_strip lsf) lsf /\
    forall ws, Forall2 sub_of ws lsf ->
      (forall sp' m', init_support sp' m' ws = Ok lsf) /\
      (forall sp' m' len rest, 1 <= lenN ls0 <= 64 -> Forall (fun B => lenB B = len) Bs ->
         wmcore_dec sp' m' (wmcore_enc m' (mkcore ws) ++ rest) = IoOk (mkcore lsf, rest)) /\
      (forall sp' m' len first rest, 1 <= lenN ls0 <= 64 -> Forall (fun B => lenB B = len) Bs -> iv_ok first ->
         wm_dec sp' m' (wm_enc m' (mkwm len (mkcore ws) first) ++ rest) = IoOk (mkwm len (mkcore lsf) first, rest)).
Proof. exact levels_rebuild. Qed.
Print Assumptions C19_levels_rebuild.

(* SparseVector. H: the high bits; h0: From<RawVector> of them (any record that represents H without supports);
   hf: the high part of the natively built vector (enable_select, then enable_select_zero; no rank). Every record w
   with the bits of hf and any subset of its two select supports (in particular none) becomes hf again under the two
   enables of SparseVector::load, on every path and in every mode, and a sparse vector written with w in place of
   hf loads as the one with hf. The loader's two sanity checks on (len, low) are hypotheses here: ones = low.len()
   and high.len() = low.len() + get_buckets(len, low.width()). That every natively built vector satisfies them is
   the builder's invariant (C02's side): C19_sparse_native in Props/C19_sparse.v. *)
Theorem C19_high_rebuild :
  forall sp m (H : list bool) (h0 : bitvec),
  bv_repr h0 H -> no_supports h0 -> lenB H + select_SUPERBLOCK_SIZE < 2 ^ 64 ->
  exists h1 hf, bv_enable_select_t sp m Identity h0 = Ok h1 /\ bv_enable_select_t sp m Complement h1 = Ok hf /\
    bv_repr hf H /\ bv_rank hf = None /\ bv_select hf <> None /\ bv_select_zero hf <> None /\
    sub_of (bv_strip hf) hf /\
    forall w, sub_of w hf ->
      (forall sp' m', exists h1', bv_enable_select_t sp' m' Identity w = Ok h1' /\
                                  bv_enable_select_t sp' m' Complement h1' = Ok hf) /\
      (forall sp' m' len low bk rest, len < 2 ^ 64 -> iv_ok low ->
         ilen low = count H -> get_buckets len (iwidth low) = Ok bk -> lenB H = ilen low + bk ->
         sparse_dec sp' m' (sparse_enc m' (mksv len w low) ++ rest) = IoOk (mksv len hf low, rest)).
Proof. exact high_rebuild. Qed.
Print Assumptions C19_high_rebuild.

(* The same for a sparse vector as the builder makes it, with the two sanity checks discharged from the builder's
   invariant instead of assumed: PROVED, see C19_sparse_native / C19_sparse_native_multiset in Props/C19_sparse.v. *)

(* ---------------------------------------------------------------- non-vacuity *)

Definition ex_words : list N := [6148914691236517205; 1; 0; 18446744073709551615; 12297829382473034410; 7; 0; 0; 255; 9223372036854775808; 1152921504606846975].
Definition ex_b0 : bitvec := bv_from_raw (mkraw 700 ex_words).
Definition ex_bf : bitvec := match bv_enable_all Pdep Debug ex_b0 with Ok b => b | _ => ex_b0 end.
Example ex_built : no_supports ex_b0 /\ bv_enable_all Pdep Debug ex_b0 = Ok ex_bf /\ bv_supports ex_bf = 7.
Proof. split; [repeat split|]. split; vm_compute; reflexivity. Qed.
(* the hypotheses of C19_supports are satisfiable for EVERY sequence below the length bound: the record all
   construction routes produce *)
Example ex_hyps : forall B, lenB B + select_SUPERBLOCK_SIZE < 2 ^ 64 ->
  exists b0, bv_from_bits B = Ok b0 /\ bv_repr b0 B /\ no_supports b0.
Proof.
  intros B HL. destruct (bv_from_bits_ok B) as (b & E & R & N1 & N2 & N3).
  - apply N.lt_trans with (lenB B + select_SUPERBLOCK_SIZE); [|exact HL].
    apply N.lt_add_pos_r. reflexivity.
  - exists b. split; [exact E|]. split; [exact R|]. split; [exact N1|]. split; [exact N2|exact N3].
Qed.
(* written with {rank, select_zero} it loads as exactly that, and reports exactly those two *)
Example ex_roundtrip :
  c_dec (bv_codec Debug) (c_enc (bv_codec Debug) (bv_restrict 5 ex_bf) ++ le64 99) = IoOk (bv_restrict 5 ex_bf, le64 99) /\
  bv_supports (bv_restrict 5 ex_bf) = 5.
Proof. split; vm_compute; reflexivity. Qed.
(* written with {rank, select_zero}; enabling select, then rank again, gives the fully enabled vector *)
Example ex_rebuild : bv_enable_ops Pdep Debug [1; 0] (bv_restrict 5 ex_bf) = Ok ex_bf.
Proof. vm_compute. reflexivity. Qed.
Example ex_skip : skip_option Debug (c_enc (option_codec (raw_codec Debug)) (Some (mkraw 70 [5; 3])) ++ le64 99) = IoOk (tt, le64 99).
Proof. vm_compute. reflexivity. Qed.
(* a two-level core written without any support on level 0 and with {rank, select_zero} on level 1 loads as the
   fully enabled core *)
Example ex_core : wmcore_dec Pdep Debug (wmcore_enc Debug (mkcore [bv_strip ex_bf; bv_restrict 5 ex_bf]) ++ le64 99)
                  = IoOk (mkcore [ex_bf; ex_bf], le64 99).
Proof. vm_compute. reflexivity. Qed.
(* Elias-Fano of {1, 6, 13} in a universe of 16 (low width 2: high = 1010010, low = [1; 2; 1]) written with a
   high part that carries no supports loads with both select supports built *)
Definition ex_high0 : bitvec := bv_from_raw (mkraw 7 [37]).
Definition ex_high : bitvec :=
  match (let* h1 := bv_enable_select_t Pdep Debug Identity ex_high0 in bv_enable_select_t Pdep Debug Complement h1) with
  | Ok h => h | _ => ex_high0 end.
Example ex_sparse : bv_supports ex_high = 6 /\
  sparse_dec Pdep Debug (sparse_enc Debug (mksv 16 ex_high0 (mkiv 3 2 (mkraw 6 [25]))) ++ le64 99)
  = IoOk (mksv 16 ex_high (mkiv 3 2 (mkraw 6 [25])), le64 99).
Proof. split; vm_compute; reflexivity. Qed.
