(* C06 -- serialization round trip is the identity and sizes are exact.
   Only property theorems here: statement, [exact lemma], Print Assumptions, non-vacuity examples.
   Vocabulary (Model/Ser.v): a codec packs serialize (c_enc: the bytes written), load (c_dec: reader -> value and
   unread rest), size_in_elements (c_size). [m] is the build mode (overflow checks on / off); theorems hold in both.
   Loaded values are the model records themselves, so "answers every query as x does" is equality. *)
From Coq Require Import String NArith List Bool.
Require Import SDS.Model.Mach SDS.Model.Bits SDS.Model.Raw SDS.Model.IntVec SDS.Model.BitVec SDS.Model.Ser SDS.Model.SerBV.
Require Import SDS.gen.Consts SDS.gen.Layout SDS.Spec.Stream SDS.Proofs.SerProof SDS.Proofs.SerTypes SDS.Proofs.SerSupports SDS.Proofs.SerMain.
Import ListNotations.
Open Scope list_scope.
Open Scope N_scope.

(* [roundtrip c x]: for every continuation of the stream, load returns x and leaves exactly the continuation
   (exactly the serialization is consumed), and 8 * size_in_elements bytes were written *)
Check (eq_refl : @roundtrip = fun A (c : codec A) (x : A) =>
  (forall rest, c_dec c (c_enc c x ++ rest) = IoOk (x, rest)) /\ lenN (c_enc c x) = 8 * c_size c x).

Theorem C06_roundtrip_u64 : forall x, x < 2 ^ 64 -> roundtrip u64_codec x.
Proof. exact rt_u64. Qed.
Theorem C06_roundtrip_usize : forall x, x < 2 ^ 64 -> roundtrip usize_codec x.
Proof. exact rt_usize. Qed.
Print Assumptions C06_roundtrip_usize.
Theorem C06_roundtrip_pair : forall a b, a < 2 ^ 64 -> b < 2 ^ 64 -> roundtrip pair_codec (a, b).
Proof. exact rt_pair. Qed.
(* vectors: any length whose buffer fits in isize (what a Vec can hold) *)
Theorem C06_roundtrip_vec_u64 : forall l,
  Forall (fun x => x < 2 ^ 64) l -> lenN l * 8 < 2 ^ 63 -> roundtrip vec_u64_codec l.
Proof. exact rt_vec_u64. Qed.
Theorem C06_roundtrip_vec_pair : forall l,
  Forall (fun p => fst p < 2 ^ 64 /\ snd p < 2 ^ 64) l -> lenN l * 16 < 2 ^ 63 -> roundtrip vec_pair_codec l.
Proof. exact rt_vec_pair. Qed.
Theorem C06_roundtrip_bytes : forall m l,
  Forall (fun b => b < 256) l -> lenN l < 2 ^ 63 -> roundtrip (bytes_codec m) l.
Proof. exact rt_bytes. Qed.
(* strings: byte vectors that String::from_utf8 (read as utf8_valid) accepts *)
Theorem C06_roundtrip_string : forall m l,
  Forall (fun b => b < 256) l -> lenN l < 2 ^ 63 -> utf8_valid l = true -> roundtrip (string_codec m) l.
Proof. exact rt_string. Qed.
(* Option<V> over ANY correct codec (hence nested options, options of composite structures): the value's size
   must be non-zero, as the trait demands, and its size in bytes must fit in usize *)
Theorem C06_roundtrip_option : forall A (c : codec A) (o : option A),
  codec_ok c ->
  match o with None => True | Some x => c_wf c x /\ 0 < c_size c x < 2 ^ 61 end ->
  roundtrip (option_codec c) o.
Proof. exact @rt_option. Qed.
(* raw_ok: len + 63 < 2^64, exactly bits_to_words(len) words, each below 2^64 *)
Theorem C06_roundtrip_raw : forall m r,
  rlen r + 63 < 2 ^ 64 /\ lenN (rdata r) = bits_to_words (rlen r) /\ Forall (fun w => w < 2 ^ 64) (rdata r) ->
  roundtrip (raw_codec m) r.
Proof. exact rt_raw. Qed.
Theorem C06_roundtrip_intvec : forall m v,
  ilen v < 2 ^ 64 /\ iwidth v < 2 ^ 64 /\ ilen v * iwidth v = rlen (idata v) /\ raw_ok (idata v) ->
  roundtrip (iv_codec m) v.
Proof. exact rt_iv. Qed.
Theorem C06_roundtrip_rank : forall r,
  Forall (fun p => fst p < 2 ^ 64 /\ snd p < 2 ^ 64) (rs_samples r) /\ lenN (rs_samples r) * (2 * 8) <= ISIZE_MAX ->
  roundtrip rs_codec r.
Proof. exact rt_rs. Qed.
Theorem C06_roundtrip_select : forall m s,
  iv_ok (ss_samples s) /\ iv_ok (ss_long s) /\ iv_ok (ss_short s) /\
  ilen (ss_long s) + select_SUPERBLOCK_SIZE < 2 ^ 64 /\ ilen (ss_short s) + select_BLOCKS_IN_SUPERBLOCK < 2 ^ 64 /\
  ss_superblocks s = ss_long_superblocks s + ss_short_superblocks s ->
  roundtrip (ss_codec m) s.
Proof. exact rt_ss. Qed.
(* any subset of the three supports; each present support has the block count the loader insists on *)
Theorem C06_roundtrip_bitvec : forall m b,
  bv_ones b <= rlen (bv_data b) /\ rlen (bv_data b) + select_SUPERBLOCK_SIZE < 2 ^ 64 /\ raw_ok (bv_data b) /\
  match bv_rank b with None => True
  | Some v => rs_ok v /\ rs_blocks v = ceil_div (rlen (bv_data b)) rank_BLOCK_SIZE end /\
  match bv_select b with None => True
  | Some v => ss_ok v /\ ss_superblocks v = ceil_div (bv_ones b) select_SUPERBLOCK_SIZE end /\
  match bv_select_zero b with None => True
  | Some v => ss_ok v /\ ss_superblocks v = ceil_div (rlen (bv_data b) - bv_ones b) select_SUPERBLOCK_SIZE end ->
  roundtrip (bv_codec m) b.
Proof. exact rt_bv. Qed.
(* every type of the closed universe (options nested to any depth) *)
Theorem C06_roundtrip_universe : forall m t (x : interp t), c_wf (codec_of m t) x -> roundtrip (codec_of m t) x.
Proof. exact rt_universe. Qed.
Print Assumptions C06_roundtrip_u64.
Print Assumptions C06_roundtrip_pair.
Print Assumptions C06_roundtrip_vec_u64.
Print Assumptions C06_roundtrip_vec_pair.
Print Assumptions C06_roundtrip_bytes.
Print Assumptions C06_roundtrip_string.
Print Assumptions C06_roundtrip_option.
Print Assumptions C06_roundtrip_raw.
Print Assumptions C06_roundtrip_intvec.
Print Assumptions C06_roundtrip_rank.
Print Assumptions C06_roundtrip_select.
Print Assumptions C06_roundtrip_bitvec.
Print Assumptions C06_roundtrip_universe.

(* size_in_elements, written out per type *)
Theorem C06_size : forall m,
  (forall x, c_size u64_codec x = 1) /\ (forall p, c_size pair_codec p = 2) /\
  (forall l, c_size vec_u64_codec l = 1 + lenN l) /\ (forall l, c_size vec_pair_codec l = 1 + lenN l * 2) /\
  (forall l, c_size (bytes_codec m) l = 1 + (lenN l + 7) / 8) /\ (forall l, c_size (string_codec m) l = 1 + (lenN l + 7) / 8) /\
  (forall A (c : codec A) o, c_size (option_codec c) o = match o with None => 1 | Some x => 1 + c_size c x end) /\
  (forall r, c_size (raw_codec m) r = 2 + lenN (rdata r)) /\
  (forall v, c_size (iv_codec m) v = 4 + lenN (rdata (idata v))) /\
  (forall r, c_size rs_codec r = 1 + lenN (rs_samples r) * 2) /\
  (forall s, c_size (ss_codec m) s = c_size (iv_codec m) (ss_samples s) + c_size (iv_codec m) (ss_long s) + c_size (iv_codec m) (ss_short s)) /\
  (forall b, c_size (bv_codec m) b = 1 + c_size (raw_codec m) (bv_data b) + c_size (option_codec rs_codec) (bv_rank b)
                                     + c_size (option_codec (ss_codec m)) (bv_select b)
                                     + c_size (option_codec (ss_codec m)) (bv_select_zero b)).
Proof. exact size_formulas. Qed.
Print Assumptions C06_size.

(* structures written back to back load back in sequence, each consuming exactly its own bytes: for ANY list of
   typed values whose codecs are correct (so also for the composite structures once their codecs exist) *)
Theorem C06_concat : forall (l : list tval) (rest : list byte),
  Forall (fun t => match t with TV _ c x => codec_ok c /\ c_wf c x end) l ->
  dec_all l (enc_all l ++ rest) = IoOk (l, rest) /\
  lenN (enc_all l) = 8 * fold_right (fun t acc => match t with TV _ c x => c_size c x end + acc) 0 l.
Proof. exact concat_roundtrip. Qed.
Print Assumptions C06_concat.

(* the sizes predicted from the parameters alone *)
Theorem C06_size_by_params : forall m,
  (forall r, raw_ok r -> raw_size_by_params (rlen r) = c_size (raw_codec m) r) /\
  (forall v, iv_ok v -> iv_size_by_params (ilen v) (iwidth v) = c_size (iv_codec m) v).
Proof. exact size_by_params_ok. Qed.
Print Assumptions C06_size_by_params.

(* the tie to the source: the call lists gen.py reads out of every `impl Serialize` (regenerated on each run)
   are the ones the codecs were written against, and serialize / load / size_in_elements visit the same fields
   in the same order *)
Theorem C06_layouts :
  fields_consistent expected_RawVector ["len"; "data"]%string /\
  fields_consistent expected_IntVector ["len"; "width"; "data"]%string /\
  fields_consistent expected_RankSupport ["samples"]%string /\
  fields_consistent expected_SelectSupport ["samples"; "long"; "short"]%string /\
  fields_consistent expected_BitVector ["ones"; "data"; "rank"; "select"; "select_zero"]%string.
Proof.
  exact (conj fields_RawVector (conj fields_IntVector (conj fields_RankSupport (conj fields_SelectSupport fields_BitVector)))).
Qed.
Check layout_RawVector_ok. Check layout_IntVector_ok. Check layout_RankSupport_ok. Check layout_SelectSupport_ok.
Check layout_BitVector_ok. Check layout_V_ok. Check layout_Vec_V_ok. Check layout_Vec_u8_ok. Check layout_String_ok.
Check layout_Option_V_ok.
Print Assumptions C06_layouts.
Print Assumptions layout_BitVector_ok.

(* the byte-level encoder is the little-endian image of the element-level one used by C01 *)
Theorem C06_agrees_with_elements : forall m b, bv_ok b -> c_enc (bv_codec m) b = flat_map le64 (bv_serialize b).
Proof. exact bv_enc_elems. Qed.
Print Assumptions C06_agrees_with_elements.

(* ---------------------------------------------------------------- non-vacuity: each predicate is inhabited *)

Ltac fin := vm_compute; first [reflexivity | discriminate | (let X := fresh in intro X; discriminate X)].
Ltac conc := repeat (cbv beta; cbn [c_wf vec_pair_codec vec_u64_codec vec_codec pair_codec u64_codec fst snd rs_samples];
       match goal with
         | |- _ /\ _ => split
         | |- Forall _ _ => constructor
         | |- True => exact I
         end); fin.

Example ex_raw : raw_ok (mkraw 70 [5; 3]).
Proof. unfold raw_ok. conc. Qed.
Example ex_iv : iv_ok (mkiv 5 13 (mkraw 65 [77; 1])).
Proof. unfold iv_ok, raw_ok. conc. Qed.
Example ex_string : utf8_valid [104; 195; 169; 226; 130; 172; 240; 159; 152; 128] = true /\ utf8_valid [195; 40] = false.
Proof. split; reflexivity. Qed.

(* a 700-bit vector (straddles a rank block) with all three supports, built by the model of the crate's builders *)
Definition ex_words : list N := [6148914691236517205; 1; 0; 18446744073709551615; 12297829382473034410; 7; 0; 0; 255; 9223372036854775808; 1152921504606846975].
Definition ex_bv : bitvec :=
  match bv_enable_all Pdep Debug (bv_from_raw (mkraw 700 ex_words)) with Ok b => b | _ => bv_from_raw raw_new end.
Example ex_bv_ok : bv_ok ex_bv.
Proof.
  let v := eval vm_compute in ex_bv in change ex_bv with v.
  unfold bv_ok, raw_ok, rs_ok, ss_ok, iv_ok, raw_ok; cbn [bv_ones bv_data bv_rank bv_select bv_select_zero rlen rdata].
  conc.
Qed.
Example ex_bv_full : bv_supports ex_bv = 7 /\ lenN (c_enc (bv_codec Debug) ex_bv) = 408.
Proof. split; vm_compute; reflexivity. Qed.
(* the theorem applies to it, and to each of its restrictions (here: rank and select_zero only) *)
Example ex_bv_roundtrip :
  c_dec (bv_codec Debug) (c_enc (bv_codec Debug) (bv_restrict 5 ex_bv) ++ [1; 2; 3]) = IoOk (bv_restrict 5 ex_bv, [1; 2; 3]).
Proof. apply (proj1 (C06_roundtrip_bitvec Debug _ (restrict_ok 5 _ ex_bv_ok))). Qed.
(* three structures in one stream *)
Example ex_concat :
  let l := [TV _ (raw_codec Debug) (mkraw 70 [5; 3]); TV _ (option_codec (string_codec Debug)) (Some [104; 105]);
            TV _ (bv_codec Debug) ex_bv] in
  dec_all l (enc_all l ++ [9]) = IoOk (l, [9]).
Proof.
  cbv zeta. apply C06_concat.
  constructor; [split; [exact (raw_codec_ok Debug)|exact ex_raw]|].
  constructor; [split; [apply option_codec_ok; exact (string_codec_ok Debug)|]|].
  { cbn [c_wf option_codec string_codec bytes_codec c_size]. unfold bytes_ok. conc. }
  constructor; [split; [exact (bv_codec_ok Debug)|exact ex_bv_ok]|].
  constructor.
Qed.

(* ================================================================ the run-length vector *)

Require Import SDS.Model.RL SDS.Spec.Runs SDS.Proofs.SerRL.

(* [rl_codec m] (Model/Ser.v) is RLVector's impl of Serialize: len, ones, samples, data are written; load reads
   them back, checks samples.len() / 2 = div_round_up(data.len(), 64), and REBUILDS rank_index, select_index and
   select_zero_index with SampleIndex::new over the sample columns. Its well-formedness predicate
   [c_wf (rl_codec m) v] is: the four fields are well-formed and the loader applied to them returns v itself.

   Every vector built through RLBuilder + RLVector::from (any sorted run list, any length up to 2^64-1, both modes)
   meets it, hence: load returns the SAME model record (all seven fields, so it answers every query as the
   original does) and leaves exactly what followed the serialization, and size_in_bytes = 8 * size_in_elements
   bytes were written. [lenN R < 2^55]: the bit count of `data` must stay below 2^64 (address-space bound). *)
Theorem C06_roundtrip_rl : forall (m : mode) (R : list (N * N)) (L : N),
  runs_sorted 0 R -> runs_end R <= L -> L <= 2 ^ 64 - 1 -> lenN R < 2 ^ 55 ->
  exists v,
    rl_build m (map (fun r => BTrySet (fst r) (snd r)) R ++ [BSetLen L]) = Ok (v, map (fun _ => true) R ++ [true]) /\
    c_wf (rl_codec m) v /\
    (forall rest, c_dec (rl_codec m) (c_enc (rl_codec m) v ++ rest) = IoOk (v, rest)) /\
    lenN (c_enc (rl_codec m) v) = 8 * c_size (rl_codec m) v.
Proof.
  intros m R L Hs He HL Hn. destruct (rl_built_wf m R L Hs He HL Hn) as (v & Hb & Hwf).
  exists v. split; [exact Hb|]. split; [exact Hwf|]. exact (ok_roundtrip _ v (rl_codec_ok m) Hwf).
Qed.
Print Assumptions C06_roundtrip_rl.

(* ... and for any value of the type that the loader maps to itself *)
Theorem C06_roundtrip_rl_wf : forall m v, c_wf (rl_codec m) v -> roundtrip (rl_codec m) v.
Proof. intros m v H. exact (ok_roundtrip _ v (rl_codec_ok m) H). Qed.
Print Assumptions C06_roundtrip_rl_wf.

(* size_in_elements = 2 (len, ones) + the two IntVectors (4 + their words each); the bytes written are the
   little-endian image of the element list [rl_serialize] of Model/RL.v (what C03's correspondence compares) *)
Theorem C06_size_rl : forall m v,
  c_size (rl_codec m) v = 10 + lenN (rdata (idata (rl_samples v))) + lenN (rdata (idata (rl_data v))) /\
  c_enc (rl_codec m) v = flat_map le64 (rl_serialize v).
Proof. intros m v. split; [apply rl_size|apply rl_enc_elems]. Qed.
Print Assumptions C06_size_rl.

(* the tie to the source for RLVector: field order of serialize / load / size_in_elements and the sanity check *)
Theorem C06_layout_rl :
  mklayout layout_RLVector_serialize_header layout_RLVector_serialize_body layout_RLVector_load
           layout_RLVector_load_checks layout_RLVector_size_in_elements = expected_RLVector /\
  fields_consistent expected_RLVector ["len"; "ones"; "samples"; "data"]%string.
Proof. exact (conj layout_RLVector_ok fields_RLVector). Qed.
Print Assumptions C06_layout_rl.

(* non-vacuity: a vector of four blocks; loaded from its own bytes followed by other data *)
Example ex_rl_roundtrip :
  match rl_build Debug (map (fun k => BTrySet (100 * k) (k + 1)) [0; 1; 2; 3; 4; 5; 6; 7; 8; 9; 10; 11; 12; 13; 14; 15; 16; 17; 18; 19; 20; 21; 22; 23; 24; 25; 26; 27; 28; 29; 30; 31; 32; 33; 34; 35; 36; 37; 38; 39] ++ [BSetLen (2 ^ 64 - 1)]) with
  | Ok (v, _) =>
      rl_blocks v = 4 /\ lenN (c_enc (rl_codec Debug) v) = 8 * 25 /\
      c_dec (rl_codec Debug) (c_enc (rl_codec Debug) v ++ [7; 7]) = IoOk (v, [7; 7]) /\
      c_dec (rl_codec Debug) (firstn 199 (c_enc (rl_codec Debug) v)) = IoErr UnexpectedEof
  | _ => False
  end.
Proof. vm_compute. repeat split; reflexivity. Qed.
