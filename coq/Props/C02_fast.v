(* C02, the one-pass builder of the correspondence check -- Check/SparseFast.v evaluates the builder state after
   SparseBuilder::new + try_set ... in ONE pass over the values (the model replays every set_bit / IntVector::set
   on list-based word arrays, which is quadratic); Check/C02.v uses it from 20000 values on. The theorems below
   say that this is the model's own result, so nothing about it is trusted:

   C02_fast_builder_exact   for every mode, oracle width 1..63, universe n < 2^64 and strictly increasing list P
                            below n (exactly the inputs the set builder accepts), [fast_builder] returns the builder
                            that the model reaches by SparseBuilder::new(n, |P|) followed by try_set for every
                            element: the same universe, low IntVector (length, width, every word), high RawVector
                            (length, every word), len and increment. Only b_next (the next admissible value) is 0
                            instead of last + 1; TryFrom<SparseBuilder> does not read it (sv_try_from, Model/Sparse.v).
   C02_fast_checked_exact   [model_build_checked] is what Check/C02.v evaluates for a case: (vector, flag), and a case
                            is accepted only when the flag is true. For EVERY route (new / multiset / copy_bit_vec /
                            try_from_iter), width, universe, mode, select path and value list: flag = true implies
                            that the vector component is exactly the result of the pure model build [model_build].
   C02_fast_checked_total   inside the domain of the one-pass route (input accepted by the route, 1 <= w <= 63,
                            universe < 2^64, fewer than 2^63 values, high part below 2^27 bits - the last bound only
                            protects the checker from building a gigantic list) the flag IS true and the result is
                            (model_build ..., true).
   The multiset builder is in Props/C15_fast.v. Proofs: Proofs/SparseFastProof.v. *)
From Coq Require Import NArith List Bool.
Require Import SDS.Model.Mach SDS.Model.Bits SDS.Model.Raw SDS.Model.IntVec SDS.Model.BitVec SDS.Model.Sparse.
Require Import SDS.Spec.ValSeq SDS.Proofs.SparseProof SDS.Proofs.SparseBuild.
Require Import SDS.Check.SparseFast SDS.Proofs.SparseFastProof.
Import ListNotations.
Open Scope N_scope.

Theorem C02_fast_builder_exact : forall md w n P,
  n < 2 ^ 64 -> 1 <= w <= 63 -> increasing P = true -> all_below n P = true ->
  lenN P + buckets_of n (eff_width w n (lenN P)) < 2 ^ 64 ->
  exists b,
    (* the model: SparseBuilder::new, then try_set for every element *)
    (let* r := sb_new md w n (lenN P) in
     match r with inr e => Ok (inr e) | inl b0 => sb_try_set_all md b0 P end) = Ok (inl b) /\
    (* it is full *)
    b_len b = ilen (b_low b) /\
    (* the one-pass evaluation *)
    fast_builder md w n 1 P = Ok (mkb (b_universe b) (b_low b) (b_high b) (b_len b) 0 (b_inc b)).
Proof. exact fast_builder_set_exact. Qed.
Print Assumptions C02_fast_builder_exact.

Theorem C02_fast_checked_exact : forall sp md route w n vals,
  snd (model_build_checked sp md route w n vals) = true ->
  fst (model_build_checked sp md route w n vals) = model_build sp md route w n vals.
Proof. exact fast_checked_exact. Qed.
Print Assumptions C02_fast_checked_exact.

Theorem C02_fast_checked_total : forall sp md route w n vals inc u,
  fast_params route n vals = Some (inc, u) -> FAST_FROM <= lenN vals ->
  1 <= w <= 63 -> u < 2 ^ 64 -> lenN vals < 2 ^ 63 -> fast_too_large md w u vals = false ->
  model_build_checked sp md route w n vals = (model_build sp md route w n vals, true).
Proof. exact fast_checked_total. Qed.
Print Assumptions C02_fast_checked_total.

(* non-vacuity 1: 200 positions 0, 37, 74, ... below 8000 with width 5 (high: 450 bits = 8 words, low: 1000 bits
   = 16 words); both sides evaluated: the replayed builder is Ok and full, and the one-pass builder is that builder *)
Fixpoint arith (start step : N) (k : nat) : list N :=
  match k with O => [] | S k' => start :: arith (start + step) step k' end.
Definition C02_fast_P : list N := arith 0 37 200.
Example C02_fast_example :
  increasing C02_fast_P = true /\ all_below 8000 C02_fast_P = true /\
  match (let* r := sb_new Debug 5 8000 (lenN C02_fast_P) in
         match r with inr e => Ok (inr e) | inl b0 => sb_try_set_all Debug b0 C02_fast_P end),
        fast_builder Debug 5 8000 1 C02_fast_P with
  | Ok (inl b), Ok fb =>
      fb = mkb (b_universe b) (b_low b) (b_high b) (b_len b) 0 (b_inc b) /\
      b_len b = 200 /\ lenN (rdata (b_high b)) = 8 /\ lenN (rdata (idata (b_low b))) = 16 /\
      b_next b = 7364
  | _, _ => False
  end.
Proof. vm_compute. repeat split; reflexivity. Qed.

(* non-vacuity 2: the one-pass route is taken and its flag is true on 20000 positions 0, 3, 6, ... below 60000
   (width 1, as the crate chooses it), i.e. the hypothesis of C02_fast_checked_exact is met on that route *)
Definition C02_fast_Q : list N := arith 0 3 (N.to_nat 20000).
Example C02_fast_example_large :
  FAST_FROM <= lenN C02_fast_Q /\ fast_params 0 60000 C02_fast_Q = Some (1, 60000) /\
  snd (model_build_checked Pdep Release 0 1 60000 C02_fast_Q) = true.
Proof. vm_compute. repeat split; try reflexivity. discriminate. Qed.
