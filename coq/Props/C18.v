(* C18 -- memory maps are valid while alive, fully released on drop, and fail loudly.
   Only property theorems here: statement, [exact lemma], Print Assumptions.

   PARTIAL by nature: the kernel's mmap/munmap are a model written from the man pages (Spec/AddrSpace.v:
   page-granular address space, MAP_SHARED file pages); the correspondence observes the real address space
   through /proc/self/maps. What the theorems establish is that MemoryMap::new/as_ref/as_mut_slice/Drop, as
   the code performs them (Model/Mmap.v, with the generated helpers of bits.rs), use that contract correctly
   for EVERY file size: the failure test, the element count, the range of the slice, the length given back.
   [cur_cmp]/[cur_unmap] (Model/MmapCfg.v) say what the current source compares the mmap result with and which
   length it passes to munmap; the two `_refuted` theorems are the same model with the former choices. *)
From Coq Require Import NArith List Bool.
Require Import SDS.Model.Mach SDS.Spec.AddrSpace SDS.gen.MmapCfg SDS.Model.Mmap SDS.Proofs.MmapProof.
Import ListNotations.
Open Scope N_scope.

(* One map, for every build mode, mapping mode, prior address space and file (absent, or of any size < 2^63):
   new returns an error and maps nothing -- exactly when the file cannot be opened, its size is not a multiple
   of 8, or mmap refuses (empty file, or no room in the address space) -- or it returns a map with
   len = size / 8 whose every element is the corresponding element of the file, through which a store reaches
   exactly that element of the file, which occupies ceil(size / 4096) previously free pages, and whose drop
   leaves the address space exactly as it was before new. *)
Theorem C18_map_lifecycle : forall (m : mode) (mm : mapping_mode) (a0 : aspace) (fsize : option N),
  (forall sz, fsize = Some sz -> sz < 2 ^ 63) ->
  exists a1 out, map_new cur_cmp m mm fsize a0 = Ok (a1, out) /\
    match out with
    | Failed e =>
        a1 = a0 /\
        match e with
        | ErrOpen => fsize = None
        | ErrSize => exists sz, fsize = Some sz /\ sz mod 8 <> 0
        | ErrMmap => exists sz, fsize = Some sz /\ sz mod 8 = 0 /\ (sz = 0 \/ ~ top a0 + pages_of sz <= SPACE_PAGES)
        end
    | Mapped mp =>
        exists sz, fsize = Some sz /\ sz mod 8 = 0 /\ 0 < sz /\
          mm_mode mp = mm /\ mm_len mp * 8 = sz /\ mm_ptr mp mod PAGE = 0 /\
          (forall file i, lenN file = mm_len mp -> i < mm_len mp ->
             exists x, nthN file i = Some x /\ map_get a1 file mp i = Ok x) /\
          (forall file i v, i < mm_len mp -> map_set a1 file mp i v = Ok (setN file i v)) /\
          (forall p, mm_ptr mp / PAGE <= p < mm_ptr mp / PAGE + pages_of sz ->
             lookup a0 p = None /\ lookup a1 p <> None) /\
          mapped_pages a1 = mapped_pages a0 + pages_of sz /\
          map_drop cur_unmap m mp a1 = Ok a0
    end.
Proof. exact lifecycle_one. Qed.
Print Assumptions C18_map_lifecycle.

(* any number of new/drop cycles over any sequence of files and modes: the address space ends as it began *)
Theorem C18_map_cycles : forall (m : mode) (files : list (mapping_mode * option N)) (a0 : aspace),
  Forall (fun f => forall sz, snd f = Some sz -> sz < 2 ^ 63) files ->
  cycles cur_cmp cur_unmap m files a0 = Ok a0.
Proof. exact cycles_restore. Qed.
Print Assumptions C18_map_cycles.

(* reads and writes outside the slice are rejected by the bounds check, whatever the address space *)
Theorem C18_slice_bounds : forall a file mp i v,
  mm_len mp <= i -> map_get a file mp i = Panic PIndex /\ map_set a file mp i v = Panic PIndex.
Proof.
  intros a file mp i v H. unfold map_get, map_set.
  assert (E : (i <? mm_len mp) = false) by (apply N.ltb_ge; exact H). rewrite E. split; reflexivity.
Qed.
Print Assumptions C18_slice_bounds.

(* FORMER behaviour 1 (munmap given the length in elements): for every file larger than one page, whatever
   the failure test, some page of the mapping is still mapped after drop: exactly
   ceil(size/4096) - ceil(size/8/4096) pages leak per cycle *)
Theorem C18_leak_refuted : forall cmp m mm a0 sz,
  4096 < sz -> sz < 2 ^ 63 -> sz mod 8 = 0 -> top a0 + pages_of sz <= SPACE_PAGES ->
  exists a1 mp a2 p,
    map_new cmp m mm (Some sz) a0 = Ok (a1, Mapped mp) /\
    map_drop UnmapElements m mp a1 = Ok a2 /\
    lookup a0 p = None /\ lookup a2 p <> None /\
    mapped_pages a2 = mapped_pages a0 + (pages_of sz - pages_of (sz / 8)) /\
    0 < pages_of sz - pages_of (sz / 8).
Proof. exact leak_elements. Qed.
Print Assumptions C18_leak_refuted.

(* FORMER behaviour 2 (mmap result compared with null): the refused mapping of an empty file is reported as a
   success whose pointer is the error value MAP_FAILED = 2^64 - 1; nothing is mapped, drop changes nothing *)
Theorem C18_empty_refuted : forall m mm um a0,
  map_new CmpNull m mm (Some 0) a0 = Ok (a0, Mapped (mkM mm MAP_FAILED 0)) /\
  map_drop um m (mkM mm MAP_FAILED 0) a0 = Ok a0.
Proof. exact empty_null. Qed.
Print Assumptions C18_empty_refuted.

(* non-vacuity: a 4104-byte file (two pages) mapped into a space that already holds a mapping, read, dropped;
   and the same with the former unmap length, where the second page stays *)
Example C18_example :
  let a0 := [mkR 100 5 0] in
  map_new cur_cmp Release Mutable (Some 4104) a0 = Ok (mkR 105 2 0 :: a0, Mapped (mkM Mutable (105 * 4096) 513)) /\
  map_get (mkR 105 2 0 :: a0) (repeatN 7 513) (mkM Mutable (105 * 4096) 513) 512 = Ok 7 /\
  map_drop cur_unmap Release (mkM Mutable (105 * 4096) 513) (mkR 105 2 0 :: a0) = Ok a0 /\
  map_drop UnmapElements Release (mkM Mutable (105 * 4096) 513) (mkR 105 2 0 :: a0) = Ok (mkR 106 1 1 :: a0) /\
  map_new cur_cmp Debug ReadOnly (Some 0) a0 = Ok (a0, Failed ErrMmap) /\
  map_new cur_cmp Debug ReadOnly (Some 12) a0 = Ok (a0, Failed ErrSize).
Proof. vm_compute. repeat split. Qed.
