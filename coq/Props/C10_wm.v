(* C10 for the wavelet matrix -- its three iterator types yield their reference sequences under every
   sequence of calls. Only property theorems here: statement, [exact lemma], Print Assumptions, an Example.

   For EVERY vector V (items below 2^64, |V| < 2^64, max V + 1 < 2^64: the bounds of C04) the model's From<Vec<T>>
   (build select path sp, mode m) returns a matrix wm, and for every query select path sp' and overflow mode m':
     ValueIter  (wavelet_matrix.rs; from value_iter x / select_iter r x / predecessor i x / successor i x, any
                 value x and any r, i below 2^64): forward only, no size advertised; step function wm_vi_step of
                 Model/WMIters.v (next is the crate's, nth the std default advance_by + next);
     IntoIter   (into_iter): forward, exact size_hint; wm_into_step;
     AccessIter (iter(), ops.rs): double-ended with its own nth / nth_back, exact size; wm_ai_step = the generic
                 cursor over WaveletMatrix::get.
   Each entry point returns an iterator and EVERY finite sequence of the calls the type implements - with ANY
   argument k of nth / nth_back, so in particular every k < 2^64 - returns Ok (no panic, no exhausted fuel) with
   the outputs of the deque specification (Spec/Deque.v) over the reference sequence of Spec/IterRefs.v.
   These replace C10_wm_value_iter_statement / C10_wm_into_iter_statement of Props/C10.v (which lacked the bounds
   on the items: with max V = 2^64-1 the construction itself overflows, see C04). *)
From Coq Require Import NArith List Bool.
Require Import SDS.Model.Mach SDS.Model.Bits SDS.Model.IntVec SDS.Model.BitVec SDS.Model.Iters SDS.Model.WM SDS.Model.WMIters.
Require Import SDS.Spec.BitSeq SDS.Spec.Deque SDS.Spec.IterRefs SDS.Spec.Seq.
Require Import SDS.Proofs.IterProof SDS.Proofs.WMTotal SDS.Proofs.WMDeque.
Import ListNotations.
Open Scope N_scope.

(* ValueIter: from every entry point, every sequence of next / nth(k) calls yields the deque's outputs over
   [vector_ref V e] - the (rank, position) pairs of the occurrences of the value from rank 0 / r /
   rank(i+1)-1 / rank(i) on. In particular next returns (rank, select(rank, value)) with consecutive ranks until
   the occurrences end, then None, and None again on every further call (C10_deque_none_absorbing). *)
Theorem C10_wm_value_iter : forall (sp : selpath) (m : mode) (V : list N),
  Forall (fun x => x < 2 ^ 64) V -> lenN V < 2 ^ 64 -> list_max V + 1 < 2 ^ 64 ->
  exists wm, wm_from sp m V = Ok wm /\
  forall sp' m' e l cs,
    vector_ref V e = Some l ->
    match e with
    | EValue _ => True
    | EValueSelect r _ => r < 2 ^ 64
    | EValuePred i _ | EValueSucc i _ => i < 2 ^ 64
    | _ => False
    end ->
    Forall (fun c => call_fwd c /\ c <> Len) cs ->
    exists start s s', wm_vi_entry m' wm e = Some start /\ start = Ok s /\
      it_run (wm_vi_step sp' m' wm) s cs = Ok (s', snd (dq_run l cs)).
Proof.
  intros sp m V HV Hn Hmax. destruct (wm_iters_deque sp m V HV Hn Hmax) as (wm & Hw & _ & H).
  exists wm. split; [exact Hw|]. intros sp' m'. exact (proj1 (H sp' m')).
Qed.
Print Assumptions C10_wm_value_iter.

(* the reference sequences are the intended ones: [vector_ref] of the four entry points is value_iter_v /
   select_iter_v / pred_v / succ_v of Spec/Seq.v (the objects of C04); the k-th item of value_iter is
   (k, select(k, x)), there are exactly count(x) of them, and a select suffix starts at (r, select(r, x)) *)
Theorem C10_wm_refs : forall (V : list N) (x : N),
  vector_ref V (EValue x) = Some (value_iter_v V x) /\
  (forall r, vector_ref V (EValueSelect r x) = Some (select_iter_v V r x)) /\
  (forall i, vector_ref V (EValuePred i x) = Some (pred_v V i x)) /\
  (forall i, vector_ref V (EValueSucc i x) = Some (succ_v V i x)) /\
  vector_ref V EIter = Some (map enc_item V) /\ vector_ref V EInto = Some (map enc_item V) /\
  (forall k, nth_opt (value_iter_v V x) k = match select_v V k x with Some p => Some (k, p) | None => None end) /\
  lenA (value_iter_v V x) = count_v V x /\
  (forall r, hd_error (select_iter_v V r x) = match select_v V r x with Some p => Some (r, p) | None => None end) /\
  (forall r, select_iter_v V r x =
             match select_v V r x with Some p => (r, p) :: select_iter_v V (r + 1) x | None => [] end).
Proof. exact wm_ref_facts. Qed.
Print Assumptions C10_wm_refs.

(* IntoIter: every sequence of next / nth(k) / len calls yields the deque's outputs over V itself; len is the exact
   number of items left after any history; the index stays within 0..=len and the unvisited items are the
   deque's remainder *)
Theorem C10_wm_into_iter : forall (sp : selpath) (m : mode) (V : list N),
  Forall (fun x => x < 2 ^ 64) V -> lenN V < 2 ^ 64 -> list_max V + 1 < 2 ^ 64 ->
  exists wm, wm_from sp m V = Ok wm /\ wm_len wm = lenA V /\
  forall m' cs, Forall call_fwd cs ->
    exists i', it_run (wm_into_step m' wm) 0 cs = Ok (i', snd (dq_run V cs)) /\
               into_inv V i' /\ into_abs V i' = fst (dq_run V cs).
Proof.
  intros sp m V HV Hn Hmax. destruct (wm_iters_deque sp m V HV Hn Hmax) as (wm & Hw & Hl & H).
  exists wm. split; [exact Hw|]. split; [exact Hl|]. intros m'. exact (proj1 (proj2 (H sp m'))).
Qed.
Print Assumptions C10_wm_into_iter.

(* AccessIter from iter(): C10_access_iter_any instantiated with WaveletMatrix::get - whose agreement with V is the
   last clause (from C04) -: every interleaving of next / next_back / nth(k) / nth_back(k) / len yields the deque's
   outputs over V and leaves a cursor next <= limit <= len over the deque's remainder *)
Theorem C10_wm_access_iter : forall (sp : selpath) (m : mode) (V : list N),
  Forall (fun x => x < 2 ^ 64) V -> lenN V < 2 ^ 64 -> list_max V + 1 < 2 ^ 64 ->
  exists wm, wm_from sp m V = Ok wm /\ wm_len wm = lenA V /\
  forall m',
    (forall cs, exists it', it_run (wm_ai_step m' wm) (wm_ai_start wm) cs = Ok (it', snd (dq_run V cs)) /\
                  cur_inv V it' /\ cur_abs V it' = fst (dq_run V cs)) /\
    (forall i, i < lenA V -> exists x, wm_get m' wm i = Ok x /\ nth_error V (N.to_nat i) = Some x).
Proof.
  intros sp m V HV Hn Hmax. destruct (wm_iters_deque sp m V HV Hn Hmax) as (wm & Hw & Hl & H).
  exists wm. split; [exact Hw|]. split; [exact Hl|]. intros m'. exact (proj2 (proj2 (H sp m'))).
Qed.
Print Assumptions C10_wm_access_iter.

(* non-vacuity: the vector of the crate's documentation; value 1 occurs at 0, 3, 4, 8, 10, 13 *)
Definition c10_wm_V : list N := [1; 0; 3; 1; 1; 2; 4; 5; 1; 2; 1; 7; 0; 1].
Example C10_wm_example :
  (let* w := wm_from Pdep Debug c10_wm_V in
   let* p := wm_predecessor Debug w 9 1 in
   let* (_, a) := it_run (wm_vi_step Pdep Debug w) p [Next; Nth 1; Nth 5; Next] in
   let* (_, b) := it_run (wm_into_step Debug w) 0 [Len; Nth 11; Len; Next; Next; Next; Len] in
   let* (_, c) := it_run (wm_ai_step Debug w) (wm_ai_start w) [NthBack 1; Nth 10; Len; Next; NextBack; Next] in
   Ok (a, b, c))
  = Ok ([Item (Some (3, 8)); Item (Some (5, 13)); Item None; Item None],
        [Count 14; Item (Some 7); Count 2; Item (Some 0); Item (Some 1); Item None; Count 0],
        [Item (Some 0); Item (Some 1); Count 1; Item (Some 7); Item None; Item None]) /\
  vector_ref c10_wm_V (EValuePred 9 1) = Some [(3, 8); (4, 10); (5, 13)] /\
  snd (dq_run [(3, 8); (4, 10); (5, 13)] [Next; Nth 1; Nth 5; Next]) =
    [Item (Some (3, 8)); Item (Some (5, 13)); Item None; Item None].
Proof. vm_compute. repeat split; reflexivity. Qed.
