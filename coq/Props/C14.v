(* C14 -- truncated input and failed writes are always reported, never accepted.
   Only property theorems here: statement, [exact lemma], Print Assumptions, non-vacuity examples.
   Vocabulary (Spec/Stream.v, Model/Ser.v): a reader is the list of bytes still to come; read_exact on a short
   stream is IoErr UnexpectedEof; c_dec is `load`; results are IoOk / IoErr kind / IoPanic. A sink accepts
   sk_room more bytes and then fails every write with sk_err; write_seq is a sequence of write_all calls chained
   with `?`, which is what every serialize is. Theorems hold in both build modes m. *)
From Coq Require Import NArith List Bool Lia.
Require Import SDS.Model.Mach SDS.Model.Bits SDS.Model.Raw SDS.Model.IntVec SDS.Model.BitVec SDS.Model.Ser.
Require Import SDS.gen.Consts SDS.Spec.Stream SDS.Proofs.SerProof SDS.Proofs.SerTypes SDS.Proofs.SerSupports SDS.Proofs.SerMain.
Require Import SDS.Model.Writer SDS.Model.WriterFail SDS.Proofs.WriterProof SDS.Proofs.WriterFailProof.
Import ListNotations.
Open Scope list_scope.
Open Scope N_scope.

(* [truncation_safe c x]: load on EVERY strict prefix of the serialization of x is an I/O error --
   it is neither IoOk (a structure) nor IoPanic *)
Check (eq_refl : @truncation_safe = fun A (c : codec A) (x : A) =>
  forall k, (k < length (c_enc c x))%nat -> exists e, c_dec c (firstn k (c_enc c x)) = IoErr e).

Theorem C14_truncation_u64 : forall x, x < 2 ^ 64 -> truncation_safe u64_codec x.
Proof. intros. apply ok_truncation; [exact u64_codec_ok|assumption]. Qed.
Theorem C14_truncation_pair : forall a b, a < 2 ^ 64 -> b < 2 ^ 64 -> truncation_safe pair_codec (a, b).
Proof. intros. apply ok_truncation; [exact pair_codec_ok|split; assumption]. Qed.
Theorem C14_truncation_vec_u64 : forall l, c_wf vec_u64_codec l -> truncation_safe vec_u64_codec l.
Proof. intros. apply ok_truncation; [exact vec_u64_codec_ok|assumption]. Qed.
Theorem C14_truncation_vec_pair : forall l, c_wf vec_pair_codec l -> truncation_safe vec_pair_codec l.
Proof. intros. apply ok_truncation; [exact vec_pair_codec_ok|assumption]. Qed.
Theorem C14_truncation_bytes : forall m l, bytes_ok l /\ lenN l <= ISIZE_MAX -> truncation_safe (bytes_codec m) l.
Proof. intros. apply ok_truncation; [exact (bytes_codec_ok m)|assumption]. Qed.
Theorem C14_truncation_string : forall m l,
  (bytes_ok l /\ lenN l <= ISIZE_MAX) /\ utf8_valid l = true -> truncation_safe (string_codec m) l.
Proof. intros. apply ok_truncation; [exact (string_codec_ok m)|assumption]. Qed.
(* Option over any correct codec *)
Theorem C14_truncation_option : forall A (c : codec A) (o : option A),
  codec_ok c ->
  match o with None => True | Some x => c_wf c x /\ 0 < c_size c x < 2 ^ 61 end ->
  truncation_safe (option_codec c) o.
Proof. intros A c o Hc W. apply ok_truncation; [now apply option_codec_ok|exact W]. Qed.
Theorem C14_truncation_raw : forall m r, raw_ok r -> truncation_safe (raw_codec m) r.
Proof. intros. apply ok_truncation; [exact (raw_codec_ok m)|assumption]. Qed.
Theorem C14_truncation_intvec : forall m v, iv_ok v -> truncation_safe (iv_codec m) v.
Proof. intros. apply ok_truncation; [exact (iv_codec_ok m)|assumption]. Qed.
Theorem C14_truncation_rank : forall r, rs_ok r -> truncation_safe rs_codec r.
Proof. intros. apply ok_truncation; [exact rs_codec_ok|assumption]. Qed.
Theorem C14_truncation_select : forall m s, ss_ok s -> truncation_safe (ss_codec m) s.
Proof. intros. apply ok_truncation; [exact (ss_codec_ok m)|assumption]. Qed.
(* any subset of supports *)
Theorem C14_truncation_bitvec : forall m b, bv_ok b -> truncation_safe (bv_codec m) b.
Proof. intros. apply ok_truncation; [exact (bv_codec_ok m)|assumption]. Qed.
Theorem C14_truncation_universe : forall m t (x : interp t), c_wf (codec_of m t) x -> truncation_safe (codec_of m t) x.
Proof. intros. apply ok_truncation; [exact (codec_of_ok m t)|assumption]. Qed.
(* several structures in one stream: a cut anywhere is reported by the load it falls into *)
Theorem C14_truncation_concat : forall (l : list tval),
  Forall (fun t => match t with TV _ c x => codec_ok c /\ c_wf c x end) l ->
  forall k, (k < length (enc_all l))%nat -> exists e, dec_all l (firstn k (enc_all l)) = IoErr e.
Proof. exact dec_all_prefix. Qed.
Print Assumptions C14_truncation_u64.
Print Assumptions C14_truncation_pair.
Print Assumptions C14_truncation_vec_u64.
Print Assumptions C14_truncation_vec_pair.
Print Assumptions C14_truncation_bytes.
Print Assumptions C14_truncation_string.
Print Assumptions C14_truncation_option.
Print Assumptions C14_truncation_raw.
Print Assumptions C14_truncation_intvec.
Print Assumptions C14_truncation_rank.
Print Assumptions C14_truncation_select.
Print Assumptions C14_truncation_bitvec.
Print Assumptions C14_truncation_universe.
Print Assumptions C14_truncation_concat.

(* skipping an optional structure that the prefix cuts short is an error too (the code as fixed:
   before the fix io::copy through take() accepted the short stream) *)
Theorem C14_skip_option : forall A (c : codec A) m (o : option A),
  codec_ok c ->
  match o with None => True | Some x => c_wf c x /\ 0 < c_size c x < 2 ^ 61 end ->
  forall k, (k < length (c_enc (option_codec c) o))%nat ->
  exists e, skip_option m (firstn k (c_enc (option_codec c) o)) = IoErr e.
Proof. exact @skip_option_prefix. Qed.
Print Assumptions C14_skip_option.

(* a sink that fails after [room] bytes: whatever the serializer writes (the concatenation of its write_all
   calls, split in any way), if that is longer than the budget then serialize returns the sink's error,
   after the sink has received exactly the first [room] bytes. With chunks = the write_all calls of T::serialize
   and concat chunks = c_enc c x this is the statement for every type T at once. *)
Theorem C14_sink_budget : forall (chunks : list (list byte)) (room : N) (err : ekind),
  room < lenN (concat chunks) ->
  write_seq chunks (mksink [] room err) = (mksink (firstn (N.to_nat room) (concat chunks)) 0 err, IoErr err).
Proof. exact sink_budget. Qed.
(* and it succeeds, with all bytes delivered, exactly when the budget suffices *)
Theorem C14_sink_fits : forall (chunks : list (list byte)) (room : N) (err : ekind),
  lenN (concat chunks) <= room ->
  write_seq chunks (mksink [] room err) = (mksink (concat chunks) (room - lenN (concat chunks)) err, IoOk tt).
Proof. exact sink_fits. Qed.
Print Assumptions C14_sink_budget.
Print Assumptions C14_sink_fits.

(* finding F7 (fixed in /repo by commit da7760b): the code used to ignore how many bytes io::copy had copied.
   Its model accepts a stream that ends inside the optional structure, so the theorem above was false for it. *)
Definition skip_option_before_fix (m : mode) (s : list byte) : io (unit * list byte) :=
  let+ (n, r) := dec_elem s in
  if 0 <? n then
    let+ expected := io_of_res (umul m n bits_WORD_BYTES) in
    IoOk (tt, skipn (N.to_nat (N.min expected (lenN r))) r)
  else IoOk (tt, r).
Example C14_skip_before_fix_refuted :
  exists m s k, (k < length s)%nat /\ s = c_enc (option_codec vec_u64_codec) (Some [1; 2; 3]) /\
                skip_option_before_fix m (firstn k s) = IoOk (tt, []).
Proof. exists Debug, (c_enc (option_codec vec_u64_codec) (Some [1; 2; 3])), 17%nat. repeat split. vm_compute. lia. Qed.

(* ---------------------------------------------------------------- buffered file writers over a failing file

   Vocabulary (Model/WriterFail.v, on top of Model/Writer.v of property C12). The sink behind the file handle is
   [Limit L] - the file cannot grow beyond L bytes (RLIMIT_FSIZE, quota): write_all of k elements at element
   position p succeeds iff k = 0 or 8*(p+k) <= L, otherwise the elements that fit are written and the error EFBIG
   comes back - or [Full] - every non-empty write fails with ENOSPC (/dev/full). The limit is persistent.
   An operation ends as [WOk w] (returned normally), [WErr e w] (returned Err(e), writer left in state w) or
   [WPanic k w] (panicked, state w left behind). wf_run applies the pushes one by one until one does not return
   normally and also gives the number of pushes that did. The hypothesis "w_with_buf_len .. = Ok w0" only says
   that the rounding of the requested buffer size does not overflow (see C12).

   C14_writer_limit: for both build modes, every sink, every parent header, every requested buffer size and every
   sequence of bit pushes and integer pushes of width <= 64, a session create - pushes - close_with_header ends
   in exactly one of these ways, all but the last being a reported failure:
     (1) the constructor returns the sink's error (the 16-byte placeholder header does not fit);
     (2) push number i panics in `self.flush(FlushMode::Safe).unwrap()` (the documented panic); the writer it
         leaves behind (after catch_unwind) answers every later close with the error again;
     (3) every push returns and close returns the sink's error; the file stays open and every later close
         returns the error again;
     (4) close returns Ok: then the file is EXACTLY the header followed by the serialization of the vector the same
         pushes build in memory, the file is closed, and that complete file is within the limit (so with a limit
         below the complete size, and with /dev/full, (4) is impossible: the failure is always reported).
   Never: Ok from close with an incomplete file. *)
Theorem C14_writer_limit : forall m s h0 h1 buf_len w0 ops,
  w_with_buf_len m h0 buf_len = Ok w0 -> length h1 = length h0 ->
  (forall v width, In (PInt v width) ops -> width <= 64) ->
  exists c, wf_with_buf_len m s h0 buf_len = Ok c /\
  match c with
  | WErr e _ => e = fs_err s
  | WPanic _ _ => False
  | WOk w0' => w0' = w0 /\
     exists i r, wf_run s w0 ops 0 = Ok (i, r) /\
     match r with
     | WPanic k wp => k = PUnwrap /\ i < lenN ops /\
          forall h, wf_close_with_header s wp h = Ok (WErr (fs_err s) wp)
     | WErr _ _ => False
     | WOk w1 => i = lenN ops /\
          exists c2, wf_close_with_header s w1 h1 = Ok c2 /\
          match c2 with
          | WErr e we => e = fs_err s /\ w_is_open we = true /\
               forall h, wf_close_with_header s we h = Ok (WErr (fs_err s) we)
          | WPanic _ _ => False
          | WOk w2 => exists mem, mem_run raw_new ops = Ok mem /\ wdisk w2 = h1 ++ raw_serialize mem /\
               w_is_open w2 = false /\ wlen w2 = ops_bits ops /\
               match s with Limit L => 8 * lenN (wdisk w2) <= L | Full => False end
          end
     end
  end.
Proof. exact wfp_writer_limit_raw. Qed.
Print Assumptions C14_writer_limit.

(* the same for RawVectorWriter::new (default buffer size from the source) *)
Theorem C14_writer_limit_default : forall s h0 h1 ops,
  length h1 = length h0 -> (forall v width, In (PInt v width) ops -> width <= 64) ->
  exists c, wf_new s h0 = Ok c /\
  match c with
  | WErr e _ => e = fs_err s
  | WPanic _ _ => False
  | WOk w0' => w0' = w_new h0 /\
     exists i r, wf_run s (w_new h0) ops 0 = Ok (i, r) /\
     match r with
     | WPanic k wp => k = PUnwrap /\ i < lenN ops /\
          forall h, wf_close_with_header s wp h = Ok (WErr (fs_err s) wp)
     | WErr _ _ => False
     | WOk w1 => i = lenN ops /\
          exists c2, wf_close_with_header s w1 h1 = Ok c2 /\
          match c2 with
          | WErr e we => e = fs_err s /\ w_is_open we = true /\
               forall h, wf_close_with_header s we h = Ok (WErr (fs_err s) we)
          | WPanic _ _ => False
          | WOk w2 => exists mem, mem_run raw_new ops = Ok mem /\ wdisk w2 = h1 ++ raw_serialize mem /\
               w_is_open w2 = false /\ wlen w2 = ops_bits ops /\
               match s with Limit L => 8 * lenN (wdisk w2) <= L | Full => False end
          end
     end
  end.
Proof. exact wfp_writer_limit_raw_new. Qed.
Print Assumptions C14_writer_limit_default.

(* conversely nothing fails when the complete file (header, 2 elements of the raw header, the words) is within
   the limit: a limit does not make the writer fail early *)
Theorem C14_writer_fits : forall m L h0 h1 buf_len w0 ops,
  w_with_buf_len m h0 buf_len = Ok w0 -> length h1 = length h0 ->
  (forall v width, In (PInt v width) ops -> width <= 64) ->
  8 * (lenN h0 + 2 + bits_to_words (ops_bits ops)) <= L ->
  exists w1 w2 mem, wf_with_buf_len m (Limit L) h0 buf_len = Ok (WOk w0) /\
    wf_run (Limit L) w0 ops 0 = Ok (lenN ops, WOk w1) /\
    wf_close_with_header (Limit L) w1 h1 = Ok (WOk w2) /\
    mem_run raw_new ops = Ok mem /\ wdisk w2 = h1 ++ raw_serialize mem /\ w_is_open w2 = false.
Proof. exact wfp_writer_fits_raw. Qed.
Print Assumptions C14_writer_fits.

(* on /dev/full no writer comes into being at all *)
Theorem C14_writer_full : forall m h0 buf_len w0,
  w_with_buf_len m h0 buf_len = Ok w0 -> exists w', wf_with_buf_len m Full h0 buf_len = Ok (WErr ENOSPC w').
Proof. exact wfp_full_never_created. Qed.
Print Assumptions C14_writer_full.

(* IntVectorWriter::with_buf_len (every width 1..64, every buffer size in items for which the creation returns,
   every list of values pushed one by one): the same four ways; on success the file is iv_serialize of the
   IntVector built by the same pushes. A panicking push leaves len() one short of the inner writer's count. *)
Theorem C14_writer_limit_int : forall m s width buf_len iw0 xs,
  iw_with_buf_len m width buf_len = Some (Ok iw0) ->
  exists c, wf_iw_with_buf_len m s width buf_len = Some (Ok c) /\
  match c with
  | WErr e _ => e = fs_err s
  | WPanic _ _ => False
  | WOk iw0' => iw0' = iw0 /\
     exists i r, wf_iw_extend s iw0 xs 0 = Ok (i, r) /\
     match r with
     | WPanic k iwp => k = PUnwrap /\ i < lenN xs /\ wf_iw_close s iwp = Ok (WErr (fs_err s) iwp)
     | WErr _ _ => False
     | WOk iw1 => i = lenN xs /\
          exists c2, wf_iw_close s iw1 = Ok c2 /\
          match c2 with
          | WErr e iwe => e = fs_err s /\ w_is_open (iww iwe) = true /\
               wf_iw_close s iwe = Ok (WErr (fs_err s) iwe)
          | WPanic _ _ => False
          | WOk iw2 => exists v0 v, iv_new width = Some v0 /\ iv_push_all v0 xs = Ok v /\
               wdisk (iww iw2) = iv_serialize v /\ w_is_open (iww iw2) = false /\ iwlen iw2 = lenN xs /\
               match s with Limit L => 8 * lenN (wdisk (iww iw2)) <= L | Full => False end
          end
     end
  end.
Proof. exact wfp_writer_limit_int. Qed.
Print Assumptions C14_writer_limit_int.

Theorem C14_writer_limit_int_default : forall s width iw0 xs,
  iw_new width = Some iw0 ->
  exists c, wf_iw_new s width = Some (Ok c) /\
  match c with
  | WErr e _ => e = fs_err s
  | WPanic _ _ => False
  | WOk iw0' => iw0' = iw0 /\
     exists i r, wf_iw_extend s iw0 xs 0 = Ok (i, r) /\
     match r with
     | WPanic k iwp => k = PUnwrap /\ i < lenN xs /\ wf_iw_close s iwp = Ok (WErr (fs_err s) iwp)
     | WErr _ _ => False
     | WOk iw1 => i = lenN xs /\
          exists c2, wf_iw_close s iw1 = Ok c2 /\
          match c2 with
          | WErr e iwe => e = fs_err s /\ w_is_open (iww iwe) = true /\
               wf_iw_close s iwe = Ok (WErr (fs_err s) iwe)
          | WPanic _ _ => False
          | WOk iw2 => exists v0 v, iv_new width = Some v0 /\ iv_push_all v0 xs = Ok v /\
               wdisk (iww iw2) = iv_serialize v /\ w_is_open (iww iw2) = false /\ iwlen iw2 = lenN xs /\
               match s with Limit L => 8 * lenN (wdisk (iww iw2)) <= L | Full => False end
          end
     end
  end.
Proof. exact wfp_writer_limit_int_new. Qed.
Print Assumptions C14_writer_limit_int_default.

Theorem C14_writer_fits_int : forall m L width buf_len iw0 xs,
  iw_with_buf_len m width buf_len = Some (Ok iw0) ->
  8 * (4 + bits_to_words (lenN xs * width)) <= L ->
  exists iw1 iw2 v0 v, wf_iw_with_buf_len m (Limit L) width buf_len = Some (Ok (WOk iw0)) /\
    wf_iw_extend (Limit L) iw0 xs 0 = Ok (lenN xs, WOk iw1) /\ wf_iw_close (Limit L) iw1 = Ok (WOk iw2) /\
    iv_new width = Some v0 /\ iv_push_all v0 xs = Ok v /\
    wdisk (iww iw2) = iv_serialize v /\ w_is_open (iww iw2) = false.
Proof. exact wfp_writer_fits_int. Qed.
Print Assumptions C14_writer_fits_int.

(* A writer that goes out of scope WITHOUT close(): Drop runs `let _ = self.close();`. The documentation of both
   writers says so: "When the writer goes out of scope, the internal buffer is flushed, the file is closed, and
   all errors are ignored. Call close explicitly to handle the errors." This is not a violation of C14 (no
   success is reported - nothing is reported), it is stated here so that the boundary is explicit:
   a writer whose last write failed (open, non-empty buffer, no room for one more element) is dropped without
   any effect and without any report, both for the raw writer and for the integer writer (whose Drop closes
   twice: its own close, then the inner RawVectorWriter's close with an empty parent header). *)
Theorem C14_writer_drop_silent : forall s w p,
  wpos w = Some p -> rdata (wbuf w) <> [] -> fs_room s p = 0 -> wf_drop s w = Ok w.
Proof. intros s w p H1 H2 H3. apply wfp_stuck_drop. exists p. auto. Qed.
Theorem C14_writer_drop_silent_int : forall s iw p,
  wpos (iww iw) = Some p -> rdata (wbuf (iww iw)) <> [] -> fs_room s p = 0 -> wf_iw_drop s iw = Ok iw.
Proof. intros s iw p H1 H2 H3. apply wfp_stuck_iw_drop. exists p. auto. Qed.
Print Assumptions C14_writer_drop_silent.
Print Assumptions C14_writer_drop_silent_int.
(* and a whole session in which NO call reports anything although the data is lost: limit 16 bytes, one 7-bit
   push (stays in the buffer), drop. The file left behind is [0; 0] - a well-formed serialization of the EMPTY
   vector - instead of [7; 1; 5]. Calling close() instead of dropping returns the error. *)
Example C14_drop_swallows :
  exists w0 w1 w2 mem,
    wf_with_buf_len Debug (Limit 16) [] 64 = Ok (WOk w0) /\
    wf_run (Limit 16) w0 [PInt 5 7] 0 = Ok (1, WOk w1) /\
    wf_drop (Limit 16) w1 = Ok w2 /\
    mem_run raw_new [PInt 5 7] = Ok mem /\ raw_serialize mem = [7; 1; 5] /\
    wdisk w2 = [0; 0] /\
    wf_close (Limit 16) w1 = Ok (WErr EFBIG w1).
Proof. do 4 eexists. repeat (match goal with |- _ /\ _ => split end); vm_compute; reflexivity. Qed.

(* mapped views of truncated files belong to C13. *)

(* ---------------------------------------------------------------- non-vacuity *)

Example ex_truncated_raw : forall k, (k < 32)%nat ->
  exists e, c_dec (raw_codec Debug) (firstn k (c_enc (raw_codec Debug) (mkraw 70 [5; 3]))) = IoErr e.
Proof.
  intros k Hk. apply (C14_truncation_raw Debug (mkraw 70 [5; 3])).
  - unfold raw_ok. cbn [rlen rdata]. split; [vm_compute; reflexivity|]. split; [vm_compute; reflexivity|].
    constructor; [vm_compute; reflexivity|]. constructor; [vm_compute; reflexivity|]. constructor.
  - exact Hk.
Qed.
(* the errors are the ones the implementation reports: UnexpectedEof from read_exact *)
Example ex_truncated_kinds :
  map (fun k => c_dec (raw_codec Debug) (firstn k (c_enc (raw_codec Debug) (mkraw 70 [5; 3])))) [0; 7; 8; 16; 31]%nat
  = [IoErr UnexpectedEof; IoErr UnexpectedEof; IoErr UnexpectedEof; IoErr UnexpectedEof; IoErr UnexpectedEof].
Proof. vm_compute. reflexivity. Qed.
(* OUTSIDE the quantifier of C14 (these streams are malformed, not truncated) but worth recording, and confirmed on
   the crate by the malformed stream of the C06 correspondence run: a header that is not the prefix of any valid
   serialization can make a loader panic (overflow checks on) or accept nonsense (overflow checks off) *)
Example ex_malformed_intvec :
  c_dec (iv_codec Debug) (flat_map le64 [2 ^ 63; 2; 0; 0]) = IoPanic POverflow /\
  c_dec (iv_codec Release) (flat_map le64 [2 ^ 63; 2; 0; 0]) = IoOk (mkiv (2 ^ 63) 2 (mkraw 0 []), []).
Proof. split; vm_compute; reflexivity. Qed.
Example ex_malformed_raw :
  c_dec (raw_codec Debug) (flat_map le64 [2 ^ 64 - 1; 0]) = IoPanic POverflow /\
  c_dec (raw_codec Release) (flat_map le64 [2 ^ 64 - 1; 0]) = IoOk (mkraw (2 ^ 64 - 1) [], []).
Proof. split; vm_compute; reflexivity. Qed.
Example ex_malformed_vec : c_dec vec_u64_codec (flat_map le64 [2 ^ 60; 1; 2]) = IoPanic POverflow.
Proof. vm_compute. reflexivity. Qed.
Example ex_sink : write_seq [le64 1; le64 2; [7; 7; 7]] (mksink [] 10 OtherErr)
  = (mksink [1; 0; 0; 0; 0; 0; 0; 0; 2; 0] 0 OtherErr, IoErr OtherErr).
Proof. vm_compute. reflexivity. Qed.

(* the four ways of C14_writer_limit all occur (RawVectorWriter, 64-bit buffer, three 64-bit pushes; the complete
   file has 2 + 3 elements = 40 bytes) *)
Example ex_writer_create_fails : exists w, wf_with_buf_len Debug (Limit 8) [] 64 = Ok (WErr EFBIG w) /\ wdisk w = [0].
Proof. eexists. split; vm_compute; reflexivity. Qed.
Example ex_writer_push_panics : exists w0 wp,
  wf_with_buf_len Debug (Limit 24) [] 64 = Ok (WOk w0) /\
  wf_run (Limit 24) w0 [PInt 1 64; PInt 2 64; PInt 3 64] 0 = Ok (1, WPanic PUnwrap wp) /\
  wdisk wp = [0; 0; 1] /\ wf_close (Limit 24) wp = Ok (WErr EFBIG wp).
Proof. do 2 eexists. repeat (match goal with |- _ /\ _ => split end); vm_compute; reflexivity. Qed.
Example ex_writer_close_fails : exists w0 w1 we,
  wf_with_buf_len Debug (Limit 32) [] 128 = Ok (WOk w0) /\
  wf_run (Limit 32) w0 [PInt 1 64; PInt 2 64; PInt 3 64] 0 = Ok (3, WOk w1) /\
  wf_close (Limit 32) w1 = Ok (WErr EFBIG we) /\ wdisk we = [0; 0; 1; 2] /\ w_is_open we = true.
Proof. do 3 eexists. repeat (match goal with |- _ /\ _ => split end); vm_compute; reflexivity. Qed.
Example ex_writer_complete : exists w0 w1 w2,
  wf_with_buf_len Debug (Limit 40) [] 128 = Ok (WOk w0) /\
  wf_run (Limit 40) w0 [PInt 1 64; PInt 2 64; PInt 3 64] 0 = Ok (3, WOk w1) /\
  wf_close (Limit 40) w1 = Ok (WOk w2) /\ wdisk w2 = [192; 3; 1; 2; 3] /\ w_is_open w2 = false.
Proof. do 3 eexists. repeat (match goal with |- _ /\ _ => split end); vm_compute; reflexivity. Qed.
(* IntVectorWriter whose 32-byte placeholder header does not fit into 24 bytes: the constructor fails, and the Drop
   of the half-made inner writer rewrites a 16-byte header [0; 0] over the start: the file left is [0; 0; 0] *)
Example ex_int_writer_create_fails : exists iw,
  wf_iw_with_buf_len Debug (Limit 24) 13 8 = Some (Ok (WErr EFBIG iw)) /\ wdisk (iww iw) = [0; 0; 0] /\
  w_is_open (iww iw) = false.
Proof. eexists. repeat (match goal with |- _ /\ _ => split end); vm_compute; reflexivity. Qed.
(* OUTSIDE the quantifier of C14, which is about persistent limits, but worth recording (DESIGN.md section 7 lists it as
   a non-finding): what a failed Safe flush leaves behind. Five 13-bit pushes into a 64-bit buffer under a 16-byte
   limit: the fifth push flushes 64 bits, carries 1 bit over, the write fails and the push panics; the carried bit has
   already been cut off the buffer and is not pushed back, while len() counts it. If the obstacle then goes away (here:
   the same state closed under a limit of 1000 bytes), close() returns Ok and the file claims 65 bits in 2 words but
   holds 1 word. A caller who catches the documented panic must not go on using the writer. *)
Example ex_transient_failure_is_not_covered : exists w0 wp w2,
  wf_with_buf_len Debug (Limit 16) [] 64 = Ok (WOk w0) /\
  wf_run (Limit 16) w0 [PInt 1 13; PInt 2 13; PInt 3 13; PInt 4 13; PInt 8191 13] 0 = Ok (4, WPanic PUnwrap wp) /\
  wlen wp = 65 /\ rlen (wbuf wp) = 64 /\
  wf_close (Limit 1000) wp = Ok (WOk w2) /\ wdisk w2 = [65; 2; 18442242673306779649].
Proof. do 3 eexists. repeat (match goal with |- _ /\ _ => split end); vm_compute; reflexivity. Qed.

(* ================================================================ the run-length vector *)

Require Import SDS.Model.RL SDS.Spec.Runs SDS.Proofs.SerRL.

(* RLVector::load on EVERY strict prefix of the serialization of a built vector is an I/O error - not a
   structure, not a panic (the rebuilt indexes are never reached: the four fields are read first) *)
Theorem C14_truncation_rl : forall (m : mode) (R : list (N * N)) (L : N),
  runs_sorted 0 R -> runs_end R <= L -> L <= 2 ^ 64 - 1 -> lenN R < 2 ^ 55 ->
  exists v,
    rl_build m (map (fun r => BTrySet (fst r) (snd r)) R ++ [BSetLen L]) = Ok (v, map (fun _ => true) R ++ [true]) /\
    forall k, (k < length (c_enc (rl_codec m) v))%nat -> exists e, c_dec (rl_codec m) (firstn k (c_enc (rl_codec m) v)) = IoErr e.
Proof.
  intros m R L Hs He HL Hn. destruct (rl_built_wf m R L Hs He HL Hn) as (v & Hb & Hwf).
  exists v. split; [exact Hb|]. exact (ok_truncation _ v (rl_codec_ok m) Hwf).
Qed.
Print Assumptions C14_truncation_rl.

Theorem C14_truncation_rl_wf : forall m v, c_wf (rl_codec m) v -> truncation_safe (rl_codec m) v.
Proof. intros m v H. exact (ok_truncation _ v (rl_codec_ok m) H). Qed.
Print Assumptions C14_truncation_rl_wf.
