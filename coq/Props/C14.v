(* C14 -- truncated input and failed writes are always reported, never accepted.
   Only property theorems here: statement, [exact lemma], Print Assumptions, non-vacuity examples.
   Vocabulary (Spec/Stream.v, Model/Ser.v): a reader is the list of bytes still to come; read_exact on a short
   stream is IoErr UnexpectedEof; c_dec is `load`; results are IoOk / IoErr kind / IoPanic. A sink accepts
   sk_room more bytes and then fails every write with sk_err; write_seq is a sequence of write_all calls chained
   with `?`, which is what every serialize is. Theorems hold in both build modes m. *)
From Coq Require Import NArith List Bool Lia.
Require Import SDS.Model.Mach SDS.Model.Bits SDS.Model.Raw SDS.Model.IntVec SDS.Model.BitVec SDS.Model.Ser.
Require Import SDS.gen.Consts SDS.Spec.Stream SDS.Proofs.SerProof SDS.Proofs.SerTypes SDS.Proofs.SerSupports SDS.Proofs.SerMain.
Import ListNotations.
Open Scope list_scope.
Open Scope N_scope.

(* [truncation_safe c x]: load on EVERY strict prefix of the serialization of x is an I/O error --
   it is neither IoOk (a structure) nor IoPanic *)
Check (eq_refl : @truncation_safe = fun A (c : codec A) (x : A) =>
  forall k, (k < length (c_enc c x))%nat -> exists e, c_dec c (firstn k (c_enc c x)) = IoErr e).

Theorem C14_truncation_u64 : forall x, x < 2 ^ 64 -> truncation_safe u64_codec x.
Proof. intros. apply ok_truncation; [exact u64_codec_ok|assumption]. Qed.
Theorem C14_truncation_pair : forall a b, a < 2 ^ 64 -> b < 2 ^ 64 -> truncation_safe pair_codec (a, b).
Proof. intros. apply ok_truncation; [exact pair_codec_ok|split; assumption]. Qed.
Theorem C14_truncation_vec_u64 : forall l, c_wf vec_u64_codec l -> truncation_safe vec_u64_codec l.
Proof. intros. apply ok_truncation; [exact vec_u64_codec_ok|assumption]. Qed.
Theorem C14_truncation_vec_pair : forall l, c_wf vec_pair_codec l -> truncation_safe vec_pair_codec l.
Proof. intros. apply ok_truncation; [exact vec_pair_codec_ok|assumption]. Qed.
Theorem C14_truncation_bytes : forall m l, bytes_ok l /\ lenN l <= ISIZE_MAX -> truncation_safe (bytes_codec m) l.
Proof. intros. apply ok_truncation; [exact (bytes_codec_ok m)|assumption]. Qed.
Theorem C14_truncation_string : forall m l,
  (bytes_ok l /\ lenN l <= ISIZE_MAX) /\ utf8_valid l = true -> truncation_safe (string_codec m) l.
Proof. intros. apply ok_truncation; [exact (string_codec_ok m)|assumption]. Qed.
(* Option over any correct codec *)
Theorem C14_truncation_option : forall A (c : codec A) (o : option A),
  codec_ok c ->
  match o with None => True | Some x => c_wf c x /\ 0 < c_size c x < 2 ^ 61 end ->
  truncation_safe (option_codec c) o.
Proof. intros A c o Hc W. apply ok_truncation; [now apply option_codec_ok|exact W]. Qed.
Theorem C14_truncation_raw : forall m r, raw_ok r -> truncation_safe (raw_codec m) r.
Proof. intros. apply ok_truncation; [exact (raw_codec_ok m)|assumption]. Qed.
Theorem C14_truncation_intvec : forall m v, iv_ok v -> truncation_safe (iv_codec m) v.
Proof. intros. apply ok_truncation; [exact (iv_codec_ok m)|assumption]. Qed.
Theorem C14_truncation_rank : forall r, rs_ok r -> truncation_safe rs_codec r.
Proof. intros. apply ok_truncation; [exact rs_codec_ok|assumption]. Qed.
Theorem C14_truncation_select : forall m s, ss_ok s -> truncation_safe (ss_codec m) s.
Proof. intros. apply ok_truncation; [exact (ss_codec_ok m)|assumption]. Qed.
(* any subset of supports *)
Theorem C14_truncation_bitvec : forall m b, bv_ok b -> truncation_safe (bv_codec m) b.
Proof. intros. apply ok_truncation; [exact (bv_codec_ok m)|assumption]. Qed.
Theorem C14_truncation_universe : forall m t (x : interp t), c_wf (codec_of m t) x -> truncation_safe (codec_of m t) x.
Proof. intros. apply ok_truncation; [exact (codec_of_ok m t)|assumption]. Qed.
(* several structures in one stream: a cut anywhere is reported by the load it falls into *)
Theorem C14_truncation_concat : forall (l : list tval),
  Forall (fun t => match t with TV _ c x => codec_ok c /\ c_wf c x end) l ->
  forall k, (k < length (enc_all l))%nat -> exists e, dec_all l (firstn k (enc_all l)) = IoErr e.
Proof. exact dec_all_prefix. Qed.
Print Assumptions C14_truncation_u64.
Print Assumptions C14_truncation_pair.
Print Assumptions C14_truncation_vec_u64.
Print Assumptions C14_truncation_vec_pair.
Print Assumptions C14_truncation_bytes.
Print Assumptions C14_truncation_string.
Print Assumptions C14_truncation_option.
Print Assumptions C14_truncation_raw.
Print Assumptions C14_truncation_intvec.
Print Assumptions C14_truncation_rank.
Print Assumptions C14_truncation_select.
Print Assumptions C14_truncation_bitvec.
Print Assumptions C14_truncation_universe.
Print Assumptions C14_truncation_concat.

(* skipping an optional structure that the prefix cuts short is an error too (the code as fixed:
   before the fix io::copy through take() accepted the short stream) *)
Theorem C14_skip_option : forall A (c : codec A) m (o : option A),
  codec_ok c ->
  match o with None => True | Some x => c_wf c x /\ 0 < c_size c x < 2 ^ 61 end ->
  forall k, (k < length (c_enc (option_codec c) o))%nat ->
  exists e, skip_option m (firstn k (c_enc (option_codec c) o)) = IoErr e.
Proof. exact @skip_option_prefix. Qed.
Print Assumptions C14_skip_option.

(* a sink that fails after [room] bytes: whatever the serializer writes (the concatenation of its write_all
   calls, split in any way), if that is longer than the budget then serialize returns the sink's error,
   after the sink has received exactly the first [room] bytes. With chunks = the write_all calls of T::serialize
   and concat chunks = c_enc c x this is the statement for every type T at once. *)
Theorem C14_sink_budget : forall (chunks : list (list byte)) (room : N) (err : ekind),
  room < lenN (concat chunks) ->
  write_seq chunks (mksink [] room err) = (mksink (firstn (N.to_nat room) (concat chunks)) 0 err, IoErr err).
Proof. exact sink_budget. Qed.
(* and it succeeds, with all bytes delivered, exactly when the budget suffices *)
Theorem C14_sink_fits : forall (chunks : list (list byte)) (room : N) (err : ekind),
  lenN (concat chunks) <= room ->
  write_seq chunks (mksink [] room err) = (mksink (concat chunks) (room - lenN (concat chunks)) err, IoOk tt).
Proof. exact sink_fits. Qed.
Print Assumptions C14_sink_budget.
Print Assumptions C14_sink_fits.

(* finding F7 (fixed in /repo by commit da7760b): the code used to ignore how many bytes io::copy had copied.
   Its model accepts a stream that ends inside the optional structure, so the theorem above was false for it. *)
Definition skip_option_before_fix (m : mode) (s : list byte) : io (unit * list byte) :=
  let+ (n, r) := dec_elem s in
  if 0 <? n then
    let+ expected := io_of_res (umul m n bits_WORD_BYTES) in
    IoOk (tt, skipn (N.to_nat (N.min expected (lenN r))) r)
  else IoOk (tt, r).
Example C14_skip_before_fix_refuted :
  exists m s k, (k < length s)%nat /\ s = c_enc (option_codec vec_u64_codec) (Some [1; 2; 3]) /\
                skip_option_before_fix m (firstn k s) = IoOk (tt, []).
Proof. exists Debug, (c_enc (option_codec vec_u64_codec) (Some [1; 2; 3])), 17%nat. repeat split. vm_compute. lia. Qed.

(* NOT in this round (listed under "partial" in tools/props.d/C14.json): buffered file writers under a
   persistent file-size limit (close = IoOk -> file complete), which needs the writer model of C12;
   mapped views of truncated files (C13). *)

(* ---------------------------------------------------------------- non-vacuity *)

Example ex_truncated_raw : forall k, (k < 32)%nat ->
  exists e, c_dec (raw_codec Debug) (firstn k (c_enc (raw_codec Debug) (mkraw 70 [5; 3]))) = IoErr e.
Proof.
  intros k Hk. apply (C14_truncation_raw Debug (mkraw 70 [5; 3])).
  - unfold raw_ok. cbn [rlen rdata]. split; [vm_compute; reflexivity|]. split; [vm_compute; reflexivity|].
    constructor; [vm_compute; reflexivity|]. constructor; [vm_compute; reflexivity|]. constructor.
  - exact Hk.
Qed.
(* the errors are the ones the implementation reports: UnexpectedEof from read_exact *)
Example ex_truncated_kinds :
  map (fun k => c_dec (raw_codec Debug) (firstn k (c_enc (raw_codec Debug) (mkraw 70 [5; 3])))) [0; 7; 8; 16; 31]%nat
  = [IoErr UnexpectedEof; IoErr UnexpectedEof; IoErr UnexpectedEof; IoErr UnexpectedEof; IoErr UnexpectedEof].
Proof. vm_compute. reflexivity. Qed.
(* OUTSIDE the quantifier of C14 (these streams are malformed, not truncated) but worth recording, and confirmed on
   the crate by the malformed stream of the C06 correspondence run: a header that is not the prefix of any valid
   serialization can make a loader panic (overflow checks on) or accept nonsense (overflow checks off) *)
Example ex_malformed_intvec :
  c_dec (iv_codec Debug) (flat_map le64 [2 ^ 63; 2; 0; 0]) = IoPanic POverflow /\
  c_dec (iv_codec Release) (flat_map le64 [2 ^ 63; 2; 0; 0]) = IoOk (mkiv (2 ^ 63) 2 (mkraw 0 []), []).
Proof. split; vm_compute; reflexivity. Qed.
Example ex_malformed_raw :
  c_dec (raw_codec Debug) (flat_map le64 [2 ^ 64 - 1; 0]) = IoPanic POverflow /\
  c_dec (raw_codec Release) (flat_map le64 [2 ^ 64 - 1; 0]) = IoOk (mkraw (2 ^ 64 - 1) [], []).
Proof. split; vm_compute; reflexivity. Qed.
Example ex_malformed_vec : c_dec vec_u64_codec (flat_map le64 [2 ^ 60; 1; 2]) = IoPanic POverflow.
Proof. vm_compute. reflexivity. Qed.
Example ex_sink : write_seq [le64 1; le64 2; [7; 7; 7]] (mksink [] 10 OtherErr)
  = (mksink [1; 0; 0; 0; 0; 0; 0; 0; 2; 0] 0 OtherErr, IoErr OtherErr).
Proof. vm_compute. reflexivity. Qed.

(* ================================================================ the run-length vector *)

Require Import SDS.Model.RL SDS.Spec.Runs SDS.Proofs.SerRL.

(* RLVector::load on EVERY strict prefix of the serialization of a built vector is an I/O error - not a
   structure, not a panic (the rebuilt indexes are never reached: the four fields are read first) *)
Theorem C14_truncation_rl : forall (m : mode) (R : list (N * N)) (L : N),
  runs_sorted 0 R -> runs_end R <= L -> L <= 2 ^ 64 - 1 -> lenN R < 2 ^ 55 ->
  exists v,
    rl_build m (map (fun r => BTrySet (fst r) (snd r)) R ++ [BSetLen L]) = Ok (v, map (fun _ => true) R ++ [true]) /\
    forall k, (k < length (c_enc (rl_codec m) v))%nat -> exists e, c_dec (rl_codec m) (firstn k (c_enc (rl_codec m) v)) = IoErr e.
Proof.
  intros m R L Hs He HL Hn. destruct (rl_built_wf m R L Hs He HL Hn) as (v & Hb & Hwf).
  exists v. split; [exact Hb|]. exact (ok_truncation _ v (rl_codec_ok m) Hwf).
Qed.
Print Assumptions C14_truncation_rl.

Theorem C14_truncation_rl_wf : forall m v, c_wf (rl_codec m) v -> truncation_safe (rl_codec m) v.
Proof. intros m v H. exact (ok_truncation _ v (rl_codec_ok m) H). Qed.
Print Assumptions C14_truncation_rl_wf.
