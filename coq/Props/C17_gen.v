(* C17 -- translator tie: the Gallina that tools/gen.py translates from the CURRENT Rust source on every check
   (gen/Funs2.v, the definitions named f2_...) IS the hand-written model function that the models of this property use.
   Source: src/bits.rs (low_set, high_set, bit_len, reverse_low, split_offset).
   A change to one of these functions in the crate changes gen/Funs2.v and breaks a theorem below (or the
   translator, which fails closed on constructs it does not support).
   Only property theorems here: statement, [exact lemma], Print Assumptions. *)
From Coq Require Import NArith List Bool.
Require Import SDS.Model.Mach SDS.Model.Bits SDS.gen.Consts SDS.gen.Funs SDS.gen.Funs2.
Require SDS.Proofs.GenTieBits.
Open Scope N_scope.

(* low_set(n) = LOW_SET[n], high_set(n) = HIGH_SET[n] (bounds-checked) *)
Theorem C17_gen_low_set : forall m n, f2_low_set m n = low_set n.
Proof. exact GenTieBits.tie_low_set. Qed.
Print Assumptions C17_gen_low_set.

Theorem C17_gen_high_set : forall m n, f2_high_set m n = high_set n.
Proof. exact GenTieBits.tie_high_set. Qed.
Print Assumptions C17_gen_high_set.

(* bit_len(n) = WORD_BITS - leading_zeros(n | 1), never a panic *)
Theorem C17_gen_bit_len : forall m n, f2_bit_len m n = Ok (bit_len n).
Proof. exact GenTieBits.tie_bit_len. Qed.
Print Assumptions C17_gen_bit_len.

(* reverse_low(n, bits) = n.reverse_bits() >> (WORD_BITS - bits): same result and same panics for all arguments *)
Theorem C17_gen_reverse_low : forall m n bits, f2_reverse_low m n bits = reverse_low m n bits.
Proof. exact GenTieBits.tie_reverse_low. Qed.
Print Assumptions C17_gen_reverse_low.

(* split_offset(bit_offset) = (bit_offset >> INDEX_SHIFT, bit_offset & OFFSET_MASK), never a panic *)
Theorem C17_gen_split_offset : forall m bo, f2_split_offset m bo = Ok (split_offset bo).
Proof. exact GenTieBits.tie_split_offset. Qed.
Print Assumptions C17_gen_split_offset.
