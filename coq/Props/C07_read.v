(* C07, READ direction -- "a file produced from the document's rules alone - support structures absent, any admissible
   parameter choice - loads and answers all queries correctly".
   Only property theorems here: statement, [exact lemma], Print Assumptions, non-vacuity Examples.
   Reading guide. F = Spec/Format.v, the format document formalised from SERIALIZATION.md alone. For every documented
   type T, [F.doc_encode_T c x] is the element list the DOCUMENT's writer produces for the logical content x under
   the writer-side choice c (support structures absent: F.no_sup; sparse vectors: ANY low width w; integer vectors
   and wavelet-matrix cores: ANY sufficient width; run-length vectors and first[]: no freedom, minimal widths). The
   file is the little-endian bytes of those elements, [flat_map le64 f], followed by ANY further bytes [rest] (the
   structure may be embedded in a larger file). [c_dec codec] is the byte-level model of the crate's `load`
   (Model/Ser.v, SerSparse.v, SerWM.v, SerComposite.v: every read, every sanity check, the enabling of support
   structures after loading). Each theorem says: load returns Ok, leaves exactly [rest] unread, and the value it
   returns answers the queries of its type (C01..C05) exactly as the specification of x says - on every select path
   [sp'] and in every overflow mode [m'] of the querying binary where the queries depend on them.
   The size hypotheses are the addressability bounds of the models (bit counts below 2^64 with the margins the
   superblock arithmetic of SelectSupport needs); they are the same as in the write direction. *)
From Coq Require Import NArith List Bool.
Require Import SDS.Model.Mach SDS.Model.Bits SDS.Model.Raw SDS.Model.IntVec SDS.Model.BitVec SDS.Model.Ser SDS.Model.SerBV.
Require Import SDS.Model.Sparse SDS.Model.RL SDS.Model.WM SDS.Model.SerComposite SDS.Model.SerSparse SDS.Model.SerWM.
Require Import SDS.gen.Consts.
Require Import SDS.Spec.BitSeq SDS.Spec.SeqSpec SDS.Spec.ValSeq SDS.Spec.Runs SDS.Spec.Seq SDS.Spec.Utf8 SDS.Spec.Stream.
Require Import SDS.Proofs.RawProof SDS.Proofs.IntVecProof SDS.Proofs.BVCommon SDS.Proofs.SerProof.
Require Import SDS.Proofs.SparseProof SDS.Proofs.SparseMain.
Require SDS.Spec.Format.
Require SDS.Proofs.FormatRead SDS.Proofs.FormatReadString SDS.Proofs.FormatReadSparse SDS.Proofs.FormatReadRL SDS.Proofs.FormatReadWM.
Import ListNotations.
Open Scope list_scope.
Open Scope N_scope.
Module F := SDS.Spec.Format.

(* ================================================================== basic structures *)

Theorem C07_reads_conform_vec : forall items rest,
  F.lenN items * 8 < 2 ^ 63 -> Forall (fun x => x < 2 ^ 64) items ->
  c_dec vec_u64_codec (flat_map le64 (F.doc_encode_vec items) ++ rest) = IoOk (items, rest).
Proof. exact FormatRead.read_vec. Qed.
Print Assumptions C07_reads_conform_vec.

Theorem C07_reads_conform_pairs : forall (items : list (N * N)) rest,
  F.lenN items * 16 < 2 ^ 63 -> Forall (fun p : N * N => fst p < 2 ^ 64 /\ snd p < 2 ^ 64) items ->
  c_dec vec_pair_codec (flat_map le64 (F.doc_encode_pairs items) ++ rest) = IoOk (items, rest).
Proof. exact FormatRead.read_pairs. Qed.
Print Assumptions C07_reads_conform_pairs.

(* byte vectors of every length (every padding 0..7) *)
Theorem C07_reads_conform_bytes : forall m bs rest,
  F.lenN bs < 2 ^ 63 -> Forall (fun b => b < 256) bs ->
  c_dec (bytes_codec m) (flat_map le64 (F.doc_encode_bytes bs) ++ rest) = IoOk (bs, rest).
Proof. exact FormatRead.read_bytes. Qed.
Print Assumptions C07_reads_conform_bytes.

(* strings: loaded exactly when the bytes are UTF-8 in the sense of the document (decoding to scalar values, shortest
   form); otherwise InvalidData, never a value and never a panic *)
Theorem C07_reads_conform_string : forall m bs rest,
  F.lenN bs < 2 ^ 63 -> Forall (fun b => b < 256) bs ->
  c_dec (string_codec m) (flat_map le64 (F.doc_encode_string bs) ++ rest) =
  if sp_utf8 bs then IoOk (bs, rest) else IoErr InvalidData.
Proof. exact FormatReadString.read_string. Qed.
Print Assumptions C07_reads_conform_string.

(* Option<T> around ANY type whose loader is a correct codec and whose serializer writes the elements [ser x] *)
Theorem C07_reads_conform_opt : forall (A : Type) (c : codec A) (ser : A -> list N) (o : option A) rest,
  codec_ok c -> (forall x, c_enc c x = flat_map le64 (ser x)) ->
  match o with None => True | Some x => c_wf c x /\ 0 < c_size c x < 2 ^ 61 /\ F.lenN (ser x) = c_size c x end ->
  c_dec (option_codec c) (flat_map le64 (F.doc_encode_opt (option_map ser o)) ++ rest) = IoOk (o, rest).
Proof. exact @FormatRead.read_opt. Qed.
Print Assumptions C07_reads_conform_opt.

(* ================================================================== raw and integer vectors *)

(* the loaded vector satisfies the invariant and has content B: every operation of C05 is stated over these two;
   the two reads are spelled out *)
Theorem C07_reads_conform_raw : forall m (B : list bool) rest, F.lenN B + 63 < 2 ^ 64 ->
  exists r, c_dec (raw_codec m) (flat_map le64 (F.doc_encode_raw B) ++ rest) = IoOk (r, rest) /\
    raw_inv r /\ abs_raw r = B /\ rlen r = F.lenN B /\
    (forall i, i < F.lenN B -> raw_bit r i = Ok (nthb B i)) /\
    (forall off w, w <= 64 -> off + w <= F.lenN B -> raw_int r off w = Ok (bits_val (takeN w (dropN off B)))).
Proof. exact FormatRead.read_raw_exact. Qed.
Print Assumptions C07_reads_conform_raw.

(* ANY width 1..64 that holds the items (IntVector::from / pack would choose particular ones) *)
Theorem C07_reads_conform_int : forall m w (items : list N) rest,
  1 <= w <= 64 -> F.lenN items * w + 63 < 2 ^ 64 -> Forall (fun v => v < 2 ^ w) items ->
  exists v, c_dec (iv_codec m) (flat_map le64 (F.doc_encode_int w items) ++ rest) = IoOk (v, rest) /\
    iv_inv v /\ iwidth v = w /\ ilen v = F.lenN items /\ abs_iv v = items /\
    (forall i, i < F.lenN items -> iv_get v i = Ok (nthn items i)) /\
    iv_items v = Ok items.
Proof. exact FormatRead.read_int_exact. Qed.
Print Assumptions C07_reads_conform_int.

(* ================================================================== plain bitvector *)

(* The file carries none of the three optional support structures. BitVector::load (mode m) returns a vector b0
   without supports that stores B; after the application enables them (any select path sp, any mode mb) every query
   of C01 is exact for every argument, on every query path sp' and in every mode m'.
   (Before this file Props/C07.v only stated this, as an unproved Definition.) *)
Theorem C07_reads_conform_bv : forall m sp mb sp' m' (B : list bool) rest,
  F.lenN B + select_SUPERBLOCK_SIZE < 2 ^ 64 ->
  exists b0, c_dec (bv_codec m) (flat_map le64 (F.doc_encode_bv F.no_sup B) ++ rest) = IoOk (b0, rest) /\
    bv_rank b0 = None /\ bv_select b0 = None /\ bv_select_zero b0 = None /\
    bv_repr b0 B /\ abs_raw (bv_data b0) = B /\ bv_ones b0 = count B /\
    exists b, bv_enable_all sp mb b0 = Ok b /\
      bv_len b = lenB B /\ bv_count_ones b = count B /\ bv_count_zeros b = lenB B - count B /\
      (forall i, i < lenB B -> exists x, bv_get b i = Ok x /\ getb B i = Some x) /\
      (forall i, bv_rank_q b i = Ok (rank1 B i)) /\
      (forall i, bv_rank_zero m' b i = Ok (i - rank1 B i) /\
                 (i <= lenB B -> i - rank1 B i = rank1 (map negb B) i)) /\
      (forall r, bv_select_t sp' m' Identity b r = Ok (select1 B r)) /\
      (forall r, bv_select_t sp' m' Complement b r = Ok (select0 B r)) /\
      (forall v, v < 2 ^ 64 -> exists it it',
         bv_successor sp' m' b v = Ok it /\ oi_next_f Identity b it = Ok (it', succ1 B v)) /\
      (forall v, v < 2 ^ 64 -> exists it it',
         bv_predecessor sp' m' b v = Ok it /\ oi_next_f Identity b it = Ok (it', pred1 B v)).
Proof. exact FormatRead.read_bv_exact. Qed.
Print Assumptions C07_reads_conform_bv.

(* ================================================================== sparse bitvector *)

(* Universe n < 2^64, ANY low width w in 1..63 - not only the one the crate's f64 rule would pick -, any sorted items
   below n (duplicates allowed: the document's Note on multisets), the high bitvector written WITHOUT support
   structures. SparseVector::load (select path sp, mode m: it enables select and select_zero on the high part and
   makes its two sanity checks) returns a vector sv with sv.len = n and low width w that satisfies the representation
   invariant of C02 for (n, items, w) through the document's own high bit list - so NO builder of the crate is
   involved - and hence answers, on every query path and in every mode: get / rank / select / predecessor /
   successor / is_multiset [present_queries_ok] and all iterators [iter_queries_ok] exactly, and for sets (strictly
   increasing items) rank_zero / select_zero / zero iterators [zero_queries_ok] exactly (the three predicates are
   those of C02_queries_of_representation, written out in C02_sparse_exact). *)
Theorem C07_reads_conform_sparse : forall sp m w n (items : list N) rest,
  n < 2 ^ 64 -> 1 <= w <= 63 -> F.sorted_le items = true -> Forall (fun x => x < n) items ->
  F.lenN items + F.doc_buckets n w + select_SUPERBLOCK_SIZE < 2 ^ 64 -> F.lenN items * w + 63 < 2 ^ 64 ->
  exists sv,
    c_dec (sparse_codec sp m) (flat_map le64 (F.doc_encode_sparse w (n, items)) ++ rest) = IoOk (sv, rest) /\
    sv_len sv = n /\ iwidth (sv_low sv) = w /\
    forall sp' m',
      sv_ok sp' m' sv n w items (F.high_bits w 0 items (F.doc_buckets n w)) /\
      present_queries_ok sp' m' sv n items /\ iter_queries_ok sp' m' sv n items /\
      (F.sorted_lt items = true -> zero_queries_ok sp' m' sv n items).
Proof. exact FormatReadSparse.read_sparse_exact. Qed.
Print Assumptions C07_reads_conform_sparse.

(* ================================================================== run-length encoded bitvector *)

(* Content: length len and the maximal runs of set bits. The document leaves the writer no freedom (greedy packing
   into 64-unit blocks, padding, samples at the minimal width). RLVector::load rebuilds the three SampleIndexes from
   the samples; the loaded vector answers every query of C03 exactly (load and queries by the same binary: mode m). *)
Theorem C07_reads_conform_rl : forall m len (runs : list (N * N)) rest,
  runs_maximal true 0 runs -> runs_end runs <= len -> len < 2 ^ 64 -> lenN runs < 2 ^ 55 ->
  exists v,
    c_dec (rl_codec m) (flat_map le64 (F.doc_encode_rl (len, runs)) ++ rest) = IoOk (v, rest) /\
    rl_len v = len /\ rl_ones v = runs_ones runs /\ rl_count_zeros v = len - runs_ones runs /\
    rl_runs m v = Ok (runs_with_pos 0 runs) /\
    (forall i, i < len -> rl_get m v i = Ok (runs_get runs i)) /\
    (forall i, i < 2 ^ 64 -> rl_rank m v i = Ok (runs_rank runs i)) /\
    (forall i, i < 2 ^ 64 -> rl_rank_zero m v i = Ok (i - runs_rank runs i)) /\
    (forall r, r < 2 ^ 64 -> rl_select m v r = Ok (runs_select runs r)) /\
    (forall r, r < 2 ^ 64 -> rl_select_zero m v r = Ok (runs_select_zero runs len r)) /\
    (forall x, x < 2 ^ 64 -> oi_first m v (rl_predecessor m v x) = Ok (runs_pred runs x)) /\
    (forall x, x < 2 ^ 64 -> oi_first m v (rl_successor m v x) = Ok (runs_succ runs x)).
Proof. exact FormatReadRL.read_rl_exact. Qed.
Print Assumptions C07_reads_conform_rl.

(* the reason: the document's file IS, element for element, the file the model of the crate writes for the vector
   built from those runs *)
Theorem C07_rl_doc_is_model : forall m (R : list (N * N)) L,
  runs_sorted 0 R -> runs_end R <= L -> L <= 2 ^ 64 - 1 -> lenN R < 2 ^ 55 ->
  exists v,
    rl_build m (map (fun r => BTrySet (fst r) (snd r)) R ++ [BSetLen L]) = Ok (v, map (fun _ => true) R ++ [true]) /\
    c_wf (rl_codec m) v /\
    rl_serialize v = F.doc_encode_rl (L, maximal R).
Proof. exact FormatReadRL.rl_doc_is_model. Qed.
Print Assumptions C07_rl_doc_is_model.

(* ================================================================== wavelet matrices *)

(* WMCore: ANY width 1..64 that holds the items (WMCore::from picks the minimal one; the document does not ask for
   it: a wider core has all-zero leading levels), every level bitvector without support structures. WMCore::load
   (width check, common length check, init_support on every level) returns a core of that width whose mapping
   functions are exact for every argument, on every query path and in every mode. *)
Theorem C07_reads_conform_wmcore : forall sp m width (V : list N),
  1 <= width <= 64 -> lenN V + 4096 < 2 ^ 64 -> Forall (fun x => x < 2 ^ width) V ->
  forall rest,
  exists levels,
    c_dec (wmcore_codec sp m) (flat_map le64 (F.doc_encode_wmcore (width, V)) ++ rest) = IoOk (mkcore levels, rest) /\
    forall sp' m',
    let core := mkcore levels in
    wc_len core = Ok (lenS V) /\ wc_width core = width /\
    (forall i, i < 2 ^ 64 -> wc_map_down m' core i = Ok (map_down_v V i)) /\
    (forall i v, i < 2 ^ 64 -> wc_map_down_with m' core i v = Ok (map_down_with_v V i (v mod 2 ^ width))) /\
    (forall i1 i2 v, i1 < 2 ^ 64 -> i2 < 2 ^ 64 ->
       wc_map_down_with_two m' core i1 i2 v =
       Ok (map_down_with_v V i1 (v mod 2 ^ width), map_down_with_v V i2 (v mod 2 ^ width))) /\
    (forall j v, j < 2 ^ 64 -> wc_map_up_with sp' m' core j v = Ok (map_up_v V j (v mod 2 ^ width))) /\
    (forall i x, nth_opt V i = Some x ->
       exists j, j < lenS V /\ wc_map_down m' core i = Ok (Some (j, x)) /\
                 wc_map_down_with m' core i x = Ok j /\ wc_map_up_with sp' m' core j x = Ok (Some i)).
Proof. exact FormatReadWM.read_wmcore_exact. Qed.
Print Assumptions C07_reads_conform_wmcore.

(* WaveletMatrix: the core as above (ANY sufficient width) and first[] over the alphabet 0..=max at its minimal
   width, as the document demands. WaveletMatrix::load returns a matrix that answers every query of C04 exactly.
   [alphabet_size V < 2^58]: first[] has max+1 entries of up to 64 bits; their bit count must be addressable. *)
Theorem C07_reads_conform_wm : forall sp m width (V : list N),
  1 <= width <= 64 -> lenN V + 4096 < 2 ^ 64 -> Forall (fun x => x < 2 ^ width) V -> F.alphabet_size V < 2 ^ 58 ->
  forall rest,
  exists levels first,
    c_dec (wm_codec sp m) (flat_map le64 (F.doc_encode_wm (width, V)) ++ rest)
      = IoOk (mkwm (lenN V) (mkcore levels) first, rest) /\
    forall sp' m',
    let wm := mkwm (lenN V) (mkcore levels) first in
    wm_len wm = lenS V /\ wm_width wm = width /\
    (forall i, i < 2 ^ 64 -> wm_get m' wm i = match get_v V i with Some x => Ok x | None => Panic PUnwrap end) /\
    (forall i v, i < 2 ^ 64 -> wm_rank m' wm i v = Ok (rank_v V i v)) /\
    (forall r v, r < 2 ^ 64 -> wm_select sp' m' wm r v = Ok (select_v V r v)) /\
    (forall i, i < 2 ^ 64 -> wm_inverse_select m' wm i = Ok (inverse_select_v V i)) /\
    (forall v, wm_contains wm v = Ok (contains_v V v)) /\
    (forall v, vi_items sp' m' wm (wm_value_iter v) = Ok (value_iter_v V v) /\ wm_value_of (wm_value_iter v) = v) /\
    (forall r v, r < 2 ^ 64 -> vi_items sp' m' wm (wm_select_iter r v) = Ok (select_iter_v V r v)) /\
    (forall i v, i < 2 ^ 64 -> (let* it := wm_predecessor m' wm i v in vi_items sp' m' wm it) = Ok (pred_v V i v)) /\
    (forall i v, i < 2 ^ 64 -> (let* it := wm_successor m' wm i v in vi_items sp' m' wm it) = Ok (succ_v V i v)) /\
    wm_into_iter m' wm = Ok V.
Proof. exact FormatReadWM.read_wm_exact. Qed.
Print Assumptions C07_reads_conform_wm.

(* ================================================================== non-vacuity *)

(* {1, 5, 6, 15} in a universe of 16 written with low width 3 (the crate's rule gives 1 for this density), no support
   structures (13 elements), followed by a foreign byte: loaded on the portable path in release mode, queried on the
   PDEP path with overflow checks *)
Example C07_read_sparse_instance :
  match c_dec (sparse_codec Portable Release) (flat_map le64 (F.doc_encode_sparse 3 (16, [1; 5; 6; 15])) ++ [7]) with
  | IoOk (sv, rest) =>
      rest = [7] /\ iwidth (sv_low sv) = 3 /\ bv_supports (sv_high sv) = 6 /\
      sv_rank Pdep Debug sv 6 = Ok 2 /\ sv_select Pdep Debug sv 3 = Ok (Some 15) /\
      sv_select_zero Pdep Debug sv 4 = Ok (Some 7) /\ sv_get Pdep Debug sv 5 = Ok true
  | _ => False
  end.
Proof. vm_compute. repeat split; reflexivity. Qed.

(* the hypotheses of C07_reads_conform_sparse hold for that file *)
Example C07_read_sparse_hyps :
  16 < 2 ^ 64 /\ 1 <= 3 <= 63 /\ F.sorted_le [1; 5; 6; 15] = true /\ Forall (fun x => x < 16) [1; 5; 6; 15] /\
  F.lenN [1; 5; 6; 15] + F.doc_buckets 16 3 + select_SUPERBLOCK_SIZE < 2 ^ 64 /\ F.lenN [1; 5; 6; 15] * 3 + 63 < 2 ^ 64.
Proof. repeat split; try reflexivity; try discriminate; repeat constructor. Qed.

(* a wavelet matrix of items below 8 written with a 5-level core (two all-zero leading levels) and no supports *)
Example C07_read_wm_instance :
  match c_dec (wm_codec Pdep Debug) (flat_map le64 (F.doc_encode_wm (5, [1; 5; 0; 7; 1; 3])) ++ [9]) with
  | IoOk (w, rest) =>
      rest = [9] /\ wm_width w = 5 /\ wm_get Release w 3 = Ok 7 /\ wm_rank Release w 5 1 = Ok 2 /\
      wm_select Portable Release w 1 1 = Ok (Some 4) /\ wm_into_iter Release w = Ok [1; 5; 0; 7; 1; 3]
  | _ => False
  end.
Proof. vm_compute. repeat split; reflexivity. Qed.

(* a run-length vector, an integer vector at a non-minimal width, a bitvector *)
Example C07_read_core_instances :
  (match c_dec (rl_codec Debug) (flat_map le64 (F.doc_encode_rl (100, [(0, 1); (5, 10); (20, 30)]))) with
   | IoOk (v, rest) => rest = [] /\ rl_rank Debug v 25 = Ok 16 /\ rl_select Debug v 11 = Ok (Some 20)
   | _ => False end) /\
  (match c_dec (iv_codec Release) (flat_map le64 (F.doc_encode_int 13 [5; 0; 4097])) with
   | IoOk (v, rest) => rest = [] /\ iwidth v = 13 /\ iv_get v 2 = Ok 4097
   | _ => False end) /\
  (match c_dec (bv_codec Release) (flat_map le64 (F.doc_encode_bv F.no_sup [true; false; true; true])) with
   | IoOk (b, rest) => rest = [] /\ bv_supports b = 0 /\ bv_ones b = 3
   | _ => False end).
Proof. vm_compute. repeat split; reflexivity. Qed.
