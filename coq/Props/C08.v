(* C08 -- the safe API never touches memory outside a structure's buffers.
   Only property theorems here: statement, [exact lemma], Print Assumptions, non-vacuity Examples.

   How the property is represented: in the models (Model/Mach.v) every unchecked access of the source
   (`get_unchecked` on the mask tables and the tables of the portable select, `word_unchecked`,
   `samples.get_unchecked`) is the PARTIAL lookup [idx_unchecked site l i], which yields [OOB site] when i is not
   an index of l -- never a default value.  A bounds-checked `v[i]` that misses is [Panic PIndex], an `assert!`
   is [Panic PAssert], `unwrap()` on None is [Panic PUnwrap].  "No out-of-bounds access" is therefore: the result
   is [Ok _] or [Panic _], i.e. [is_oob r = false].  Arithmetic on caller-supplied values is [uadd/usub m]
   (Debug: overflow panics; Release: wraps mod 2^64), and every theorem is for BOTH modes and BOTH
   implementations of bits::select (Pdep | Portable) and for EVERY argument value (no bound at all is needed on
   the numeric arguments; machine values are those < 2^64).

   Vocabulary: [bv_repr b B] (Proofs/BVCommon.v): b stores the bit sequence B (exact word count, 64-bit words,
   unused bits clear, ones = count B).  [rank_ok b B] (RankProof.v): the rank support is the one
   RankSupport::new builds.  [select_ok sp0 m0 t b B] (SelectProof.v): the select support for transformation t is
   the one SelectSupport::new builds (on path sp0, mode m0).  [supports_ok sp0 m0 b B] (NoOobProof.v): whichever
   of the three supports is present is the builder's.  [iv_inv] (IntVecProof.v): width in 1..64, len * width bits,
   raw invariant.  [oi_inv t B it] (OneIterProof.v): the invariant of OneIter<T>.

   The run-length vector is covered by a theorem over its model (C08_no_oob_rl at the end of this file).
   Reduction for the other structures (not modelled in this file; checked by reading the source, see
   tools/props.d/C08.json for the list of every `unsafe` in /repo/src): SparseVector, RLVector, WaveletMatrix,
   WMCore and the ops traits contain no memory-unsafe operation of their own.  They index with `[]`,
   IntVector::get/set (asserting) and the plain BitVector's safe queries and iterators, which are the subject of
   the theorems below.  The only `unsafe` blocks there are: SparseVector::split's
   `low_set_unchecked(self.low.width())` (width <= 64: IntVector constructors reject other widths, [iv_inv]);
   calls to `SparseBuilder::set_unchecked` / `RLBuilder::set_bit_unchecked` / `set_run_unchecked`, which are
   `unsafe` only in the logical sense (they skip order checks; every memory access inside is `set_bit` / `set` /
   `push`, all bounds-checked).  Memory-mapped variants are C13's subject (site SITE_MAP_WORD).

   Not expressible here (partial, named in the manifest): real pointers, allocator layout, `from_raw_parts`
   provenance in serialize.rs; those are covered by the correspondence run with bounds hooks and, in the thorough
   tier, AddressSanitizer. *)
From Coq Require Import NArith List Bool.
Require Import SDS.Model.Mach SDS.Model.Bits SDS.Model.Raw SDS.Model.IntVec SDS.Model.BitVec.
Require Import SDS.Spec.BitSeq SDS.Proofs.BitsProof SDS.Proofs.RawProof SDS.Proofs.IntVecProof SDS.Proofs.BVCommon
               SDS.Proofs.RankProof SDS.Proofs.OneIterProof SDS.Proofs.SelectProof SDS.Proofs.NoOobProof.
Import ListNotations.
Open Scope N_scope.

(* ================================================================ bits.rs: the tables *)

(* the safe mask functions panic above 64 (index class), the unchecked ones are inside the 65-entry tables
   exactly for n <= 64 -- and the model does report OOB beyond (the modelling is not vacuous) *)
Theorem C08_no_oob_masks : forall n,
  (n <= 64 -> low_set n = Ok (N.ones n) /\ low_set_unchecked n = Ok (N.ones n) /\
              (exists v, high_set n = Ok v) /\ (exists v, high_set_unchecked n = Ok v)) /\
  (64 < n -> low_set n = Panic PIndex /\ high_set n = Panic PIndex /\
             low_set_unchecked n = OOB SITE_LOW_SET).
Proof.
  intros n. split; intros H.
  - split; [apply low_set_ok, H|]. split; [apply low_set_unchecked_ok, H|].
    split; eexists; [apply high_set_ok, H|apply high_set_unchecked_ok, H].
  - split; [apply low_set_panics, H|]. split; [apply high_set_panics, H|apply low_set_unchecked_oob, H].
Qed.
Print Assumptions C08_no_oob_masks.

(* bits::select inside a word, both implementations, both modes: with the rank below the number of ones (which
   every caller establishes before the call) the two table lookups of the portable path are inside their tables *)
Theorem C08_no_oob_word_select : forall sp m n r, n < 2 ^ 64 -> r < popcount n ->
  exists p, word_select sp m n r = Ok p /\ p < 64.
Proof. exact word_select_ok. Qed.
Print Assumptions C08_no_oob_word_select.

(* ================================================================ RawVector *)

(* the safe accessors are bounds-checked: value or index panic, for every raw vector and every argument *)
Theorem C08_no_oob_raw_bit : forall r i, (exists v, raw_bit r i = Ok v) \/ raw_bit r i = Panic PIndex.
Proof. exact ok_or_raw_bit. Qed.
Print Assumptions C08_no_oob_raw_bit.
Theorem C08_no_oob_raw_word : forall r i, (exists v, raw_word r i = Ok v) \/ raw_word r i = Panic PIndex.
Proof. exact ok_or_raw_word. Qed.
Print Assumptions C08_no_oob_raw_word.
(* set_bit asserts the bit offset against the length first (repair 7337be0 of finding F13: before it only the word
   index was checked, see C08_set_bit_old_refuted in Props/C08_reach.v); behind the assertion the word index is
   bounds-checked.  On a vector satisfying the invariant the second case is always Ok (RawProof.raw_set_bit_ok). *)
Theorem C08_no_oob_raw_set_bit : forall r i v,
  (rlen r <= i -> raw_set_bit r i v = Panic PAssert) /\
  (i < rlen r -> (exists r', raw_set_bit r i v = Ok r') \/ raw_set_bit r i v = Panic PIndex).
Proof. exact raw_set_bit_class. Qed.
Print Assumptions C08_no_oob_raw_set_bit.
Theorem C08_no_oob_raw_push_pop_bit : forall r v,
  ((exists r', raw_push_bit r v = Ok r') \/ raw_push_bit r v = Panic PIndex) /\
  ((exists x, raw_pop_bit r = Ok x) \/ raw_pop_bit r = Panic PIndex).
Proof. intros r v. split; [apply ok_or_raw_push_bit|apply ok_or_raw_pop_bit]. Qed.
Print Assumptions C08_no_oob_raw_push_pop_bit.
Theorem C08_no_oob_raw_resize : forall r n value,
  ((exists r', raw_resize r n value = Ok r') \/ raw_resize r n value = Panic PIndex) /\
  ((exists r', raw_with_len n value = Ok r') \/ raw_with_len n value = Panic PIndex) /\
  ((exists r', raw_complement r = Ok r') \/ raw_complement r = Panic PIndex).
Proof. intros r n value. split; [apply ok_or_raw_resize|]. split; [apply ok_or_raw_with_len|apply ok_or_raw_complement]. Qed.
Print Assumptions C08_no_oob_raw_resize.

(* `int`, `set_int`, `push_int`, `pop_int` are `unsafe fn` in Rust (documented precondition: width <= 64).
   Inside the precondition: value or index panic, for every offset.  Outside it the WRITING functions still cannot
   reach an unchecked access: write_int starts with the bounds-checked `low_set(width)`, which panics (index)
   for width > 64 before anything is touched.  The READING functions make no such check; for them width > 64 is
   outside both the safe API and the domain in which the model's exact `offset + width` is faithful, and nothing
   is claimed. *)
Theorem C08_no_oob_raw_int : forall r off w, w <= 64 ->
  (exists v, raw_int r off w = Ok v) \/ raw_int r off w = Panic PIndex.
Proof. exact ok_or_raw_int. Qed.
Print Assumptions C08_no_oob_raw_int.
Theorem C08_no_oob_raw_pop_int : forall r w, w <= 64 ->
  (exists x, raw_pop_int r w = Ok x) \/ raw_pop_int r w = Panic PIndex.
Proof. exact ok_or_raw_pop_int. Qed.
Print Assumptions C08_no_oob_raw_pop_int.
Theorem C08_no_oob_raw_set_int : forall r off v w,
  ((exists r', raw_set_int r off v w = Ok r') \/ raw_set_int r off v w = Panic PIndex) /\
  (64 < w -> raw_set_int r off v w = Panic PIndex).
Proof. intros r off v w. split; [apply ok_or_raw_set_int|apply raw_set_int_wide]. Qed.
Print Assumptions C08_no_oob_raw_set_int.
Theorem C08_no_oob_raw_push_int : forall r v w,
  ((exists r', raw_push_int r v w = Ok r') \/ raw_push_int r v w = Panic PIndex) /\
  (64 < w -> raw_push_int r v w = Panic PIndex).
Proof. intros r v w. split; [apply ok_or_raw_push_int|apply raw_push_int_wide]. Qed.
Print Assumptions C08_no_oob_raw_push_int.

(* ================================================================ IntVector *)

(* get / set assert the index; a valid index returns *)
Theorem C08_no_oob_iv_get : forall v i, iv_inv v ->
  (i < ilen v -> exists x, iv_get v i = Ok x) /\ (ilen v <= i -> iv_get v i = Panic PAssert).
Proof.
  intros v i H. split; intros Hi; [eexists; apply (iv_get_ok v i H Hi)|apply iv_get_rejects, Hi].
Qed.
Print Assumptions C08_no_oob_iv_get.
Theorem C08_no_oob_iv_set : forall v i x, iv_inv v ->
  (i < ilen v -> exists v', iv_set v i x = Ok v' /\ iv_inv v') /\ (ilen v <= i -> iv_set v i x = Panic PAssert).
Proof.
  intros v i x H. split; intros Hi; [|apply iv_set_rejects, Hi].
  destruct (iv_set_ok v i x H Hi) as (v' & E & Hinv & _). eauto.
Qed.
Print Assumptions C08_no_oob_iv_set.
(* push / pop / resize / pack / extend always return, and keep the invariant (so any sequence of them does) *)
Theorem C08_no_oob_iv_mutators : forall v, iv_inv v ->
  (forall x, exists v', iv_push v x = Ok v' /\ iv_inv v') /\
  (exists v' r, iv_pop v = Ok (v', r) /\ iv_inv v') /\
  (forall n x, exists v', iv_resize v n x = Ok v' /\ iv_inv v') /\
  (exists v', iv_pack v = Ok v' /\ iv_inv v') /\
  (forall xs, exists v', iv_extend v xs = Ok v' /\ iv_inv v').
Proof.
  intros v H. split; [|split; [|split; [|split]]].
  - intros x. destruct (iv_push_ok v x H) as (v' & E & Hi & _). eauto.
  - destruct (iv_pop_ok v H) as (v' & E & Hi & _). eauto.
  - intros n x. destruct (iv_resize_ok v n x H) as (v' & E & Hi & _). eauto.
  - destruct (iv_pack_ok v H) as (v' & E & Hi & _). eauto.
  - intros xs. destruct (iv_push_all_ok xs v H) as (v' & E & Hi & _). eauto.
Qed.
Print Assumptions C08_no_oob_iv_mutators.
(* without the length part of the invariant (only width <= 64, as for a vector loaded from bytes whose length
   fields were not cross-checked): still value or panic, never an unchecked miss *)
Theorem C08_no_oob_iv_any : forall v i x, iwidth v <= 64 ->
  is_oob (iv_get v i) = false /\ is_oob (iv_set v i x) = false /\ is_oob (iv_pack v) = false.
Proof. intros v i x H. split; [apply safe_iv_get, H|]. split; [apply safe_iv_set|apply safe_iv_pack, H]. Qed.
Print Assumptions C08_no_oob_iv_any.

(* ================================================================ BitVector: single queries *)

Theorem C08_no_oob_get : forall b i, (exists v, bv_get b i = Ok v) \/ bv_get b i = Panic PIndex.
Proof. intros b i. apply ok_or_raw_bit. Qed.
Print Assumptions C08_no_oob_get.

(* rank(i) for EVERY i: i >= len is clamped before the unchecked code; i < len stays inside the sample array,
   the word array and the mask table; without rank support the wrapper's unwrap panics *)
Theorem C08_no_oob_rank : forall b B i,
  bv_repr b B -> (bv_rank b <> None -> exists rs, bv_rank b = Some rs /\ rank_new b = Ok rs) ->
  (exists v, bv_rank_q b i = Ok v) \/ (bv_rank b = None /\ i < bv_len b /\ bv_rank_q b i = Panic PUnwrap).
Proof. exact bv_rank_q_total. Qed.
Print Assumptions C08_no_oob_rank.

(* select / select_zero / select_iter / select_zero_iter with r >= count return before the unsafe code, whatever
   the state of the supports *)
Theorem C08_select_beyond : forall sp m t b r, t_count_ones t b <= r ->
  bv_select_t sp m t b r = Ok None /\ bv_select_iter_t sp m t b r = Ok (oi_empty t b).
Proof. intros. split; [apply bv_select_t_beyond|apply bv_select_iter_t_beyond]; assumption. Qed.
Print Assumptions C08_select_beyond.

(* select / select_zero for EVERY r, query path/mode independent of the path/mode the support was built with *)
Definition C08_select_statement : Prop := forall sp0 m0 sp m t b B r,
  bv_repr b B ->
  (t_support t b <> None -> exists s, t_support t b = Some s /\ select_new sp0 m0 t b = Ok s) ->
  (exists v, bv_select_t sp m t b r = Ok v) \/
  (t_support t b = None /\ r < t_count_ones t b /\ bv_select_t sp m t b r = Panic PUnwrap).
Theorem C08_no_oob_select : C08_select_statement.
Proof. exact bv_select_t_class. Qed.
Print Assumptions C08_no_oob_select.

(* ================================================================ OneIter<T>: guards and all call sequences *)

(* nth(n) with n >= remaining: returns None and exhausts the iterator, for EVERY n, in both modes, on both select
   paths and for every bitvector VALUE b (also one with an empty word array): no memory is touched, and no
   addition involving n is performed, so nothing can wrap *)
Theorem C08_nth_guard : forall sp m t b it n,
  fst (oi_next it) <= fst (oi_limit it) -> fst (oi_limit it) - fst (oi_next it) <= n ->
  oi_nth sp m t b it n = Ok (mkoi (oi_limit it) (oi_limit it), None).
Proof. exact oi_nth_guard. Qed.
Print Assumptions C08_nth_guard.

(* an exhausted iterator answers next / next_back with None without touching memory *)
Theorem C08_exhausted_guard : forall m t b it, fst (oi_limit it) <= fst (oi_next it) ->
  oi_next_f t b it = Ok (it, None) /\ oi_next_back m t b it = Ok (it, None).
Proof. intros. split; [apply oi_next_exhausted|apply oi_next_back_exhausted]; assumption. Qed.
Print Assumptions C08_exhausted_guard.

(* the guard as it was before the fix of F1 ([oi_nth_old]: `self.next.0 + n >= self.limit.0`, the addition in the
   build's mode): there is a two-bit vector, the state after one next(), and n = 2^64 - 1 for which the Release
   model walks off the word array; Debug panics on the addition; the current guard returns None *)
Theorem C08_nth_old_refuted :
  exists b B it n, bv_repr b B /\ n < 2 ^ 64 /\
    oi_next_f Identity b (oi_start Identity b) = Ok (it, Some (0, 0)) /\
    (forall sp, oi_nth_old sp Release Identity b it n = OOB SITE_RAW_WORD) /\
    (forall sp, oi_nth_old sp Debug Identity b it n = Panic POverflow) /\
    (forall sp m, oi_nth sp m Identity b it n = Ok (mkoi (oi_limit it) (oi_limit it), None)).
Proof. exact oi_nth_old_refuted. Qed.
Print Assumptions C08_nth_old_refuted.

(* word_unchecked of either transformation misses exactly beyond the last word: the scans below are safe because
   they stop before, not because the model is lenient *)
Theorem C08_word_unchecked : forall t b i,
  (i < lenN (rdata (bv_data b)) -> exists w, t_word_unchecked t b i = Ok w) /\
  (lenN (rdata (bv_data b)) <= i -> t_word_unchecked t b i = OOB SITE_RAW_WORD).
Proof. intros t b i. split; [apply t_word_unchecked_ok|apply t_word_unchecked_oob]. Qed.
Print Assumptions C08_word_unchecked.

(* every sequence of next / next_back / nth(n) calls, in any order, with ANY n, on an iterator satisfying the
   invariant: every call returns (no out-of-bounds access, no panic, no exhausted fuel), and the invariant is kept *)
Definition C08_one_iter_statement : Prop := forall sp m t b B,
  bv_repr b B -> forall ops it, oi_inv t B it ->
  exists it' rs, oi_run sp m t b it ops = Ok (it', rs) /\ oi_inv t B it' /\ length rs = length ops.
Theorem C08_no_oob_one_iter : C08_one_iter_statement.
Proof. exact oi_run_ok. Qed.
Print Assumptions C08_no_oob_one_iter.

(* where iterators come from: one_iter / zero_iter, select_iter(r) / select_zero_iter(r), predecessor(v),
   successor(v) for EVERY r and v: an iterator satisfying the invariant, or the unwrap panic of a missing support *)
Theorem C08_no_oob_iter_open : forall sp0 m0 sp m b B s,
  bv_repr b B -> supports_ok sp0 m0 b B ->
  (exists it, iter_open sp m b s = Ok it /\ oi_inv (src_transf s) B it) \/ iter_open sp m b s = Panic PUnwrap.
Proof. exact iter_open_class. Qed.
Print Assumptions C08_no_oob_iter_open.

(* ================================================================ the bit iterator *)

Theorem C08_no_oob_bit_iter : forall b B, bv_repr b B -> forall ops,
  exists it' rs, bi_run b (bi_start b) ops = Ok (it', rs) /\ length rs = length ops.
Proof.
  intros b B H ops. apply (bi_run_ok b B H). unfold bi_inv, bi_start. cbn [bi_next bi_limit].
  split; [apply N.le_0_l|apply N.le_refl].
Qed.
Print Assumptions C08_no_oob_bit_iter.

(* ================================================================ the whole safe query API of BitVector *)

(* A call ([bv_call], NoOobProof.v) is get(i), rank(i), rank_zero(i), select/select_zero(r), a bit iterator with
   a whole sequence of next/next_back/nth/nth_back steps, or an iterator over set/unset bits obtained in any of the
   four ways with a whole sequence of steps.  BitVector's queries take &self, so a history is a sequence of such
   calls on the same value.  For every vector with whichever builder-made supports, every such call, every
   argument, both modes, both select paths: no out-of-bounds access. *)
Theorem C08_no_oob : forall sp0 m0 sp m b B,
  bv_repr b B -> supports_ok sp0 m0 b B ->
  forall calls : list bv_call, forallb (fun c => negb (bv_call_oob sp m b c)) calls = true.
Proof.
  intros sp0 m0 sp m b B H1 H2 calls. apply forallb_forall. intros c _.
  rewrite (bv_call_no_oob sp0 m0 sp m b B c H1 H2). reflexivity.
Qed.
Print Assumptions C08_no_oob.

(* the hypotheses are what the constructors establish: From<RawVector> (C01_from_raw) gives bv_repr with no
   supports; enable_rank + enable_select + enable_select_zero return and give all three builder-made supports *)
Theorem C08_builders : forall sp m b B,
  bv_repr b B -> bv_rank b = None -> bv_select b = None -> bv_select_zero b = None ->
  supports_ok sp m b B /\
  exists b', bv_enable_all sp m b = Ok b' /\ bv_repr b' B /\ supports_ok sp m b' B /\
             bv_rank b' <> None /\ bv_select b' <> None /\ bv_select_zero b' <> None.
Proof.
  intros sp m b B H Hr Hs Hz. split; [apply supports_ok_none; assumption|].
  apply bv_enable_all_supports; assumption.
Qed.
Print Assumptions C08_builders.

(* ================================================================ non-vacuity *)

(* 700 bits: one full rank block + a partial one whose last word has 60 used bits; 329 ones *)
Definition c08_ex_raw : raw := mkraw 700
  [0xFFFFFFFFFFFFFFFF; 0; 0xAAAAAAAAAAAAAAAA; 0x8000000000000001;
   0x0123456789ABCDEF; 0xF0F0F0F0F0F0F0F0; 0x00000000FFFFFFFF; 0x8000000000000000;
   0xDEADBEEFCAFEF00D; 0x5555555555555555; 0x0FFFFFFFFFFFFFFF].
Definition c08_ex_bv : bitvec := bv_from_raw c08_ex_raw.
Definition c08_ex_B : list bool := bits_of 700 (rdata c08_ex_raw).

Example C08_example_hyps : bv_repr c08_ex_bv c08_ex_B /\
  exists b', bv_enable_all Portable Release c08_ex_bv = Ok b' /\ bv_repr b' c08_ex_B /\
             supports_ok Portable Release b' c08_ex_B.
Proof.
  assert (H : bv_repr c08_ex_bv c08_ex_B).
  { apply (bv_from_raw_repr c08_ex_raw), raw_wfb_ok. vm_compute. reflexivity. }
  split; [exact H|].
  destruct (bv_enable_all_supports Portable Release c08_ex_bv c08_ex_B H eq_refl eq_refl eq_refl)
    as (b' & E & Hr & Hs & _). eauto.
Qed.

(* the model's answers on it for extreme arguments, computed: a partly consumed iterator and nth(2^64-1), a
   reversed order, select_iter at and beyond the count, predecessor(2^64-1), the bit iterator *)
Definition c08_ex_calls : list bv_call :=
  [ KGet 699; KGet 704; KRank (2 ^ 64 - 1); KRankZero (2 ^ 64 - 1); KSelect Identity 328; KSelect Complement (2 ^ 63);
    KOneIter (SAll Identity) [ONext; ONth (2 ^ 64 - 1); ONext; ONextBack];
    KOneIter (SAll Complement) [ONextBack; ONth 369; ONth (2 ^ 64 - 2); ONext];
    KOneIter (SSelect Identity 328) [ONth 0; ONextBack];
    KOneIter (SSelect Complement 371) [ONext];
    KOneIter (SPred (2 ^ 64 - 1)) [ONext; ONext];
    KOneIter (SSucc 699) [ONextBack; ONth 0];
    KBitIter [BNth (2 ^ 64 - 1); BNext; BNthBack 699; BNextBack] ].

Example C08_example_run :
  match bv_enable_all Pdep Release c08_ex_bv with
  | Ok b' =>
      forallb (fun c => negb (bv_call_oob Pdep Release b' c)) c08_ex_calls = true /\
      forallb (fun c => negb (bv_call_oob Portable Debug b' c)) c08_ex_calls = true /\
      bv_get b' 704 = Panic PIndex /\
      (let* it := iter_open Pdep Release b' (SAll Identity) in
       oi_run Pdep Release Identity b' it [ONext; ONth (2 ^ 64 - 1); ONext; ONextBack])
        = Ok (mkoi (329, 700) (329, 700), [Some (0, 0); None; None; None]) /\
      (let* it := iter_open Portable Debug b' (SPred (2 ^ 64 - 1)) in
       oi_run Portable Debug Identity b' it [ONext; ONext])
        = Ok (mkoi (329, 700) (329, 700), [Some (328, 699); None])
  | _ => False
  end.
Proof. vm_compute. repeat split. Qed.

(* ================================================================ the run-length vector *)

(* Names of Model/RL.v shadow those of Model/BitVec.v from here on. *)
Require Import SDS.Spec.Deque SDS.Spec.IterRefs SDS.Model.RL SDS.Model.RLIters SDS.Spec.Runs SDS.Proofs.RLNoOob.

(* rl_vector.rs and rl_vector/index.rs contain no memory-unsafe block of their own: every read goes through
   IntVector::get / get_or (asserting: a miss is [Panic PIndex] in Model/IntVec.v) on `samples`, `data` and the
   sample indexes; `unsafe` occurs only as the logical marker of set_bit_unchecked / set_run_unchecked. So an
   out-of-bounds access is impossible by construction of the model, and the content of the theorem is the stronger
   fact that none of those asserts fires either: on every vector built from a sorted run list (length up to
   2^64-1, both modes), get / rank / rank_zero / select / select_zero return [Ok _] for EVERY argument, run_iter().
   collect() returns, and from every entry point (run_iter, iter, one_iter, select_iter r, predecessor x,
   successor x, zero_iter, select_zero_iter r; every r, x) every finite sequence of next / nth(k) / len calls
   returns [Ok _] - never [OOB], never a panic, never exhausted fuel. *)
Theorem C08_no_oob_rl : forall (m : mode) (R : list (N * N)) (L : N),
  runs_sorted 0 R -> runs_end R <= L -> L <= 2 ^ 64 - 1 -> lenN R < 2 ^ 56 ->
  exists v,
    rl_build m (map (fun r => BTrySet (fst r) (snd r)) R ++ [BSetLen L]) = Ok (v, map (fun _ => true) R ++ [true]) /\
    (forall i, exists b, rl_get m v i = Ok b) /\
    (forall i, (exists x, rl_rank m v i = Ok x) /\ (exists x, rl_rank_zero m v i = Ok x)) /\
    (forall r, (exists x, rl_select m v r = Ok x) /\ (exists x, rl_select_zero m v r = Ok x)) /\
    (exists l, rl_runs m v = Ok l) /\
    (forall cs, Forall (fun c => call_fwd c /\ c <> Len) cs ->
       exists it res, rl_run_iter v = Ok it /\ it_run (rl_ri_step m v) it cs = Ok res) /\
    (forall cs, Forall call_fwd cs -> exists s res, rl_iter v = Ok s /\ it_run (rl_bi_step m v) s cs = Ok res) /\
    (forall e cs, Forall call_fwd cs ->
       match rl_oi_entry m v e with
       | Some start => exists s res, start = Ok s /\ it_run (rl_oi_step m v) s cs = Ok res
       | None => True
       end) /\
    (forall e cs, Forall call_fwd cs ->
       match rl_zi_entry m v e with
       | Some start => exists s res, start = Ok s /\ it_run (rl_zi_step m v) s cs = Ok res
       | None => True
       end).
Proof. exact rl_no_oob. Qed.
Print Assumptions C08_no_oob_rl.

(* non-vacuity: a vector of three blocks-worth of runs is built and walked *)
Example C08_rl_example :
  (let* (v, oks) := rl_build Release [BTrySet 3 2; BTrySet 5 1; BTrySet (2 ^ 40) 7; BSetLen (2 ^ 64 - 1)] in
   let* a := rl_get Release v (2 ^ 64 - 1) in
   let* s := rl_successor Release v 6 in
   let* (_, b) := it_run (rl_oi_step Release v) s [Len; Nth (2 ^ 64 - 1); Next; Len] in
   Ok (oks, a, b))
  = Ok ([true; true; true; true], false, [Count 7; Item None; Item None; Count 0]).
Proof. vm_compute. reflexivity. Qed.
