(* C13 -- mapped views expose the serialized content at any offset.
   Only property theorems here: statement, [exact lemma], Print Assumptions. *)
From Coq Require Import NArith List Bool.
Require Import SDS.Model.Mach SDS.Model.Mapped SDS.Proofs.MappedProof.
Import ListNotations.
Open Scope N_scope.

(* a view requested at any offset at or beyond the end of the file (any 64-bit value) is refused with
   UnexpectedEof by every view type, with overflow checks on and off: never a panic *)
Theorem C13_offset_out_of_range : forall m t file offset,
  lenN file <= offset -> offset < 2 ^ 64 -> view_new m t file offset = VErr UnexpectedEof.
Proof. intros m t file offset H _. exact (view_new_out m t file offset H). Qed.
Print Assumptions C13_offset_out_of_range.

(* the check of IntVectorMapper::new before the repair (`offset + 1 >= map.len()` alone): the offset
   usize::MAX panics instead of being refused, whatever the file holds *)
Theorem C13_intvec_old_refuted :
  (forall file, im_new_old Debug file (2 ^ 64 - 1) = VPanic POverflow) /\
  (forall file, 0 < lenN file < 2 ^ 64 - 1 -> im_new_old Release file (2 ^ 64 - 1) = VPanic PIndex) /\
  (forall m file, lenN file < 2 ^ 64 -> im_new m file (2 ^ 64 - 1) = VErr UnexpectedEof).
Proof. exact intvec_old_refuted. Qed.
Print Assumptions C13_intvec_old_refuted.
