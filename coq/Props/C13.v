(* C13 -- mapped views expose the serialized content at any offset.
   Only property theorems here: statement, [exact lemma], Print Assumptions.

   Vocabulary (definitions in Model/Mapped.v and Proofs/MappedProof.v):
     file            list N, one entry per 8-byte element of the mapped file
     tval / enc      a typed value (Vec<u64>, Vec<(u64,u64)>, Vec<u8>, String, RawVector, IntVector, Option<..>)
                     and its element-level serialization
     wf_tval         the value is one the crate can hold: bytes < 256, strings valid UTF-8, raw vectors with
                     exactly ceil(len/64) 64-bit words, integer vectors with width 1..64 and len*width data bits
     view_new m t    `<View of type t>::new(&map, offset)` in build mode m: VOk view | VErr kind | VPanic | VOOB
     start pre vals k   offset of structure k in the file  pre ++ enc v0 ++ enc v1 ++ ...
     exposes m v tv  reading through view v gives value tv: same length and items / bytes / string bytes;
                     for a raw vector every AccessRaw call (bit, int, word at EVERY argument, count_ones) returns
                     what the loaded RawVector returns, and bit(p) is bit p of the data for every p < len; for an
                     integer vector get(j) is what the loaded IntVector returns for EVERY j, and for j < len it is
                     the value whose bits are bits j*width .. j*width+width-1 of the data; Some/None for options.
   Not covered (see tools/props.d/C13.json "partial"): validity of the pointers handed to slice::from_raw_parts
   (alignment, provenance, lifetime of the mapping) is the OS / from_raw_parts contract; the model represents the
   mapping by its content. *)
From Coq Require Import NArith List Bool.
Require Import SDS.Model.Mach SDS.Model.Bits SDS.Model.Raw SDS.Model.IntVec SDS.Model.Mapped.
Require Import SDS.Spec.Utf8 SDS.Proofs.BitsProof SDS.Proofs.MappedProof SDS.Proofs.Utf8Proof.
Import ListNotations.
Open Scope N_scope.

(* Views tile the file. For every prefix of arbitrary elements, every list of well-formed values and every
   structure k of the file  pre ++ enc v0 ++ ... ++ enc vn  (any file of fewer than 2^61 elements, i.e. whose
   byte size fits in 64 bits), in both build modes: the view of structure k requested at its start offset is
   created, reports that offset, reports a length that ends exactly at the start of structure k+1 (the end of
   the file for the last one), and exposes exactly the value. *)
Theorem C13_views_tile : forall m pre vals k tv,
  Forall wf_tval vals -> nth_error vals k = Some tv ->
  let file := pre ++ flat_map enc vals in
  lenN file < 2 ^ 61 ->
  (exists v, view_new m (ty_of tv) file (start pre vals k) = VOk v /\
             view_map_offset m v = Ok (start pre vals k) /\
             view_map_len m v = Ok (lenN (enc tv)) /\
             exposes m v tv) /\
  start pre vals k + lenN (enc tv) = start pre vals (S k) /\
  start pre vals 0 = lenN pre /\ start pre vals (length vals) = lenN file.
Proof. exact views_tile. Qed.
Print Assumptions C13_views_tile.

(* The same for one structure anywhere: whatever surrounds it, if the file holds enc tv at offset off then the
   view at off is created, has map_offset = off, map_len = |enc tv| and exposes tv. *)
Theorem C13_view_of_embedded_structure : forall m tv file off,
  wf_tval tv -> agrees file off (enc tv) -> off + lenN (enc tv) <= lenN file -> lenN file < 2 ^ 61 ->
  exists v, view_new m (ty_of tv) file off = VOk v /\
            view_map_offset m v = Ok off /\
            view_map_len m v = Ok (lenN (enc tv)) /\
            exposes m v tv.
Proof. exact view_ok. Qed.
Print Assumptions C13_view_of_embedded_structure.

(* a view requested at any offset at or beyond the end of the file (any 64-bit value) is refused with
   UnexpectedEof by every view type, with overflow checks on and off: never a panic *)
Theorem C13_offset_out_of_range : forall m t file offset,
  lenN file <= offset -> offset < 2 ^ 64 -> view_new m t file offset = VErr UnexpectedEof.
Proof. intros m t file offset H _. exact (view_new_out m t file offset H). Qed.
Print Assumptions C13_offset_out_of_range.

(* Every element-granular truncation of such a file (keep the first cut elements, cut < |file|):
   nothing left -> the map itself is refused; a structure that lies entirely before the cut keeps its view
   (same offset, same length, same content); a structure that starts at or after the cut, or whose encoding
   extends beyond it, is refused with UnexpectedEof -- in both build modes, never a panic. *)
Theorem C13_truncation : forall m pre vals k tv cut,
  Forall wf_tval vals -> nth_error vals k = Some tv ->
  let file := pre ++ flat_map enc vals in
  lenN file < 2 ^ 61 -> cut < lenN file ->
  let tfile := firstn (N.to_nat cut) file in
  (cut = 0 -> mm_new tfile = None) /\
  (start pre vals (S k) <= cut ->
     exists v, view_new m (ty_of tv) tfile (start pre vals k) = VOk v /\
               view_map_offset m v = Ok (start pre vals k) /\
               view_map_len m v = Ok (lenN (enc tv)) /\
               exposes m v tv) /\
  (cut < start pre vals (S k) -> view_new m (ty_of tv) tfile (start pre vals k) = VErr UnexpectedEof).
Proof. exact truncation. Qed.
Print Assumptions C13_truncation.

(* the check of IntVectorMapper::new before the repair (`offset + 1 >= map.len()` alone): the offset
   usize::MAX panics instead of being refused, whatever the file holds; the repaired check refuses it *)
Theorem C13_intvec_old_refuted :
  (forall file, im_new_old Debug file (2 ^ 64 - 1) = VPanic POverflow) /\
  (forall file, 0 < lenN file < 2 ^ 64 - 1 -> im_new_old Release file (2 ^ 64 - 1) = VPanic PIndex) /\
  (forall m file, lenN file < 2 ^ 64 -> im_new m file (2 ^ 64 - 1) = VErr UnexpectedEof).
Proof. exact intvec_old_refuted. Qed.
Print Assumptions C13_intvec_old_refuted.

(* The length check of MappedSlice / MappedBytes / MappedStr before the repair 5f925c7
   (`offset + 1 + len * T::elements() > map.len()`, `offset + 1 + bytes_to_words(len) > map.len()`) on the
   library-written file of Vec<u64> [3, 2, 2^64-3, 2^64-3] viewed as MappedSlice<u64> at offset 3 (finding F12):
   overflow panic with overflow checks on; without them the check wraps and `new` returns a view of 2^64-3 items
   over a 5-element map, whose memory the mapping does not back. Same for the byte views on [2^64-1].
   The repaired checks refuse both files in both build modes. *)
Theorem C13_len_overflow_old_refuted :
  ms_new_old Debug 1 f12_file 3 = VPanic POverflow /\
  ms_new_old Release 1 f12_file 3 = VOk (mkms f12_file 3 (2 ^ 64 - 3)) /\
  ms_items1 (mkms f12_file 3 (2 ^ 64 - 3)) = OOB SITE_MAP_WORD /\
  mb_new_old Debug [2 ^ 64 - 1] 0 = VPanic POverflow /\
  mb_new_old Release [2 ^ 64 - 1] 0 = VOk (mkmb [2 ^ 64 - 1] 0 (2 ^ 64 - 1)) /\
  (forall m, ms_new m 1 f12_file 3 = VErr UnexpectedEof) /\
  (forall m, mb_new m [2 ^ 64 - 1] 0 = VErr UnexpectedEof).
Proof. exact len_overflow_old_refuted. Qed.
Print Assumptions C13_len_overflow_old_refuted.

(* ANY file (arbitrary elements, nothing assumed about what wrote it; fewer than 2^61 elements, i.e. a byte size
   that fits in 64 bits), ANY offset below 2^64, every view type (slices, bytes, string, raw / integer vector
   mappers, options of those to any depth), both build modes: `new` never panics and never reads outside the
   mapping; it returns Err, or a view
     - whose borrowed element range lies inside the file (view_inside: offset + 1 + len * elements <= |file| for
       slices and the word slices of the mappers, offset + 1 + ceil(len / 8) <= |file| for bytes and strings,
       recursively for the value of an option),
     - through which every read finds its memory (view_backed: the whole borrowed range reads back),
     - whose map_offset is the requested offset, and (all types but MappedOption) whose map_len ends inside the
       file. MappedOption::map_len is the size element + 1 as found in the file: it is not checked against the
       file or the nested view, and no memory access depends on it,
     - and, for an integer-vector view (directly or inside options), whose width element is in 1..64
       (view_int_widths; since the repair ed19660 of finding F14 any other width is refused with InvalidData). *)
Theorem C13_any_file_no_panic : forall m t file offset,
  lenN file < 2 ^ 61 -> offset < 2 ^ 64 ->
  match view_new m t file offset with
  | VOk v =>
      view_inside file v /\ view_backed v /\
      view_map_offset m v = Ok offset /\
      (is_opt t = false -> exists l, view_map_len m v = Ok l /\ offset + l <= lenN file) /\
      view_int_widths v
  | VErr _ => True
  | VPanic _ => False
  | VOOB _ => False
  end.
Proof.
  intros m t file offset Hf Ho. pose proof (any_file_no_panic m t file offset Hf Ho) as H.
  pose proof (any_file_int_width m t file offset) as Hw.
  destruct (view_new m t file offset) as [v| | |]; cbn [new_safe] in *; try exact H.
  destruct H as (H1 & H2 & H3 & H4). auto.
Qed.
Print Assumptions C13_any_file_no_panic.

(* IntVectorMapper::new on a file with a width element of 0 or above 64 at offset + 1 (any file that has that
   element, any other content): Err(InvalidData) in both build modes - before anything else of the structure is
   looked at, and never a panic *)
Theorem C13_bad_width_refused : forall m file offset width,
  lenN file < 2 ^ 64 -> nthN file (offset + 1) = Some width -> width = 0 \/ 64 < width ->
  view_new m TyInt file offset = VErr InvalidData.
Proof.
  intros m file offset width Hf Hw Hb. cbn [view_new]. rewrite (im_new_badwidth m file offset width Hw Hf Hb). reflexivity.
Qed.
Print Assumptions C13_bad_width_refused.

(* The model's reading of str::from_utf8 (the byte-range table 3-7 of the Unicode standard) accepts exactly the
   byte strings that decode, lead byte + 6-bit continuation bytes, to scalar values in shortest form
   (<= 0x10FFFF, no surrogates): the definition of Spec/Utf8.v, written independently. *)
Theorem C13_utf8_table_is_scalar_decoding : forall l, mp_utf8_valid l = sp_utf8 l.
Proof. exact utf8_agree. Qed.
Print Assumptions C13_utf8_table_is_scalar_decoding.

(* ---- non-vacuity: a file of one padding element and eight structures, the last one empty ---- *)

Definition ex_vals : list tval :=
  [ TVec [5; 18446744073709551615];
    TPairs [(1, 2)];
    TBytes [1; 2; 3; 4; 5; 6; 7; 8; 255];
    TStr [195; 169; 65];                              (* "éA" *)
    TRaw (mkraw 70 [9223372036854775809; 33]);
    TInt (mkiv 3 7 (mkraw 21 [2080895]));              (* items 127, 0, 127 *)
    TSome (TVec [9]);
    TNone TyRaw ].
Definition ex_file : list N := [7] ++ flat_map enc ex_vals.

Example C13_example_wf : Forall wf_tval ex_vals /\ lenN ex_file = 25 /\ lenN ex_file < 2 ^ 61.
Proof.
  split; [|split; reflexivity].
  repeat constructor; cbn [iwidth ilen idata rlen rdata]; try reflexivity; try (intros H; discriminate H).
Qed.

Example C13_example_offsets :
  map (start [7] ex_vals) [0; 1; 2; 3; 4; 5; 6; 7; 8]%nat = [1; 4; 7; 10; 12; 16; 21; 24; 25] /\
  start [7] ex_vals 8 = lenN ex_file.
Proof. split; reflexivity. Qed.

Example C13_example_views :
  (exists v, view_new Debug TyInt ex_file 16 = VOk (VwInt v) /\ im_get Debug v 2 = Ok 127 /\
             im_map_offset Debug v = Ok 16 /\ im_map_len Debug v = Ok 5) /\
  view_new Release TyInt (firstn 20 ex_file) 16 = VErr UnexpectedEof /\
  view_new Release (TyOpt TyRaw) ex_file 24 = VOk (VwOpt (mkmo None 24 0)) /\
  view_new Debug (TyOpt TyRaw) ex_file 25 = VErr UnexpectedEof.
Proof.
  split; [eexists; split; [reflexivity|split; [reflexivity|split; reflexivity]]|].
  split; [reflexivity|split; reflexivity].
Qed.
