(* C17 -- bit-level primitives are exact at every offset, width and word pattern.
   Only property theorems here: statement, [exact lemma], Print Assumptions. *)
From Coq Require Import NArith List Bool.
Require Import SDS.Model.Mach SDS.Model.Bits SDS.gen.Tables SDS.gen.Consts SDS.gen.Funs.
Require Import SDS.Spec.BitSeq SDS.Proofs.BitsProof SDS.Proofs.SelectPortable.
Import ListNotations.
Open Scope N_scope.

(* write then read: the value truncated to w bits comes back, no other bit of the array changes,
   for every array, every offset (unbounded), every width 1..64, single-word and straddling alike *)
Theorem C17_write_read : forall a off v w,
  wf a -> 1 <= w <= 64 -> (off + w - 1) / 64 < lenN a ->
  exists a', write_int a off v w = Ok a' /\ wf a' /\ length a' = length a /\
    read_int a' off w = Ok (v mod 2 ^ w) /\
    forall p, ~ (off <= p < off + w) -> bit a' p = bit a p.
Proof. exact write_read. Qed.
Print Assumptions C17_write_read.

(* read_int returns exactly the w bits starting at off *)
Theorem C17_read_bits : forall a off w k,
  wf a -> 1 <= w <= 64 -> (off + w - 1) / 64 < lenN a ->
  exists v, read_int a off w = Ok v /\ v < 2 ^ 64 /\ N.testbit v k = (k <? w) && bit a (off + k).
Proof. exact read_int_bits. Qed.
Print Assumptions C17_read_bits.

(* error branches: too wide a field and an index past the array panic (bounds-checked), never OOB *)
Theorem C17_write_width_rejected : forall a off v w, 64 < w -> write_int a off v w = Panic PIndex.
Proof. exact write_int_width_panics. Qed.
Print Assumptions C17_write_width_rejected.
Theorem C17_read_index_rejected : forall a off w, lenN a <= off / 64 -> read_int a off w = Panic PIndex.
Proof. exact read_int_index_panics. Qed.
Print Assumptions C17_read_index_rejected.

(* the mask tables generated from the source: every entry, and nothing beyond 64 *)
Theorem C17_tables_low : forall n, n <= 64 -> low_set n = Ok (N.ones n).
Proof. exact low_set_ok. Qed.
Theorem C17_tables_high : forall n, n <= 64 -> high_set n = Ok (N.shiftl (N.ones n) (64 - n)).
Proof. exact high_set_ok. Qed.
Theorem C17_tables_reject : forall n, 64 < n -> low_set n = Panic PIndex /\ high_set n = Panic PIndex.
Proof. intros n H. split; [exact (low_set_panics n H)|exact (high_set_panics n H)]. Qed.
Print Assumptions C17_tables_reject.
Print Assumptions C17_tables_low.
Print Assumptions C17_tables_high.

(* in-word select, BMI2 path: for every 64-bit word and every rank below its popcount *)
Theorem C17_select_pdep : forall m n r,
  n < 2 ^ 64 -> r < popcount n ->
  exists p, select_pdep m n r = Ok p /\ select_in_word n r = Some p /\ p < 64.
Proof. exact select_pdep_correct. Qed.
Print Assumptions C17_select_pdep.

(* in-word select, portable path (SWAR prefix popcounts + 2 KiB table): same statement as for the BMI2 path,
   for every 64-bit word, every rank below its popcount, overflow checks on and off *)
Theorem C17_select_portable : forall m n r,
  n < 2 ^ 64 -> r < popcount n ->
  exists p, select_portable m n r = Ok p /\ select_in_word n r = Some p /\ p < 64.
Proof. exact select_portable_correct. Qed.
Print Assumptions C17_select_portable.

Theorem C17_select_portable_partial_ps_table : forall i, i <= 64 ->
  nthN PS_OVERFLOW i = Some ((128 - i) * 72340172838076673).
Proof. exact nthN_PS_OVERFLOW. Qed.
Print Assumptions C17_select_portable_partial_ps_table.

(* the lookup table of the portable path, all 2048 generated entries that a valid call can reach *)
Theorem C17_select_in_byte : forall i x,
  x < 256 -> i < popcount x ->
  exists p, nthN SELECT_IN_BYTE (256 * i + x) = Some p /\ select1 (bbits x) i = Some p.
Proof. exact select_in_byte_ok. Qed.
Print Assumptions C17_select_in_byte.

(* helpers over their documented domains *)
Theorem C17_bit_len : forall n, n < 2 ^ 64 -> bit_len n = if n =? 0 then 1 else N.log2 n + 1.
Proof. exact bit_len_spec. Qed.
Theorem C17_reverse_low : forall m n bits, 1 <= bits <= 64 ->
  exists v, reverse_low m n bits = Ok v /\
            forall k, N.testbit v k = (k <? bits) && N.testbit n (bits - 1 - k).
Proof. exact reverse_low_spec. Qed.
Theorem C17_div_round_up : forall m v n, 1 <= n -> v + n < 2 ^ 64 ->
  f_div_round_up m v n = Ok ((v + n - 1) / n) /\
  n * ((v + n - 1) / n) >= v /\ n * ((v + n - 1) / n) < v + n.
Proof. exact div_round_up_spec. Qed.
Theorem C17_bits_to_words : forall m n, n + 63 < 2 ^ 64 -> f_bits_to_words m n = Ok ((n + 63) / 64).
Proof. intros m n H. exact (proj1 (bits_to_words_spec m n H)). Qed.
Theorem C17_bytes_to_words : forall m n, n + 7 < 2 ^ 64 -> f_bytes_to_words m n = Ok ((n + 7) / 8).
Proof. exact bytes_to_words_spec. Qed.
Theorem C17_round_up_bits : forall m n, n + 63 < 2 ^ 64 ->
  exists r, f_round_up_to_word_bits m n = Ok r /\ n <= r < n + 64 /\ r mod 64 = 0.
Proof. exact round_up_to_word_bits_spec. Qed.
Theorem C17_round_up_bytes : forall m n, n + 7 < 2 ^ 64 ->
  exists r, f_round_up_to_word_bytes m n = Ok r /\ n <= r < n + 8 /\ r mod 8 = 0.
Proof. exact round_up_to_word_bytes_spec. Qed.
Theorem C17_split_offset : forall m bo, bo < 2 ^ 64 ->
  let '(i, o) := split_offset bo in f_bit_offset m i o = Ok bo /\ o < 64 /\ bo = 64 * i + o.
Proof. exact bit_offset_split. Qed.
Theorem C17_words_to_bytes : forall m n,
  f_words_to_bytes m n =
    if n * 8 <? 2 ^ 64 then Ok (n * 8)
    else match m with Debug => Panic POverflow | Release => Ok ((n * 8) mod 2 ^ 64) end.
Proof. exact words_to_bytes_total. Qed.
Theorem C17_words_to_bits : forall m n,
  f_words_to_bits m n =
    if n * 64 <? 2 ^ 64 then Ok (n * 64)
    else match m with Debug => Panic POverflow | Release => Ok ((n * 64) mod 2 ^ 64) end.
Proof. exact words_to_bits_total. Qed.
Theorem C17_words_bits_words : forall m n,
  n * 64 + 63 < 2 ^ 64 -> bind (f_words_to_bits m n) (f_bits_to_words m) = Ok n.
Proof. exact words_bits_words. Qed.
Theorem C17_words_bytes_words : forall m n,
  n * 8 + 7 < 2 ^ 64 -> bind (f_words_to_bytes m n) (f_bytes_to_words m) = Ok n.
Proof. exact words_bytes_words. Qed.
Print Assumptions C17_words_to_bytes.
Print Assumptions C17_words_to_bits.
Print Assumptions C17_words_bits_words.
Print Assumptions C17_words_bytes_words.
Theorem C17_filler_value : forall b k, N.testbit (filler_value b) k = b && (k <? 64).
Proof. exact filler_value_bits. Qed.
Theorem C17_filler_value_word : forall b, filler_value b < 2 ^ 64.
Proof. exact filler_value_lt. Qed.
Print Assumptions C17_filler_value.
Print Assumptions C17_filler_value_word.
Print Assumptions C17_bit_len.
Print Assumptions C17_reverse_low.
Print Assumptions C17_div_round_up.
Print Assumptions C17_bits_to_words.
Print Assumptions C17_bytes_to_words.
Print Assumptions C17_round_up_bits.
Print Assumptions C17_round_up_bytes.
Print Assumptions C17_split_offset.

(* non-vacuity: a field straddling words 0 and 1 of a three-word array with a non-trivial background *)
Example C17_example :
  let a := [0xFFFF0000FFFF0000; 0x123456789ABCDEF0; 0] in
  wf a /\ (60 + 13 - 1) / 64 < lenN a /\
  (match write_int a 60 0x1ABC 13 with
   | Ok a' => read_int a' 60 13 = Ok 0x1ABC /\ read_int a' 0 60 = read_int a 0 60
   | _ => False end).
Proof.
  cbv zeta. split; [repeat constructor|]. split; [reflexivity|]. vm_compute. split; reflexivity.
Qed.
